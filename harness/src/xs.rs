//! Interpreter sessions: a case is a sequence of API calls on one (or several cloned)
//! interpreter states; the result line lists the outcome of every call and the dumps asked for.
use crate::util::*;
use xeh::bitstr::Bitstr;
use xeh::prelude::*;

pub fn err_kind(e: &Xerr) -> (&'static str, Option<Cell>) {
    match e {
        Xerr::UnknownWord(_) => ("Unknown", None),
        Xerr::ParseError { .. } => ("Parse", None),
        Xerr::StrDecodeError { .. } => ("Parse", None),
        Xerr::ExpectingName => ("ExpectName", None),
        Xerr::ExpectingLiteral => ("ExpectLit", None),
        Xerr::ControlFlowError { .. } => ("Flow", None),
        Xerr::IntegerOverflow => ("Overflow", None),
        Xerr::DivisionByZero => ("DivZero", None),
        Xerr::StackUnderflow => ("Underflow", None),
        Xerr::ReturnStackUnderflow => ("RetUnderflow", None),
        Xerr::LoopStackUnderflow => ("LoopUnderflow", None),
        Xerr::TypeError => ("Type", None),
        Xerr::TypeErrorMsg { val, .. } => ("Type", Some(val.clone())),
        Xerr::TypeNotSupported { val } => ("Type", Some(val.clone())),
        Xerr::IOError { .. } => ("Io", None),
        Xerr::OutOfBounds { .. } => ("Bounds", None),
        Xerr::AssertFailed => ("Assert", None),
        Xerr::AssertEqFailed { a, .. } => ("Assert", Some(a.clone())),
        Xerr::InternalError => ("Internal", None),
        Xerr::ReadError { .. } => ("Read", None),
        Xerr::SeekError { .. } => ("Seek", None),
        Xerr::MatchError { .. } => ("Match", None),
        Xerr::ToBytestrError(_) => ("ToBytestr", None),
        Xerr::BitstrSliceError(_) => ("Slice", None),
        Xerr::ErrorMsg(s) => {
            let s = s.as_str();
            let k = if s.starts_with("stack limit") || s.starts_with("heap limit") || s.starts_with("insn limit") {
                "Limit"
            } else if s == "unbalanced context" {
                "Context"
            } else if s.starts_with("the meta-eval context") {
                "Const"
            } else if s == "word is readonly" {
                "Readonly"
            } else if s.starts_with("heap address") {
                "HeapOob"
            } else if s.starts_with("local variable index") {
                "LocalOob"
            } else if s.starts_with("unsupported float length") {
                "FloatLen"
            } else if s == "expecting name or literal" {
                "LetSyntax"
            } else {
                "Msg"
            };
            (k, None)
        }
        Xerr::UserError(c) => ("User", Some(c.clone())),
        Xerr::Exit(code) => ("Exit", Some(Cell::from(*code))),
    }
}

pub fn res_string(xs: &Xstate, r: &Xresult) -> String {
    match r {
        Ok(()) => String::from("ok"),
        Err(e) => {
            let (k, p) = err_kind(e);
            match p {
                Some(c) => format!("E{}({})", k, xs.verif_cell_string(&c)),
                None => format!("E{}", k),
            }
        }
    }
}

fn hex_str(h: &str) -> String {
    String::from_utf8(parse_hex_bytes(h)).expect("utf8")
}

/// Parser of the canonical cell grammar (inverse of verif_cell for data values).
pub fn parse_cell(s: &str) -> Cell {
    let b = s.as_bytes();
    let mut pos = 0usize;
    fn tok<'a>(b: &'a [u8], pos: &mut usize) -> &'a str {
        let st = *pos;
        while *pos < b.len() && !matches!(b[*pos], b',' | b')' | b'=' | b'(') {
            *pos += 1;
        }
        std::str::from_utf8(&b[st..*pos]).unwrap()
    }
    fn map_body(b: &[u8], pos: &mut usize) -> Xmap {
        *pos += 1; // (
        let mut m = Xmap::new();
        if b[*pos] == b')' {
            *pos += 1;
            return m;
        }
        loop {
            let k = cell(b, pos);
            *pos += 1; // =
            let v = cell(b, pos);
            m.insert_mut(k, v);
            let c = b[*pos];
            *pos += 1;
            if c != b',' {
                break;
            }
        }
        m
    }
    fn cell(b: &[u8], pos: &mut usize) -> Cell {
        let c = b[*pos];
        *pos += 1;
        match c {
            b'N' => Cell::Nil,
            b'T' => Cell::Flag(true),
            b'F' => Cell::Flag(false),
            b'I' => Cell::Int(parse_int_hex(tok(b, pos))),
            b'R' => {
                let t = tok(b, pos);
                if t == "nan" {
                    Cell::Real(f64::NAN)
                } else {
                    Cell::Real(f64::from_bits(u64::from_str_radix(t, 16).unwrap()))
                }
            }
            b'S' => Cell::from(String::from_utf8(parse_hex_bytes(tok(b, pos))).unwrap()),
            b'B' => {
                let t = tok(b, pos);
                let t = if t == "-" { "" } else { t };
                Cell::from(xeh::bitstr::BitvecBuilder::from_bin_str(t).unwrap())
            }
            b'W' => {
                // W<pre>.<post>.<bits>: the bits as a view into a longer buffer (junk bits before and after); the
                // temporary whole buffer is dropped, so the view is the only owner and does not start at bit 0
                let t = tok(b, pos);
                let f: Vec<&str> = t.splitn(3, '.').collect();
                let (pre, post): (usize, usize) = (f[0].parse().unwrap(), f[1].parse().unwrap());
                let bits = if f[2] == "-" { "" } else { f[2] };
                let junk = |n: usize| -> String { (0..n).map(|i| if i % 2 == 0 { '1' } else { '0' }).collect() };
                let full = format!("{}{}{}", junk(pre), bits, junk(post));
                let whole = xeh::bitstr::BitvecBuilder::from_bin_str(&full).unwrap();
                Cell::from(whole.substr(pre, pre + bits.len()).unwrap())
            }
            b'V' => {
                *pos += 1;
                let mut v = Xvec::new();
                if b[*pos] == b')' {
                    *pos += 1;
                    return Cell::from(v);
                }
                loop {
                    v.push_back_mut(cell(b, pos));
                    let c = b[*pos];
                    *pos += 1;
                    if c != b',' {
                        break;
                    }
                }
                Cell::from(v)
            }
            b'M' => Cell::Map(map_body(b, pos)),
            b'G' => {
                *pos += 1;
                let v = cell(b, pos);
                *pos += 1; // ,
                *pos += 1; // M
                let t = map_body(b, pos);
                *pos += 1; // )
                v.with_tags(t)
            }
            other => panic!("parse_cell {}", other as char),
        }
    }
    cell(b, &mut pos)
}

pub struct Session {
    pub states: Vec<Xstate>,
    pub cur: usize,
}

impl Session {
    pub fn new() -> Session {
        let mut xs = Xstate::boot().unwrap();
        xs.intercept_stdout(true);
        Session { states: vec![xs], cur: 0 }
    }

    fn xs(&mut self) -> &mut Xstate {
        &mut self.states[self.cur]
    }

    /// one step; returns its textual outcome
    pub fn step(&mut self, t: &[&str]) -> String {
        match t[0] {
            "eval" => {
                let src = hex_str(t[1]);
                let r = self.xs().eval(&src);
                res_string(self.xs(), &r)
            }
            "compile" => {
                let src = hex_str(t[1]);
                let r = self.xs().compile(&src);
                res_string(self.xs(), &r)
            }
            "run" => {
                let r = self.xs().run();
                res_string(self.xs(), &r)
            }
            "next" => {
                let r = self.xs().next();
                res_string(self.xs(), &r)
            }
            "rnext" => {
                let r = self.xs().rnext();
                res_string(self.xs(), &r)
            }
            "stepall" => {
                // next() until the machine stops or a step fails
                let mut r = Ok(());
                let mut guard = 0usize;
                while self.xs().is_running() && guard < 1_000_000 {
                    r = self.xs().next();
                    guard += 1;
                    if r.is_err() {
                        break;
                    }
                }
                res_string(self.xs(), &r)
            }
            "walk" => self.walk(t[1].parse().unwrap(), t[2].parse().unwrap(), t[3].parse().unwrap()),
            "stepcheck" => self.stepcheck(t[1].parse().unwrap()),
            "rec" => {
                self.xs().set_recording_enabled(t[1] == "on");
                String::from("ok")
            }
            "limits" => {
                let p = |s: &str| if s == "-" { None } else { Some(s.parse::<usize>().unwrap()) };
                self.xs().set_insn_limit(p(t[1])).unwrap();
                self.xs().set_stack_limit(p(t[2])).unwrap();
                self.xs().set_heap_limit(p(t[3])).unwrap();
                String::from("ok")
            }
            "stacklimit" => {
                let p = |s: &str| if s == "-" { None } else { Some(s.parse::<usize>().unwrap()) };
                self.xs().set_stack_limit(p(t[1])).unwrap();
                String::from("ok")
            }
            "heaplimit" => {
                let p = |s: &str| if s == "-" { None } else { Some(s.parse::<usize>().unwrap()) };
                self.xs().set_heap_limit(p(t[1])).unwrap();
                String::from("ok")
            }
            "insnlimit" => {
                let p = |s: &str| if s == "-" { None } else { Some(s.parse::<usize>().unwrap()) };
                self.xs().set_insn_limit(p(t[1])).unwrap();
                String::from("ok")
            }
            "input" => {
                let bytes = parse_hex_bytes(t[1]);
                let bs = Bitstr::from(bytes)
                    .substr(t[2].parse().unwrap(), t[3].parse().unwrap())
                    .unwrap();
                let r = self.xs().set_binary_input(bs);
                res_string(self.xs(), &r)
            }
            "intercept" => {
                let r = self.xs().intercept_output(t[1] == "on");
                res_string(self.xs(), &r)
            }
            "push" => {
                let c = parse_cell(t[1]);
                let r = self.xs().push_data(c);
                res_string(self.xs(), &r)
            }
            "pop" => match self.xs().pop_data() {
                Ok(c) => self.xs().verif_cell_string(&c),
                Err(e) => res_string(self.xs(), &Err(e)),
            },
            "clone" => {
                let c = self.states[self.cur].clone();
                self.states.push(c);
                format!("clone{}", self.states.len() - 1)
            }
            "use" => {
                self.cur = t[1].parse().unwrap();
                String::from("ok")
            }
            "dump" => self.xs().verif_dump(false),
            "dumplog" => self.xs().verif_dump(true),
            "stack" => {
                // visible data stack, bottom first
                let xs = &self.states[self.cur];
                let n = xs.data_depth();
                let mut s = String::from("[");
                for i in (0..n).rev() {
                    s.push(' ');
                    s.push_str(&xs.verif_cell_string(xs.get_data(i).unwrap()));
                }
                s.push_str(" ]");
                s
            }
            "out" => {
                let o = self.xs().read_stdout().unwrap_or_default();
                format!("out:{}", hex_bytes(o.as_bytes()))
            }
            "code" => {
                let from: usize = t[1].parse().unwrap();
                let v = self.xs().verif_code_dump(from);
                format!("code:{}", v.join(" ; "))
            }
            "dict" => {
                let from: usize = t[1].parse().unwrap();
                let v = self.xs().verif_dict_dump(from);
                format!("dict:{}", v.join(" ; "))
            }
            "printread" => {
                // print the top of the stack with the literal printer, read the text back on a clone
                let c = match self.xs().pop_data() {
                    Ok(c) => c,
                    Err(e) => return res_string(self.xs(), &Err(e)),
                };
                let text = match self.xs().format_cell(&c) {
                    Ok(t) => t,
                    Err(e) => return res_string(self.xs(), &Err(e)),
                };
                let mut other = self.states[self.cur].clone();
                let r = other.eval(&text);
                if r.is_err() {
                    return format!("printread:UNREADABLE text={} {}", hex_bytes(text.as_bytes()), res_string(&other, &r));
                }
                match other.pop_data() {
                    Ok(v) if v == c => String::from("printread:ok"),
                    Ok(v) => format!("printread:DIFFERENT text={} got={}", hex_bytes(text.as_bytes()), other.verif_cell_string(&v)),
                    Err(_) => format!("printread:NOTHING text={}", hex_bytes(text.as_bytes())),
                }
            }
            "d2load" => {
                let r = xeh::d2_plugin::load(self.xs());
                res_string(self.xs(), &r)
            }
            "cursor" => {
                let xs = &self.states[self.cur];
                let inp = xs.get_var_value("input");
                let off = xs.get_var_value("offset");
                match (inp, off) {
                    (Ok(i), Ok(o)) => match i.value() {
                        Cell::Bitstr(b) => format!("cur:{}:{}:{}:{}", b.start(), b.end(), xs.verif_cell_string(o), bits_string(b)),
                        other => format!("cur:?:?:{}:{}", xs.verif_cell_string(o), xs.verif_cell_string(other)),
                    },
                    _ => String::from("cur:unavailable"),
                }
            }
            "errloc" => {
                let xs = &self.states[self.cur];
                match xs.last_err_location() {
                    Some(loc) => {
                        let r = loc.whole_line.range();
                        let tr = loc.token.range();
                        format!(
                            "loc:{}:{}:{}:{}-{}:{}-{}",
                            loc.filename, loc.line, loc.col, r.start, r.end, tr.start, tr.end
                        )
                    }
                    None => String::from("loc:none"),
                }
            }
            "pretty" => {
                // error formatting must not crash; the text itself is not compared
                let xs = &self.states[self.cur];
                match xs.pretty_error() {
                    Some(s) => format!("pretty:{}", s.len() > 0),
                    None => String::from("pretty:none"),
                }
            }
            "var" => {
                let name = hex_str(t[1]);
                let xs = &self.states[self.cur];
                match xs.get_var_value(&name) {
                    Ok(c) => xs.verif_cell_string(c),
                    Err(e) => res_string(xs, &Err(e)),
                }
            }
            other => format!("UNKNOWN-STEP {}", other),
        }
    }
}

pub fn fnv(h: &mut u64, s: &str) {
    for b in s.as_bytes() {
        *h ^= *b as u64;
        *h = h.wrapping_mul(0x100000001b3);
    }
}

/// strip the instruction meter (it is not part of the reversible state)
pub fn dump_nometer(d: &str) -> String {
    match (d.find(" ; meter "), d.find(" ; limits ")) {
        (Some(a), Some(b)) => format!("{}{}", &d[..a], &d[b..]),
        _ => d.to_string(),
    }
}

/// deterministic generator shared with the model driver
pub struct Lcg(pub u64);
impl Lcg {
    pub fn next(&mut self, n: u64) -> u64 {
        self.0 = self.0.wrapping_mul(6364136223846793005).wrapping_add(1442695040888963407);
        ((self.0 >> 33) % n) as u64
    }
}

impl Session {
    /// C02: forward steps (at most `maxfwd`), then `moves` random next/rnext moves; after every
    /// move the full dump must equal the one recorded at that depth.
    fn walk(&mut self, seed: u64, maxfwd: usize, moves: usize) -> String {
        let mut rec: Vec<String> = vec![dump_nometer(&self.xs().verif_dump(true))];
        let mut h: u64 = 0xcbf29ce484222325;
        let mut failed = String::from("-");
        while self.xs().is_running() && rec.len() <= maxfwd {
            let r = self.xs().next();
            if let Err(_) = r {
                failed = res_string(self.xs(), &r);
                break;
            }
            let d = dump_nometer(&self.xs().verif_dump(true));
            fnv(&mut h, &d);
            rec.push(d);
        }
        let n = rec.len() - 1;
        let mut pos = n;
        if failed != "-" {
            // a failed step: if it changed (and logged) something, one rnext undoes exactly that and lands on the
            // state before it; if it changed nothing, one rnext undoes the instruction before
            let dfail = dump_nometer(&self.xs().verif_dump(true));
            let r = self.xs().rnext();
            let d = dump_nometer(&self.xs().verif_dump(true));
            if r.is_err() {
                return format!("walk:MISMATCH rnext-after-failure {}", res_string(self.xs(), &r));
            }
            pos = if dfail != rec[n] { n } else if n > 0 { n - 1 } else { 0 };
            if d != rec[pos] {
                return format!("walk:MISMATCH after-failed-step n={} partial={} expected={} got={}", n, dfail != rec[n], rec[pos], d);
            }
            fnv(&mut h, &d);
        }
        let mut g = Lcg(seed);
        for k in 0..moves {
            let back = if pos == 0 { false } else if pos == n { true } else { g.next(3) != 0 };
            if n == 0 {
                break;
            }
            if back {
                let r = self.xs().rnext();
                if r.is_err() {
                    return format!("walk:MISMATCH move={} rnext {}", k, res_string(self.xs(), &r));
                }
                pos -= 1;
            } else {
                let r = self.xs().next();
                if r.is_err() {
                    return format!("walk:MISMATCH move={} next {}", k, res_string(self.xs(), &r));
                }
                pos += 1;
            }
            let d = dump_nometer(&self.xs().verif_dump(true));
            if d != rec[pos] {
                return format!("walk:MISMATCH move={} pos={} back={} expected={} got={}", k, pos, back, rec[pos], d);
            }
            fnv(&mut h, &d);
        }
        format!("walk:ok n={} failed={} hash={:016x}", n, failed, h)
    }

    /// C14: step to the end, tracking the largest stack / heap sizes and the meter
    fn stepcheck(&mut self, maxsteps: usize) -> String {
        let mut steps = 0usize;
        let mut res = String::from("ok");
        let depth = |d: &str, key: &str| -> usize {
            // number of cells in a dump field
            let a = d.find(key).unwrap() + key.len();
            let b = d[a..].find(" ;").map(|x| a + x).unwrap_or(d.len());
            d[a..b].split(' ').filter(|x| !x.is_empty()).count()
        };
        let d0 = self.xs().verif_dump(false);
        let (mut maxds, mut maxheap) = (depth(&d0, " ; ds"), depth(&d0, " ; heap"));
        while self.xs().is_running() && steps < maxsteps {
            let r = self.xs().next();
            steps += 1;
            let d = self.xs().verif_dump(false);
            maxds = maxds.max(depth(&d, " ; ds"));
            maxheap = maxheap.max(depth(&d, " ; heap"));
            if r.is_err() {
                res = res_string(self.xs(), &r);
                break;
            }
        }
        format!("stepcheck:{} steps={} maxds={} maxheap={}", res, steps, maxds, maxheap)
    }
}

/// `xs step | step | ...`
pub fn run(t: &[&str]) -> String {
    let mut sess = Session::new();
    let mut out: Vec<String> = Vec::new();
    for step in t.split(|x| *x == "|") {
        if step.is_empty() {
            continue;
        }
        out.push(sess.step(step));
    }
    out.join(" | ")
}

/// C01 stream: `c1 <insn-limit> <hexsrc>`: evaluate one source on a fresh interpreter and print the
/// observables the structural semantics talks about.
pub fn run_c1(t: &[&str]) -> String {
    let mut sess = Session::new();
    let lim: usize = t[0].parse().unwrap();
    sess.states[0].set_insn_limit(Some(lim)).unwrap();
    let src = String::from_utf8(parse_hex_bytes(t[1])).expect("utf8");
    let r = sess.states[0].eval(&src);
    let xs = &mut sess.states[0];
    let d = xs.verif_dump(false);
    let fld = |name: &str| -> String {
        for f in d.split(" ; ") {
            if f == name {
                return String::new();
            }
            if f.starts_with(name) && f.as_bytes().get(name.len()) == Some(&b' ') {
                return f[name.len() + 1..].to_string();
            }
        }
        String::new()
    };
    let heap: Vec<&str> = d.split(" ; ").find(|f| f.starts_with("heap")).unwrap().split(' ').skip(7).collect();
    let code_len: usize = fld("code").parse().unwrap_or(0);
    let rs = fld("rs");
    let rsn = if rs.is_empty() { 0 } else { rs.split(' ').count() };
    // locals of the frames, bottom first
    let at = match (&r, xs.last_err_location()) {
        (Err(_), Some(loc)) if code_len > 0 => {
            let tr = loc.token.range();
            format!("{}-{}", tr.start, tr.end)
        }
        _ => String::from("-"),
    };
    let out = xs.read_stdout().unwrap_or_default();
    format!(
        "R={} DS=[{}] HEAP=[{}] LOOPS=[{}] RS={} OUT={} AT={}",
        res_string(xs, &r),
        fld("ds"),
        heap.join(" "),
        fld("loops"),
        rsn,
        hex_bytes(out.as_bytes()),
        at
    )
}

/// `c1c <hexsrc>`: compile only (nothing is run) on a fresh interpreter; the emitted bytecode.
pub fn run_c1c(t: &[&str]) -> String {
    let mut sess = Session::new();
    let src = String::from_utf8(parse_hex_bytes(t[0])).expect("utf8");
    let from = sess.states[0].verif_code_dump(0).len();
    let r = sess.states[0].compile(&src);
    let xs = &sess.states[0];
    let ops: Vec<String> = xs
        .verif_code_dump(from)
        .iter()
        .map(|x| match x.find(" @") {
            Some(i) => x[..i].to_string(),
            None => x.clone(),
        })
        .collect();
    format!("R={} CODE={}", res_string(xs, &r), ops.join(" ; "))
}
