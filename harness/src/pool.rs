//! Handle-pool stream (C03/C04): a sequence of ownership-relevant operations on a pool of live
//! `Bitstr` handles; after every operation the bits of every live handle are printed.
use crate::util::*;
use xeh::bitstr::Bitstr;

fn show(pool: &[Bitstr]) -> String {
    let mut s = String::new();
    for (i, h) in pool.iter().enumerate() {
        if i > 0 {
            s.push(',');
        }
        s.push_str(&bits_string(h));
    }
    if pool.is_empty() {
        s.push('.');
    }
    s
}

/// `pool op;op;...` with ops: n<hex>:<o|b>  c<i>  d<i>  s<i>:<s>:<e>  t<i>  a<i>:<j>  v<i>  i<i>:<k>:<j>
pub fn run(t: &[&str]) -> String {
    let mut pool: Vec<Bitstr> = Vec::new();
    let mut out: Vec<String> = Vec::new();
    for op in t[0].split(';') {
        if op.is_empty() {
            continue;
        }
        let (k, rest) = op.split_at(1);
        let f: Vec<&str> = rest.split(':').collect();
        let idx = |s: &str| s.parse::<usize>().unwrap();
        match k {
            "n" => {
                let bytes = parse_hex_bytes(f[0]);
                if f[1] == "b" {
                    let leaked: &'static [u8] = Box::leak(bytes.into_boxed_slice());
                    pool.push(Bitstr::from(leaked));
                } else {
                    pool.push(Bitstr::from(bytes));
                }
            }
            "c" => {
                if idx(f[0]) < pool.len() {
                    let h = pool[idx(f[0])].clone();
                    pool.push(h);
                }
            }
            "d" => {
                if idx(f[0]) < pool.len() {
                    pool.remove(idx(f[0]));
                }
            }
            "s" => {
                if idx(f[0]) < pool.len() {
                    if let Some(h) = pool[idx(f[0])].substr(idx(f[1]), idx(f[2])) {
                        pool.push(h);
                    }
                }
            }
            "t" => {
                if idx(f[0]) < pool.len() {
                    let h = pool.remove(idx(f[0]));
                    pool.push(h.detach());
                }
            }
            "a" => {
                let (i, j) = (idx(f[0]), idx(f[1]));
                if i < pool.len() && j < pool.len() && i != j {
                    let tail = pool[j].clone();
                    let h = pool.remove(i);
                    // the tail stays in the pool; the extra handle used to read it is dropped first
                    let jj = if j > i { j - 1 } else { j };
                    drop(tail);
                    let t2: *const Bitstr = &pool[jj];
                    let r = h.append(unsafe { &*t2 });
                    pool.push(r);
                }
            }
            "v" => {
                if idx(f[0]) < pool.len() {
                    let h = pool.remove(idx(f[0]));
                    pool.push(h.invert());
                }
            }
            "i" => {
                let (i, k2, j) = (idx(f[0]), idx(f[1]), idx(f[2]));
                if i < pool.len() && j < pool.len() && i != j {
                    let jj = if j > i { j - 1 } else { j };
                    let h = pool.remove(i);
                    let t2: *const Bitstr = &pool[jj];
                    let keep = h.clone();
                    match h.insert(k2, unsafe { &*t2 }) {
                        Some(r) => {
                            drop(keep);
                            pool.push(r)
                        }
                        None => pool.insert(i, keep),
                    }
                }
            }
            _ => return format!("UNKNOWN-POOL-OP {}", op),
        }
        out.push(show(&pool));
    }
    out.join(" | ")
}
