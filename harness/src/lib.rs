//! Implementation side of the correspondence check: runs one case per input line
//! against the real xeh crate and prints one canonical result line.
pub mod util;
pub mod bits;
pub mod lexs;
pub mod xs;
pub mod pool;

pub fn dispatch(line: &str) -> String {
    let toks: Vec<&str> = line.split(' ').filter(|s| !s.is_empty()).collect();
    if toks.is_empty() {
        return String::from("EMPTY");
    }
    let r = std::panic::catch_unwind(|| match toks[0] {
        "bs" => bits::run(&toks[1..]),
        "lex" => lexs::run(&toks[1..]),
        "xs" | "xf" | "xp" => xs::run(&toks[1..]),
        "c1" => xs::run_c1(&toks[1..]),
        "c1c" => xs::run_c1c(&toks[1..]),
        "pool" => pool::run(&toks[1..]),
        other => format!("UNKNOWN-KIND {}", other),
    });
    match r {
        Ok(s) => s,
        Err(_) => String::from("PANIC"),
    }
}
