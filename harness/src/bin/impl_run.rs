use std::io::{BufRead, Write};

fn main() {
    // keep panic messages out of the result stream
    std::panic::set_hook(Box::new(|_| {}));
    let stdin = std::io::stdin();
    let stdout = std::io::stdout();
    let mut out = std::io::BufWriter::new(stdout.lock());
    for line in stdin.lock().lines() {
        let line = line.unwrap();
        let res = xeh_verif_harness::dispatch(&line);
        writeln!(out, "{}", res).unwrap();
        // flushed per case: if a later case kills the process its predecessors are not lost
        out.flush().unwrap();
    }
}
