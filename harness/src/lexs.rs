//! Lexer stream (C16, C17a): tokens with spans; token_location.
use crate::util::*;
use xeh::prelude::*;
use xeh::lex::{Lex, Tok};

pub fn cell_str(c: &Cell) -> String {
    // a state is only needed to name native functions
    thread_local!(static XS: Xstate = Xstate::boot().unwrap());
    XS.with(|xs| xs.verif_cell_string(c))
}

fn err_str(e: &Xerr) -> String {
    match e {
        Xerr::ParseError { msg, substr } => {
            let k = match msg.as_str() {
                "unterminated string" => "UntermStr",
                "unknown string escape sequence" => "Escape",
                "expect whitespace word separator" => "ExpectWs",
                "unterminated bit-string" => "UntermBits",
                "parse bitstr error" => "Bits",
                "unterminated multiline comment" => "UntermComment",
                "parse float error" => "Float",
                "parse int error" => "Int",
                other => other,
            };
            let r = substr.range();
            format!("E{}[{}-{}]", k, r.start, r.end)
        }
        other => format!("E?{:?}", other),
    }
}

pub fn run(t: &[&str]) -> String {
    match t[0] {
        "all" => {
            let bytes = parse_hex_bytes(t[1]);
            let src = String::from_utf8(bytes).expect("utf8");
            let mut lex = Lex::new(Xstr::from(src));
            let mut out = String::new();
            loop {
                let r = lex.next();
                let span = lex.last_substr().range();
                let s = match &r {
                    Ok(Tok::EndOfInput) => String::from("End"),
                    Ok(Tok::Word(w)) => format!("W{}", hex_bytes(w.as_str().as_bytes())),
                    Ok(Tok::Whitespace(_)) => String::from("_"),
                    Ok(Tok::Comment(_)) => String::from("C"),
                    Ok(Tok::Literal(c)) => format!("L{}", cell_str(c)),
                    Err(e) => err_str(e),
                };
                out.push_str(&format!("{}:{}-{} ", s, span.start, span.end));
                match r {
                    Ok(Tok::EndOfInput) | Err(_) => break,
                    _ => (),
                }
            }
            out
        }
        "parsef" => {
            let bytes = parse_hex_bytes(t[1]);
            let s = String::from_utf8(bytes).expect("utf8");
            match s.parse::<f64>() {
                Ok(r) => cell_str(&Cell::Real(r)),
                Err(_) => String::from("Err"),
            }
        }
        "loc" => {
            // loc <hexsource> <tok_start> <tok_end>
            let bytes = parse_hex_bytes(t[1]);
            let src = Xstr::from(String::from_utf8(bytes).expect("utf8"));
            let a: usize = t[2].parse().unwrap();
            let b: usize = t[3].parse().unwrap();
            let tok = src.substr(a..b);
            let sources = vec![(Xstr::from("f"), src.clone())];
            match xeh::lex::token_location(&sources, &tok) {
                Some(loc) => {
                    let r = loc.whole_line.range();
                    format!("{} {} {}-{}", loc.line, loc.col, r.start, r.end)
                }
                None => String::from("None"),
            }
        }
        other => format!("UNKNOWN-OP {}", other),
    }
}
