use xeh::bitstr::Bitstr;

pub fn parse_hex_bytes(s: &str) -> Vec<u8> {
    if s == "-" {
        return Vec::new();
    }
    let b = s.as_bytes();
    let mut v = Vec::with_capacity(b.len() / 2);
    let mut i = 0;
    while i + 1 < b.len() {
        v.push(u8::from_str_radix(&s[i..i + 2], 16).unwrap());
        i += 2;
    }
    v
}

pub fn hex_bytes(bytes: &[u8]) -> String {
    if bytes.is_empty() {
        return String::from("-");
    }
    let mut s = String::new();
    for b in bytes {
        s.push_str(&format!("{:02x}", b));
    }
    s
}

pub fn bits_string(bs: &Bitstr) -> String {
    if bs.len() == 0 {
        return String::from("-");
    }
    let mut s = String::with_capacity(bs.len());
    for b in bs.bits() {
        s.push(if b == 1 { '1' } else { '0' });
    }
    s
}

pub fn int_hex(i: i128) -> String {
    if i < 0 {
        format!("-{:x}", i.unsigned_abs())
    } else {
        format!("{:x}", i)
    }
}

pub fn parse_int_hex(s: &str) -> i128 {
    if let Some(rest) = s.strip_prefix('-') {
        let m = u128::from_str_radix(rest, 16).unwrap();
        (m as i128).wrapping_neg()
    } else {
        u128::from_str_radix(s, 16).unwrap() as i128
    }
}
