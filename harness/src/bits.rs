//! Bit-string library stream (C04, C05): every case builds its operands with a
//! prescribed storage history and runs one public `Bitstr` operation.
use crate::util::*;
use xeh::bitstr::{Bitstr, Byteorder, BIG, LITTLE};

/// A value plus whatever else must stay alive to give it its ownership situation.
pub struct Val {
    pub v: Bitstr,
    pub parent: Option<Bitstr>,
}

/// `hex start end own` with own in
///   u  : slice of an owned buffer, parent dropped (unique owner, slack around it)
///   s  : slice of an owned buffer, parent alive (shared)
///   b  : slice of a borrowed 'static buffer, parent dropped
///   c  : slice of a borrowed 'static buffer, parent alive
pub fn build(hex: &str, start: &str, end: &str, own: &str) -> Val {
    let bytes = parse_hex_bytes(hex);
    let start: usize = start.parse().unwrap();
    let end: usize = end.parse().unwrap();
    let parent = match own {
        "u" | "s" => Bitstr::from(bytes),
        "b" | "c" => {
            let leaked: &'static [u8] = Box::leak(bytes.into_boxed_slice());
            Bitstr::from(leaked)
        }
        _ => panic!("own"),
    };
    let v = parent.substr(start, end).expect("descriptor range");
    match own {
        "u" | "b" => Val { v, parent: None },
        _ => Val { v, parent: Some(parent) },
    }
}

fn ord(s: &str) -> Byteorder {
    if s == "be" {
        BIG
    } else {
        LITTLE
    }
}

fn opt_bits(o: Option<Bitstr>) -> String {
    match o {
        Some(b) => bits_string(&b),
        None => String::from("None"),
    }
}

fn after(vals: &[&Val]) -> String {
    let mut s = String::new();
    for v in vals {
        if let Some(p) = &v.parent {
            s.push_str(" ~");
            s.push_str(&bits_string(p));
        }
    }
    s
}

fn iter8_string(b: &Bitstr) -> String {
    let mut s = String::new();
    for (v, n) in b.iter8() {
        s.push_str(&format!("{:x}:{},", v, n));
    }
    if s.is_empty() {
        s.push('-');
    }
    s
}

pub fn run(t: &[&str]) -> String {
    let op = t[0];
    match op {
        "bits" => {
            let a = build(t[1], t[2], t[3], t[4]);
            format!("{}{}", bits_string(&a.v), after(&[&a]))
        }
        "iter8" => {
            let a = build(t[1], t[2], t[3], t[4]);
            iter8_string(&a.v)
        }
        "seek" => {
            let a = build(t[1], t[2], t[3], t[4]);
            let r = a.v.seek(t[5].parse().unwrap());
            format!("{}{}", opt_bits(r), after(&[&a]))
        }
        "detseek" | "invseek" => {
            // the result of detach / invert is a value of its own: positions in it count from its first bit
            let a = build(t[1], t[2], t[3], t[4]);
            let Val { v, parent } = a;
            let r = if t[0] == "detseek" { v.detach() } else { v.invert() };
            let keep = Val { v: Bitstr::new(), parent };
            format!("{}{}", opt_bits(r.seek(t[5].parse().unwrap())), after(&[&keep]))
        }
        "appseek" => {
            let a = build(t[1], t[2], t[3], t[4]);
            let b = build(t[5], t[6], t[7], t[8]);
            let Val { v, parent } = a;
            let r = v.append(&b.v);
            let keep = Val { v: Bitstr::new(), parent };
            format!("{}{}", opt_bits(r.seek(t[9].parse().unwrap())), after(&[&keep, &b]))
        }
        "read" => {
            let mut a = build(t[1], t[2], t[3], t[4]);
            let r = a.v.read(t[5].parse().unwrap());
            format!("{}|{}{}", opt_bits(r), bits_string(&a.v), after(&[&a]))
        }
        "peek" => {
            let a = build(t[1], t[2], t[3], t[4]);
            let r = a.v.peek(t[5].parse().unwrap());
            format!("{}{}", opt_bits(r), after(&[&a]))
        }
        "substr" => {
            let a = build(t[1], t[2], t[3], t[4]);
            let r = a.v.substr(t[5].parse().unwrap(), t[6].parse().unwrap());
            format!("{}{}", opt_bits(r), after(&[&a]))
        }
        "split" => {
            let a = build(t[1], t[2], t[3], t[4]);
            match a.v.split_at(t[5].parse().unwrap()) {
                Some((l, r)) => format!("{}|{}", bits_string(&l), bits_string(&r)),
                None => String::from("None"),
            }
        }
        "append" => {
            let a = build(t[1], t[2], t[3], t[4]);
            let b = build(t[5], t[6], t[7], t[8]);
            let Val { v, parent } = a;
            let bcopy = b.v.clone();
            let r = v.append(&b.v);
            let keep = Val { v: Bitstr::new(), parent };
            format!("{}|{}{}", bits_string(&r), bits_string(&bcopy), after(&[&keep, &b]))
        }
        "append2" => {
            // (a.append(b)).append(c): the second append works on a result of append
            let a = build(t[1], t[2], t[3], t[4]);
            let b = build(t[5], t[6], t[7], t[8]);
            let c = build(t[9], t[10], t[11], t[12]);
            let Val { v, parent } = a;
            let r1 = v.append(&b.v);
            let r1copy = r1.clone();
            let r = if t[13] == "k" {
                // keep a second handle on the intermediate result alive
                let r = r1.append(&c.v);
                format!("{}|{}", bits_string(&r), bits_string(&r1copy))
            } else {
                drop(r1copy);
                let r = r1.append(&c.v);
                bits_string(&r)
            };
            let keep = Val { v: Bitstr::new(), parent };
            format!("{}{}", r, after(&[&keep, &b, &c]))
        }
        "invapp" => {
            // a.invert().append(b)
            let a = build(t[1], t[2], t[3], t[4]);
            let b = build(t[5], t[6], t[7], t[8]);
            let Val { v, parent } = a;
            let r = v.invert().append(&b.v);
            let keep = Val { v: Bitstr::new(), parent };
            format!("{}{}", bits_string(&r), after(&[&keep, &b]))
        }
        "insert" => {
            let a = build(t[1], t[2], t[3], t[4]);
            let i: usize = t[5].parse().unwrap();
            let b = build(t[6], t[7], t[8], t[9]);
            let Val { v, parent } = a;
            let r = v.insert(i, &b.v);
            let keep = Val { v: Bitstr::new(), parent };
            format!("{}{}", opt_bits(r), after(&[&keep, &b]))
        }
        "invert" => {
            let a = build(t[1], t[2], t[3], t[4]);
            let Val { v, parent } = a;
            let r = v.invert();
            let keep = Val { v: Bitstr::new(), parent };
            format!("{}{}", bits_string(&r), after(&[&keep]))
        }
        "detach" => {
            let a = build(t[1], t[2], t[3], t[4]);
            let Val { v, parent } = a;
            let r = v.detach();
            let keep = Val { v: Bitstr::new(), parent };
            format!("{}{}", bits_string(&r), after(&[&keep]))
        }
        "eq" => {
            let a = build(t[1], t[2], t[3], t[4]);
            let b = build(t[5], t[6], t[7], t[8]);
            format!("{}", if a.v.eq_with(&b.v) { "T" } else { "F" })
        }
        "hex" => {
            let a = build(t[1], t[2], t[3], t[4]);
            let s = a.v.to_hex_string();
            if s.is_empty() {
                String::from("-")
            } else {
                s
            }
        }
        "tobytes" => {
            let a = build(t[1], t[2], t[3], t[4]);
            match a.v.to_bytes() {
                Some(v) => hex_bytes(&v),
                None => String::from("None"),
            }
        }
        "bytestr" => {
            let a = build(t[1], t[2], t[3], t[4]);
            match a.v.bytestr() {
                Some(v) => hex_bytes(&v),
                None => String::from("None"),
            }
        }
        "slice" => {
            let a = build(t[1], t[2], t[3], t[4]);
            match a.v.slice() {
                Some(v) => hex_bytes(v),
                None => String::from("None"),
            }
        }
        "pad" => {
            let a = build(t[1], t[2], t[3], t[4]);
            hex_bytes(&a.v.to_bytes_with_padding())
        }
        "fromhex" => {
            let s = if t[1] == "-" { "" } else { t[1] };
            match Bitstr::from_hex_str(s) {
                Ok(b) => bits_string(&b),
                Err(p) => format!("Err{}", p),
            }
        }
        "frombin" => {
            let s = if t[1] == "-" { "" } else { t[1] };
            match xeh::bitstr::BitvecBuilder::from_bin_str(s) {
                Ok(b) => bits_string(&b),
                Err(p) => format!("Err{}", p),
            }
        }
        // ---- codecs ----
        "touint" => {
            let a = build(t[2], t[3], t[4], t[5]);
            format!("{:x}", a.v.to_uint(ord(t[1])))
        }
        "toint" => {
            let a = build(t[2], t[3], t[4], t[5]);
            int_hex(a.v.to_int(ord(t[1])))
        }
        "fromint" => {
            let val = parse_int_hex(t[2]);
            let w: usize = t[3].parse().unwrap();
            let r = Bitstr::from_int(val, w, ord(t[1]));
            format!("{}|{}", bits_string(&r), hex_bytes(&r.to_bytes_with_padding()))
        }
        "rt" => {
            // rt order sgn val w off prefixhex suffixhex
            let o = ord(t[1]);
            let signed = t[2] == "s";
            let val = parse_int_hex(t[3]);
            let w: usize = t[4].parse().unwrap();
            let off: usize = t[5].parse().unwrap();
            let field = Bitstr::from_int(val, w, o);
            let pre = Bitstr::from(parse_hex_bytes(t[6])).substr(0, off).unwrap();
            let suf = Bitstr::from(parse_hex_bytes(t[7]));
            let whole = pre.append(&field).append(&suf);
            let f = whole.substr(off, off + w).unwrap();
            if signed {
                int_hex(f.to_int(o))
            } else {
                format!("{:x}", f.to_uint(o))
            }
        }
        "layout" => {
            let val = parse_int_hex(t[2]);
            let k: usize = t[3].parse().unwrap();
            let r = Bitstr::from_int(val, 8 * k, ord(t[1]));
            match r.to_bytes() {
                Some(v) => hex_bytes(&v),
                None => String::from("None"),
            }
        }
        "f32" => {
            let o = ord(t[1]);
            let pat = u32::from_str_radix(t[2], 16).unwrap();
            let off: usize = t[3].parse().unwrap();
            let field = Bitstr::from_f32(f32::from_bits(pat), o);
            let pre = Bitstr::from(parse_hex_bytes(t[4])).substr(0, off).unwrap();
            let whole = pre.append(&field);
            let f = whole.substr(off, off + 32).unwrap();
            format!("{:x}|{}", f.to_f32(o).to_bits(), hex_bytes(&field.to_bytes().unwrap()))
        }
        "f64" => {
            let o = ord(t[1]);
            let pat = u64::from_str_radix(t[2], 16).unwrap();
            let off: usize = t[3].parse().unwrap();
            let field = Bitstr::from_f64(f64::from_bits(pat), o);
            let pre = Bitstr::from(parse_hex_bytes(t[4])).substr(0, off).unwrap();
            let whole = pre.append(&field);
            let f = whole.substr(off, off + 64).unwrap();
            format!("{:x}|{}", f.to_f64(o).to_bits(), hex_bytes(&field.to_bytes().unwrap()))
        }
        "tof" => {
            let k: usize = t[1].parse().unwrap();
            let a = build(t[3], t[4], t[5], t[6]);
            if k == 4 {
                format!("{:x}", a.v.to_f32(ord(t[2])).to_bits())
            } else {
                format!("{:x}", a.v.to_f64(ord(t[2])).to_bits())
            }
        }
        other => format!("UNKNOWN-OP {}", other),
    }
}
