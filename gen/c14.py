"""C14: resource limits are hard bounds and hitting one is recoverable."""
from .xsbase import *

FLOOD = [
    '[ 1 2 3 4 5 6 7 8 9 10 11 12 ] unbox', '1 2 3 4 5 6 7 8 9 10 11 12 13 12 collect unbox',
    '20 0 do I loop', 'begin 1 repeat', ': inf inf ; inf', ': grow 1 grow ; grow', '#( 1 2 3 4 5 6 7 8 9 10 11 12 13 14 #)',
    '1 var a 2 var b 3 var c 4 var d 5 var e 6 var f 7 var g', '[ 1 2 3 ] let [ a b c ] a b c',
    '1 dup dup dup dup dup dup dup dup dup dup dup dup dup', '[ [ 1 2 3 ] [ 4 5 6 ] ] foreach I unbox loop',
    '{ 1 "a" 2 "b" 3 "c" 4 "d" } foreach I loop', '1 2 over over over over over over over over over over',
    'begin depth 100 < while 1 repeat', ': f 1 2 3 4 ; f f f f', '3 0 do 3 0 do 3 0 do I J K loop loop loop',
    '"a" "b" "c" "d" "e" "f" "g" "h" "i" "j" "k" "l" "m"', '1 let x 2 let y 3 let z x y z',
    ': rec local n n 0 > if n n 1 - rec then ; 12 rec',
]


class C14(XsProp):
    id = 'C14'
    rule = ('programs (generated control-flow programs plus stack flooders: unbox, collect, dup/over chains, counted and endless loops, '
            'unbounded recursion, meta blocks, var/let definitions, foreach) run under limit triples (N,S,H) from [0..12]^3 and boundary '
            'values, by eval and by single stepping; after every step the harness records stack and heap sizes and the meter. Direct '
            'predicate: meter <= N, stack <= max(S, size when the limit was set), heap <= max(H, size when set); after a limit error the '
            'limits are raised and the same interpreter must evaluate a probe normally. The model mirrors the exact boundary (>= vs >). '
            'non-trivial = distinct (program, limits) pair where a limit was actually hit')

    D41 = ('reverse stepping restores popped items without consulting the stack limit: after the limit is lowered, `rnext` can bring the '
           'data stack above it (witness: recording on; `1 2 3 drop drop`; stack limit 1; two reverse steps -> three items)')

    def known(self, text, impl, spec):
        if 'limits 4014 ' in text and 'rnext' in text:
            return self.D41
        return None

    def generate(self, rng, tier):
        cs = []
        n = 500 if tier == 'quick' else 10000
        progs_ = list(FLOOD)
        for i in range(n // 4):
            progs_.append(Gen(rng, bad=0.02).program())
        for i in range(n):
            p = rng.choice(progs_)
            N = rng.choice([0, 1, 2, 3, 5, 8, 12, 30, 100, 1000])
            S = rng.choice(['-', 0, 1, 2, 3, 5, 8, 12])
            H = rng.choice(['-', 0, 5, 6, 7, 8, 12])
            lim = '%s %s %s' % (N, S, H)
            h = hexsrc(p)
            probe = hexsrc('7 dup + 1 var zz zz')
            if rng.random() < 0.5:
                cs.append('xs limits %s | eval %s | dump | limits 1000 - - | eval %s | stack' % (lim, h, probe))
            else:
                cs.append('xs limits %s | compile %s | stepcheck 2000 | dump | limits 1000 - - | eval %s | stack' % (lim, h, probe))
        # a word that only produces a value (reads of the binary input included) and is refused by the stack limit changes nothing:
        # the dump after the refusal equals the dump before it, and the same word succeeds once the limit is raised
        self.refused = set()
        producers = ['u8', 'i8', 'u16', 'i16le', 'u32be', 'u64', 'f32', 'f64le', 'cstr', 'nulbytestr', 'remain', 'offset', 'depth', 'dup', 'over', '7',
                     '"s"', 'nil', 'true', '|ff|', 'vv', 'big?', 'input']
        for w_ in producers:
            for k in (1, 2, 3, 5) if w_ != 'over' else (2, 3, 5):
                for pos in (0, 8, 24):
                    pre = '9 var vv ' + ' '.join(str(40 + i) for i in range(k)) + (' %d seek' % pos if pos else '')
                    case = ('xs limits 3000 - - | input 4142430044454600ff0102030405060708090a0b0c0d0e0f 0 192 | eval %s | stacklimit %d | dump | eval %s | dump | '
                            'stacklimit - | eval %s | stack' % (hexsrc(pre), k, hexsrc(w_), hexsrc(w_)))
                    cs.append(case)
                    self.refused.add(case)
        # a meta block runs on the same physical stack: with k items already there it may push only S - k more
        self.meta_expect = {}
        for i in range(n // 4):
            k = rng.randint(0, 6)
            S = rng.randint(0, 7)
            m = rng.randint(1, 4)
            pre = ' '.join(str(x) for x in range(k))
            block = '#( %s %s #)' % (' '.join(str(10 + x) for x in range(m)), 'drop ' * m)
            case = 'xs limits 2000 - - | eval %s | limits 2000 %d - | eval %s | dump' % (hexsrc(pre) if pre else hexsrc('depth drop'), S, hexsrc(block))
            cs.append(case)
            self.meta_expect[case] = (k, S, m)
        # resume: a program stopped by the instruction limit, the limit raised, the machine resumed with run / single steps, must end
        # exactly as the same program on an unlimited copy (stack, variables, output): nothing is executed twice, nothing skipped
        resumable = ['0 var x : sq dup * ; 3 0 do I sq x + ! x loop x "a" print', '[ 10 20 30 ] foreach I loop 7 "z" print',
                     '1 2 over rot swap drop + 5 case 5 of 1 endof 2 endcase', ': f local a a 1 + local a a ; 4 f 0 begin 1 + dup 3 > until',
                     '5 0 do I print loop 9', '0 var c 6 0 do c 1 + ! c loop c c', ': r local n n 0 > if n 1 - r then n ; 4 r']
        for p in resumable:
            for N in list(range(1, 40, 2 if tier == 'quick' else 1)):
                for how in ('run', 'stepall'):
                    cs.append('xs limits 100000 - - | clone | eval %s | stack | out | use 1 | limits %d - - | eval %s | out | limits 100000 - - | %s | stack | out | dump'
                              % (hexsrc(p), N, hexsrc(p), how) + ' | use 0 | dump')
        # an instruction budget N is not refreshed by changing the other two limits: N instructions in total, however the
        # evaluations are split and whatever else is set in between
        for N in (3, 6, 10, 17):
            for mid in ('stacklimit 100', 'heaplimit 100', 'stacklimit -', 'heaplimit -', 'stacklimit 100 | heaplimit 50'):
                for k in (1, 2, 4):
                    a = ' '.join(str(i) for i in range(k))
                    b = ' '.join(str(i) for i in range(N))
                    cs.append('xs insnlimit %d | eval %s | %s | eval %s | dump' % (N, hexsrc(a), mid, hexsrc(b)))
        # sources that run code while being built (meta blocks) and are then rejected: what they executed is not refunded
        for N in (4, 6, 9):
            for rej in ('#( 1 2 3 #) nosuchw', '#( 1 2 + drop #) then', '#( 5 6 7 8 #) 0x', '1 #( 2 3 4 #) #('):
                for reps in (2, 3, 5):
                    steps = ['xs insnlimit %d' % N] + ['eval %s' % hexsrc(rej)] * reps + ['eval %s' % hexsrc(' '.join(str(i) for i in range(N))), 'dump']
                    cs.append(' | '.join(steps))
        # limits changed between evaluations on one interpreter
        for i in range(n // 5):
            a, b = rng.choice(progs_), rng.choice(progs_)
            cs.append('xs limits %d %d - | eval %s | dump | limits %d %d %d | eval %s | dump' % (
                rng.choice([3, 10, 50]), rng.choice([2, 5, 9]), hexsrc(a), rng.choice([3, 10, 50]), rng.choice([2, 5, 9]),
                rng.choice([6, 7, 9]), hexsrc(b)))
        # reverse steps give no instruction budget back (family added after round 11; marker `insnlimit N | rec on`): under a limit of
        # N at most N forward steps succeed, however they are interleaved with reverse steps
        for N_ in (1, 2, 3, 5):
            for prog in ('1 2 3 4 5 6 7 8 9', 'begin 1 drop repeat', ': f 1 2 + drop ; f f f f'):
                for pat in ('nrnrnrnrnrnrnrnrnrnr', 'nnnnnnnrnnrrnnnn', 'nnrrnnrrnnrrnnrrnn', 'nnnnnnnnrrrrrrrrnnnnnnnn'):
                    cs.append(' | '.join(['xs insnlimit %d' % N_, 'rec on', 'compile %s' % hexsrc(prog)] + [('next' if ch == 'n' else 'rnext') for ch in pat]))
        # recorded finding D41: reverse steps put popped items back without consulting the stack limit (marker `limits 4014`)
        for src, S, k in [('1 2 3 drop drop', 1, 2), ('1 2 3 4 + + +', 2, 3), ('5 6 7 8 drop drop drop', 1, 3), ('[ 1 2 3 ] length drop 9', 0, 1)]:
            cs.append(' | '.join(['xs limits 4014 - -', 'rec on', 'eval %s' % hexsrc(src), 'stack', 'stacklimit %d' % S] + ['rnext'] * k + ['stack']))
        return cs

    def nontrivial(self, line):
        return True

    def group_check(self, cases, impl):
        fails, samples = [], []
        n = hit = 0
        for c, o in zip(cases, impl):
            steps = c.split(' | ')
            outs = o.split(' | ')
            if c.startswith('xs insnlimit ') and len(steps) > 2 and steps[1] == 'rec on' and 'rnext' in steps:
                if len(steps) == len(outs):
                    n += 1
                    N_ = int(steps[0].split()[-1])
                    done = sum(1 for s_, o_ in zip(steps, outs) if s_ == 'next' and o_ == 'ok')
                    if done > N_:
                        fails.append(('case: %s\nresult: %s' % (c, o[:600]), '%d forward steps succeeded under an instruction limit of %d (reverse steps in between)' % (done, N_)))
                continue
            if c.startswith('xs limits 4014 '):
                if len(steps) == len(outs):
                    n += 1
                    cnt = lambda x: len([t for t in x.strip('[] ').split(' ') if t])
                    S_ = int(steps[4].split()[1])
                    if cnt(outs[-1]) > max(S_, cnt(outs[3])):
                        fails.append(('case: %s\nresult: %s' % (c, o[:600]),
                                      'the data stack holds %d items after reverse steps under a stack limit of %d set at depth %d' % (cnt(outs[-1]), S_, cnt(outs[3]))))
                continue
            if len(steps) != len(outs) or c in getattr(self, 'meta_expect', {}):
                continue
            if c in getattr(self, 'refused', ()):
                n += 1
                # the failed source's code stays compiled (ip, code and debug-map sizes grow): compare what the word works on
                nometer = lambda d: [field(d, f_) for f_ in ('ds', 'rs', 'loops', 'special', 'heap', 'flow', 'nested')]
                w_ = src_of(c)[1]
                if not outs[5].startswith('ELimit'):
                    fails.append(('case: %s\nresult: %s' % (c, o[:1500]), '`%s` was not refused although the stack is at its limit' % w_))
                elif nometer(outs[4]) != nometer(outs[6]):
                    fails.append(('case: %s\nword: %s\nbefore: %s\nafter the refusal: %s' % (c, w_, outs[4], outs[6]),
                                  '`%s`, refused by the stack limit, changed the state (what it consumed is lost once the limit is raised)' % w_))
                elif outs[8] != 'ok':
                    fails.append(('case: %s\nresult: %s' % (c, o[:1500]), '`%s` still fails after the stack limit was lifted' % w_))
                continue
            lim = None
            base_ds = 0
            base_heap = 6
            for st, ou in zip(steps, outs):
                t = st.split(' ')
                if t[0] == 'xs':
                    t = t[1:]
                if t[0] == 'limits':
                    lim = [None if x == '-' else int(x) for x in t[1:4]]
                    # sizes when the limit is set: taken from the previous dump if any
                if t[0] == 'dump' and lim:
                    n += 1
                    meter = int(field(ou, 'meter'))
                    ds = len([x for x in field(ou, 'ds').split(' ') if x])
                    heap = len([x for x in field(ou, 'heap').split(' ') if x])
                    bad = []
                    if lim[0] is not None and meter > lim[0]:
                        bad.append('meter %d > insn limit %d' % (meter, lim[0]))
                    if lim[1] is not None and ds > max(lim[1], base_ds):
                        bad.append('stack %d > limit %d' % (ds, lim[1]))
                    if lim[2] is not None and heap > max(lim[2], base_heap):
                        bad.append('heap %d > limit %d' % (heap, lim[2]))
                    if bad:
                        fails.append(('case: %s\nresult: %s' % (c, o[:1500]), '; '.join(bad)))
                    base_ds, base_heap = ds, heap
                if t[0] == 'stepcheck' and lim:
                    m = re.search(r'steps=(\d+) maxds=(\d+) maxheap=(\d+)', ou)
                    if m:
                        stp, mds, mh = map(int, m.groups())
                        if lim[1] is not None and mds > max(lim[1], base_ds):
                            fails.append(('case: %s\nresult: %s' % (c, o[:1500]), 'stack reached %d under limit %d' % (mds, lim[1])))
                        if lim[0] is not None and stp > lim[0] + 1:
                            fails.append(('case: %s\nresult: %s' % (c, o[:1500]), '%d steps under insn limit %d' % (stp, lim[0])))
                if 'ELimit' in ou:
                    hit += 1
            # recoverability: the probe after raising the limits
            if len(steps) >= 2 and steps[-1] == 'stack' and 'limits 1000 - -' in c:
                if outs[-2] != 'ok' and 'ELimit' in outs[-2]:
                    fails.append(('case: %s\nresult: %s' % (c, o[:1500]), 'still failing with a limit error after the limits were raised'))
        for c, o in zip(cases, impl):
            if c.startswith('xs insnlimit ') and ' | rec on | ' not in c:
                ou = o.split(' | ')
                N = int(c.split(' ')[2])
                n += 1
                meter = int(field(ou[-1], 'meter'))
                ds = len([x for x in field(ou[-1], 'ds').split(' ') if x])
                # every literal is one instruction: at most N values can ever have been pushed
                if meter > N or ds > N or not ou[-2].startswith('ELimit'):
                    fails.append(('case: %s\nresult: %s' % (c, o[:600]),
                                  'more than %d instructions ran after the instruction limit was set (meter %d, %d values pushed)' % (N, meter, ds)))
                continue
            if c.startswith('xs limits 100000 - - | clone | eval '):
                ou = o.split(' | ')
                if len(ou) != 16 or 'PANIC' in o:
                    continue
                n += 1
                ref_res, ref_stack, ref_out = ou[2], ou[3], ou[4]
                lim_res, out1, res2, stack2, out2 = ou[7], ou[8], ou[10], ou[11], ou[12]
                if ref_res != 'ok' or not (lim_res == 'ok' or lim_res.startswith('ELimit')):
                    continue
                hit += lim_res != 'ok'
                got_out = 'out:' + out1[4:].replace('-', '') + out2[4:].replace('-', '')
                want_out = 'out:' + ref_out[4:].replace('-', '')
                heap = lambda d: field(d, 'heap')
                if res2 != 'ok' or stack2 != ref_stack or got_out != want_out or heap(ou[13]) != heap(ou[15]):
                    fails.append(('case: %s\nunlimited: %s %s %s\nstopped-and-resumed: %s then %s %s %s' % (
                        c, ref_res, ref_stack, want_out, lim_res, res2, stack2, got_out),
                        'a program stopped by the instruction limit and resumed after raising it does not end like the unlimited run'))
                continue
            if c in getattr(self, 'meta_expect', {}):
                k, S, m = self.meta_expect[c]
                ou = o.split(' | ')
                res = ou[3]
                n += 1
                # the block's first push happens with k items on the stack: it must be refused iff k >= S,
                # a later one iff k + j >= S
                must_fail = k + m > S
                if must_fail and res == 'ok':
                    fails.append(('case: %s\nresult: %s' % (c, o[:800]),
                                  'a meta block pushed %d values on a stack of %d under a stack limit of %d' % (m, k, S)))
                if not must_fail and 'ELimit' in res:
                    fails.append(('case: %s\nresult: %s' % (c, o[:800]), 'limit error although %d + %d <= %d' % (k, m, S)))
        if cases:
            samples.append(dict(case=cases[0], result=impl[0][:300]))
        return n, fails, samples, dict(limit_checks=n, limit_errors_seen=hit)


PROP = C14()
