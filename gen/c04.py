"""C04: bit-string operations depend only on the bit sequence."""
from .engine import Prop
from .common import *

UNARY = ['bits', 'iter8', 'invert', 'detach', 'hex', 'tobytes', 'bytestr', 'slice', 'pad']
PATS = ['00', 'ff', 'a5', '5a', '80', '01', '3c']


class C04(Prop):
    id = 'C04'
    rule = ('exhaustive small scope: every buffer of 1..2 bytes from a 7-pattern set x every (start,end) x 4 ownership '
            'situations (u: unique, parent dropped, slack+stale bits; s: shared with live parent; b/c: borrowed static '
            'without/with live parent) x every unary operation (incl. reading the value as a signed/unsigned number in both byte orders) and every positional argument; pairs for append/insert/eq; '
            'chains append-after-append (intermediate kept or dropped) and append-after-invert; random cases up to 4k bits. '
            'After every operation the bits of every still-alive parent buffer are re-read (operands never modified). '
            'non-trivial = distinct case whose operand has start or end off a byte boundary, or slack after its end')
    trusted_base = [
        'Coq 8.16.1 kernel incl. vm_compute (finite sweeps of the byte kernels)',
        'extraction (ExtrOcamlBasic only) + OCaml driver ocaml/bits_drv.ml', 'Rust harness harness/src/bits.rs; generator gen/c04.py',
        'modelled not verified: Rc strong count / Cow borrowed-vs-owned collapse to the boolean "unique" given to detach; '
        'the check that operands sharing a buffer are unchanged is made on the implementation (re-read after each op), '
        'in the model values are immutable',
    ]
    assumptions = ['the hand-written mirror Model/Bits.v matches src/bitstr.rs (differentially tested here, not proved)']

    def nontrivial(self, line):
        t = line.split(' ')
        try:
            hexs, s, e = t[2], int(t[3]), int(t[4])
        except Exception:
            return True
        n = 0 if hexs == '-' else len(hexs) * 4
        return s % 8 != 0 or e % 8 != 0 or e < n

    def generate(self, rng, tier):
        cs = []
        thorough = tier == 'thorough'
        bufs = [p for p in PATS] + [a + b for a in PATS[:4] for b in PATS[:4]]
        if thorough:
            bufs += [a + b + c for a in PATS[:3] for b in PATS[2:5] for c in PATS[4:]]
        vals = []
        for h in ['-'] + bufs:
            n = 0 if h == '-' else len(h) * 4
            for s in range(n + 1):
                for e in range(s, n + 1):
                    vals.append((h, s, e))
        # unary ops on the whole small scope
        for (h, s, e) in vals:
            for own in OWN:
                if not thorough and rng.random() < 0.5 and own in ('b', 'c'):
                    continue
                v = '%s %d %d %s' % (h, s, e, own)
                for op in UNARY:
                    cs.append('bs %s %s' % (op, v))
                # reading the value as a number is a function of the bit sequence too (both byte orders, both signs)
                if e - s <= 128 and (thorough or rng.random() < 0.5):
                    for kind in ('touint', 'toint'):
                        for o in ('le', 'be'):
                            cs.append('bs %s %s %s' % (kind, o, v))
                n = 0 if h == '-' else len(h) * 4
                for pos in sorted({0, s, e, n, n + 1, (s + e) // 2, max(0, s - 1), e + 1}):
                    cs.append('bs seek %s %d' % (v, pos))
                # positions in the result of detach / invert count from its first bit, whoever else holds the buffer
                for pos in sorted({0, 1, e - s, e - s + 1, 8, s}):
                    cs.append('bs detseek %s %d' % (v, pos))
                    if thorough or rng.random() < 0.5:
                        cs.append('bs invseek %s %d' % (v, pos))
                for k in sorted({0, 1, e - s, e - s + 1, (e - s) // 2, 8, n + 1}):
                    cs.append('bs read %s %d' % (v, k))
                    cs.append('bs peek %s %d' % (v, k))
                    cs.append('bs split %s %d' % (v, k))
                for (a, b) in ((s, e), (s, s), (e, e), (s + 1, e), (s, e + 1), (max(0, s - 1), e), (e, s), ((s + e) // 2, e)):
                    cs.append('bs substr %s %d %d' % (v, a, b))
        # binary ops: pairs from a reduced scope
        small = [v for v in vals if len(v[0]) <= 2] + rng.sample(vals, min(len(vals), 120 if not thorough else 600))
        npairs = 6000 if not thorough else 120000
        for _ in range(npairs):
            a = rng.choice(vals if rng.random() < 0.5 else small)
            b = rng.choice(small)
            va = '%s %d %d %s' % (a + (rng.choice(OWN),))
            vb = '%s %d %d %s' % (b + (rng.choice(OWN),))
            r = rng.random()
            if rng.random() < 0.25:
                cs.append('bs appseek %s %s %d' % (va, vb, rng.choice([0, 1, 8, a[2] - a[1], a[2] - a[1] + b[2] - b[1], a[1]])))
            if r < 0.35:
                cs.append('bs append %s %s' % (va, vb))
            elif r < 0.55:
                cs.append('bs insert %s %d %s' % (va, rng.randint(0, a[2] - a[1] + 1), vb))
            elif r < 0.7:
                cs.append('bs eq %s %s' % (va, vb))
            elif r < 0.85:
                c = rng.choice(small)
                cs.append('bs append2 %s %s %s %d %d %s %s' % (va, vb, c[0], c[1], c[2], rng.choice(OWN), rng.choice('kd')))
            else:
                cs.append('bs invapp %s %s' % (va, vb))
        # equality: same bits at different alignments must be equal, one flipped bit must not
        for _ in range(600 if not thorough else 8000):
            n = rng.randint(0, 40)
            bits = [rng.getrandbits(1) for _ in range(n)]
            def embed(bits, off):
                allb = [rng.getrandbits(1) for _ in range(off)] + bits + [rng.getrandbits(1) for _ in range((-(off + len(bits))) % 8 + 8 * rng.randint(0, 1))]
                h = ''.join('%02x' % int(''.join(map(str, allb[i:i + 8])), 2) for i in range(0, len(allb), 8)) or '-'
                return '%s %d %d %s' % (h, off, off + len(bits), rng.choice(OWN))
            b2 = list(bits)
            if n and rng.random() < 0.5:
                b2[rng.randrange(n)] ^= 1
            cs.append('bs eq %s %s' % (embed(bits, rng.randrange(8)), embed(b2, rng.randrange(8))))
        # random larger values
        for _ in range(1500 if not thorough else 30000):
            v = rand_val(rng, maxbytes=rng.choice((8, 40, 520)))
            op = rng.choice(UNARY + ['append', 'insert', 'read', 'substr', 'eq'])
            if op in UNARY:
                cs.append('bs %s %s' % (op, v))
            elif op == 'append':
                cs.append('bs append %s %s' % (v, rand_val(rng, maxbytes=rng.choice((3, 40)))))
            elif op == 'insert':
                t = v.split(' ')
                cs.append('bs insert %s %d %s' % (v, rng.randint(0, int(t[2]) - int(t[1])), rand_val(rng, maxbytes=5)))
            elif op == 'read':
                t = v.split(' ')
                cs.append('bs read %s %d' % (v, rng.randint(0, int(t[2]) - int(t[1]) + 2)))
            elif op == 'substr':
                t = v.split(' ')
                a = rng.randint(int(t[1]), int(t[2])); b = rng.randint(a, int(t[2]))
                cs.append('bs substr %s %d %d' % (v, a, b))
            else:
                cs.append('bs eq %s %s' % (v, rand_val(rng, maxbytes=8)))
        # literal constructors
        for _ in range(300 if not thorough else 5000):
            n = rng.randint(0, 40)
            cs.append('bs fromhex %s' % (''.join(rng.choice('0123456789abcdefABCDEF') for _ in range(n)) or '-'))
            cs.append('bs frombin %s' % (''.join(rng.choice('01') for _ in range(n)) or '-'))
        return cs


PROP = C04()
