"""C08: no source text, input or API call sequence can crash the interpreter."""
from .xsbase import *
import re
from . import lib, cells, words

CLASSES = ['N', 'T', 'F', 'I0', 'I1', 'I-1', 'I7fffffffffffffff', 'I8000000000000000', 'Iffffffffffffffff', 'I10000000000000000',
           'I-8000000000000000', 'I-80000000000000000000000000000000', 'I7fffffffffffffffffffffffffffffff', 'I8', 'I81',
           'R0000000000000000', 'R8000000000000000', 'Rnan', 'R7ff0000000000000', 'Rfff0000000000000', 'R3ff8000000000000', 'R47efffffffffffff',
           'S-', 'S61', 'Sc3a9e697a5', 'S6666e280837a7a', 'S6666c2a07a7a', 'Se3808067', 'S3132e2808333', 'S2030c2a0', 'Se280a8', 'S66660b7a', 'S' + ('c3a9' * 40), 'S' + ('61' * 80), 'S302e35', 'S3132',
           'B-', 'B1', 'B10100101', 'W3.2.10100101', 'W8.8.1111000011110000', 'W1.0.1', 'W5.1.-', 'W16.24.0100000100110001', 'B1010010110', 'B' + '10' * 70,
           'V()', 'V(I1,I2,I3)', 'V(V(V(I1)))', 'V(S61,N,B1)', 'M()', 'M(I1=I2)', 'M(S61=V(I1))',
           'G(I5,M(S6b=I1))', 'G(I0,M(S6b=I1))', 'G(R0000000000000000,M(S6b=I1))', 'G(B-,M(S6b=I1))', 'G(V(),M(S6b=I1))', 'G(S3132,M(S23666d74=I63))', 'G(I5,M(S23666d74=I0))', 'G(I-1,M(S23666d74=I110))', 'G(V(I1),M(S23666d74=Iffffffffffffffff))',
           'G(S3132,M(S23666d74=I1))', 'G(I1,M(S23666d74=S78))']
SMALL_ONLY = {'int!', 'uint!', 'random-bits', 'float!', 'float', '>b', '>kb', '>mb'}       # size arguments that allocate
D19_WORDS = {'get', 'remove', 'insert', 'get-tag', 'remove-tag', 'insert-tag', 'sort', 'with-tags', '%tagmap-end', '%map-end'}
D19_TOKENS = D19_WORDS | {'{', '}', '^{', '^}', 'let', 'tags', 'foreach', 'equal?', 'assert-eq'}
SOUP_SKIP = {'write-all', 'read-all', 'exec-piped', 'include', 'require', 'random', 'random-bits', 'exit'}


class C08(XsProp):
    id = 'C08'
    profiles = ('dev', 'release')
    rule = ('(a) every dictionary word (the run-time word list, immediates included; file/process words excluded) applied to no argument, '
            'to every one of 46 argument classes (nil, flags, 0, +-1, 2^63-1, 2^63, 2^64-1, 2^64, i128 min/max, +-0.0, NaN, +-inf, "", '
            'non-ASCII and 80-byte strings, empty/unaligned/long bit-strings, empty/nested vectors and maps, tagged values with hand-made '
            '#fmt tags) and to a sample of class pairs, with a binary input open, recording on for a third, each followed by error '
            'formatting; (b) token soups over the whole dictionary plus literals and arbitrary UTF-8, under instruction and stack limits; '
            '(c) random API sequences eval/compile/run/next/rnext/pretty. Both the overflow-checking (dev) and the wrapping (release) '
            'build. Direct predicate: no call panics, aborts or kills the process. non-trivial = distinct case that reached a word '
            'with at least one argument')

    def generate(self, rng, tier):
        exe = self.exes[self.profiles[0]]
        d = lib.run_impl(exe, ['xs dict 0'])[0]
        names = []
        for e in d[5:].split(' ; '):
            f = e.split(' ')
            names.append(bytes.fromhex(f[0]).decode())
        names = sorted(set(names))
        self.names = names
        thorough = tier == 'thorough'
        cs = []
        pre = 'xp limits 400 60 40 | input a50f33cc0100ff41420043 4 84 | intercept on'
        npairs = 40 if not thorough else 600
        for w in names:
            if w in SOUP_SKIP:
                continue
            hw = hexsrc(w if w not in (':', 'var', 'local', 'late', 'const', 'defined', 'see', '!', 'enum', '<name>') else w + ' nm')
            classes = [c for c in CLASSES if not (w in SMALL_ONLY and c.startswith('I') and len(c) > 4)]
            rec = ' | rec on' if rng.random() < 0.33 else ''
            # compared with the model too (kind xs), except the words whose result depends on the order of keys of different
            # types (the recorded finding D19 of C12): those run on the implementation only (kind xp)
            prx = ('xp' if w in D19_WORDS else 'xs') + pre[2:]
            cs.append('%s%s | eval %s | pretty | eval %s | pretty' % (pre, rec, hw, hexsrc('1 2 +')))
            for a in classes:
                cs.append('%s%s | push %s | eval %s | pretty | dump' % (prx, rec, a, hw))
            for _ in range(npairs):
                a, b = rng.choice(classes), rng.choice(classes)
                extra = (' | push %s' % rng.choice(classes)) if rng.random() < 0.3 else ''
                cs.append('%s%s%s | push %s | push %s | eval %s | pretty | stack' % (prx, rec, extra, a, b, hw))
        # (a') every word on the zero-like second operands (plain, negative zero, tagged), which guard divisions, shifts and sizes
        zeros = ['I0', 'G(I0,M(S6b=I1))', 'R0000000000000000', 'R8000000000000000', 'G(R0000000000000000,M(S6b=I1))', 'G(I0,M(S23666d74=I10))']
        firsts = ['I7', 'I-80000000000000000000000000000000', 'R3ff8000000000000', 'G(I5,M(S6b=I1))', 'S3132', 'V(I1,I2,I3)', 'B10100101']
        for w in names:
            if w in SOUP_SKIP or w in (':', 'var', 'local', 'late', 'const', 'defined', 'see', '!', 'enum', '<name>'):
                continue
            prx = ('xp' if w in D19_WORDS else 'xs') + pre[2:]
            for a in firsts:
                for b in zeros:
                    cs.append('%s | push %s | push %s | eval %s | pretty | stack' % (prx, a, b, hexsrc(w)))
        # (b) token soup
        lits = ['0', '1', '-1', '9223372036854775807', '18446744073709551616', '-170141183460469231731687303715884105728', '1.5', '"s"', '"é"',
                '|ff|', '|x.x|', '[', ']', '{', '}', '#(', '#)', '\\ c\n', '\\( x \\)', 'é', '\x0b', '"abc', '0x', 'nosuch', '^{', '^}']
        soupw = [w for w in names if w not in SOUP_SKIP]
        for _ in range(1500 if not thorough else 60000):
            k = rng.randint(1, 14)
            toks = [rng.choice(soupw) if rng.random() < 0.6 else rng.choice(lits) for _ in range(k)]
            t2 = [rng.choice(soupw) for _ in range(3)]
            # soups without map / tag-map words are compared with the model as well (mixed key types are the D19 domain)
            kind = 'xp' if any(t in D19_TOKENS for t in toks + t2) else 'xs'
            cs.append('%s limits 600 80 40 | input a50f33cc0100ff41420043 4 84 | eval %s | pretty | eval %s | pretty | dump' % (
                kind, hexsrc(' '.join(toks)), hexsrc(' '.join(t2))))
        # (b') bodies of every bracketing construct that consume more than they produce, reaching for the values that were on
        # the stack before the opener (frame arithmetic: lengths are subtracted when the construct closes)
        frames = [('[', ']'), ('{', '}'), ('^{', '^}'), ('1 ^{', '^}'), ('#(', '#)'), ('#(', '~)'), (': nm', '; nm'), ('1 if', 'then'),
                  ('begin', '1 until'), ('2 0 do', 'loop'), ('1 case', 'endcase'), ('[ 1 2 ] foreach', 'loop'), ('[ [', '] ]'),
                  ('{ [', '] 1 }'), ('#( [', '] #)'), ('[ #(', '#) ]'), ('{ 1', '}'), ('[ 1 2 ] let [', ']'), ('{ 1 "k" } let {', '}')]
        bodies = ['', 'drop', 'drop drop', 'drop drop drop', 'drop drop drop drop', 'swap', 'rot', 'over', 'swap drop', 'rot drop drop',
                  'drop 7', 'drop drop 7', 'drop drop 7 8', 'depth', '2 collect', '3 collect', 'over over', 'drop 1 2 3']
        for (o, c) in frames:
            for k in range(0, 4):
                for b in bodies:
                    src = ' '.join([' '.join(str(i + 1) for i in range(k)), o, b, c]).strip()
                    cs.append('xp limits 600 80 40 | eval %s | pretty | eval %s | pretty' % (hexsrc(src), hexsrc('1 2 + depth')))
        # (b''') closers of one evaluation context met inside another: a meta block (or a definition, a builder) opened inside an open
        # construct and containing only the closing word of that construct, and the other way round
        outer = ['true if', '1 case', '1 case 1 of', 'begin', 'begin 1 while', '3 0 do', ': q', '[', '{', '^{', '[ 1 2 ] foreach', '[ 1 ] let [']
        closers = ['then', 'else', 'endcase', 'endof', 'of', 'repeat', 'until', 'loop', ';', ']', '}', '^}', 'break', 'while', '#)', '~)']
        for o_ in outer:
            for c_ in closers:
                for wrap in ('#( %s #)', '#( 1 %s #)', ': w %s ;', '[ %s ]', '#( #( %s #) #)'):
                    src = '%s %s 2 then' % (o_, wrap % c_)
                    cs.append('xp limits 600 80 40 | eval %s | pretty | eval %s | pretty' % (hexsrc(src), hexsrc('1 2 + depth')))
        # (b'') the cursor variables written directly (input replaced by a shorter one, offset beyond the end, non-bit-string input,
        # negative / huge offset), then every reading word
        readers = ['u8', 'i16le', '3 bits', '2 bytes', '5 int', '5 uint', 'f32', '32 float', '|ff| magic', 'nulbytestr', 'cstr', 'remain', 'offset',
                   '4 seek', 'read-all', 'dump', 'close-bitstr', '|aa| open-bitstr u8']
        broken = ['|01| ! input', '1000 ! offset', '-5 ! offset', '"str" ! input', 'nil ! input', '18446744073709551616 ! offset', '|| ! input',
                  '[ 1 ] ! offset', '7 ! offset |0102| ! input']
        for b in broken:
            for r_ in readers:
                for first in ('u16 drop', ''):
                    cs.append('xp limits 600 80 40 | input a50f33cc0100ff41420043 0 88 | eval %s | pretty | eval %s | pretty' % (
                        hexsrc((first + ' ' + b).strip()), hexsrc(r_)))
        # (c') reverse steps over a log that no longer matches the stacks: with recording on, a rejected source whose meta block
        # already ran logged words at build time leaves their log entries behind (the recorded finding D24 of C02); every inverse
        # operation must then refuse or proceed, never crash - each logged operation x 0..4 values left outside x 0..3 inside
        logged = ['rot', 'swap', 'over', 'dup', 'drop', '+', '2 *', '[ 1 2 ]', '[ ]', '{ 1 2 }', '^{ 1 "a" ^}', '3 0 do I loop', '3 0 do loop',
                  '1 if 2 then', '0 if 2 else 3 then', 'begin 1 until', '[ 1 2 ] foreach I loop', '"a" "b" concat', 'depth', '5 case 5 of 1 endof endcase',
                  'rot rot', 'swap drop', 'over over', 'dup dup drop', '[ 7 ] 0 nth', 'true assert', '1 2 assert-eq', '1 1 assert-eq', 'nil 1 +',
                  '[ 1 2 3 ] let [ a b c ] in a b c', '1 2 3 rot swap over']
        for w_ in logged:
            for outer in range(0, 5):
                for inner in range(0, 4):
                    pre = ' '.join(str(10 + i) for i in range(outer))
                    own = ' '.join(str(20 + i) for i in range(inner))
                    tail = rng.choice(['zzz', '#) zzz', '#) 1 "a" +', ']', '#( %s zzz' % w_])
                    back = ['rnext'] * rng.randint(1, 7) + rng.sample(['next', 'rnext', 'rnext', 'run'], 2)
                    steps = ['xp limits 600 80 40', 'rec on'] + (['eval %s' % hexsrc(pre)] if pre else []) + \
                            ['%s %s' % (rng.choice(['eval', 'eval', 'compile']), hexsrc('#( %s %s %s' % (own, w_, tail)))] + back + ['pretty', 'dump']
                    cs.append(' | '.join(steps))
        # witness of the repaired D39: a zero85 text whose last group is five padding marks (the z85 crate computed 4 - 5)
        for t in ['#####', '00000#####', '####0', '#####0', '##########', '====', '========', '=', '#']:
            for w_ in ('zero85>', 'base32>', 'base32hex>', 'base64>'):
                cs.append('xs limits 600 80 40 | push %s | eval %s | pretty | stack' % (cells.fmt(('S', t.encode())), hexsrc(w_)))
        # numeric reads at every width on inputs whose top bit is set / all ones / alternating (family added after round 11: the sign
        # extension of a 127-bit field overflowed in a seeded change), both byte orders, aligned and from bit 3
        for wd in list(range(1, 130)):
            for data in ('ff' * 17, '80' + '00' * 16, 'aa' * 17, '7f' + 'ff' * 16):
                for ordw in ('big', 'little'):
                    for rd in ('int', 'uint'):
                        if (wd + (0 if data != 'aa' * 17 else 3)) % 4 != 0 and data != 'ff' * 17 and wd not in (1, 63, 64, 65, 126, 127, 128, 129):
                            continue
                        skip = '3 bits drop ' if data == 'aa' * 17 else ''
                        cs.append('xs limits 600 80 40 | eval %s | pretty | stack' % hexsrc('%s |%s| open-bitstr %s%d %s' % (ordw, data, skip, wd, rd)))
        # witness of the repaired D36: the enum field after a field with the largest integer (panicked in the overflow-checking build)
        for src in ['enum E 170141183460469231731687303715884105727 = A : B endenum', 'enum E 170141183460469231731687303715884105726 = A : B : C endenum A B',
                    ': f enum E 170141183460469231731687303715884105727 = A : B endenum ; 1', 'enum E -170141183460469231731687303715884105728 = A : B endenum B']:
            cs.append('xs limits 600 80 40 | eval %s | pretty | eval %s | pretty | dump' % (hexsrc(src), hexsrc('1 2 + depth')))
        # (c) API sequences
        for _ in range(500 if not thorough else 20000):
            steps = ['xp limits 500 80 40']
            if rng.random() < 0.5:
                steps.append('rec on')
            for _ in range(rng.randint(3, 12)):
                r = rng.random()
                if r < 0.3:
                    steps.append('eval %s' % hexsrc(Gen(rng, bad=0.2).program(2)))
                elif r < 0.5:
                    steps.append('compile %s' % hexsrc(Gen(rng, bad=0.2).program(2)))
                elif r < 0.6:
                    steps.append('run')
                elif r < 0.75:
                    steps.append('next')
                elif r < 0.9:
                    steps.append('rnext')
                else:
                    steps.append('pretty')
            steps.append('pretty')
            steps.append('dump')
            if not any(t in D19_TOKENS for x in steps if x.startswith(('eval ', 'compile ')) for t in (bytes.fromhex(x.split(' ')[1]).decode('utf-8', 'replace').split() if x.split(' ')[1] != '-' else [])):
                steps[0] = 'xs' + steps[0][2:]
            cs.append(' | '.join(steps))
        return cs

    def canon_impl(self, s):
        return re.sub(r'pretty:\w+', 'pretty:-', s)

    def nontrivial(self, line):
        return ' push ' in line or len(line) > 120

    def classify(self, line):
        return 'word-product' if ' push ' in line else ('api' if ' next' in line or ' rnext' in line or ' run' in line else 'soup')

    def group_check(self, cases, impl):
        fails, samples = [], []
        n = alloc = 0
        for c, o in zip(cases, impl):
            n += 1
            if o.startswith('CRASH') and 'why=alloc' in o:
                alloc += 1          # an allocation request beyond the memory of the machine: excluded by the property
                continue
            if 'PANIC' in o or o.startswith('CRASH') or o == 'NOT-RUN':
                fails.append(('case: %s\nsources: %s\nresult: %s' % (c, src_of(c), o[:300]), 'the interpreter panicked or the process died'))
        if cases:
            samples.append(dict(case=cases[len(cases) // 2][:300], result=impl[len(cases) // 2][:200]))
        return n, fails, samples, dict(calls_survived=n - len(fails), giant_allocation_aborts_excluded=alloc, dictionary_words=len(getattr(self, 'names', [])))


PROP = C08()
