"""C13: tags never change what a value does."""
from .xsbase import *
from . import lib, cells, words


class C13(XsProp):
    id = 'C13'
    rule = ('for every non-immediate dictionary word (the run-time word list, minus the tag words, the printing words that honour '
            '#fmt, and the external/non-deterministic words) and every argument position: the word is run on generated arguments of '
            'its signature and on the same arguments with tag maps attached at depth 0 (the argument), depth 1 (an element) and on '
            'tag values themselves, including the #fmt tag; with a binary input open so that the parsing words apply. Direct '
            'predicate: equal error kind and, after removing every tag, equal stacks; a result cell that is not (part of) an argument '
            'carries no tag. The tag words are checked against the map model. non-trivial = distinct (word, arguments) with at '
            'least one tagged argument')

    def generate(self, rng, tier):
        exe = self.exes[self.profiles[0]]
        d = lib.run_impl(exe, ['xs dict 0'])[0]
        names = []
        for e in d[5:].split(' ; '):
            f = e.split(' ')
            if f[1] == 'fun':
                names.append(bytes.fromhex(f[0]).decode())
        names = sorted(set(names))
        self.words_seen = names
        per = 8 if tier == 'quick' else 120
        cs = []
        for w in names:
            if w in words.EXTERNAL or w in words.TAG_WORDS or w in words.FMT_WORDS or w == 'exit':
                continue
            sig = words.SIG.get(w)
            sigs = [sig] if sig is not None else [[], ['any'], ['any', 'any']]
            for sg in sigs:
                for _ in range(per):
                    args = [words.arg_of(rng, t, cells) for t in sg]
                    # a key is looked up only in a map whose keys have its type (comparing keys of different
                    # types is the recorded finding of C12, not a question of tags)
                    for i, t in enumerate(sg):
                        if t == 'key':
                            m = next((a for a in args if a[0] == 'M'), None)
                            if m is not None:
                                kt = m[1][0][0][0] if m[1] else 'I'
                                args[i] = ('I', rng.choice([0, 1, 2, 7])) if kt == 'I' else ('S', rng.choice([b'k', b'a', b'abc']))
                    targs = []
                    for a in args:
                        r = rng.random()
                        if r < 0.55:
                            targs.append(cells.add_tags(rng, a))
                        elif r < 0.8 and a[0] == 'V' and a[1]:
                            k = rng.randrange(len(a[1]))
                            targs.append(('V', [cells.add_tags(rng, x) if i == k else x for i, x in enumerate(a[1])]))
                        elif r < 0.9 and a[0] == 'M' and a[1]:
                            targs.append(('M', [(k, cells.add_tags(rng, v)) for k, v in a[1]]))
                        else:
                            targs.append(a)
                    if not sg:
                        targs = []
                    pre = 'xs limits 3000 200 - | input a50f33cc0100ff41420043 4 84 | intercept on'
                    pa = ' | '.join('push %s' % cells.fmt(a) for a in args)
                    pt = ' | '.join('push %s' % cells.fmt(a) for a in targs)
                    cs.append('%s | clone%s | eval %s | stack | use 1%s | eval %s | stack' % (
                        pre, (' | ' + pa) if pa else '', hexsrc(w), (' | ' + pt) if pt else '', hexsrc(w)))
        # boundary operands with a tag on each single position (and on all): zero, one, minus one for numbers
        tagm = [(('S', b'k'), ('I', 1))]
        for w in names:
            if w in words.EXTERNAL or w in words.TAG_WORDS or w in words.FMT_WORDS or w == 'exit':
                continue
            sig = words.SIG.get(w)
            if not sig or len(sig) > 2 or not all(t in ('num', 'int', 'any', 'real') for t in sig):
                continue
            small = {'num': [('I', 0), ('I', 1), ('I', -1), ('R', '0000000000000000'), ('R', '3ff0000000000000')],
                     'int': [('I', 0), ('I', 1), ('I', -1)], 'real': [('R', '0000000000000000'), ('R', '3ff0000000000000')],
                     'any': [('I', 0), ('N',), ('S', b'')]}
            import itertools as _it
            for args in _it.product(*[small[t] for t in sig]):
                pats = [tuple(i == k for i in range(len(sig))) for k in range(len(sig))] + ([tuple(True for _ in sig)] if len(sig) > 1 else [])
                for pat in pats:
                    targs = [('G', a, tagm) if tg else a for a, tg in zip(args, pat)]
                    pre = 'xs limits 3000 200 - | input a50f33cc0100ff41420043 4 84 | intercept on'
                    pa = ' | '.join('push %s' % cells.fmt(a) for a in args)
                    pt = ' | '.join('push %s' % cells.fmt(a) for a in targs)
                    cs.append('%s | clone | %s | eval %s | stack | use 1 | %s | eval %s | stack' % (pre, pa, hexsrc(w), pt, hexsrc(w)))
        # one value used twice (`dup`: both operands are the same cell): equality, comparison and collection words must answer what they
        # answer on the untagged value - also for values that are not equal to themselves (family added after round 11)
        shared = [('R', '7ff8000000000000'), ('R', '3ff8000000000000'), ('R', '8000000000000000'), ('I', 7), ('S', b'ab'), ('B', '1010'), ('N',),
                  ('V', [('I', 1), ('S', b'x')]), ('M', [(('S', b'k'), ('R', '3ff8000000000000'))])]
        # (no collection that CONTAINS a NaN here: rpds compares a vector / map with itself by pointer first, so `{ nan "k" } dup equal?`
        #  is true while two separately built copies are unequal - sharing-dependent, the same with and without tags; see DESIGN section 11)
        progs2 = ['dup equal?', 'dup assert-eq', 'dup 2 collect dup equal?', 'dup == ', 'dup <>', 'dup <', 'dup >=', 'dup min', 'dup max',
                  'dup 2 collect dup 0 get swap 1 get equal?', 'dup 2 collect sort', 'dup 1 collect swap 1 collect equal?', 'dup 1 collect swap 1 collect assert-eq']
        for a in shared:
            for w in progs2:
                for ta in [('G', a, tagm), ('G', a, [(('S', b'len'), ('I', 64)), (('S', b'big'), ('T',))])] + ([('V', [('G', a[1][0], tagm)] + a[1][1:])] if a[0] == 'V' else []):
                    pre = 'xs limits 3000 200 - | input a50f33cc0100ff41420043 4 84 | intercept on'
                    cs.append('%s | clone | push %s | eval %s | stack | use 1 | push %s | eval %s | stack' % (pre, cells.fmt(a), hexsrc(w), cells.fmt(ta), hexsrc(w)))
        # the words that honour the formatting tag (concat, join) must still ignore every OTHER tag, on every element kind
        for _ in range(150 if tier == 'quick' else 3000):
            def el(d=0):
                k = rng.random()
                if k < 0.3: return ('I', rng.randint(-5, 99))
                if k < 0.6: return ('S', rng.choice([b'', b'a', b'ss', b'\xc3\xa9']))
                if k < 0.7: return ('B', rng.choice(['', '1010', '11110000']))
                if d > 1: return ('I', 1)
                return ('V', [el(d + 1) for _ in range(rng.randint(0, 3))])
            def tg(x, d=0):
                if rng.random() < 0.5:
                    y = ('V', [tg(e, d + 1) for e in x[1]]) if x[0] == 'V' else x
                    return ('G', y, tagm) if rng.random() < 0.7 else y
                return x
            vec = [el() for _ in range(rng.randint(1, 4))]
            tvec = [tg(x) for x in vec]
            if tvec == vec:
                tvec[0] = ('G', vec[0], tagm)
            w = rng.choice(['concat', '"," join', '"" join'])
            pre = 'xs limits 3000 200 -'
            cs.append('%s | clone | push %s | eval %s | stack | use 1 | push %s | eval %s | stack' % (
                pre, cells.fmt(('V', vec)), hexsrc(w), cells.fmt(('V', tvec)), hexsrc(w)))
        # values that were tagged twice by the tag words themselves (wrappers must not nest), then ordinary words
        retag = ['2 "b" insert-tag', '^{ 3 "c" ^}', '"k" remove-tag', '^hex', '2 "b" insert-tag 4 "d" insert-tag', '{ 5 "e" } with-tags']
        uses = [('I7', ['1 +', 'neg', '3 <', 'dup *', '>real', '2 bsl', '7 equal?', 'int?', '1 swap -']), ('V(I10,I20)', ['1 nth', 'length', '5 swap push', 'reverse', '0 get']),
                ('S6162', ['length', '0 1 slice', '"ab" equal?']), ('B1010', ['length', 'bitstr-not', '|f| bitstr-append']), ('T', ['not', 'if 1 else 2 then'])]
        for v, ws in uses:
            plain = cells.parse(v)
            for rt in retag:
                for w in ws:
                    tg = ('G', plain, tagm)
                    cs.append('xs limits 3000 200 - | clone | push %s | eval %s | stack | use 1 | push %s | eval %s | stack' % (
                        cells.fmt(plain), hexsrc(w), cells.fmt(tg), hexsrc(rt + ' ' + w)))
        # control words look through tags too: conditions, case selectors, loop bounds, assertions
        ctl = [('{C} if 10 else 20 then', ['N', 'T', 'F']), ('0 begin 1 + dup 3 > {C} or until', ['N', 'F']), ('{C} assert 5', ['T', 'F', 'N']),
               ('{C} not', ['T', 'F']), ('{C} case 1 of 10 endof 2 of 20 endof 30 endcase', ['I1', 'I2', 'I7', 'S61']),
               ('1 case {C} of 10 endof 30 endcase', ['I1', 'I2']), ('{C} 0 do I loop', ['I0', 'I2']), ('3 {C} do I loop', ['I0', 'I3']),
               ('{C} 7 assert-eq', ['I7', 'I8']), ('7 {C} assert-eq', ['I7', 'I8']), ('[ 1 2 3 ] {C} nth', ['I0', 'I-1']), ('{C} nil? ', ['N', 'I1']),
               ('{C} 1 equal?', ['I1', 'I2']), ('[ {C} ] [ 1 ] equal?', ['I1']), ('5 {C} collect', ['I1', 'I0']), ('{C} >real', ['I3']),
               ('|ff 00| open-bitstr {C} bits', ['I4']), ('|ff 00| open-bitstr {C} seek offset', ['I8']), ('{C} length', ['S6162', 'V(I1,I2)'])]
        for tmpl, vals in ctl:
            for v in vals:
                plain = cells.parse(v)
                for tag in ([(('S', b'k'), ('I', 1))], [], [(('S', b'#fmt'), ('I', 0x110))]):
                    tg = ('G', plain, tag)
                    a = 'xs limits 3000 200 - | clone | push %s | eval %s | stack | use 1 | push %s | eval %s | stack' % (
                        cells.fmt(plain), hexsrc('var cc ' + tmpl.replace('{C}', 'cc')), cells.fmt(tg), hexsrc('var cc ' + tmpl.replace('{C}', 'cc')))
                    cs.append(a)
        # the tag words behave as a map attached to the value, without altering it
        for _ in range(60 if tier == 'quick' else 1500):
            v = cells.rand_cell(rng, tags=0.3)
            k = rng.choice(['"k"', '"z"', '"a"', '"len"'])   # string keys only: mixed key types are C12's recorded finding
            x = cells.source(cells.strip(cells.rand_cell(rng, types=['int', 'str']))) or '5'
            prog = rng.choice([
                '%s %s insert-tag %s get-tag' % (x, k, k), '%s %s insert-tag %s remove-tag %s get-tag' % (x, k, k, k),
                '%s %s insert-tag tags' % (x, k), '{ %s %s } with-tags tags' % (x, k), '%s %s insert-tag dup drop' % (x, k),
                '%s %s insert-tag 9 "other" insert-tag %s get-tag' % (x, k, k)])
            cs.append('xs limits 3000 200 - | push %s | eval %s | stack' % (cells.fmt(v), hexsrc(prog)))
        # the tag words against a dictionary model: random sequences of insert-tag / remove-tag (present and absent keys) / with-tags
        # on one value; at the end `tags` and every `get-tag` must be what the dictionary says, and the value itself is unchanged
        self.tagmodel = {}
        keys = ['"a"', '"b"', '"k"', '"len"', '"zz"']
        for _ in range(150 if tier == 'quick' else 3000):
            val = rng.choice(['5', '"s"', '[ 1 2 ]', 'nil', '1.5', '|ff|'])
            model = None
            src = [val]
            for _ in range(rng.randint(1, 6)):
                r = rng.random()
                k = rng.choice(keys)
                if r < 0.45:
                    v = rng.randint(0, 99)
                    src.append('%d %s insert-tag' % (v, k))
                    model = dict(model or {})
                    model[k] = v
                elif r < 0.8:
                    src.append('%s remove-tag' % k)
                    model = dict(model or {})
                    model.pop(k, None)
                else:
                    ks = rng.sample(keys, rng.randint(0, 3))
                    model = {kk: rng.randint(0, 99) for kk in ks}
                    src.append('{ %s } with-tags' % ' '.join('%d %s' % (model[kk], kk) for kk in ks))
            probe = rng.choice(keys)
            src.append('dup tags swap dup %s get-tag swap drop' % probe)
            case = 'xs limits 3000 200 - | eval %s | stack' % hexsrc(' '.join(src))
            cs.append(case)
            ent = sorted((kk.strip('"').encode(), vv) for kk, vv in (model or {}).items())
            want_tags = 'N' if model is None else 'M(' + ','.join('S%s=I%x' % (kb.hex(), vv) for kb, vv in ent) + ')'
            want_get = 'I%x' % model[probe] if model and probe in model else 'N'
            self.tagmodel[case] = (want_tags, want_get, ' '.join(src))
        # the tag map stays attached when the value crosses the build-time boundary: left by a meta block, bound by `const`, or both
        self.attach = set()
        tagged_src = ['5 ^{ 1 "k" ^}', '"ff" ^hex', 'nil 1 "k" insert-tag', '[ 1 ] ^{ 2 "k" ^}', '1.5 ^{ 1 "k" ^}', 'true 7 "k" insert-tag',
                      '170141183460469231731687303715884105727 ^hex', '-9223372036854775808 1 "k" insert-tag', '|ff| 2 "k" insert-tag',
                      '{ 1 "a" } 3 "k" insert-tag', '"" 1 "k" insert-tag', '0 ^bin', '9223372036854775807 ^{ 1 "k" 2 "j" ^}', '"s" { } with-tags']
        for e in tagged_src:
            for probe in ('tags', '"k" get-tag', 'dup tags swap "k" get-tag'):
                for form in ('#( %s #)', '#( %s const KK #) KK', ': w #( %s #) ; w', '#( #( %s #) #)', '#( %s const KK #) : w KK ; w', '[ #( %s #) ] 0 nth'):
                    case = 'xs limits 3000 200 - | clone | eval %s | stack | use 1 | eval %s | stack' % (
                        hexsrc('%s %s' % (e, probe)), hexsrc('%s %s' % (form % e, probe)))
                    cs.append(case)
                    self.attach.add(case)
        return cs

    def group_check(self, cases, impl):
        fails, samples = [], []
        n = tagged = 0
        for c, o in zip(cases, impl):
            st = c.split(' | ')
            ou = o.split(' | ')
            if 'PANIC' in o and 'use 1' in st:
                n += 1
                fails.append(('case: %s\nword: %s\nresult: %s' % (c, src_of(c)[0], o[:400]),
                              'word %s panicked on one of the two argument lists (with / without tags)' % src_of(c)[0]))
                continue
            if c in getattr(self, 'tagmodel', ()):
                n += 1
                want_tags, want_get, src = self.tagmodel[c]
                got = [t for t in ou[-1].strip('[] ').split(' ') if t]
                if ou[-2] != 'ok' or got != [want_tags, want_get]:
                    fails.append(('case: %s\nsource: %s\nresult: %s' % (c, src, o[:400]),
                                  'the tag words do not behave as a map attached to the value: expected tags %s and get-tag %s, got %s' % (want_tags, want_get, got)))
                continue
            if len(st) != len(ou) or 'use 1' not in st:
                continue
            iu = st.index('use 1')
            ra, sa = ou[iu - 2], ou[iu - 1]
            rb, sb = ou[-2], ou[-1]
            n += 1
            if 'G(' in ' '.join(st[iu:]):
                tagged += 1
            ka = ra.split('(')[0]
            kb = rb.split('(')[0]
            if c in getattr(self, 'attach', ()):
                if ra != rb or sa != sb:
                    fails.append(('case: %s\nat run time: %s -> %s %s\nthrough the build-time boundary: %s -> %s %s' % (
                        c, src_of(c)[0], ra, sa, src_of(c)[1], rb, sb), 'the tag map did not stay attached to a value left by a meta block / bound by const'))
                continue
            if ka != kb or cells.strip_text(sa) != cells.strip_text(sb):
                w = src_of(c)[0]
                fails.append(('case: %s\nword: %s\nuntagged-arguments: %s -> %s %s\ntagged-arguments: %s -> %s %s' % (
                    c, w, [x for x in st[:iu] if x.startswith('push')], ra, sa, [x for x in st[iu:] if x.startswith('push')], rb, sb),
                    'word %s behaves differently on tagged arguments' % w))
                continue
            # the words that compute a new number / flag return an untagged cell even when the result equals an argument
            FRESH = {'+', '-', '*', '/', 'rem', 'neg', 'abs', 'min', 'max', 'band', 'bor', 'bxor', 'bnot', 'bsl', 'bsr', 'popcnt', 'round',
                     '<', '<=', '>', '>=', '==', '<>', 'and', 'or', 'xor', 'not', 'zero?', 'positive?', 'negative?', 'length', 'equal?'}
            wname = (src_of(c) or [''])[-1].split(' ')[-1]
            if wname in FRESH and rb == 'ok':
                top = [t for t in sb.strip('[] ').split(' ') if t][-1:]
                if top and top[0].startswith('G('):
                    fails.append(('case: %s\nword: %s\nresult: %s' % (c, wname, sb), 'the result of `%s` carries the tags of an argument' % wname))
                    continue
            # fresh results carry no tags: every tagged cell of the result occurs in an argument
            argtxt = ' '.join(x[5:] for x in st[iu:] if x.startswith('push'))
            for cell in sb.strip('[] ').split(' '):
                if cell.startswith('G(') and cell not in argtxt and not any(cell in a for a in argtxt.split(' ')):
                    # reads from binary input legitimately attach len/big tags
                    if 'S6c656e=' in cell:
                        continue
                    fails.append(('case: %s\nword: %s\nresult: %s' % (c, src_of(c)[0], sb), 'a freshly computed result carries tags'))
                    break
        if cases:
            samples.append(dict(case=cases[0][:300], result=impl[0][:300]))
        return n, fails, samples, dict(word_argument_pairs=n, with_tagged_arguments=tagged, words=len(getattr(self, 'words_seen', [])))


PROP = C13()
