"""C15: how a program is driven does not change what it does."""
from .xsbase import *
import re

MODES = [('eval', False), ('run', False), ('step', False), ('eval', True), ('run', True), ('step', True)]


def mode_case(h, mode, rec, limits, setup=()):
    pre = 'xs limits %s' % limits + (' | rec on' if rec else '') + ''.join(' | eval %s' % hexsrc(x) for x in setup)
    if mode == 'eval':
        return '%s | eval %s | stack | dump | out' % (pre, h)
    if mode == 'run':
        return '%s | compile %s | run | stack | dump | out' % (pre, h)
    return '%s | compile %s | stepall | stack | dump | out' % (pre, h)


def observable(out, mode):
    """(result, stack, dump-without-log, stdout) of one drive mode"""
    parts = out.split(' | ')
    parts = [p for p in parts]
    i = 1 + (1 if ' | rec on' in mode else 0)
    return parts


class C15(XsProp):
    id = 'C15'
    rule = ('every generated program (control flow, definitions, locals, variables, collections, tags, meta blocks, let, '
            'printing, plus a malformed fraction) is driven from a freshly booted interpreter in the six modes '
            '{eval, compile+run, compile+step*} x {recording off, on} under an instruction limit; the six final observations '
            '(first error, visible stack, full state dump without the reverse log, stdout) must be identical (direct predicate on '
            'the implementation) and equal to the mirror model. non-trivial = distinct program of more than 3 tokens')

    def nontrivial(self, line):
        s = src_of(line)
        return bool(s) and len(s[0].split()) > 3

    def generate(self, rng, tier):
        n = 350 if tier == 'quick' else 6000
        cs = []
        for i in range(n):
            g = Gen(rng, bad=0.04 if i % 3 else 0.15)
            h = hexsrc(g.program())
            lim = rng.choice(['3000 400 300', '3000 400 300', '40 400 300', '3000 6 300', '3000 400 8', '- - -' if False else '5000 - -'])
            for (m, rec) in MODES:
                cs.append(mode_case(h, m, rec, lim))
        # every stack-growing primitive exactly at, one below and one above the stack limit (the limit is enforced inside the
        # primitives, which branch on recording)
        grow = ['dup', 'over', 'depth', '7', 'nil', 'true', '"s"', '|ff|', '1.5', '[ ]', '{ }', 'dup dup', 'over over', '2 0 do I loop',
                '0 var v v v', ': f 1 2 ; f', '[ 1 2 ] foreach I loop', '1 2 rot', 'swap over', '#( 1 2 #)', '3 1 collect', '[ 1 2 ] unbox'
                if False else '[ 1 2 ] 0 nth']
        for L in range(1, 6):
            for w in grow:
                for fill in (L - 1, L):
                    if fill < 2 and ('over' in w or 'rot' in w or 'swap' in w):
                        continue
                    h = hexsrc(' '.join(str(i) for i in range(fill)) + ' ' + w)
                    for (m, rec) in MODES:
                        cs.append(mode_case(h, m, rec, '3000 %d 300' % L))
        # stores that change only what `==` does not see (tags, the sign of zero), and other primitives with a recording branch
        for prog in ['10 var X X ^hex ! X X println X', '10 var X X 1 "k" insert-tag ! X X tags', '0.0 var z -0.0 ! z z', '5 var a a ! a a',
                     '[ 1 ] var v v 2 "t" insert-tag ! v v tags v', '1 var q 3 0 do q ^bin ! q loop q print',
                     '1 2 3 rot rot swap drop', ': f 3 0 do I 10 * local x x loop ; f', ': h local x 3 0 do x I + local x loop x ; 10 h',
                     ': g 2 0 do 2 0 do I J + local y y loop loop ; g', '{ 1 "k" 2 "k" } "k" get', '{ 1 "a" 2 "b" 3 "a" } dup "a" get swap length',
                     '7 ^{ 1 "t" 2 "t" ^} "t" get-tag', '{ 1 5 2 5 3 5 } 5 get', '3 0 do { I "k" I 1 + "k" } "k" get loop',
                     '0 8 uint! [ 0xff 0xff ] >bitstr open-bitstr 4 bits close-bitstr bitstr-append bitstr>hex',
                     '[ 255 255 255 ] >bitstr open-bitstr 9 bits close-bitstr |0| bitstr-append', '[ 1 2 3 ] >bitstr open-bitstr 8 bits drop 8 bits close-bitstr bitstr-not',
                     '[ 255 ] >bitstr open-bitstr 3 bits close-bitstr dup |x.| bitstr-append swap bitstr-not', '[ 170 85 ] >bitstr open-bitstr 4 bits drop 8 bits close-bitstr 0 3 uint! swap bitstr-append', '[ 1 2 ] foreach I loop 3 0 do I loop', ': r local n n 0 > if n 1 - r then n ; 3 r', ': f local a a ^hex local a a ; 9 f print', '3 0 do I 1 == if break then I loop 7']:
            for (m, rec) in MODES:
                cs.append(mode_case(hexsrc(prog), m, rec, '3000 - -'))
        # a source REJECTED at build time after earlier sources left values, variables and definitions behind: all six drives must leave
        # the same state (family added after round 11: the unwinding of a rejected source differed between eval and compile)
        for setup in [('1 2 3',), ('"s" 5', ': f 1 ;'), ('7 var keep 9',), ('[ 1 2 ]', '3 0 do I loop')]:
            for bad in ['nosuch', '4 5 nosuch', '1 if', ']', '#( 1 0 / #)', '#( foo #) 8', ': g 2 ; zz', 'drop drop nosuch', '1 var w 0x', '#( drop #)']:
                for (m, rec) in MODES:
                    cs.append(mode_case(hexsrc(bad), m, rec, '3000 - -', setup))
        # views built at run time that nobody else holds (the reverse log holds a second reference when recording): what a later
        # open-bitstr sees (offset, remain, find) must not depend on it
        for view in ['[ 0 17 34 51 68 ] >bitstr open-bitstr 8 bits drop 16 bits close-bitstr', '"0011223344" hex>bitstr open-bitstr 16 bits drop 8 bits close-bitstr',
                     '[ 1 2 3 4 ] >bitstr open-bitstr 24 bits drop 8 bits close-bitstr', '[ 9 8 7 ] >bitstr open-bitstr 8 bits drop 9 bits close-bitstr']:
            for use_ in ['|ff| bitstr-append open-bitstr offset remain', 'bitstr-not open-bitstr offset remain', '|f| bitstr-append open-bitstr |ff| find',
                         'dup |0| bitstr-append swap bitstr-not open-bitstr offset swap open-bitstr offset', '|1| bitstr-append |1| bitstr-append open-bitstr 4 bits offset']:
                for (m, rec) in MODES:
                    cs.append(mode_case(hexsrc(view + ' ' + use_), m, rec, '3000 - -'))
        # enum builders: build-time code in all six drive modes
        for prog in ['enum E : A : B 7 = C : D endenum A B C D', 'enum E endenum 1', 'enum E 1 2 + = X : Y endenum X Y', ': f enum Q : Z endenum Z ; f',
                     'enum E : A endenum enum F A 5 + = B endenum B', '[ enum E : A : B endenum B ]', 'enum E "s" = A endenum', 'enum E : A 1 endenum',
                     'enum E : A', 'endenum', '1 enum E 170141183460469231731687303715884105727 = A : B endenum']:
            for (m, rec) in MODES:
                cs.append(mode_case(hexsrc(prog), m, rec, '3000 - -'))
        for (m, rec) in MODES:
            cs.append(mode_case(hexsrc('enum E : A 9 = B endenum A B'), m, rec, '3000 - -', setup=('5 6',)))
        # recorded finding D38: `endenum` checks "no values left" against the mode-dependent stack mark
        for (m, rec) in MODES:
            cs.append(mode_case(hexsrc('#( endenum'), m, rec, '3000 - -', setup=('5',)))
        # recorded finding D33: a user-defined immediate word runs at build time; `compile` hides the caller's stack from it, `eval` does not
        for (m, rec) in MODES:
            cs.append(mode_case(hexsrc('foo'), m, rec, '3000 - -', setup=(': foo immediate drop ;', '7 8')))
        return cs

    D33 = ('a user-defined immediate word that touches the data stack at build time: eval lets it see (and consume) the values already on '
           'the stack, compile hides them (witness: `: foo immediate drop ;` `7 8`, then eval "foo" -> ok with 7 left; compile "foo" -> stack underflow)')

    D38 = ('`endenum` outside an enum, with values on the stack: the "enum data stack contains unused elements" test reads the stack mark of '
           'the context it returns to, which eval leaves at the bottom and compile puts at the top - eval reports that message, compile a '
           'control-flow error (witness: `5`, then `#( endenum`; Coq: C15_endenum_mode_refuted)')

    def known(self, text, impl, spec):
        m = re.search(r'sources: (.*)', text)
        if m and re.search(r':\s+\S+\s+immediate\b', m.group(1)):
            return self.D33
        if m and re.search(r'\bendenum\b', m.group(1)) and not re.search(r'\benum\s', m.group(1)):
            return self.D38
        return None

    @staticmethod
    def obs(out, rec):
        parts = out.split(' | ')
        k = 1 + (1 if rec else 0)      # index of the first drive step
        tail = parts[-3:]
        drive = parts[k:-3]
        res = next((x for x in drive if x != 'ok'), 'ok')
        return (res, tail[0], strip_log(tail[1]), tail[2])

    def group_check(self, cases, impl):
        fails, samples = [], []
        n = 0
        for i in range(0, len(cases) - 5, 6):
            grp = cases[i:i + 6]
            if not grp[0].startswith('xs limits') or src_of(grp[0]) != src_of(grp[5]):
                continue
            n += 1
            obs = [self.obs(impl[i + j], MODES[j][1]) for j in range(6)]
            if any('PANIC' in impl[i + j] or 'CRASH' in impl[i + j] for j in range(6)):
                continue
            for j in range(1, 6):
                if obs[j] != obs[0]:
                    fails.append(('case: %s\ncase: %s\nprogram: %s\nsources: %s\n%s: %s\n%s: %s' % (
                        grp[0], grp[j], src_of(grp[0])[-1], ' ;; '.join(src_of(grp[0])), MODES[0], obs[0], MODES[j], obs[j]),
                        'drive modes %s and %s disagree' % (MODES[0], MODES[j])))
                    break
        if n:
            samples.append(dict(program=src_of(cases[0])[0] if src_of(cases[0]) else '', modes=6))
        return n, fails, samples, dict(programs_driven_six_ways=n)


PROP = C15()
