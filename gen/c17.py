"""C17: every error points at the token that caused it."""
from .xsbase import *
from . import lib

FILL = [' ', '  ', '\t', '\n', '\r\n', '\n\n', '\\ note é\n', '\\( block\n comment \\)\n', '1 drop ', '"é日" drop ', 'nil drop\t', '\r\n\t ',
        '"multi\\nline" drop ', '|ff 00| drop\n']


def expected_loc(text, a, b):
    """(line, col, line-start, line-end, a, b) of the token at bytes a..b of the UTF-8 text"""
    raw = text.encode('utf-8')
    line = raw[:a].count(b'\n')
    ls = 0
    for i in range(a):
        if raw[i] in (10, 13):
            ls = i + 1
    le = len(raw)
    for i in range(a, len(raw)):
        if raw[i] in (10, 13):
            le = i
            break
    col = len(raw[ls:a].decode('utf-8', 'replace'))
    return (line, col, ls, le, a, b)


class C17(XsProp):
    id = 'C17'
    rule = ('failing programs with a planted culprit token: unknown word, bad literal, stray closer, name-expecting word without a name '
            '(build time); type error, division by zero, failed assertion, out-of-range index (run time) at top level, inside a called '
            'definition (1..3 calls deep), inside do/begin loops, inside a meta block; preceded by random filler mixing LF, CRLF, tabs, '
            'comments and multi-byte characters; 1..3 sources per interpreter, including identical texts. Direct predicate: the reported '
            'source name is the buffer the token was cut from, line/column are the true position of the quoted token, the quoted line is '
            'the line containing it, and the token is the culprit (the generator knows its byte offsets); the mirror model must report the '
            'same location. non-trivial = distinct history whose culprit is not on the first line or sits at a nesting depth >= 1')

    def planted(self, rng):
        """returns (text, culprit_start_char_index, culprit_text, kind)"""
        pre = ''.join(' ' + rng.choice(FILL) for _ in range(rng.randint(0, 6))) + ' '
        if rng.random() < 0.3:
            # the failing token (or the construct around it) starts in column 0 of a later line
            pre = pre.rstrip(' ') + rng.choice(['\n', '\r\n', '\r', '\n\n'])
        k = rng.random()
        if k < 0.06:
            # the first token fetched from the source after text it injected itself has ended
            cul = rng.choice(['zzqq', '0xg'])
            body = rng.choice(['#( "1 2" ~) {C}', '#( "1 drop" ~)\n  {C}', '#( "" ~) {C}', '1 #( "2 +" ~) drop {C}'])
        elif k < 0.12:
            cul, body = 'zzqq', '{C}'
        elif k < 0.2:
            cul, body = rng.choice(['12zz', '0xg', '1_a']), '{C}'
        elif k < 0.28:
            cul, body = rng.choice(['then', 'loop', ']', '}', 'endcase', 'repeat', ';']), '1 {C}'
        elif k < 0.34:
            cul, body = rng.choice([':', 'local', 'var']), '{C} 5' if rng.random() < 0.5 else '{C}'
            if cul == 'local':
                body = ': f {C} 5 ;'
        else:
            fail = rng.choice([('+', '"a" 1 {C}'), ('/', '1 0 {C}'), ('assert', 'false {C}'), ('nth', '[ 1 ] 5 {C}'), ('neg', '"s" {C}'),
                               ('assert-eq', '1 2 {C}'),
                               # the failing cell is one that a later word backpatches
                               ('get', '[ ] 0 #( "1 drop" ~) {C}'), ('+', '"a" #( "1" ~) {C}'),
                               ('if', '5 {C} 1 then 2'), ('if', '"s" {C} 1 else 2 then'), ('while', '0 begin 7 {C} 1 + repeat'), ('until', 'begin 7 {C}'),
                               ('do', '"a" 0 {C} I loop')])
            cul, core = fail
            form = rng.random()
            if '#(' in core:
                form *= 0.8       # no meta block around a core that injects text itself (nested blocks are the D18 domain)
            if form < 0.3:
                body = core
            elif form < 0.55:
                depth = rng.randint(1, 3)
                body = ': w0 %s ;' % core
                for d in range(1, depth):
                    body += ' %s : w%d w%d ;' % (rng.choice(FILL), d, d - 1)
                body += ' %s w%d' % (rng.choice(FILL), depth - 1)
            elif form < 0.7:
                body = '3 0 do I 2 == if %s then loop' % core
            elif form < 0.8:
                body = '0 begin 1 + dup 3 == if %s then dup 5 > until' % core
            elif form < 0.84:
                body = '#( %s #)' % core
            elif form < 0.87:
                body = '#( 3 0 do I 2 == if %s then loop #)' % core
            elif form < 0.93:
                body = rng.choice(['#( true if %s then #)', '#( [ 7 %s ] #)', '#( : mw %s ; mw #)', '[ #( %s #) ]',
                                   # a nested block (or injected text) was compiled and closed inside the block before the culprit
                                   # (family added after round 11: stale debug-map entries of the closed inner block)
                                   '#( #( 1 2 + #) drop %s #)', '#( 5 #( 1 #) #( 2 3 #) drop drop drop drop %s #)', '#( #( 1 #) drop : mw %s ; mw #)',
                                   '#( #( 1 #) drop 2 0 do %s loop #)', '#( "1 2 +" ~) drop %s #)' if False else '#( #( 7 8 9 #) drop drop drop true if %s then #)']) % core
            else:
                body = ': g 2 0 do %s loop ; g' % core
        text = pre + body
        i = text.index('{C}')
        text = text.replace('{C}', cul, 1)
        post = rng.choice(['', ' 1 2', '\n3', ' \\ tail'])
        return text + post, i, cul

    def generate(self, rng, tier):
        n = 900 if tier == 'quick' else 20000
        cs = []
        self.expect = {}
        for i in range(n):
            good = rng.choice([[], [], ['1 2 +'], [': helper 1 ;', '7']])
            text, ci, cul = self.planted(rng)
            a = len(text[:ci].encode('utf-8'))
            b = a + len(cul.encode('utf-8'))
            srcs = list(good)
            if rng.random() < 0.2:
                srcs.append(text)       # the same failing text twice: the second failure must name the second buffer
            steps = ['xs limits 6000 - -'] + ['eval %s' % hexsrc(g) for g in srcs] + ['eval %s' % hexsrc(text), 'errloc', 'pretty']
            case = ' | '.join(steps)
            cs.append(case)
            # text injected with `~)` becomes a source buffer of its own: earlier evaluations that injected shift the numbering
            self.expect[case] = (sum(1 + g.count('~)') for g in srcs), expected_loc(text, a, b), text, cul)
        # failures raised by cells other than native words: a variable read refused inside a meta block, and a push (variable, literal,
        # stack word) refused by the stack limit - at top level, in definitions, loops and blocks
        for i in range(n // 5):
            pre = ''.join(' ' + rng.choice(FILL) for _ in range(rng.randint(0, 5))) + ' '
            if rng.random() < 0.3:
                pre = pre.rstrip(' ') + rng.choice(['\n', '\r\n', '\n\n'])
            if rng.random() < 0.45:
                cul = 'counter'
                body = rng.choice(['#( {C} #)', '#( [ 7 {C} 2 + ] #)', '#( true if {C} then #)', '#( : mw {C} ; mw #)', '#( 2 0 do {C} loop #)', '[ #( 1 {C} + #) ]',
                                   '#( {C} 1 + #) 5', ': w #( {C} #) ;'])
                lim = None
            else:
                cul = rng.choice(['counter', '4', 'dup', 'depth', '"s"', 'nil', 'over', '|ff|', 'true', '0x10', 'counter', 'counter'])
                body = rng.choice(['1 2 3 {C}', ': fill 1 2 3 {C} dup + ; fill', '1 2 3 drop 9 {C} 5', ': a 3 {C} ; : b 2 a ; 1 b', '3 0 do I loop {C}',
                                   '1 2 true if 3 {C} then', '1 2 3 {C} 1 +', ': fill 1 2 3 {C} ;\n fill'])
                lim = 3
            text = pre + body + rng.choice(['', ' 1 2', '\n3', ' \\ tail'])
            ci = text.index('{C}')
            text = text.replace('{C}', cul, 1)
            a = len(text[:ci].encode('utf-8'))
            b = a + len(cul.encode('utf-8'))
            steps = ['xs limits 6000 - -', 'eval %s' % hexsrc('7 var counter')] + (['stacklimit %d' % lim] if lim else []) + \
                    ['eval %s' % hexsrc(text), 'errloc', 'pretty']
            case = ' | '.join(steps)
            cs.append(case)
            self.expect[case] = (1, expected_loc(text, a, b), text, cul)
        # included text: the failing token is in a file read with `include` (implementation only: file access is outside the model) -
        # read once, read twice (the later reading redefines the word that fails), and reached from a later source
        import os
        scratch = os.path.join(lib.HARNESS, 'target', 'scratch')
        os.makedirs(scratch, exist_ok=True)
        for f_ in os.listdir(scratch):
            if f_.startswith('c17_') and not f_.startswith('c17_%d_' % os.getpid()):
                try:
                    os.remove(os.path.join(scratch, f_))
                except OSError:
                    pass
        for i in range(40 if tier == 'quick' else 400):
            cul, core = rng.choice([('+', '"a" 1 {C}'), ('/', '1 0 {C}'), ('assert', 'false {C}'), ('nth', '[ 1 ] 5 {C}'), ('neg', '"s" {C}'), ('zzqq', '{C}')])
            pre = ''.join(' ' + rng.choice(FILL) for _ in range(rng.randint(0, 4))) + ' '
            if cul == 'zzqq':
                ftext = pre + '1 2 + drop\n' + core + ' 5'         # a build error inside the file
            else:
                ftext = pre + ': wq %s ;' % core + rng.choice(['', ' 1 drop', '\n'])
            ci = ftext.index('{C}')
            ftext = ftext.replace('{C}', cul, 1)
            a = len(ftext[:ci].encode('utf-8'))
            b = a + len(cul.encode('utf-8'))
            path = os.path.join(scratch, 'c17_%d_%d.xeh' % (os.getpid(), i))
            with open(path, 'w', encoding='utf-8', newline='') as fh:
                fh.write(ftext)
            inc = 'include "%s"' % path
            if cul == 'zzqq':
                srcs = rng.choice([[inc], ['1 2', inc], [' \n ' + inc + ' 7']])
            else:
                srcs = rng.choice([[inc + ' wq'], [inc, 'wq'], [inc + ' ' + inc + ' wq'], [inc, inc, ' wq'], [inc, '1 drop', inc + '\n: z wq ; z'],
                                   [inc, 'require "%s" wq' % path], [inc + ' #( wq #)']])
            steps = ['xp limits 6000 - -'] + ['eval %s' % hexsrc(g) for g in srcs] + ['errloc', 'pretty']
            case = ' | '.join(steps)
            cs.append(case)
            self.expect[case] = (path, expected_loc(ftext, a, b), ftext, cul)
        # the failing word lives in an EARLIER source and is reached from a later one (directly, through a definition, or from a
        # meta block): the report must name the earlier buffer and the token inside the definition
        for i in range(n // 6):
            good = rng.choice([[], ['1 2 +'], [': helper 1 ;', '7']])
            cul, core = rng.choice([('+', '"a" 1 {C}'), ('/', '1 0 {C}'), ('assert', 'false {C}'), ('nth', '[ 1 ] 5 {C}'), ('neg', '"s" {C}')])
            pre = ''.join(' ' + rng.choice(FILL) for _ in range(rng.randint(0, 4))) + ' '
            text = pre + ': wq %s ;' % core + rng.choice(['', ' 1', '\n'])
            ci = text.index('{C}')
            text = text.replace('{C}', cul, 1)
            a = len(text[:ci].encode('utf-8'))
            b = a + len(cul.encode('utf-8'))
            caller = rng.choice(['wq', ' \n wq', ': z wq ; z', '#( wq #)', '#( true if wq then #)', '#( 2 0 do wq loop #)', '7 #( wq #) +', '[ #( wq #) ]'])
            steps = ['xs limits 6000 - -'] + ['eval %s' % hexsrc(g) for g in good] + ['eval %s' % hexsrc(text), 'eval %s' % hexsrc(caller), 'errloc', 'pretty']
            case = ' | '.join(steps)
            cs.append(case)
            self.expect[case] = (len(good), expected_loc(text, a, b), text, cul)
        return cs

    def group_check(self, cases, impl):
        fails, samples = [], []
        n = deep = 0
        for c, o in zip(cases, impl):
            if c not in getattr(self, 'expect', {}) or 'PANIC' in o:
                continue
            bufno, exp, text, cul = self.expect[c]
            ou = o.split(' | ')
            n += 1
            if exp[0] > 0 or ': ' in text or 'do ' in text:
                deep += 1
            res, loc = ou[-3], ou[-2]
            if res == 'ok':
                fails.append(('case: %s\nsource: %r' % (c, text), 'the planted failure did not fail'))
                continue
            want = 'loc:%s:%d:%d:%d-%d:%d-%d' % (('<buffer#%d>' % bufno if isinstance(bufno, int) else bufno,) + exp)
            if loc != want:
                fails.append(('case: %s\nsource: %r\nculprit: %s\nreported: %s\nexpected: %s' % (c, text, cul, loc, want),
                              'the reported location is not the culprit token'))
        if cases:
            samples.append(dict(source=self.expect[cases[0]][2], reported=impl[0].split(' | ')[-2]))
        return n, fails, samples, dict(located_errors=n, nested_or_later_line=deep)

    def canon_model(self, s):
        return s

    def post_model(self, mirror, exes):
        # the model cannot recover the location of a run-time failure inside a meta block of a rejected source
        return mirror

    def same(self, impl, mirror):
        if 'loc:?' in mirror:
            # a run-time failure inside a meta block of a rejected source: the model state is already unwound
            return re.sub(r'loc:\S+', 'loc:?', impl) == mirror
        return impl == mirror

    def canon_impl(self, s):
        return re.sub(r'pretty:\w+', 'pretty:-', s)


PROP = C17()
