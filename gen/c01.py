"""C01: structured control flow compiles to bytecode that means what the source says."""
from .engine import Prop
from .progs import Gen, hexsrc
from .xsbase import XS_TRUSTED, XS_ASSUME
import itertools


class C01(Prop):
    id = 'C01'
    trusted_base = XS_TRUSTED + ['the structural evaluator Model/Struct.v (parser + big-step semantics) is the specification; it shares '
                                 'the semantics of primitive (non-control) words with the machine model']
    assumptions = XS_ASSUME
    rule = ('programs derived from the control-flow grammar: literals, stack/arithmetic/comparison/collection words, if/else/then, '
            'case/of/endof/endcase, begin/while/repeat/until/break, do/loop with I J K and break, definitions with locals, redefinition '
            'and bounded recursion, global variables - weights favour empty bodies, zero- and one-trip loops, break at every legal depth, '
            'local inside loops; plus the exhaustive set of all token sequences up to 5 (quick) / 6 (thorough) tokens over a reduced '
            'control-flow alphabet, and a malformed fraction. Each is evaluated on a fresh interpreter under an instruction limit. '
            'Each source is also compiled without running (kind c1c) and the emitted bytecode compared cell by cell with the mirror\'s '
            'and with Struct.layout_program of the parsed tree. '
            'Three-way comparison: implementation vs the compiled mirror (Build.v + Vm.v) vs the structural evaluator (Struct.v): first '
            'error (kind, payload, token), data stack, variables, output, loop stack, call depth. non-trivial = distinct program with at '
            'least one control structure')

    def classify(self, line):
        return line.split(' ')[0]

    def nontrivial(self, line):
        if line.startswith('xs '):
            return True
        h = line.split(' ')[2 if line.startswith('c1 ') else 1]
        src = bytes.fromhex(h).decode('utf-8', 'replace') if h != '-' else ''
        return any(k in src.split() for k in ('if', 'do', 'begin', 'case', ':'))

    def canon_impl(self, s):
        return s

    def generate(self, rng, tier):
        thorough = tier == 'thorough'
        cs = []
        fixed = ['3 0 do loop I', 'begin repeat 7', ': f if local a a else local b b then ; 5 false f', '3 0 do I loop', '0 0 do I loop',
                 '6 5 do 3 2 do 1 0 do I J K loop loop loop', 'begin 1 break repeat', 'begin true if break else break then repeat',
                 '1 if then', 'nil if 1 then 2', '5 case 5 of 1 endof endcase', '5 case endcase', '5 case drop 9 endcase',
                 '0 begin dup 5 < while 1 + repeat', 'begin 1 true until', ': f ; f', ': f 1 ; : f 2 ; f', ': r local n n 0 > if n 1 - r then ; 3 r',
                 '3 0 do I 1 == if break then I loop', '2 0 do 2 0 do J I break loop loop', ': f 3 0 do I local x x loop ; f',
                 '1 var v v 2 ! v v', 'begin break repeat', '0 begin 1 + dup 3 > if break then repeat', '3 0 do 9 break 8 loop',
                 'begin begin break repeat break repeat 4', '0 begin 1 + dup case 1 of 7 endof 2 of break endof 3 of break endof endcase repeat',
                 '5 0 do I 1 > if I 2 == if break then I 3 == if break then then I loop', 'begin 1 if 0 if break then 1 if break then else break then repeat 8', '1 case 1 of 2 case 2 of 3 endof endcase endof endcase',
                 '1 0 do 7 loop 8', ': f begin 1 break repeat ; f f', ': f local x x 1 + local x x ; 5 f',
                 ': g local a local b a b + local a a b ; 1 2 g', ': h local x 3 0 do x I + local x loop x ; 10 h',
                 # bounds that `do` refuses: both operands are consumed, nothing else is touched
                 '11 22 7 "x" do I loop', '11 22 "x" 7 do I loop', '"x" do I loop', ': f do I loop ; "s" f', '1 2 3 nil nil do loop', '9 7 0.5 do I loop',
                 '9 0.5 7 do I loop', '5 true 0 do I loop 6', '4 4 [ 1 ] 0 do loop',
                 # a redefined global: words compiled before keep the old variable
                 '1 var x : getx x ; 2 var x getx x', '0 var n : bump n 1 + ! n ; 10 var n 3 0 do bump loop n', '1 var v 2 var v v 3 ! v v',
                 '5 var a : sa ! a ; 6 var a 7 sa a', ': k 1 ; 2 var k k', '1 var w : w 9 ; w']
        for f in fixed:
            cs.append('c1 6000 %s' % hexsrc(f))
        # exhaustive small scope over a reduced alphabet
        alpha = ['1', '0', 'true', 'if', 'else', 'then', 'begin', 'until', 'repeat', 'while', 'break', 'do', 'loop', 'I', 'dup', 'drop',
                 'case', 'of', 'endof', 'endcase', '2']
        k = 5 if thorough else 4
        for n in range(1, k + 1):
            for tup in itertools.product(alpha, repeat=n):
                # prune: keep sequences containing at least one control word, cap the total
                if not any(t in ('if', 'begin', 'do', 'case') for t in tup):
                    continue
                if n == k and rng.random() > (0.25 if thorough else 0.04):
                    continue
                cs.append('c1 300 %s' % hexsrc(' '.join(tup)))
        # definitions whose locals are redeclared (the newest declaration wins), in straight line code, branches and loops
        for i in range(150 if not thorough else 3000):
            names = ['x', 'y', 'z'][:rng.randint(1, 3)]
            body = ' '.join('local %s' % nm for nm in names)
            for _ in range(rng.randint(1, 4)):
                nm = rng.choice(names)
                upd = '%s %s local %s' % (rng.choice(names), rng.choice(['1 +', '2 *', 'neg', 'dup *', 'drop 7']), nm)
                form = rng.random()
                if form < 0.5:
                    body += ' ' + upd
                elif form < 0.75:
                    body += ' %s 0 > if %s then' % (rng.choice(names), upd)
                else:
                    body += ' 2 0 do %s loop' % upd
            body += ' ' + ' '.join(names)
            args = ' '.join(str(rng.randint(-3, 9)) for _ in names)
            cs.append('c1 6000 %s' % hexsrc(': f %s ; %s f' % (body, args)))
        # several `break`s pending above one conditional when it is closed: a loop body whose single outer conditional (if/else or
        # case with several branches) encloses 0..4 break sites, each in its own already-closed inner conditional or bare in a branch
        def brk_piece():
            c = 'dup %d %s' % (rng.randint(0, 7), rng.choice(['==', '>', '<']))
            return rng.choice(['%s if break then' % c, '%s if break else 1 drop then' % c, '%s if 2 drop else break then' % c,
                               '%s if %s if break then then' % (c, c), 'break', '3 drop'])

        def brk_seq():
            return ' '.join(brk_piece() for _ in range(rng.randint(0, 4)))
        for i in range(300 if not thorough else 6000):
            form = rng.random()
            c = 'dup %d %s' % (rng.randint(0, 7), rng.choice(['==', '>', '<', '<>']))
            if form < 0.35:
                outer = '%s if %s then' % (c, brk_seq())
            elif form < 0.6:
                outer = '%s if %s else %s then' % (c, brk_seq(), brk_seq())
            elif form < 0.9:
                outer = 'dup case ' + ' '.join('%d of %s endof' % (k_, brk_seq()) for k_ in rng.sample(range(8), rng.randint(1, 4))) + \
                        rng.choice([' endcase', ' drop 9 endcase', ' %s endcase' % brk_seq()])
            else:
                outer = '%s if %s if %s then %s then' % (c, c, brk_seq(), brk_seq())
            lp = rng.random()
            if lp < 0.4:
                src = '0 begin 1 + dup 6 > if break then %s repeat' % outer
            elif lp < 0.7:
                src = '8 0 do I %s drop loop' % outer
            elif lp < 0.85:
                src = ': f 0 begin 1 + dup 6 > if break then %s repeat ; f' % outer
            else:
                src = '0 begin 1 + %s dup 5 > until' % outer
            cs.append('c1 6000 %s' % hexsrc(src))
        n = 2500 if not thorough else 60000
        for i in range(n):
            g = Gen(rng, meta=False, bad=0.03 if i % 5 else 0.12, io=(i % 3 == 0), reals=False, plain=(i % 4 != 0))
            # restrict to the grammar of C01: no builders/tags/let/foreach beyond what Struct.v parses -> those become unsupported
            cs.append('c1 6000 %s' % hexsrc(g.program()))
        # histories: a counted loop / call abandoned by a run-time error leaves nothing visible to the next source
        self.after_fail = {}
        fails_ = ['5 0 do 10 I 3 - / drop loop', '3 0 do 2 0 do 1 0 / loop loop', ': f 4 0 do I 2 == if "x" 1 + then loop ; f', '2 0 do nosuch loop',
                  '3 0 do I 1 == if 1 assert-eq then loop', '[ 1 2 3 ] foreach I 2 == if drop drop then loop']
        probes_ = [('I', 'ELoopUnderflow'), ('J', 'ELoopUnderflow'), ('2 0 do J loop', 'ELoopUnderflow'), ('3 0 do I loop', 'ok'), ('depth', 'ok'),
                   (': g I ; g', 'ELoopUnderflow'), ('K', 'ELoopUnderflow')]
        for f_ in fails_:
            for pr, want in probes_:
                case = 'xs limits 6000 - - | eval %s | eval %s | stack' % (hexsrc(f_), hexsrc(pr))
                cs.append(case)
                self.after_fail[case] = want
        # the same sources compiled only: the emitted bytecode against the compiled mirror and against the jump-resolved layout
        # of the parsed tree (Struct.layout_program) - the object the compile-correctness theorems of Props/C01.v are about
        cs += ['c1c %s' % c.split(' ')[2] for c in cs]
        return cs

    BUILD_KINDS = ('EFlow', 'EParse', 'EUnknown', 'EExpectName', 'EExpectLit', 'ELetSyntax', 'EConst')

    def meets(self, a, s):
        """an ill-formed source (the structural parser refuses a control word: EFlow) must be refused at build time with nothing
        executed; which of several defects of such a source the compiler names first is not part of the property (`of` is only
        checked when its `endof` / `endcase` or the end of the source is reached)"""
        if a == s:
            return True
        if a.startswith('R=ELimit '):
            return True      # stopped by the instruction limit of the harness: decided by the second pass (group_check) under a larger limit
        if s.startswith('R=EFlow '):
            ra, _, resta = a.partition(' ')
            _, _, rests = s.partition(' ')
            return resta == rests and ra[2:].split('(')[0] in self.BUILD_KINDS
        return False

    def group_check(self, cases, impl):
        r = self.group_check_limit(cases, impl)
        fails = list(r[1])
        n = r[0]
        for c, o in zip(cases, impl):
            if c in getattr(self, 'after_fail', {}):
                n += 1
                ou = o.split(' | ')
                want = self.after_fail[c]
                if ou[1] == 'ok':
                    continue        # the first source did not fail (not the situation this family is about)
                got = ou[2].split('(')[0]
                if got != want:
                    fails.append(('case: %s\nsources: %s\nresult: %s' % (c, ' ;; '.join(bytes.fromhex(x.split(' ')[1]).decode() for x in c.split(' | ')[1:3]), o[:400]),
                                  'after a source that failed inside a loop, `%s` gives %s (expected %s): a loop index of the abandoned loop is visible' % (
                                      bytes.fromhex(c.split(' | ')[2].split(' ')[1]).decode(), got, want)))
        return n, fails, r[2], r[3]

    def group_check_limit(self, cases, impl):
        """programs stopped by the instruction limit are run again under a limit 20 times larger; those that finish are compared
        with both models under that limit, those that do not must not have finished structurally either"""
        from . import lib
        idx = [i for i, (c, a) in enumerate(zip(cases, impl)) if c.startswith('c1 ') and a.startswith('R=ELimit')]
        if not idx:
            return 0, [], [], dict(rerun_under_larger_limit=0)
        big = 120000
        again = ['c1 %d %s' % (big, cases[i].split(' ')[2]) for i in idx]
        a2 = lib.run_impl(self.exes[self.profiles[0]], again)
        fails = []
        fin = [k for k, a in enumerate(a2) if not a.startswith('R=ELimit')]
        for k, a in enumerate(a2):
            s1 = self.last_spec[idx[k]]
            if a.startswith('R=ELimit') and s1 != '-' and not s1.startswith('R=ELimit'):
                fails.append(('case: %s\nimplementation: %s\nspecification: %s' % (again[k], a, s1),
                              'still running after %d instructions where the structural evaluation has finished' % big))
        if fin:
            m2, s2 = lib.run_model(lib.build_model_driver(), [again[k] for k in fin])
            for k, m, s in zip(fin, m2, s2):
                a = a2[k]
                if s != '-' and not self.meets(a, s):
                    fails.append(('case: %s\nimplementation: %s\nmirror-model: %s\nspecification: %s' % (again[k], a, m, s),
                                  'differs from the structural evaluation'))
                elif m != 'UNSUP' and a != m:
                    fails.append(('case: %s\nimplementation: %s\nmirror-model: %s' % (again[k], a, m), 'differs from the compiled mirror'))
        return len(idx), fails, [], dict(rerun_under_larger_limit=len(idx), finished_under_larger_limit=len(fin))

    def known(self, line, impl, spec):
        return None


PROP = C01()
