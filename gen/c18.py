"""C18: text encodings of binary data round-trip."""
from .xsbase import *
from . import cells

ENC = ['base32', 'base32hex', 'base64', 'zero85']
ALPHA = {
    'base32': 'ABCDEFGHIJKLMNOPQRSTUVWXYZ234567=',
    'base32hex': '0123456789ABCDEFGHJKMNPQRSTVWXYZ',
    'base64': 'ABCDEFGHIJKLMNOPQRSTUVWXYZabcdefghijklmnopqrstuvwxyz0123456789+/=',
    'zero85': '0123456789abcdefghijklmnopqrstuvwxyzABCDEFGHIJKLMNOPQRSTUVWXYZ.-:+=^!/*?&<>()[]{}@%$#',
}


# the characters each decoder accepts (the sets of the theorems C18_b32_invalid / C18_b64_invalid / C18_z85_invalid): the alphabet, in
# either letter case for the two base-32 variants, '=' for RFC 4648 and base64, the aliases I L O for Crockford
ACCEPT = {
    'base32': set(ALPHA['base32'] + ALPHA['base32'].lower()),
    'base32hex': set(ALPHA['base32hex'] + ALPHA['base32hex'].lower() + 'ILOilo'),
    'base64': set(ALPHA['base64']),
    'zero85': set(ALPHA['zero85']),
}


class C18(XsProp):
    id = 'C18'
    rule = ('byte strings: every single byte, boundary patterns of length 2..5 (00/ff/80/7f mixes), every length 0..40 and random lengths '
            'to 300, given as aligned bit-strings, as unaligned slices of a larger input (the copying path), as strings and as byte '
            'vectors; each is encoded with base32 / base32hex / base64 / zero85 and decoded again (direct predicate: the original bytes '
            'come back); invalid text of four classes (foreign character, bad length, misplaced padding, non-canonical tail, non-string '
            'argument, empty stack) must give nil, never an error; inputs that are not a whole number of bytes must be rejected by encode '
            'exactly like >bitstr + byte export. non-trivial = distinct (encoding, bytes) of length >= 1')

    def generate(self, rng, tier):
        thorough = tier == 'thorough'
        datas = [bytes([b]) for b in range(256)]
        pats = [0x00, 0xff, 0x80, 0x7f, 0x01, 0x55]
        for ln in (2, 3, 4, 5):
            for _ in range(40 if not thorough else 400):
                datas.append(bytes(rng.choice(pats) for _ in range(ln)))
        for ln in range(0, 41):
            datas.append(bytes(rng.getrandbits(8) for _ in range(ln)))
        for _ in range(60 if not thorough else 2000):
            datas.append(bytes(rng.getrandbits(8) for _ in range(rng.randint(0, 300))))
        cs = []
        self.expect = {}
        for d in datas:
            for e in (ENC if (thorough or len(d) != 1) else [rng.choice(ENC), rng.choice(ENC)]):
                form = rng.choice(['bits', 'slice', 'str', 'vec', 'view']) if len(d) < 60 else rng.choice(['bits', 'slice', 'view'])
                bits = ''.join('{:08b}'.format(b) for b in d)
                if form == 'bits':
                    pre = 'push B%s' % (bits or '-')
                elif form == 'slice':
                    off = rng.randint(1, 7)
                    allbits = ''.join(rng.choice('01') for _ in range(off)) + bits + ''.join(rng.choice('01') for _ in range((-(off + len(bits))) % 8))
                    hx_ = ''.join('%02x' % int(allbits[i:i + 8], 2) for i in range(0, len(allbits), 8)) or '-'
                    pre = 'input %s %d %d | eval %s' % (hx_, off, off + len(bits), hexsrc('%d bits' % len(bits)))
                elif form == 'view':
                    # a byte-aligned view into a longer buffer: bytes before and after it belong to the buffer, not to the value
                    pre_b = bytes(rng.getrandbits(8) for _ in range(rng.choice([0, 1, 2])))
                    post_b = bytes(rng.getrandbits(8) for _ in range(rng.choice([1, 2, 3])))
                    hx_ = (pre_b + d + post_b).hex()
                    pre = 'input %s %d %d | eval %s' % (hx_, 8 * len(pre_b), 8 * (len(pre_b) + len(d) + len(post_b)), hexsrc('%d bits' % len(bits)))
                elif form == 'str':
                    try:
                        t = d.decode('utf-8')
                        if any(ord(ch) < 32 for ch in t):
                            raise ValueError
                        pre = 'push %s' % cells.fmt(('S', d))
                    except Exception:
                        pre = 'push B%s' % (bits or '-')
                else:
                    pre = 'push %s' % cells.fmt(('V', [('I', b) for b in d]))
                case = 'xs limits 3000 - - | %s | eval %s | stack | eval %s | stack' % (pre, hexsrc(e), hexsrc(e + '>'))
                cs.append(case)
                self.expect[case] = bits
        # invalid text
        for e in ENC:
            for _ in range(120 if not thorough else 3000):
                k = rng.random()
                al = ALPHA[e]
                n = rng.randint(0, 24)
                t = ''.join(rng.choice(al) for _ in range(n))
                if k < 0.3:
                    i = rng.randint(0, len(t))
                    t = t[:i] + rng.choice(' é~\x01|,_"') + t[i:]
                elif k < 0.5:
                    t = t + rng.choice(['=', '==', '===', '#', '##'])
                elif k < 0.6:
                    t = rng.choice(['=', '#']) + t
                elif k < 0.7 and n:
                    # the valid encoding of some bytes with the other decoder's padding / a stray pad inside
                    t = t.rstrip('=') + rng.choice(['=', '====', '======']) if rng.random() < 0.7 else t[:n // 2] + '=' + t[n // 2:]
                arg = rng.choice(['str', 'str', 'str', 'int', 'none'])
                if '"' in t or '\\' in t:
                    t = t.replace('"', 'q').replace('\\', 'b')
                if arg == 'str':
                    cs.append('xs limits 3000 - - | push %s | eval %s | stack' % (cells.fmt(('S', t.encode())), hexsrc(e + '>')))
                elif arg == 'int':
                    cs.append('xs limits 3000 - - | push I5 | eval %s | stack' % hexsrc(e + '>'))
                else:
                    cs.append('xs limits 3000 - - | eval %s | stack' % hexsrc(e + '>'))
        # padding-mark texts (witness family of the repaired D39: `"#####" zero85>` panicked inside the z85 crate): every text of one
        # group over a four-letter alphabet containing the decoder's padding mark, runs of the mark alone, and a valid group followed by them
        import itertools
        for e, mark, al4 in (('zero85', '#', '#01%'), ('base32', '=', '=AQ7'), ('base32hex', '=', '=0GZ'), ('base64', '=', '=AQ/')):
            glen = 5 if e == 'zero85' else (4 if e == 'base64' else 8)
            texts = [mark * k for k in range(0, 3 * glen + 1)]
            if glen <= 5:
                texts += [''.join(t) for t in itertools.product(al4, repeat=glen)]
            else:
                texts += [''.join(rng.choice(al4) for _ in range(glen)) for _ in range(400)]
            texts += [''.join(rng.choice(al4) for _ in range(glen)) + mark * k for k in range(1, glen + 1) for _ in range(6)]
            for t in texts:
                cs.append('xs limits 3000 - - | push %s | eval %s | stack' % (cells.fmt(('S', t.encode())), hexsrc(e + '>')))
        # encode accepts exactly what >bitstr + byte export accepts
        for _ in range(200 if not thorough else 4000):
            c = cells.rand_cell(rng, types=['bits', 'bits', 'str', 'vec', 'int', 'nil', 'map'])
            e = rng.choice(ENC)
            cs.append('xs limits 3000 - - | clone | push %s | eval %s | use 1 | push %s | eval %s' % (
                cells.fmt(c), hexsrc(e), cells.fmt(c), hexsrc('>bitstr dup length 8 rem 0 == assert drop')))
        return cs

    def group_check(self, cases, impl):
        fails, samples = [], []
        n = inval = 0
        for c, o in zip(cases, impl):
            if 'PANIC' in o:
                fails.append(('case: %s\nresult: %s' % (c, o[:300]), 'the word panicked'))
                continue
            ou = o.split(' | ')
            st = c.split(' | ')
            if c in getattr(self, 'expect', {}):
                n += 1
                bits = self.expect[c]
                enc = ou[-4]
                back = ou[-2]
                got = [t for t in ou[-1].strip('[] ').split(' ') if t]
                if enc != 'ok' or back != 'ok' or got[-1:] != ['B' + (bits or '-')]:
                    fails.append(('case: %s\nresult: %s' % (c, o[:800]), 'decode(encode(x)) is not x'))
            elif 'clone' in st:
                n += 1
                iu = st.index('use 1')
                a, b = ou[iu - 1], ou[-1]
                ka = 'ok' if a == 'ok' else 'err'
                kb = 'ok' if b == 'ok' else 'err'
                if ka != kb:
                    fails.append(('case: %s\nresult: %s' % (c, o[:800]), 'encode accepts a different input set than >bitstr + byte export'))
            else:
                inval += 1
                res = ou[-2]
                got = [t for t in ou[-1].strip('[] ').split(' ') if t]
                if res != 'ok':
                    fails.append(('case: %s\nresult: %s' % (c, o[:800]), 'decoding raised an error instead of yielding nil'))
                elif got and got[-1] != 'N' and not got[-1].startswith('B'):
                    fails.append(('case: %s\nresult: %s' % (c, o[:800]), 'decoding produced something that is neither nil nor bytes'))
                elif st[1].startswith('push S') and got[-1:] != ['N'] and any(
                        ch not in ACCEPT[src_of(c)[0].rstrip('>')] for ch in bytes.fromhex(st[1][6:].replace('-', '')).decode('utf-8')):
                    fails.append(('case: %s\ntext: %r\nresult: %s' % (c, bytes.fromhex(st[1][6:].replace('-', '')).decode('utf-8'), o[:300]),
                                  '`%s` decoded text that contains a character outside its alphabet' % src_of(c)[0]))
                elif len(got) != 1:
                    # the decoder takes one argument and yields one value: the text must not stay behind under the nil
                    fails.append(('case: %s\nresult: %s' % (c, o[:800]), 'decoding left %d values on the stack instead of the one result (nil or bytes)' % len(got)))
        if cases:
            samples.append(dict(case=cases[300][:200] if len(cases) > 300 else cases[0][:200], result=(impl[300] if len(impl) > 300 else impl[0])[:200]))
        return n + inval, fails, samples, dict(round_trips=n, invalid_texts=inval)


PROP = C18()
