"""Programs around `enum Name ... endenum`: hand-written sessions and a small grammar-based generator.
`cases(rng, n, thorough)` returns case lines of kind `xs` ready for the engine (implementation vs. mirror model)."""
from .progs import hexsrc

I128MAX = '170141183460469231731687303715884105727'
I128MIN = '-170141183460469231731687303715884105728'
BOOT_DICT = 239

def is_overflow_case(case):
    """a field without explicit value after a field whose value is i128::MAX: `prev + 1` does not fit.  Formerly finding E1 (a panic
    with overflow checks, a silent wrap without); since /repo a1add4a the field word fails with IntegerOverflow before anything is
    pushed or defined, and these are ordinary cases compared with the model (EOverflow)"""
    from .xsbase import src_of
    return any(I128MAX in s and ' : ' in s[s.index(I128MAX):] for s in src_of(case))


def is_mode_finding(case):
    """finding E3 (C15, still open): an `endenum` whose block returns to the source's own, non-meta context with a value on the
    caller's stack - eval reports the unused stack elements (Msg), compile the unbalanced enum (Flow), because compile hides the
    caller's stack.  Implementation and model agree on each of the two; only a comparison ACROSS drive modes sees the finding"""
    import re
    from .xsbase import src_of
    srcs = src_of(case)
    return any(re.search(r'#\(\s+(\S+\s+)*?endenum', x) and 'enum ' not in x.split('endenum')[0] for x in srcs) and len(srcs) > 1


# ---- hand-written sessions: a list of sources evaluated one after the other on one state
HAND = [
    # plain, explicit, mixed, expressions
    ['enum E : A : B : C endenum A B C'],
    ['enum E 3 = A : B 10 = C : D endenum A B C D'],
    ['enum E : A 1 = B A B + = C : D endenum A B C D'],
    ['enum E 1 2 + = C endenum C'],
    ['enum E -1 = A : B : C endenum A B C'],
    ['enum E -5 = A : B endenum A B'],
    ['enum E endenum'],
    ['enum E endenum 5'],
    ['7 enum E endenum 5'],
    ['enum E\n  : A   \\ first\n  : B\nendenum\nA B'],
    ['enum E \\( c \\) : A endenum A'],
    ['enum E : A endenum', 'A', 'enum F : A2 endenum A A2'],
    ['enum E : A : B endenum', 'enum E : A : B : C endenum A B C'],
    ['enum E 0x10 = A 0b11 = B : C endenum A B C'],
    ['enum E 9223372036854775807 = A : B endenum A B'],
    ['enum E 18446744073709551616 = A : B endenum A B'],
    ['enum E %s = A : B endenum A B' % I128MIN],
    ['enum E %s = A : B endenum A B' % I128MAX],          # IntegerOverflow at `: B`
    ['enum E %s = A : B endenum A B' % I128MAX, 'A', 'B', 'enum F : X endenum X'],
    ['enum E %s 1 - = A : B : C endenum A B C' % I128MAX],
    ['enum E %s = A 1 = B : C endenum A B C' % I128MAX],
    ['enum E %s 1 - = A : B endenum A B' % I128MAX],
    ['enum E 5 "v" "k" insert-tag = A : B endenum A B'],
    ['enum E 3 0 do I loop + + = A : B endenum A B'],
    ['enum E 1 if 5 else 6 then = A endenum A'],
    ['enum E [ 1 2 3 ] length = A endenum A'],
    [': sq dup * ;', 'enum E 3 sq = N : M endenum N M'],
    ['5 var v', 'enum E v = A endenum A'],
    ['enum E #( 7 #) = B endenum B'],
    ['enum E : A #( 7 8 + #) = B : C endenum A B C'],
    ['enum E 5 const K : A endenum K A'],
    ['enum E : A depth = B endenum A B'],
    ['1 2 enum E depth = A endenum A depth'],
    ['1 2 enum E : A : B endenum + A B'],
    # enum inside other constructs
    [': f enum E : A : B endenum A B + ; f'],
    [': f 10 enum E : A 4 = B endenum B + ; f f'],
    [': f local x enum E : A endenum x A + ; 5 f'],
    ['#( enum E : A : B endenum A B + #)'],
    ['#( enum E : A : B endenum #) A B'],
    ['[ enum E : A : B endenum A B ]'],
    ['{ enum E : A : B endenum A B }'],
    ['1 if enum E : A endenum A then'],
    ['3 0 do enum E : A : B endenum B loop'],
    ['begin enum E : A endenum A 0 == until'],
    [': f 1 if enum E 7 = A endenum A else 2 then ; f'],
    ['#( #( enum E : A endenum #) A #)'],
    ['[ 1 #( enum E : A 5 = B endenum B #) 3 ]'],
    # nested enums
    ['enum E : A enum F : X : Y endenum : B endenum A B X Y'],
    ['enum E enum F : X endenum : A endenum A X'],
    ['enum E : A enum F : X endenum endenum A X'],
    ['enum E : A enum F : X X 5 + = Y endenum Y = B endenum A B X Y'],
    ['enum E enum F enum G : Z endenum endenum endenum Z'],
    ['enum E : A enum F : X'],
    ['enum E : A enum F : X endenum'],
    # unbalanced
    ['enum E : A'],
    ['enum E'],
    ['enum E : A : B', 'A', 'endenum'],
    ['endenum'],
    ['1 endenum'],
    ['#( endenum #)'],
    ['#( endenum'],
    ['#( 1 endenum #)'],
    ['#( 1 if endenum then #)'],
    ['[ endenum ]'],
    [': f endenum ;'],
    ['#( [ endenum ] #)'],
    ['#( #( endenum #) #)'],
    ['#( #( endenum'],
    ['enum E : A endenum endenum'],
    ['enum E #) : A endenum'],
    ['enum E #) endenum'],
    ['enum E #) #) : A'],
    ['enum E #) #)', ': f 1 ; f'],
    ['enum E : A ~) endenum'],
    ['enum E "1" ~) = A endenum A'],
    ['enum E ": A" ~) endenum A'],
    ['enum E : A ; endenum'],
    ['enum E ] endenum'],
    ['enum E then endenum'],
    ['enum E 1 if = A then endenum'],
    ['enum E 1 if : A then endenum'],
    ['enum E 1 if endenum'],
    ['enum E [ 1 : A ] endenum'],
    ['enum E [ 1 endenum'],
    ['enum E : f 1 ; endenum'],
    ['#( : A', '1'],
    ['#( 1 = A', '1'],
    ['#( 1 = A #)'],
    # the second close of `endenum` runs code left in the enum's outer context (formerly finding E2 / D37: a failing run left the
    # context stack short and the rejected source was not fully unwound; ordinary cases since /repo 3a32b85)
    [': f 1 ; 5 enum E #) 1 0 / #( endenum', 'f', 'depth', ': f 2 ; f'],
    [': f 1 ; enum E #) "boom" error #( endenum', 'f f', 'E'],
    ['enum E #) 1 2 #( endenum'],
    ['enum E #) nosuch #( endenum', 'depth'],
    ['7 var keep', ': g 3 ; enum E : A #) drop #( endenum', 'A', 'g', 'keep'],
    ['#( : h 1 ; enum E #) 1 0 / #( endenum #)', 'h', '#( 1 #)'],
    ['enum E : A enum F #) 1 0 / #( endenum : B endenum', 'A', 'B'],
    [': w enum E #) 1 0 / #( endenum ;', 'w', ': w 1 ; w'],
    # finding E3: eval and compile report different errors (see is_mode_finding)
    ['7', '#( endenum', 'depth'],
    ['7 8', '#( 1 endenum', 'depth'],
    # `:` and `=` after the enum closed
    ['enum E : A endenum : g A 1 + ; g'],
    ['enum E : A endenum 1 1 = 1 2 ='],
    ['enum E : A endenum', ': h 5 ; h 5 ='],
    ['enum E : A nosuch endenum', ': h 5 ; h 5 ='],
    ['#( enum E : A endenum #) : g A ; g 0 ='],
    # leftovers / values
    ['enum E : A 5 endenum'],
    ['enum E 1 : A endenum'],
    ['enum E 2 3 = B endenum'],
    ['enum E 2 3 = B drop endenum B'],
    ['enum E 1 : A = B endenum A B'],
    ['enum E "s" = A endenum'],
    ['enum E 1.5 = A endenum'],
    ['enum E nil = A endenum'],
    ['enum E true = A endenum'],
    ['enum E [ 1 ] = A endenum'],
    ['enum E "s" "v" "k" insert-tag = A endenum'],
    ['enum E |ff| = A endenum'],
    ['enum E = A endenum'],
    ['9 enum E = A endenum'],
    ['enum E drop endenum'],
    ['9 enum E drop endenum'],
    ['enum E 1 0 / = A endenum'],
    ['enum E : A 1 0 / endenum', 'A'],
    ['enum E "boom" error : A endenum', 'A'],
    ['enum E nil assert endenum'],
    # names
    ['enum'],
    ['enum 5'],
    ['enum "s"'],
    ['enum 5 : A endenum'],
    ['enum E :'],
    ['enum E : 5 endenum'],
    ['enum E : "s" endenum'],
    ['enum E 1 ='],
    ['enum E 1 = 5 endenum'],
    ['enum E 1 = |ff| endenum'],
    ['enum E : 0x'],
    ['enum E : A : 1.5'],
    ['enum \\ c'],
    ['enum E : \\ c\n A endenum A'],
    ['enum E : dup : drop : true endenum dup drop true'],
    ['enum E : A : A endenum A'],
    ['enum E 4 = A 9 = A : A endenum A'],
    ['enum E : : endenum', ': f 1 ;'],
    ['enum E : : : A endenum'],
    ['enum E : = 5 = B endenum'],
    ['enum E : endenum endenum'],
    ['enum E : enum enum F endenum'],
    ['enum E : E endenum E'],
    ['enum if : A endenum A'],
    ['enum : : A endenum A'],
    ['enum endenum : A endenum A'],
    ['enum E : #( endenum'],
    ['enum E : if endenum if'],
    ['1 const A', 'enum E : A endenum A'],
    ['#( 1 const A #)', 'enum E : B : A endenum A B'],
    ['1 var A', 'enum E : A endenum A'],
    [': A 5 ;', 'enum E : A endenum A'],
    ['enum E : A endenum', '#( 9 const A #) A'],
    ['enum E : A endenum', '5 var A A'],
    ['enum E : A endenum', '! A'],
    ['enum E : A endenum', '5 ! A'],
    ['enum E : A endenum', 'defined A defined E defined :'],
    ['enum E defined : defined = defined A endenum'],
    ['enum E : %enum-field endenum %enum-field'],
    ['%enum-field'],
    ['%enum-field-set'],
    # words that look at the dictionary / use the field words indirectly
    ['enum E late : endenum'],
    ['enum E late zz : A endenum'],
    ['late : enum E endenum'],
    [': m immediate 7 ;', 'enum E m = A endenum A'],
    [': m immediate 7 ;', 'enum E : A m endenum'],
    ['enum E : m immediate 1 ; endenum'],
    ['enum E 1 var w endenum'],
    ['enum E 5 let x endenum'],
    ['enum E local x endenum'],
    # unwinding: a failing source with an open enum, then later sources
    ['enum E : A : B nosuch endenum', 'A', ': f 1 ; f', '1 1 ='],
    ['1 2', 'enum E : A 0x', 'depth', 'A'],
    ['enum E : A : B', ': g 2 ; g', 'B'],
    ['enum E 1 0 / = A : B endenum', 'enum E : A : B endenum A B'],
    ['enum E : A enum F : X nosuch', 'A', 'X', 'enum G : Y endenum Y'],
    ['#( enum E : A nosuch #)', 'A', '#( 1 #)'],
    [': f enum E : A nosuch ;', 'f', 'A', ': f 2 ; f'],
    ['[ 1 enum E : A ] ', 'depth', 'A'],
    ['enum E : A endenum nosuch', 'A'],
    ['enum E : A endenum 1 0 /', 'A'],
    ['7 var keep', 'enum E 8 ! keep : A endenum', 'keep'],
    ['7 var keep', 'enum E keep = A endenum', 'keep A'],
    # run-time use
    ['enum E : A : B endenum 3 0 do A B + loop'],
    ['enum Color : Red : Green : Blue endenum : name case Red of "r" endof Green of "g" endof "?" swap endcase ; Green name Blue name'],
    ['enum E : A : B endenum [ A B ] { A "a" B "b" }'],
]

LIMITS = ['- - -', '6000 - -', '3 - -', '1 - -', '0 - -', '6 - -', '10 - -', '- 1 -', '- 0 -', '- 2 -', '- 3 -', '- - 0', '- - 6',
          '- - 7', '8 2 7', '20 1 -']
LIMIT_SRC = [
    'enum E : A : B endenum A B',
    'enum E 1 = A 2 = B endenum A B',
    'enum E 1 2 + = A : B endenum A B',
    '5 enum E 1 = A 2 = B endenum A B',
    '5 6 enum E 1 2 3 + + = A endenum A',
    'enum E 3 0 do I loop + + = A : B endenum A B',
    ': f enum E 1 = A endenum A A ; f',
    '#( enum E 1 = A endenum A A #)',
    'enum E 1 var w endenum',
    '1 var w enum E : A endenum A w',
    'enum E : A enum F 2 = X endenum : B endenum A B X',
    'enum E : A nosuch',
]


def _session(srcs, limits='6000 - -', rec=False, style='eval', tail=True, errloc=True):
    st = ['xs limits %s' % limits]
    if rec:
        st.append('rec on')
    for s in srcs:
        st.append('%s %s' % (style, hexsrc(s)))
        if style == 'compile':
            st.append('run')
        st.append('stack')
    if tail:
        st += ['out'] + (['errloc'] if errloc else []) + ['dict %d' % BOOT_DICT, 'dumplog' if rec else 'dump']
    return ' | '.join(st)


def hand_cases():
    cs = []
    for srcs in HAND:
        cs.append(_session(srcs))
        cs.append(_session(srcs, rec=True))
        cs.append(_session(srcs, style='compile'))
    for lim in LIMITS:
        for s in LIMIT_SRC:
            cs.append(_session([s, 'depth', 'enum Z : Q endenum Q'], limits=lim))
            cs.append(_session([s, 'depth'], limits=lim, rec=True))
    # the open enum seen from inside: code and dictionary dumps are not reachable through the API while an enum is open
    # (a source ends with all contexts closed or is unwound), so the inner state is observed through words that print
    cs.append(_session(['enum E : A depth . A . endenum']))
    cs.append(_session(['enum E 1 2 .s = A endenum']))
    return cs


# ---- generator
NAMES = ['A', 'B', 'C', 'D', 'Red', 'x', 'A', 'dup', 'E', ':', '=', 'endenum', 'enum', 'if', 'é', 'a1', '+', 'I', 'nil', 'true']
LITS = ['5', '"s"', '1.5', '0x', '|ff|', '"abc', '-3']
VALS = ['0', '1', '7', '-1', '-2', '100', '1 2 +', '3 4 *', '2 dup *', '9223372036854775807', '-9223372036854775808', '0xff', '10 3 rem',
        '1 2', '', '"s"', 'nil', '1.5', 'true', '[ 1 ]', '1 0 /', 'drop', 'dup', 'depth', 'nosuch', '#( 4 #)', '1 if 2 else 3 then',
        '3 0 do I loop + +', '5 "v" "k" insert-tag', '#( 1 2 #) +', '[ 1 2 ] length', '7 const K7 K7', I128MAX, I128MIN]
JUNK = ['', '', '', '', '5', 'drop', ';', 'then', ']', '#)', '#(', '~)', 'nosuch', '0x', 'endenum', 'enum', '[', ': q', '1 if', 'loop', '}',
        'immediate', 'depth .', '"t" print', 'late zz', 'defined A']
WRAPS = ['%s', '%s', '%s', ': w %s ; w', '#( %s #)', '[ %s ]', '1 if %s then', '{ %s }', '2 0 do %s loop', ': w %s ;', '#( #( %s #) #)',
         '%s %s', '1 2 %s depth', '#( 1 %s #)', '[ 1 %s 2 ]', ': w local q %s q ; 3 w', 'begin %s 1 until']


class EnumGen:
    def __init__(self, rng):
        self.r = rng
        self.n = 0

    def name(self, wild):
        r = self.r
        if wild and r.random() < 0.12:
            return r.choice(LITS) if r.random() < 0.4 else r.choice(NAMES)
        if wild and r.random() < 0.06:
            return ''
        self.n += 1
        return r.choice(['A', 'B', 'C', 'F', 'Zed', 'k']) + ('%d' % self.n if r.random() < 0.7 else '')

    def enum(self, depth=0, wild=0.25):
        r = self.r
        w = r.random() < wild
        parts = ['enum', self.name(w)]
        names = []
        for _ in range(r.choice([0, 1, 1, 2, 2, 3, 3, 4, 6])):
            k = r.random()
            if k < 0.45:
                nm = self.name(w)
                parts += [':', nm]
            elif k < 0.85:
                nm = self.name(w)
                v = r.choice(VALS) if w else r.choice(VALS[:13])
                if names and r.random() < 0.3:
                    v = '%s %s +' % (r.choice(names), r.choice(['1', '10', '-1']))
                parts += [v, '=', nm]
            elif k < 0.93 and depth < 2:
                sub, subnames = self.enum(depth + 1, wild)
                parts.append(sub)
                names += subnames
                continue
            else:
                parts.append(r.choice(JUNK) if w else '')
                continue
            if nm and nm[0].isalpha() and nm not in NAMES:
                names.append(nm)
        if not (w and r.random() < 0.2):
            parts.append('endenum')
        if w and r.random() < 0.1:
            parts.insert(r.randrange(2, len(parts) + 1), r.choice(JUNK))
        return ' '.join(p for p in parts if p != ''), names

    def program(self):
        r = self.r
        body, names = self.enum(wild=r.choice([0, 0, 0.25, 0.6]))
        use = ' '.join(r.choice(names) for _ in range(r.randint(0, 3))) if names else ''
        w = r.choice(WRAPS)
        if w.count('%s') == 2:
            b2, n2 = self.enum(wild=0.1)
            src = w % (body, b2)
        else:
            src = w % body
        if r.random() < 0.5:
            src = r.choice(['1', '1 2', '"s"', '7 var keep', ': sq dup * ;']) + ' ' + src
        return src, use


def cases(rng, n, thorough=False, errloc=True, findings=True):
    """n generated sessions after the hand-written ones (all of them when thorough, a third otherwise).
    errloc=False drops the `errloc` step (the model prints `loc:?` for failures inside meta blocks, which only the C17 comparison
    understands).  `findings` is kept for callers of the earlier interface and has no effect any more: the overflow of `prev + 1`
    is an ordinary error now"""
    cs = _cases(rng, n, thorough)
    if not errloc:
        cs = [c.replace(' | errloc', '') for c in cs]
    return cs


def _cases(rng, n, thorough):
    cs = hand_cases()
    if not thorough:
        cs = [c for i, c in enumerate(cs) if i % 3 == rng.randrange(3) or i % 7 == 0]
    probes = ['A', 'A1 B2', ': f 1 ; f', '1 1 =', 'depth', 'enum Z : Q endenum Q', 'K7', 'keep', 'w', '2 sq']
    for _ in range(n):
        g = EnumGen(rng)
        srcs = []
        for _ in range(rng.choice([1, 1, 1, 2])):
            src, use = g.program()
            srcs.append(src)
            if use:
                srcs.append(use)
        srcs += [rng.choice(probes) for _ in range(rng.randint(0, 2))]
        k = rng.random()
        lim = '6000 - -' if k < 0.7 else rng.choice(LIMITS)
        cs.append(_session(srcs, limits=lim, rec=rng.random() < 0.25, style='compile' if rng.random() < 0.15 else 'eval'))
    return cs
