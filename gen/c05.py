"""C05: number <-> bits codecs."""
from .engine import Prop
from .common import *
from .progs import hexsrc


class C05(Prop):
    id = 'C05'
    rule = ('cases: pack/unpack round trips (rt) for every width 1..128 x byte order x signedness x boundary '
            'values x bit offset 0..7 inside a random buffer; to_uint/to_int of random slices of random buffers; '
            'byte layouts for every byte count 1..16; f32/f64 patterns (NaN payloads, infinities, subnormals) at '
            'every offset; short/long fields for the float readers. non-trivial = distinct case line whose field is '
            'not byte aligned (offset or width not a multiple of 8) or whose value is not 0/1/-1')
    trusted_base = [
        'Coq 8.16.1 kernel incl. vm_compute (finite sweeps of the cut_bits kernel)',
        'extraction (ExtrOcamlBasic only) + OCaml driver ocaml/bits_drv.ml for the correspondence',
        'Rust harness harness/src/bits.rs; generator gen/c05.py',
        'modelled not verified: Rc/Cow ownership is the single boolean "unique"; f32/f64 are bit patterns '
        '(from_bits/to_bits and from_*_bytes are the identity on patterns)',
    ]
    assumptions = ['the hand-written mirror Model/Bits.v, Model/Codec.v matches src/bitstr.rs on all inputs '
                   '(tested differentially on the cases of this run, not proved)']

    def nontrivial(self, line):
        t = line.split(' ')
        if t[1] == 'rt':
            return (int(t[5]) % 8 != 0 or int(t[6]) % 8 != 0) or t[4] not in ('0', '1', '-1')
        if t[1] in ('touint', 'toint'):
            return int(t[4]) % 8 != 0 or int(t[5]) % 8 != 0
        return True

    def generate(self, rng, tier):
        cs = []
        thorough = tier == 'thorough'
        nv = 10 if not thorough else 40
        for w in range(1, 129):
            pool = int_pool(rng, w, 2 if not thorough else 12)
            for o in ('le', 'be'):
                for sg in ('s', 'u'):
                    vals = rng.sample(pool, min(nv, len(pool)))
                    # every single-bit value over the sweep of widths
                    vals.append(1 << rng.randrange(w))
                    vals.append(-(1 << rng.randrange(w)))
                    for v in vals:
                        offs = range(8) if (thorough or rng.random() < 0.25) else [rng.randrange(8), rng.randrange(16)]
                        for off in offs:
                            pre = rand_hex(rng, (off + 7) // 8 + rng.randint(0, 1)) if off else rand_hex(rng, rng.randint(0, 1))
                            if off and pre == '-':
                                pre = 'a5'
                            suf = rand_hex(rng, rng.randint(0, 2))
                            cs.append('bs rt %s %s %s %d %d %s %s' % (o, sg, hx(v), w, off, pre, suf))
        # every single-bit value at one width each
        for w in (8, 13, 64, 127, 128):
            for k in range(w):
                for o in ('le', 'be'):
                    cs.append('bs rt %s u %s %d %d %s -' % (o, hx(1 << k), w, k % 8, 'ff' if k % 8 else '-'))
                    cs.append('bs rt %s s %s %d %d %s -' % (o, hx(1 << k), w, (k + 3) % 8, 'ff'))
        # decoders on arbitrary slices (stale bits all around)
        for _ in range(4000 if not thorough else 60000):
            o = rng.choice(('le', 'be'))
            v = rand_val(rng, maxbytes=18, minlen=0, maxlen=128)
            cs.append('bs %s %s %s' % (rng.choice(('touint', 'toint')), o, v))
        # alignment independence: the same bits at all 8 offsets
        for _ in range(300 if not thorough else 3000):
            n = rng.randint(1, 128)
            bits = [rng.getrandbits(1) for _ in range(n)]
            o = rng.choice(('le', 'be'))
            kind = rng.choice(('touint', 'toint'))
            for off in range(8):
                allb = [rng.getrandbits(1) for _ in range(off)] + bits + [rng.getrandbits(1) for _ in range((-(off + n)) % 8)]
                hexs = ''.join('%02x' % int(''.join(map(str, allb[i:i + 8])), 2) for i in range(0, len(allb), 8))
                cs.append('bs %s %s %s %d %d %s' % (kind, o, hexs, off, off + n, rng.choice(OWN)))
        # widths 0 and > 128 (mirror only)
        for w in (0, 129, 130, 136, 200, 256, 257):
            for o in ('le', 'be'):
                for v in (0, 1, -1, I128_MIN, I128_MAX, 0x1234567890abcdef):
                    cs.append('bs fromint %s %s %d' % (o, hx(v), w))
        for w in range(0, 129, 1 if thorough else 5):
            for o in ('le', 'be'):
                cs.append('bs fromint %s %s %d' % (o, hx(rng.choice(int_pool(rng, max(w, 1), 1))), w))
        # byte layouts
        for k in range(0, 17):
            for o in ('le', 'be'):
                for v in int_pool(rng, 8 * max(k, 1), 2)[: (8 if not thorough else 40)]:
                    cs.append('bs layout %s %s %d' % (o, hx(v), k))
        # floats
        f32 = [0, 0x80000000, 0x7f800000, 0xff800000, 0x7fc00000, 0x7f800001, 0xffc12345, 0x00000001, 0x007fffff,
               0x00800000, 0x3f800000, 0x7f7fffff]
        f64 = [0, 1 << 63, 0x7ff0000000000000, 0xfff0000000000000, 0x7ff8000000000000, 0x7ff0000000000001,
               0xfff8000000abcdef, 1, 0x000fffffffffffff, 0x0010000000000000, 0x3ff0000000000000, 0x7fefffffffffffff]
        for _ in range(20 if not thorough else 400):
            f32.append(rng.getrandbits(32))
            f64.append(rng.getrandbits(64))
        for o in ('le', 'be'):
            for off in range(8):
                for p in f32:
                    cs.append('bs f32 %s %x %d %s' % (o, p, off, rand_hex(rng, 1) if off else '-'))
                for p in f64:
                    cs.append('bs f64 %s %x %d %s' % (o, p, off, rand_hex(rng, 1) if off else '-'))
        for _ in range(300 if not thorough else 5000):
            cs.append('bs tof %d %s %s' % (rng.choice((4, 8)), rng.choice(('le', 'be')), rand_val(rng, maxbytes=12)))
        # the pack words of the language: every fixed-width word (default order / explicit le / explicit be) under both settings of the
        # default byte order, and the sized words at byte-multiple widths: the packed bytes are the platform's layout of the value
        self.word_expect = {}
        for setting in ('little', 'big', ''):
            for w in (8, 16, 32, 64):
                for sfx in ('', 'le', 'be'):
                    for sg in ('i', 'u'):
                        for v in int_pool(rng, w, 2)[:(4 if not thorough else 16)] + [0x0102030405060708 % (1 << w)]:
                            order = 'big' if (sfx == 'be' or (sfx == '' and setting == 'big')) else 'little'
                            src = ('%s %d %s%d%s!' % (setting, v, sg, w, sfx)).strip()
                            case = 'xs limits 4000 - - | eval %s | stack' % hexsrc(src)
                            cs.append(case)
                            self.word_expect[case] = ((v % (1 << w)).to_bytes(w // 8, order), src)
            for w in (8, 24, 40, 72, 128):
                for word in ('int!', 'uint!'):
                    for v in int_pool(rng, w, 2)[:(3 if not thorough else 10)] + [0x0102030405060708090a0b0c0d0e0f10 % (1 << w)]:
                        order = 'big' if setting == 'big' else 'little'
                        src = ('%s %d %d %s' % (setting, v, w, word)).strip()
                        case = 'xs limits 4000 - - | eval %s | stack' % hexsrc(src)
                        cs.append(case)
                        self.word_expect[case] = ((v % (1 << w)).to_bytes(w // 8, order), src)
        # the float pack words on values a 32-bit / 64-bit float represents exactly (infinities, zeros of both signs, subnormals, the
        # largest finite values): the packed bytes are the IEEE pattern in the requested order, and reading them back gives the value
        import struct
        f32pat = [0, 0x80000000, 0x7f800000, 0xff800000, 0x00000001, 0x807fffff, 0x00800000, 0x7f7fffff, 0xff7fffff, 0x3f800000, 0xc0490fdb, 0x7f000000]
        f64pat = [0, 1 << 63, 0x7ff0000000000000, 0xfff0000000000000, 1, 0x800fffffffffffff, 0x0010000000000000, 0x7fefffffffffffff,
                  0xffefffffffffffff, 0x3ff0000000000000, 0xc00921fb54442d18]
        for setting in ('little', 'big', ''):
            for w, pats in ((32, f32pat), (64, f64pat)):
                for pat in pats:
                    if w == 32:
                        r64 = struct.unpack('>Q', struct.pack('>d', struct.unpack('>f', pat.to_bytes(4, 'big'))[0]))[0]
                    else:
                        r64 = pat
                    for word, order in (('f%d!' % w, 'big' if setting == 'big' else 'little'), ('f%dle!' % w, 'little'), ('f%dbe!' % w, 'big'),
                                        ('%d float!' % w, 'big' if setting == 'big' else 'little')):
                        case = 'xs limits 4000 - - | push R%016x | eval %s | stack' % (r64, hexsrc(('%s %s' % (setting, word)).strip()))
                        cs.append(case)
                        self.word_expect[case] = (pat.to_bytes(w // 8, order), '%s %s on R%016x' % (setting, word, r64))
        # the sized pack / read words at every width, both settings of the byte order: packing then reading returns the value reduced to
        # the width (the read words tag their result with the width: compared after stripping)
        self.rt_expect = {}
        for w in range(1, 129):
            for setting in ('little', 'big'):
                for sg in ('u', 'i'):
                    if sg == 'u' and w == 128:
                        continue
                    for v in rng.sample(int_pool(rng, w, 2), 2) + [0x0123456789abcdef0fedcba987654321 % (1 << w)]:
                        src = '%s %d %d %s open-bitstr %d %s' % (setting, v, w, 'uint!' if sg == 'u' else 'int!', w, 'uint' if sg == 'u' else 'int')
                        exp = v % (1 << w)
                        if sg == 'i' and exp >= 1 << (w - 1):
                            exp -= 1 << w
                        case = 'xs limits 4000 - - | eval %s | stack' % hexsrc(src)
                        cs.append(case)
                        self.rt_expect[case] = (exp, src)
        return cs

    def group_check(self, cases, impl):
        fails, n = [], 0
        for c, o in zip(cases, impl):
            if c not in getattr(self, 'rt_expect', {}):
                continue
            n += 1
            exp, src = self.rt_expect[c]
            ou = o.split(' | ')
            got = [t for t in ou[-1].strip('[] ').split(' ') if t]
            if ou[-2] != 'ok':
                continue        # a value the pack word refuses
            val = got[-1].split(',')[0].replace('G(', '') if got else ''
            if val != 'I' + hx(exp):
                fails.append(('case: %s\nsource: %s\nresult: %s' % (c, src, o[:300]), '`%s` read back %s, expected %d' % (src, got, exp)))
        for c, o in zip(cases, impl):
            if c not in getattr(self, 'word_expect', {}):
                continue
            n += 1
            want, src = self.word_expect[c]
            bits = ''.join('{:08b}'.format(b) for b in want)
            ou = o.split(' | ')
            got = [t for t in ou[-1].strip('[] ').split(' ') if t]
            if ou[-2] != 'ok':
                # a value outside the word's range may be refused; then nothing is packed
                continue
            if got != ['B' + bits]:
                fails.append(('case: %s\nsource: %s\nresult: %s' % (c, src, o[:400]),
                              '`%s` packed %s, the standard byte layout is %s' % (src, got, want.hex())))
        return n, fails, [], dict(pack_word_layouts_and_round_trips=n)


PROP = C05()
