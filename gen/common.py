"""Value pools and small helpers shared by the generators."""

def hx(i):
    return ('-%x' % -i) if i < 0 else ('%x' % i)

I128_MIN = -(1 << 127)
I128_MAX = (1 << 127) - 1

def int_pool(rng, w=128, nrand=4):
    """boundary-biased integers for a field of width w (values may exceed the width)"""
    vs = {0, 1, -1, 2, -2, I128_MIN, I128_MAX, I128_MIN + 1, I128_MAX - 1}
    for k in (w - 1, w, w + 1, 7, 8, 9, 63, 64, 65):
        if 0 <= k <= 127:
            vs.update({(1 << k), (1 << k) - 1, (1 << k) + 1, -(1 << k), -(1 << k) - 1, -(1 << k) + 1})
    for _ in range(nrand):
        vs.add(rng.getrandbits(128) - (1 << 127))
        vs.add(rng.getrandbits(max(1, w)) )
        vs.add(-rng.getrandbits(max(1, w)))
    return [v for v in vs if I128_MIN <= v <= I128_MAX]

def rand_hex(rng, nbytes):
    if nbytes == 0:
        return '-'
    pats = [0x00, 0xff, 0xaa, 0x55, 0x80, 0x01]
    bs = []
    for _ in range(nbytes):
        bs.append(rng.choice(pats) if rng.random() < 0.3 else rng.getrandbits(8))
    return ''.join('%02x' % b for b in bs)

OWN = ['u', 's', 'b', 'c']

def rand_val(rng, maxbytes=6, minlen=0, maxlen=None, own=None):
    """descriptor `hex start end own` of a random slice of a random buffer"""
    while True:
        nb = rng.randint(0, maxbytes)
        total = 8 * nb
        if total < minlen:
            continue
        s = rng.randint(0, total - minlen)
        hi = total if maxlen is None else min(total, s + maxlen)
        e = rng.randint(s + minlen, hi)
        # bias to interesting boundaries
        if rng.random() < 0.2:
            s = (s // 8) * 8
        if rng.random() < 0.2:
            e = max(s + minlen, min(hi, (e // 8) * 8)) if (e // 8) * 8 >= s + minlen else e
        return '%s %d %d %s' % (rand_hex(rng, nb), s, e, own or rng.choice(OWN))
