"""Helpers for properties checked through interpreter sessions (`xs` cases)."""
import re
from .engine import Prop
from .progs import Gen, hexsrc

XS_TRUSTED = [
    'Coq 8.16.1 kernel',
    'extraction (ExtrOcamlBasic only) + OCaml session driver ocaml/xs_drv.ml (printing, step language, host doubles for real + - * / rem)',
    'Rust session harness harness/src/xs.rs and the verif_hooks dump hooks in /repo',
    'modelled not verified: rpds containers (lists / sorted association lists), arcstr, Rc sharing (values are immutable in the model), '
    'stdout interception; words outside the model (file I/O, exec, random, d2, see, include) make a case UNSUP and it is skipped',
]
XS_ASSUME = ['the hand-written mirror (Model/Vm.v Words.v Build.v Lexer.v Boot.v) matches src/*.rs on the generated sessions '
             '(differential test, not a proof)']


def src_of(case, idx=None):
    """decode the sources of the eval/compile steps of a case"""
    out = []
    for st in case.split(' | '):
        t = st.split(' ')
        if t[0] == 'xs':
            t = t[1:]
        if t and t[0] in ('eval', 'compile'):
            out.append(bytes.fromhex(t[1]).decode('utf-8', 'replace') if t[1] != '-' else '')
    return out


def strip_log(d):
    return re.sub(r' ; log .*$', '', d)


def strip_meter(d):
    return re.sub(r' ; meter \d+', '', d)


def field(dump, name):
    for f in dump.split(' ; '):
        if f == name:
            return ''
        if f.startswith(name + ' '):
            return f[len(name) + 1:]
    return None


class XsProp(Prop):
    trusted_base = XS_TRUSTED
    assumptions = XS_ASSUME

    def classify(self, line):
        t = line.split(' | ')
        return ' | '.join(x.split(' ')[0] if not x.startswith('xs') else 'xs ' + x.split(' ')[1] for x in t)[:80]

    def nontrivial(self, line):
        return len(line) > 40

    ZEROS = ('R0000000000000000', 'R8000000000000000')

    def same_case(self, case, impl, mirror):
        """implementation vs mirror.  min / max of zeros of opposite sign: IEEE 754 minNum / maxNum (and Rust's f64::min / max)
        allow either zero; the model's instance and the hardware may pick different ones, so for a case that applies min or max
        to operands among which both zeros occur the sign of a zero result is not compared"""
        if self.same(impl, mirror):
            return True
        srcs = src_of(case) or []
        if any(w in ('min', 'max') for x in srcs for w in x.split()) and all(z in case for z in self.ZEROS):
            return self.same(impl.replace(self.ZEROS[1], self.ZEROS[0]), mirror.replace(self.ZEROS[1], self.ZEROS[0]))
        return False
