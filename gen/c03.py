"""C03: a cloned interpreter is an independent snapshot; re-running it is deterministic."""
from .xsbase import *

SETUP = ['|12 34 56| var bs', '[ 1 2 3 ] var vec { 1 "a" } var mp', ': inc 1 + ; 5 var n', '|ff 0f| open-bitstr 4 bits var part',
         'late later : usesit later ;', '"text" var s 0 var cnt',
         # uniquely owned slices that do not start at bit 0 (read out of a computed buffer whose input is then closed)
         '[ 1 2 3 ] >bitstr open-bitstr 8 bits drop 8 bits close-bitstr var sl', '[ 255 15 ] >bitstr open-bitstr 4 bits drop 8 bits close-bitstr var sl', '|a5 5a c3| var bs bs 4 bits drop', '[ |ff| |00| ] var bvec', '1 2 3',
         # values that already carry tags when the copy is taken (the tag wrapper is shared between the copies)
         '5 "byte" "kind" insert-tag var tg', '|2a| open-bitstr u8 var tg close-bitstr', '42 ^hex var tg', '[ 1 2 ] ^{ 1 "a" ^} var tg tg',
         '"s" 1 "n" insert-tag dup var tg']
MUTATE = ['bs |ff| bitstr-append ! bs', 'bs bitstr-not ! bs', 'bs |0| swap bitstr-append', '7 vec push ! vec', 'mp 2 "b" insert ! mp', 'mp "a" remove ! mp',
          ': inc 2 + ;', 'n inc ! n', ': later 42 ; usesit', 'part |x.x| bitstr-append ! part', 'part bitstr-not', 'u8 drop', '8 seek', 'close-bitstr',
          'bs |ff| bitstr-and', 'bs |f| bitstr-or print', 'bs |0| bitstr-xor println', '|ff 00| |f| bitstr-and print',
          'sl |cc| swap bitstr-append open-bitstr offset remain close-bitstr', 'sl bitstr-not open-bitstr offset close-bitstr', 'sl |1| bitstr-append ! sl sl',
          'sl open-bitstr offset 4 bits close-bitstr',
          's " more" [ ] swap push swap push reverse concat ! s', 'cnt 1 + ! cnt', 'drop', '99', '1 var fresh', 'vec reverse ! vec', 'bs 8 bits',
          'tg "x" "k2" insert-tag 42 equal?', 'tg "kind" remove-tag ! tg tg tags', 'tg { "q" 1 } with-tags dup tags swap 1 +', 'tg ^bin 1 +',
          'tg "v" "kind" insert-tag ! tg tg tags', 'tg 1 "k" insert-tag 2 "j" insert-tag dup tags swap 42 ==', 'tg tags', 'tg ^{ 1 "z" ^} case 42 of 1 endof 5 of 2 endof 0 endcase',
          'dup 3 "w" insert-tag tags', 'tg fmt/upcase dup 0 + swap tags',
          '3 0 do cnt I + ! cnt loop', 'bvec 0 nth |1| swap bitstr-append', 'depth', '"x" print', 'bs length', '1 0 /', 'nosuchword']


class C03(XsProp):
    id = 'C03'
    rule = ('histories over a tree of clones (clone of clone): a setup source creates shared values (bit-strings, slices of the input, '
            'vectors, maps, words, late-bound words, variables); then 3..8 sources that append to / invert / slice the shared bit-strings, '
            'mutate variables, extend collections, redefine words, resolve late words, move the cursor, step and reverse-step, run on '
            'randomly chosen copies. Direct predicates: after every evaluation the full state dump of every OTHER copy is byte-identical '
            'to what it was; the same source evaluated on a sibling that was cloned at the same point gives the same result and dump '
            '(determinism). A handle-pool stream runs ownership-relevant operation sequences (new/borrowed, clone, drop, slice, detach, '
            'append, invert, insert) on real Bitstr values and on the store model, comparing every live handle after every operation. '
            'The d2 canvas plugin (a shared host object) is the recorded finding D5. non-trivial = distinct history with >= 2 copies '
            'and >= 1 mutation of a value created before the clone point')

    def generate(self, rng, tier):
        n = 500 if tier == 'quick' else 12000
        cs = []
        for i in range(n):
            steps = ['xs limits 4000 - -', 'eval %s' % hexsrc(rng.choice(SETUP))]
            if rng.random() < 0.5:
                steps.append('eval %s' % hexsrc(rng.choice(SETUP + MUTATE)))
            ncopies = 1
            # clone tree
            for _ in range(rng.randint(1, 3)):
                steps.append('use %d' % rng.randrange(ncopies))
                steps.append('clone')
                ncopies += 1
            for _ in range(rng.randint(3, 8)):
                who = rng.randrange(ncopies)
                src = rng.choice(MUTATE) if rng.random() < 0.85 else Gen(rng, bad=0.02, meta=True).program(2)
                steps.append('use %d' % who)
                r = rng.random()
                if r < 0.8:
                    steps.append('eval %s' % hexsrc(src))
                elif r < 0.9:
                    steps.append('rec on | compile %s | next | next | rnext' % hexsrc(src))
                else:
                    steps.append('compile %s | run' % hexsrc(src))
                # observe every copy after the activity
                for k in range(ncopies):
                    steps.append('use %d | dump' % k)
            cs.append(' | '.join(steps))
        # determinism: two siblings cloned at the same point, same sources -> same dumps
        for i in range(n // 3):
            pre = rng.choice(SETUP)
            srcs = [rng.choice(MUTATE) for _ in range(rng.randint(1, 4))]
            ev = ' | '.join('eval %s | stack | out' % hexsrc(x) for x in srcs)
            cs.append('xs limits 4000 - - | eval %s | clone | clone | use 1 | %s | dump | use 2 | %s | dump' % (hexsrc(pre), ev, ev))
        # replay: what the original does after the clone, the snapshot does too when it runs the same sources afterwards (the
        # original's activity - consuming shared values, dropping references - must not show in the snapshot)
        for i in range(n // 2):
            pre = [rng.choice(SETUP) for _ in range(rng.randint(1, 2))]
            srcs = [rng.choice(MUTATE) for _ in range(rng.randint(1, 4))]
            ev = ' | '.join('eval %s | stack | out' % hexsrc(x) for x in srcs)
            cs.append('xs limits 4002 - - | %s | clone | %s | use 1 | %s' % (' | '.join('eval %s' % hexsrc(x) for x in pre), ev, ev))
        # the same with a value that only the data stack holds (the original consumes it, the snapshot then is its only owner)
        stack_slices = ['[ 1 2 3 ] >bitstr open-bitstr 8 bits drop 8 bits close-bitstr', '[ 255 15 7 ] >bitstr open-bitstr 4 bits drop 12 bits close-bitstr',
                        '|a5 5a c3| open-bitstr 8 bits close-bitstr', '[ 9 8 7 6 ] >bitstr open-bitstr 16 bits drop 9 bits close-bitstr']
        consumers = ['|cc| swap bitstr-append open-bitstr offset remain close-bitstr', 'bitstr-not open-bitstr offset close-bitstr',
                     '|1| bitstr-append dup open-bitstr offset close-bitstr', 'dup |0| swap bitstr-append swap bitstr-not', 'open-bitstr offset remain',
                     '|x.| swap bitstr-append length', 'dup bitstr-not swap |ff| bitstr-append', '|ff| bitstr-and print', '|1| bitstr-xor println',
                     'dup |f| bitstr-or print print']
        for pre in stack_slices:
            for c1 in consumers:
                ev = 'eval %s | stack | out' % hexsrc(c1)
                cs.append('xs limits 4002 - - | eval %s | clone | %s | use 1 | %s' % (hexsrc(pre), ev, ev))
        # the same with a tagged value that only the data stack holds: re-tagging it must not depend on who else holds the old wrapper
        stack_tagged = ['5 "byte" "kind" insert-tag', '|2a| open-bitstr u8 close-bitstr', '42 ^hex', '[ 1 2 ] ^{ 1 "a" ^}', '"s" 1 "n" insert-tag', '7 ^{ 1 "a" 2 "b" ^}',
                        '1.5 3 "k" insert-tag']
        retaggers = ['"x" "k2" insert-tag dup tags swap 5 equal?', '"kind" remove-tag dup 42 equal? swap tags', '{ 1 "q" } with-tags dup 42 == swap tags',
                     '^bin dup 1 + swap tags', '1 "k" insert-tag 2 "j" insert-tag dup tags swap dup', 'fmt/upcase 5 swap case 5 of 1 endof 42 of 2 endof 0 endcase',
                     '^{ 1 "z" ^} dup length', 'dup 3 "w" insert-tag swap 4 "v" insert-tag equal?', '9 "kind" insert-tag [ ] swap push 0 get 5 equal?']
        for pre in stack_tagged:
            for c1 in retaggers:
                ev = 'eval %s | stack | out' % hexsrc(c1)
                cs.append('xs limits 4002 - - | eval %s | clone | %s | use 1 | %s' % (hexsrc(pre), ev, ev))
        # captured output belongs to the copy that printed it
        for i in range(20):
            a_, b_ = rng.choice(['"A" print', '1 println', '"x y" print 2 print']), rng.choice(['"B" print', '[ 7 ] println', '"zz" println'])
            cs.append('xs limits 4003 - - | intercept on | eval %s | clone | eval %s | use 1 | eval %s | out | use 0 | out | use 1 | out' % (
                hexsrc('"pre" print'), hexsrc(a_), hexsrc(b_)))
        # a snapshot taken while recording: the copy has the same undo history and rewinds exactly like the original
        progs = ['0 var x : sq dup * ; 3 0 do I sq x + ! x loop x', '[ 10 20 30 ] foreach I loop 7', '1 2 over rot swap drop + 5 case 5 of 1 endof 2 endcase',
                 ': f local a a 1 + local a a ; 4 f 0 begin 1 + dup 3 > until', '|ff 0f| open-bitstr 4 bits drop u4 close-bitstr "s" length']
        for i in range(n // 4):
            prog = rng.choice(progs)
            k = rng.randint(1, 30)
            j = rng.randint(1, k)
            steps = ['xs limits 4001 - -', 'rec on', 'compile %s' % hexsrc(prog)] + ['next'] * k + ['dumplog', 'clone', 'use 1', 'dumplog'] + \
                    ['rnext'] * j + ['dumplog'] + ['next'] * rng.randint(0, 3) + ['dumplog', 'use 0']
            # the original repeats exactly what the copy did after the clone
            tail = steps[steps.index('use 1') + 2:-1]
            steps += tail
            cs.append(' | '.join(steps))
        # handle pool
        for i in range(n):
            ops = []
            live = 0
            for _ in range(rng.randint(3, 14)):
                r = rng.random()
                if live == 0 or r < 0.2:
                    nb = rng.randint(0, 3)
                    ops.append('n%s:%s' % (''.join('%02x' % rng.getrandbits(8) for _ in range(nb)) or '-', rng.choice('oob')))
                    live += 1
                elif r < 0.32:
                    ops.append('c%d' % rng.randrange(live)); live += 1
                elif r < 0.42:
                    ops.append('d%d' % rng.randrange(live)); live -= 1
                elif r < 0.62:
                    a = rng.randint(0, 24); b = rng.randint(a, 24)
                    ops.append('s%d:%d:%d' % (rng.randrange(live), a, b)); live += 0  # may fail: counted by both sides
                    live = live  # unknown: success adds one; keep conservative
                elif r < 0.7:
                    ops.append('t%d' % rng.randrange(live))
                elif r < 0.85 and live >= 2:
                    i_, j_ = rng.sample(range(live), 2)
                    ops.append('a%d:%d' % (i_, j_))
                elif r < 0.93:
                    ops.append('v%d' % rng.randrange(live))
                elif live >= 2:
                    i_, j_ = rng.sample(range(live), 2)
                    ops.append('i%d:%d:%d' % (i_, rng.randint(0, 9), j_))
            cs.append('pool %s' % ';'.join(ops))
        # D5: the d2 plugin object is shared by clones (recorded finding)
        cs.append('xs d2load | eval %s | clone | use 1 | eval %s | use 0 | eval %s | stack' % (
            hexsrc('1 1 d2-resize'), hexsrc('3 4 d2-resize'), hexsrc('d2-width')))
        # process-wide state (family added after round 11): a probe battery on a snapshot gives the same results before and after heavy
        # activity on the original - many failing conversions / decodings / prints, which is where a counter or cache outside the
        # interpreter state would leak; the marker `limits 4011` selects the predicate
        probes = ['[ 1 2 ] >bitstr', '[ 1 [ 2 "x" ] |ff| ] >bitstr', '"abc" base64 dup base64>', '|01 02 03 04 05| zero85', '[ 3 1 2 ] sort', '"12" str>number',
                  '{ 1 "a" } "a" get', '255 ^hex "x" swap concat' if False else '1 2 +', '|41 42| bitstr>utf8', '5 3 uint! open-bitstr 3 uint']
        noisy = ['[ 256 ] >bitstr', '[ 1 [ 2 300 ] ] >bitstr', '[ nil ] >bitstr', '[ 1 [ 2 [ 3 "x" -1 ] ] ] base64', '"``" base64>', '"#" zero85>', '1 0 /',
                 '|ff| bitstr>utf8', '"zz" str>number', '[ 1 ] 5 nth', 'nosuchword', '1 "a" +', '[ [ [ [ 256 ] ] ] ] >bitstr', '9 seek']
        for _ in range(40 if tier == 'quick' else 1500):
            pb = ' '.join(rng.sample(probes, rng.randint(2, 4)))
            k = rng.choice([25, 30, 40, 60])
            acts = [rng.choice(noisy) for _ in range(rng.randint(1, 3))]
            steps = ['xs limits 4011 - -', 'clone', 'use 1', 'eval %s' % hexsrc(pb), 'stack', 'eval %s' % hexsrc('depth 0 do drop loop') , 'use 0']
            for j in range(k):
                steps.append('eval %s' % hexsrc(acts[j % len(acts)]))
            steps += ['use 1', 'eval %s' % hexsrc(pb), 'stack', 'eval %s' % hexsrc('depth 0 do drop loop'), 'clone', 'use 2', 'eval %s' % hexsrc(pb), 'stack']
            cs.append(' | '.join(steps))
        return cs

    D5 = ('the d2 canvas plugin keeps its state in a reference-counted host object that State::clone shares: after clone, `3 4 d2-resize` on '
          'the clone changes `d2-width` of the original')

    def known(self, text, impl, spec):
        if 'd2load' in text:
            return self.D5
        return None

    def known_case(self, case):
        return self.D5 if 'd2load' in case else None

    def classify(self, line):
        return line.split(' ')[0] + (' tree' if ' clone | ' in line and 'pool' not in line else '')

    @staticmethod
    def pool_predicate(case, out):
        """handle pool, on the implementation's own outputs: after every operation each handle other than the consumed one denotes
        the bits it denoted, and the new handle denotes what the operation means on bit sequences (so it cannot depend on who
        else owns the buffer).  Returns None or a description of the first failure."""
        ops = [o for o in case.split(' ', 1)[1].split(';') if o]
        outs = out.split(' | ')
        if len(outs) != len(ops):
            return None
        prev = []
        for k, (op, o) in enumerate(zip(ops, outs)):
            cur = [] if o == '.' else ['' if x == '-' else x for x in o.split(',')]
            kind, f = op[0], op[1:].split(':')
            live = len(prev)
            exp_rest, exp_new = list(prev), None       # expected survivors (in order), predicate on the new handle
            why = None
            if kind == 'n':
                if len(cur) != live + 1: why = 'new did not add one handle'
                exp_new = lambda r: True
            elif kind == 'c' and int(f[0]) < live:
                exp_new = lambda r, v=prev[int(f[0])]: r == v
            elif kind == 'd' and int(f[0]) < live:
                del exp_rest[int(f[0])]
            elif kind == 's' and int(f[0]) < live:
                if len(cur) == live + 1:
                    n = int(f[2]) - int(f[1])
                    exp_new = lambda r, v=prev[int(f[0])], n=n: len(r) == n and r in v
            elif kind == 't' and int(f[0]) < live:
                v = exp_rest.pop(int(f[0])); exp_new = lambda r, v=v: r == v
            elif kind == 'a' and int(f[0]) < live and int(f[1]) < live and f[0] != f[1]:
                v = prev[int(f[0])] + prev[int(f[1])]; exp_rest.pop(int(f[0])); exp_new = lambda r, v=v: r == v
            elif kind == 'v' and int(f[0]) < live:
                v = ''.join('1' if b == '0' else '0' for b in exp_rest.pop(int(f[0]))); exp_new = lambda r, v=v: r == v
            elif kind == 'i' and int(f[0]) < live and int(f[2]) < live and f[0] != f[2]:
                if len(cur) == live:      # either refused (nothing changes) or done (one consumed, one new)
                    a, b = prev[int(f[0])], prev[int(f[2])]
                    if cur != prev:
                        exp_rest.pop(int(f[0]))
                        exp_new = lambda r, a=a, b=b: any(r == a[:q] + b + a[q:] for q in range(len(a) + 1))
            if why is None:
                got_rest = cur[:len(exp_rest)]
                if got_rest != exp_rest:
                    why = 'a handle that was not consumed denotes other bits (or disappeared): before %s, after %s' % (prev, cur)
                elif exp_new is not None:
                    if len(cur) != len(exp_rest) + 1:
                        why = 'expected exactly one new handle: before %s, after %s' % (prev, cur)
                    elif not exp_new(cur[-1]):
                        why = 'the new handle does not denote what `%s` means on the operands\' bits: before %s, after %s' % (op, prev, cur)
                elif len(cur) != len(exp_rest):
                    why = 'unexpected handle: before %s, after %s' % (prev, cur)
            if why:
                return 'operation %d (%s): %s' % (k, op, why)
            prev = cur
        return None

    def group_check(self, cases, impl):
        fails, samples = [], []
        n = muts = 0
        for c, o in zip(cases, impl):
            if c.startswith('pool ') and 'PANIC' not in o and 'CRASH' not in o:
                n += 1
                bad = self.pool_predicate(c, o)
                if bad:
                    fails.append(('case: %s\nresult: %s' % (c, o), 'handle pool: ' + bad))
                continue
            if not c.startswith('xs') or 'PANIC' in o:
                continue
            st = c.split(' | ')
            ou = o.split(' | ')
            if len(st) != len(ou):
                continue
            if c.startswith('xs limits 4011 '):
                n += 1
                first = (ou[3], ou[4])
                last = (ou[-7], ou[-6])
                fresh = (ou[-2], ou[-1])
                if first != last or first != fresh:
                    fails.append(('case: %s\nsources: %s\nresult: %s' % (c, src_of(c)[:6], o[:200] + ' ... ' + o[-300:]),
                                  'a snapshot answers the same probes differently after the original was active (before: %s, after: %s, fresh clone: %s)'
                                  % (first, last, fresh)))
                continue
            if c.startswith('xs limits 4003 '):
                n += 1
                srcs = src_of(c)
                # outputs: the copy printed pre+B, the original pre+A, and a second read of the copy is empty
                oc = ou[-5][4:].replace('-', '')
                oo = ou[-3][4:].replace('-', '')
                k = 0
                while k < min(len(oc), len(oo)) and oc[k] == oo[k]:
                    k += 1
                k -= k % 2
                # after the common part (what was printed before the clone) each copy has its own, non-empty, different text, and
                # a second read of the copy finds nothing
                if not oc[k:] or not oo[k:] or k == 0 or ou[-1] not in ('out:-', 'out:'):
                    fails.append(('case: %s\nsources: %s\ncopy: %s\noriginal: %s\ncopy-again: %s' % (c, ' ;; '.join(srcs), ou[-5], ou[-3], ou[-1]),
                                  'captured output is shared between an interpreter and its clone'))
                continue
            if c.startswith('xs limits 4002 '):
                n += 1
                ic = st.index('clone')
                i1 = st.index('use 1')
                a, b = ou[ic + 1:i1], ou[i1 + 1:]
                if a != b:
                    k = next(i for i, (x, y) in enumerate(zip(a, b)) if x != y)
                    fails.append(('case: %s\nsources: %s\noriginal: %s\nsnapshot: %s' % (c, ' ;; '.join(src_of(c)), a[k][:600], b[k][:600]),
                                  'the snapshot, running the same sources after the original did, behaves differently'))
                continue
            if c.startswith('xs limits 4001 '):
                # snapshot under recording
                n += 1
                ic = st.index('clone')
                i1 = st.index('use 1')
                i0 = st.index('use 0')
                before, after = ou[ic - 1], ou[i1 + 1]
                if before != after:
                    fails.append(('case: %s\noriginal-at-clone: %s\ncopy: %s' % (c, before[:1500], after[:1500]),
                                  'a fresh clone differs from the state it was cloned from (full dump with the reverse log)'))
                    continue
                copy_run, orig_run = ou[i1 + 2:i0], ou[i0 + 1:]
                if copy_run != orig_run:
                    k = next(i for i, (x, y) in enumerate(zip(copy_run, orig_run)) if x != y)
                    fails.append(('case: %s\nstep-after-clone: %d (%s)\ncopy: %s\noriginal: %s' % (c, k, st[i1 + 2 + k], copy_run[k][:1500], orig_run[k][:1500]),
                                  'the clone and the original diverge when both are rewound / stepped the same way after the clone'))
                continue
            if 'd2load' in c:
                n += 1
                if ou[-1].strip() != '[ I1 ]':
                    fails.append(('case: %s\nresult: %s' % (c, o), 'd2load: activity on a clone changed the original (d2-width = %s)' % ou[-1]))
                continue
            if st.count('clone') == 2 and st[3] == 'clone' and st[4] == 'clone':
                # determinism of siblings
                n += 1
                i1 = st.index('use 1')
                i2 = st.index('use 2')
                a, b = ou[i1 + 1:i2], ou[i2 + 1:]
                if a != b:
                    fails.append(('case: %s\nsibling-1: %s\nsibling-2: %s' % (c, a, b), 'two clones of one state diverged on the same sources'))
                continue
            # clone tree: track the dump of every copy; only the copy that ran may change
            cur = 0
            dumps = {}
            active = None
            bad = None
            for s_, o_ in zip(st, ou):
                t = s_.split(' ')
                if t[0] == 'xs':
                    t = t[1:]
                if t[0] == 'use':
                    cur = int(t[1])
                elif t[0] in ('eval', 'compile', 'run', 'next', 'rnext', 'rec'):
                    active = cur
                    muts += 1
                elif t[0] == 'clone':
                    k = int(o_[5:])
                    if cur in dumps:
                        dumps[k] = None
                elif t[0] == 'dump':
                    if cur != active and dumps.get(cur) is not None and dumps[cur] != o_:
                        bad = 'copy %d changed although only copy %s was active: %s -> %s' % (cur, active, dumps[cur][:300], o_[:300])
                        break
                    dumps[cur] = o_
            n += 1
            if bad:
                fails.append(('case: %s\nsources: %s' % (c, src_of(c)), bad))
        if cases:
            samples.append(dict(sources=src_of(cases[0])[:5]))
        return n, fails, samples, dict(histories=n, evaluations_on_shared_state=muts)

    def canon_impl(self, s):
        return s


PROP = C03()
