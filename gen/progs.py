"""Grammar-based generator of XEH programs over the modelled word set.
Programs are mostly well typed (an abstract stack of types is tracked) so that deep
paths are reached; a configurable fraction of ill-typed / ill-formed material is mixed in."""
import random

INTS = [0, 1, -1, 2, 3, 5, 7, 8, 10, 100, 255, 256, -128, 2 ** 31, 2 ** 63 - 1, 2 ** 63, 2 ** 64, -(2 ** 63),
        2 ** 127 - 1, -(2 ** 127), 2 ** 100]
SMALL = [0, 1, 2, 3, 4, 5]
STRS = ['""', '"a"', '"abc"', '"x y"', '"é"', '"q\\"q"', '"line\\n"', '"k"', '"b"']
BITS = ['||', '|ff|', '|0|', '|x.x|', '|12 34|', '|f0 0f a5|', '|x|', '|1 23 4|']
REALS = ['0.0', '1.5', '-2.25', '1.0', '0.1', '100.0', '3.0', '-0.0']


class Gen:
    def __init__(self, rng, reals=False, io=True, meta=True, defs=True, bad=0.03, cursor=False, maxdepth=3,
                 words_extra=(), noprint=False, plain=False):
        self.r = rng
        self.plain = plain      # only the control-flow grammar of C01: no builders, foreach, tags, let, meta
        self.reals = reals
        self.io = io and not noprint
        self.meta = meta
        self.defs = defs
        self.bad = bad
        self.cursor = cursor
        self.maxdepth = maxdepth
        self.names = []       # defined words: (name, nin, nout)
        self.vars = []        # global variables
        self.nid = 0
        self.in_def = False
        self.locals = []
        self.loop_depth = 0
        self.in_begin = 0

    def fresh(self, p):
        self.nid += 1
        return '%s%d' % (p, self.nid)

    # ---- expressions producing one value of a type
    def int_lit(self):
        r = self.r
        if r.random() < 0.6:
            return str(r.choice(SMALL + [r.randint(-20, 60)]))
        v = r.choice(INTS)
        k = r.random()
        if k < 0.15 and v >= 0:
            return '0x%x' % v
        if k < 0.2 and v >= 0:
            return '0b%s' % bin(v)[2:]
        return str(v)

    def small_int(self):
        return str(self.r.choice(SMALL))

    def val(self, ty=None, d=0):
        """source text that pushes exactly one value"""
        r = self.r
        ty = ty or r.choice(['int'] * 5 + ['flag', 'str', 'vec', 'map', 'nil', 'bits'] + (['real'] if self.reals else []))
        if self.plain and ty in ('vec', 'map'):
            ty = r.choice(['int', 'str', 'bits', 'flag'])
        if ty == 'int':
            k = r.random()
            if k < 0.55 or d >= self.maxdepth:
                return self.int_lit()
            if k < 0.8:
                op = r.choice(['+', '-', '*', 'band', 'bor', 'bxor', 'min', 'max', 'rem', '/'])
                b = self.val('int', d + 1)
                if op in ('/', 'rem') and r.random() < 0.9:
                    b = str(r.choice([1, 2, 3, 7, -2]))
                return '%s %s %s' % (self.val('int', d + 1), b, op)
            if k < 0.86:
                return '%s %s' % (self.val('int', d + 1), r.choice(['neg', 'abs', 'bnot', 'popcnt', 'dup drop']))
            if k < 0.9:
                return '%s %s %s' % (self.val('int', d + 1), r.choice(SMALL + [7, 63, 127]), r.choice(['bsl', 'bsr']))
            if k < 0.94:
                return '%s length' % self.val(r.choice(['vec', 'str', 'bits'] if not self.plain else ['str', 'bits']), d + 1)
            if k < 0.97 and self.vars:
                return r.choice(self.vars)
            if self.loop_depth > 0:
                return r.choice(['I', 'I', 'J'][:1 + (self.loop_depth > 1)])
            if self.locals:
                return r.choice(self.locals)
            return self.int_lit()
        if ty == 'flag':
            k = r.random()
            if k < 0.3 or d >= self.maxdepth:
                return r.choice(['true', 'false'])
            if k < 0.75:
                return '%s %s %s' % (self.val('int', d + 1), self.val('int', d + 1), r.choice(['<', '<=', '>', '>=', '==', '<>']))
            if k < 0.85:
                return '%s %s %s' % (self.val('flag', d + 1), self.val('flag', d + 1), r.choice(['and', 'or', 'xor']))
            if k < 0.9:
                return '%s not' % self.val('flag', d + 1)
            if k < 0.95:
                return '%s %s equal?' % (self.val(None, d + 1), self.val(None, d + 1))
            return '%s %s' % (self.val(None, d + 1), r.choice(['nil?', 'int?', 'str?', 'vec?', 'bool?', 'bitstr?', 'real?']))
        if ty == 'str':
            if d < self.maxdepth and r.random() < 0.2 and not self.plain:
                return '%s %s' % (self.val('vec', d + 1), r.choice(['concat', '" " join', '"," join']))
            if d < self.maxdepth and r.random() < 0.1:
                return '%s %s %s slice' % (self.val('str', d + 1), r.choice(['0', '1', '-1', '-2']), r.choice(['2', '-1', '100', '1']))
            return r.choice(STRS)
        if ty == 'vec':
            k = r.random()
            if k < 0.6 or d >= self.maxdepth:
                n = r.randint(0, 4)
                return '[ %s]' % ''.join(self.val(r.choice(['int', 'int', 'int', 'str', None]), d + 1) + ' ' for _ in range(n))
            if k < 0.7:
                return '%s %s push' % (self.val(None, d + 1), self.val('vec', d + 1))
            if k < 0.78:
                return '%s reverse' % self.val('vec', d + 1)
            if k < 0.86:
                # literals only: a variable may hold a value of another type, and sorting values that are not mutually
                # comparable is the recorded finding D19 (C12), not something these programs are about
                return '[ %s] sort' % ''.join(self.int_lit() + ' ' for _ in range(r.randint(0, 5)))
            if k < 0.93:
                return '%s %s %s slice' % (self.val('vec', d + 1), r.choice(['0', '1', '-1', '-3', '5']), r.choice(['2', '-1', '100', '0']))
            n = r.randint(0, 3)
            return '%s%d collect' % (''.join(self.val('int', d + 1) + ' ' for _ in range(n)), n)
        if ty == 'map':
            n = r.randint(0, 3)
            keyty = r.choice(['int', 'str'])
            body = ''.join('%s %s ' % (self.val(r.choice(['int', 'str', 'vec']), d + 1),
                                        (str(r.choice(SMALL)) if keyty == 'int' else r.choice(STRS))) for _ in range(n))
            m = '{ %s}' % body
            if d < self.maxdepth and r.random() < 0.3:
                k = str(r.choice(SMALL)) if keyty == 'int' else r.choice(STRS)
                if r.random() < 0.6:
                    return '%s %s %s insert' % (m, self.val('int', d + 1), k)
                return '%s %s remove' % (m, k)
            return m
        if ty == 'nil':
            return 'nil'
        if ty == 'bits':
            if d < self.maxdepth and r.random() < 0.25:
                return '%s %s bitstr-append' % (self.val('bits', d + 1), self.val('bits', d + 1))
            if d < self.maxdepth and r.random() < 0.15:
                return '%s %s' % (self.val('int', d + 1), r.choice(['u8!', 'i16!', 'u32be!', '12 int!', '3 uint!', 'u64le!']))
            if d < self.maxdepth and r.random() < 0.1 and not self.plain:
                return '[ %s] >bitstr' % ''.join(str(r.randint(0, 255)) + ' ' for _ in range(r.randint(0, 3)))
            return r.choice(BITS)
        if ty == 'real':
            if d < self.maxdepth and r.random() < 0.3:
                return '%s %s %s' % (self.val('real', d + 1), self.val('real', d + 1), r.choice(['+', '-', '*', '/', 'min', 'max']))
            return r.choice(REALS)
        return self.int_lit()

    # ---- statements with net stack effect 0 (they consume what they produce) or +1
    def stmt(self, d=0):
        """returns (source, net effect on the stack)"""
        r = self.r
        k = r.random()
        if r.random() < self.bad:
            if self.plain:
                return (r.choice(['foo', 'drop drop drop', '"s" 1 +', 'then', 'loop', '1 0 /', 'nil 1 +', ';', 'repeat', 'break', 'endcase',
                                  '0x', '"x" neg', 'I', 'K', 'J', 'rot', 'over', 'swap', 'else', 'var', '1 ! nosuch', 'true assert false assert',
                                  '1 2 assert-eq', '"boom" error', '|ff| 3 seek', 'endof', 'of', 'until', 'while', 'local q']), 0)
            return (r.choice(['foo', 'drop drop drop', '"s" 1 +', 'then', 'loop', ']', '1 0 /', 'nil 1 +', '1 "a" nth', ';', 'repeat', 'break',
                              'endcase', '}', '#)', '0x', '[ 1 ] 5 nth', '2 collect', '"x" neg', 'I', 'K', 'rot', 'over', 'swap', 'else',
                              'var', '1 ! nosuch', 'true assert false assert', '1 2 assert-eq', '"boom" error', '|ff| 3 seek']), 0)
        if k < 0.22:
            return (self.val(None, d), 1)
        if k < 0.30:
            return ('%s drop' % self.val(None, d), 0)
        if k < 0.36 and self.io:
            return ('%s %s' % (self.val(r.choice(['int', 'int', 'str', 'vec', 'map', 'bits', 'flag', 'nil']), d),
                               r.choice(['print', 'println', 'print newline'])), 0)
        if k < 0.40:
            return ('%s %s %s' % (self.val('int', d), self.val('int', d), r.choice(['swap drop', 'over drop drop', 'dup drop drop',
                                                                                        'swap', 'over', 'drop'])), r.choice([0]))\
                if False else self._stack_shuffle(d)
        if d >= self.maxdepth:
            return (self.val(None, d), 1)
        if k < 0.50:
            b, e = self.block(d + 1)
            if r.random() < 0.5:
                b2, e2 = self.block_with_effect(d + 1, e)
                return ('%s if %s else %s then' % (self.val('flag', d), b, b2), e)
            b, _ = self.block_with_effect(d + 1, 0)
            return ('%s if %s then' % (self.val(r.choice(['flag', 'flag', 'nil']), d), b), 0)
        if k < 0.60:
            self.loop_depth += 1
            b, _ = self.block_with_effect(d + 1, 0, allow_break=True)
            self.loop_depth -= 1
            lim, st = r.choice([(3, 0), (0, 0), (1, 0), (2, -1), (0, 3), (5, 2), (1, 1)])
            return ('%d %d do %s loop' % (lim, st, b), 0)
        if k < 0.66:
            # counted begin loop through a variable or the stack
            n = r.choice([0, 1, 2, 3])
            self.in_begin += 1
            b, _ = self.block_with_effect(d + 1, 0, allow_break=True)
            self.in_begin -= 1
            form = r.random()
            if form < 0.4:
                return ('%d begin dup 0 > while 1 - %s repeat drop' % (n, b), 0)
            if form < 0.7:
                return ('%d begin %s 1 - dup 0 <= until drop' % (n + 1, b), 0)
            return ('%d begin dup 0 <= if break then 1 - %s repeat drop' % (n, b), 0)
        if k < 0.71:
            arms = ''
            for _ in range(r.randint(0, 3)):
                b, _ = self.block_with_effect(d + 1, 0)
                arms += '%s of %s endof ' % (str(r.choice(SMALL)), b)
            dflt, _ = self.block_with_effect(d + 1, 0)
            return ('%s case %s%s drop endcase' % (self.val('int', d), arms, dflt), 0)
        if k < 0.77 and self.defs and not self.in_def and d == 0:
            return self.definition(d)
        if k < 0.81 and self.names:
            name, nin, nout = r.choice(self.names)
            return ('%s%s' % (''.join(self.val('int', d) + ' ' for _ in range(nin)), name), nout)
        if k < 0.86 and not self.in_def and d == 0 and self.loop_depth == 0 and self.in_begin == 0:
            if self.vars and r.random() < 0.5:
                return ('%s ! %s' % (self.val(None, d), r.choice(self.vars)), 0)
            # now and then an existing name is declared again: earlier compiled references keep the old variable
            v = r.choice(self.vars) if (self.vars and r.random() < 0.2) else self.fresh('v')
            s = '%s var %s' % (self.val(None, d), v)
            if v not in self.vars:
                self.vars.append(v)
            return (s, 0)
        if k < 0.89 and self.vars:
            return ('%s ! %s' % (self.val('int', d), r.choice(self.vars)), 0)
        if self.plain:
            return (self.val(None, d), 1)
        if k < 0.92:
            self.loop_depth += 1
            b, _ = self.block_with_effect(d + 1, 0)
            self.loop_depth -= 1
            coll = self.val(r.choice(['vec', 'vec', 'map']), d)
            if coll.startswith('{'):
                return ('%s foreach I drop drop %s loop' % (coll, b), 0)
            return ('%s foreach I drop %s loop' % (coll, b), 0)
        if k < 0.95 and self.meta:
            inner = self.val(r.choice(['int', 'int', 'vec', 'str']), d + 1) if not (self.vars or self.loop_depth or self.locals) else \
                Gen(self.r, reals=False, io=False, meta=False, defs=False, bad=0, maxdepth=2).val(r.choice(['int', 'vec', 'str']))
            return ('#( %s #)' % inner, 1)
        if k < 0.975:
            return self.tag_stmt(d)
        return self.let_stmt(d)

    def _stack_shuffle(self, d):
        r = self.r
        a, b, c = self.val('int', d), self.val(None, d), self.val('int', d)
        return r.choice([('%s %s swap' % (a, b), 2), ('%s %s over' % (a, b), 3), ('%s dup' % a, 2), ('%s %s %s rot' % (a, b, c), 3),
                         ('%s %s drop' % (a, b), 1), ('depth', 1), ('%s %s swap drop' % (a, b), 1)])

    def tag_stmt(self, d):
        r = self.r
        v = self.val(r.choice(['int', 'vec', 'str', 'map']), d)
        k = r.random()
        if k < 0.3:
            return ('%s ^{ %s %s ^}' % (v, self.val('int', d), r.choice(STRS)), 1)
        if k < 0.5:
            return ('%s %s %s insert-tag' % (v, self.val('int', d), r.choice(STRS)), 1)
        if k < 0.65:
            return ('%s ^{ 1 "k" ^} "k" get-tag' % v, 1)
        if k < 0.8:
            return ('%s ^{ 1 "k" ^} tags' % v, 1)
        if k < 0.9:
            return ('%s %s' % (self.val('int', d), r.choice(['^hex', '^bin', '^oct', '^dec', 'false fmt/prefix', 'true fmt/upcase ^hex'])), 1)
        return ('%s ^{ 1 "k" ^} "k" remove-tag' % v, 1)

    def let_stmt(self, d):
        r = self.r
        if self.loop_depth or self.in_begin or d > 0 or self.in_def:
            return (self.val(None, d), 1)
        a, b = self.fresh('a'), self.fresh('b')
        self.vars += [a, b]
        k = r.random()
        if k < 0.4:
            return ('[ %s %s ] let [ %s %s ]' % (self.val('int', d), self.val(None, d), a, b), 0)
        if k < 0.7:
            return ('[ %s %s 9 ] let [ %s & %s ]' % (self.val('int', d), self.val('int', d), a, b), 0)
        return ('{ %s "x" %s "y" } let { "x" %s "y" %s }' % (self.val('int', d), self.val(None, d), a, b), 0)

    def definition(self, d):
        r = self.r
        name = self.fresh('w')
        nin = r.choice([0, 0, 1, 1, 2])
        self.in_def = True
        saved_locals, saved_loop, saved_begin = self.locals, self.loop_depth, self.in_begin
        self.locals, self.loop_depth, self.in_begin = [], 0, 0
        body = ''
        for i in range(nin):
            ln = self.fresh('l')
            body += 'local %s ' % ln
            self.locals.append(ln)
        rec = r.random() < 0.25 and nin >= 1
        nout = r.choice([0, 1, 1])
        redecl = None
        if self.locals and r.random() < 0.35:
            # a local is updated by declaring it again: later reads must see the newest declaration
            ln = r.choice(self.locals)
            redecl = ln
            body += '%s %s local %s ' % (ln, r.choice(['1 +', '2 *', 'dup +', 'drop 9']), ln)
            if r.random() < 0.5:
                body += '%s %s local %s ' % (self.val('int', d + 1), '', r.choice(self.locals))
        if rec:
            # bounded recursion on the first argument
            l0 = self.locals[-1]
            inner, _ = self.block_with_effect(d + 1, 0)
            body += '%s 0 > if %s %s%s 1 - %s %s then ' % (l0, inner, ''.join('0 ' for _ in range(nin - 1)), l0, name, 'drop' if nout else '')
            self.names.append((name, nin, nout))
            b, _ = self.block_with_effect(d + 1, nout)
            body += b
        else:
            if redecl and nout >= 1:
                b, _ = self.block_with_effect(d + 1, nout - 1)
                body += b + ' ' + redecl
            else:
                b, _ = self.block_with_effect(d + 1, nout)
                body += b
            self.names.append((name, nin, nout))
        self.in_def = False
        self.locals, self.loop_depth, self.in_begin = saved_locals, saved_loop, saved_begin
        if r.random() < 0.1:
            # redefinition: earlier callers keep the old meaning
            b2, _ = Gen(self.r, bad=0, meta=False, defs=False, io=self.io, maxdepth=1, plain=self.plain).block_with_effect(1, nout)
            return (': %s %s ; : %s %s%s ;' % (name, body, name, 'drop ' * nin, b2), 0)
        return (': %s %s ;' % (name, body), 0)

    def block(self, d):
        n = self.r.randint(0, 3)
        parts, eff = [], 0
        for _ in range(n):
            s, e = self.stmt(d)
            parts.append(s)
            eff += e
        return (' '.join(parts), eff)

    def block_with_effect(self, d, want, allow_break=False):
        s, e = self.block(d)
        if allow_break and self.r.random() < 0.25 and (self.loop_depth or self.in_begin):
            s += ' %s if break then' % self.val('flag', d)
        while e > want:
            s += ' drop'
            e -= 1
        while e < want:
            s += ' ' + self.val('int', d)
            e += 1
        return (s.strip(), want)

    def program(self, nstmts=None):
        n = nstmts or self.r.randint(1, 7)
        parts = []
        for _ in range(n):
            s, _ = self.stmt(0)
            parts.append(s)
        src = ' '.join(parts)
        if self.r.random() < 0.1:
            src = src.replace(' ', self.r.choice(['\n', '  ', '\t', ' \\ c\n']), 2)
        return src


def hexsrc(s):
    return s.encode('utf-8').hex() or '-'
