"""C10: a source that fails to build has no effect on anything submitted afterwards."""
from .xsbase import *
from . import enumprogs
import os, re

GOOD = ['3 0 do 1 0 / loop', ': lf 4 0 do I 2 == if "x" 1 + then loop ; lf', '2 0 do 2 0 do I J + 1 == if nil 1 + then loop loop',
        '1 2', '"s" 5', ': sq dup * ; 3 sq', '7 var keep', '[ 1 2 ] { 3 "k" }', '#( 9 const NINE #) NINE', '', '10 20 30 rot',
        ': twice dup + ; 1 var cnt', '|ff 00| open-bitstr u8']
PREFIX = ['', '1', '1 2 3', ': f 1', ': f local a a', '[ 1', '[ 1 [ 2', '{ 1', '1 if 2', '1 if 2 else', 'begin', 'begin 1 while', '3 0 do', '3 0 do I',
          '1 case 1 of', '#( 1 2', '#( : h 5 ; h', '#( [ 1', '1 var q', '1 var q q', ': g 1 ; g', '#( 7 const K #)', '#( 7 const K #) K', ': f #( 1',
          '^{ 1', '[ 1 2 ] let [ a', '5 #(', '1 2 #( 3', ': f if', 'late zz', '"text" 1', '1 let x', '[ 1 2 ] foreach', ': m immediate 1 ; m']
FAIL = ['foo', 'nosuchword', '0x', '1a', '"abc', '|fg|', 'then', 'loop', ';', ']', '}', '#)', 'endcase', 'else', 'repeat', 'until', '^}', 'break',
        '#( foo #)', '#( 1 0 / #)', '#( drop #)', '#( "a" 1 + #)', '#( 1 var w #)', '! nosuch', 'var', 'local', ':', 'const c', '2d', '\\( open',
        '"esc\\q"', '1.5.5', 'endof', 'of', '~)', 'immediate',
        # the failing token is inside text the source itself injected: the reader is then two lexers deep
        '#( 5 ! keep nosuchw #)', '#( 5 ! keep #) nosuchw', '#( 6 ! cnt 1 0 / #)', '#( twice #) nosuchw', '#( 5 ! keep',
        '#( "nosuchw" ~)', '#( "1 nosuchw 2" ~)', '#( "then" ~)', '#( "0x" ~)', '#( "#( nosuchw #)" ~)', '#( "#( \\"zz\\" ~)" ~)', '#( "1 0x" ~) 5']
# a meta block closed while a structure opened inside it is still pending: the closer itself rejects the source
META_OPEN_FAIL = ['#( 1 if #)', '#( 3 0 do ~)', '#( begin #)', '#( [ 1 #)', '#( 1 case #)', '#( 1 if 2 else #)', '#( "x" begin ~)', '#( 1 case 1 of #)',
                  '#( #( 1 if #) #)', '#( { 1 ~)']
TRAIL = ['', ' 2 3', ' : z 9 ;', ' ] then', ' 100 var late_var', ' #( 4 #)', ' "tail" print', ' drop drop', ' ; ]']
OPEN_END = ['1 if', ': f 1', '#( 1', '[ 1', '{ 1 2', 'begin 1', '3 0 do', '1 case', ': f if 1 then', '#( [ 1 2', '^{ 1']
PROBES = ['I', 'J', '2 0 do J loop', '4', 'depth', '1 var x x', ': f 1 ; f', '[ 1 ]', '.s', '#( 2 3 + #)', 'K', 'q', 'z', 'h', 'a', 'g', '1 if 2 then', '3 0 do I loop',
          '[ 5 6 ] let [ p1 p2 ] p1 p2', 'keep', 'NINE', 'late_var', 'w', 'dup', 'remain', 'x', '1 2 +']


class C10(XsProp):
    id = 'C10'
    rule = ('histories: 0..2 accepted sources, then a rejected source = (prefix leaving any combination of open definitions, '
            'builders, control structures, meta blocks, a defined variable/constant/word) + (failing token: unknown word, bad literal, '
            'stray closer, error inside a meta block, missing name) + (trailing text), or a source ending inside an open structure; '
            'submitted by eval or by compile; then 3..6 probe sources. Oracle: a clone taken just before the rejected source runs the '
            'same probes; results, visible stacks, stdout and the final state dump (without the instruction meter) must be identical '
            '(direct predicate on the implementation) and equal to the mirror model. non-trivial = distinct history whose rejected '
            'source really was rejected')

    def generate(self, rng, tier):
        n = 900 if tier == 'quick' else 20000
        cs = []
        combos = [(p_, f_) for f_ in META_OPEN_FAIL for p_ in PREFIX]
        if tier == 'quick':
            combos = rng.sample(combos, 150)
        for i in range(n + len(combos)):
            goods = [rng.choice(GOOD) for _ in range(rng.choice([0, 1, 1, 2]))]
            if i >= n:
                bad = ('%s %s%s' % (combos[i - n][0], combos[i - n][1], rng.choice(TRAIL))).strip()
            elif rng.random() < 0.2:
                bad = rng.choice(OPEN_END)
            else:
                bad = (rng.choice(PREFIX) + ' ' + rng.choice(FAIL) + rng.choice(TRAIL)).strip()
            if i < n and rng.random() < 0.15:
                bad = Gen(rng, bad=0).program(2) + ' ' + bad
            style = rng.choice(['eval', 'eval', 'compile'])
            probes = [rng.choice(PROBES) for _ in range(rng.randint(3, 6))]
            pr = ' | '.join('eval %s | stack | out' % hexsrc(p) for p in probes)
            steps = ['xs limits 4000 - -'] + ['eval %s' % hexsrc(g) for g in goods] + \
                    ['clone', 'clone', 'use 2', 'compile %s' % hexsrc(bad), 'use 0',
                     '%s %s' % (style, hexsrc(bad)), 'out', pr, 'dump', 'use 1', pr, 'dump']
            cs.append(' | '.join(steps))
        # sessions around `enum ... endenum` (plain, nested, unbalanced, failing with an open enum and then later sources, under limits,
        # recording on): compared with the mirror model only (no clone, so the group predicate skips them)
        cs += enumprogs.cases(rng, 150 if tier == 'quick' else 4000, thorough=(tier != 'quick'), errloc=False, findings=False)
        # a source rejected while an earlier program is stopped in the middle of a loop / call: the program resumes as if nothing happened
        for i in range(60 if tier == 'quick' else 1500):
            prog = rng.choice(['3 0 do I loop', '2 0 do 3 0 do I J loop loop', ': w 3 0 do I loop ; w w', '0 begin 1 + dup 4 > until', '[ 5 6 7 ] foreach I loop 9',
                               ': a 1 2 ; : b a a ; b b', '3 0 do I 1 == if break then I loop 8'])
            k = rng.randint(1, 12)
            bad = (rng.choice(PREFIX) + ' ' + rng.choice(FAIL + META_OPEN_FAIL) + rng.choice(TRAIL)).strip()
            pr = 'run | stack | out | eval %s | stack | out' % hexsrc(rng.choice(PROBES))
            steps = ['xs limits 4000 - -', 'compile %s' % hexsrc(prog)] + ['next'] * k + \
                    ['clone', 'clone', 'use 2', 'compile %s' % hexsrc(bad), 'use 0', '%s %s' % (rng.choice(['eval', 'compile']), hexsrc(bad)), 'out', pr, 'dump', 'use 1', pr, 'dump']
            cs.append(' | '.join(steps))
        # witnesses of repaired defects (must pass): D37 - a meta block of the enum builder whose pending code fails while it is closed
        for goods, bad, probes in [([], ': f 1 ; 5 enum E #) 1 0 / #( endenum', ['f', 'depth', ': f 2 ; f']),
                                   (['7 var keep'], ': g 1 ; enum E #) "a" 1 + #( endenum 3', ['g', 'keep', 'E']),
                                   ([': sq dup * ;'], '1 2 enum E : A #) nosuchword #( endenum', ['A', '3 sq', 'depth'])]:
            pr = ' | '.join('eval %s | stack | out' % hexsrc(p) for p in probes)
            steps = ['xs limits 4000 - -'] + ['eval %s' % hexsrc(g) for g in goods] + \
                    ['clone', 'clone', 'use 2', 'compile %s' % hexsrc(bad), 'use 0', 'eval %s' % hexsrc(bad), 'out', pr, 'dump', 'use 1', pr, 'dump']
            cs.append(' | '.join(steps))
        # the rejected source redefines a word / variable that an earlier source defined - the newest dictionary entry or an older one
        # (family added after round 11: a dictionary entry overwritten in place is below the unwinding mark)
        redef = [(': sq dup * ;', ': sq 1 ;', '3 sq'), ('7 var keep', '20 var keep', 'keep'), (': twice dup + ; 1 var cnt', '5 var cnt', 'cnt'),
                 (': twice dup + ;', ': twice 0 ;', '4 twice'), (': lf 1 ;', ': lf 2 3', 'lf'), (': sq dup * ;', ': sq #( 1 0 / #) ;', '5 sq'),
                 ('1 var cnt', ': cnt 9 ;', 'cnt'), (': sq dup * ;', '3 var sq', '2 sq')]
        for good, re_, probe in redef:
            for between in ([], [': other 0 ;'], ['1 2']):
                for failtok in rng.sample(['zzz', '1 if', ']', '#( foo #)', '0x', ';'], 3 if tier == 'quick' else 6):
                    bad = re_ if (re_.endswith('2 3') or '#(' in re_) else re_ + ' ' + failtok
                    pr = ' | '.join('eval %s | stack | out' % hexsrc(p_) for p_ in [probe, 'depth', probe])
                    steps = ['xs limits 4000 - -', 'eval %s' % hexsrc(good)] + ['eval %s' % hexsrc(b_) for b_ in between] + \
                            ['clone', 'clone', 'use 2', 'compile %s' % hexsrc(bad), 'use 0', '%s %s' % (rng.choice(['eval', 'compile']), hexsrc(bad)),
                             'out', pr, 'dump', 'use 1', pr, 'dump']
                    cs.append(' | '.join(steps))
        # the run-time clause, both submission styles (marker `limits 4010`): after a source failed at RUN time, a later source submitted by
        # compile + run must run its own code, exactly like the same source submitted by eval (recorded finding D42: it resumes the failed one)
        for failing in self.RUNTIME_FAIL[:6] if tier == 'quick' else self.RUNTIME_FAIL:
            for later in ['5', '1 2 +', ': z 9 ; z']:
                pre = rng.choice(['7 ', '', '"s" 3 '])
                cs.append(' | '.join(['xs limits 4010 - -', 'eval %s' % hexsrc(pre + failing + ' 8'), 'clone', 'eval %s' % hexsrc(later), 'stack', 'out',
                                      'use 1', 'compile %s' % hexsrc(later), 'run', 'stack', 'out']))
        # recorded finding D40: a file named by `require` in a rejected source stays registered as read (file access: implementation only)
        import os
        from . import lib
        scratch = os.path.join(lib.HARNESS, 'target', 'scratch')
        os.makedirs(scratch, exist_ok=True)
        libpath = os.path.join(scratch, 'c10_lib.xeh')
        with open(libpath, 'w', encoding='utf-8', newline='') as fh:
            fh.write(': libw 42 ;\n')
        req = 'require "%s"' % libpath
        filew = [([], req + ' junk', [req + ' libw']), (['1 2'], req + ' libw if', [req, 'libw']), ([], '#( ' + req + ' #) junk', [req + ' libw'])]
        # `include` reads the file again whatever happened before: must pass
        filew += [([], 'include "%s" junk' % libpath, ['include "%s" libw' % libpath])]
        for goods, bad, probes in filew:
            pr = ' | '.join('eval %s | stack | out' % hexsrc(p) for p in probes)
            steps = ['xp limits 4000 - -'] + ['eval %s' % hexsrc(g) for g in goods] + \
                    ['clone', 'clone', 'use 2', 'compile %s' % hexsrc(bad), 'use 0', 'eval %s' % hexsrc(bad), 'out', pr, 'dump', 'use 1', pr, 'dump']
            cs.append(' | '.join(steps))
        # recorded findings D30-D32 (witnesses; each must keep failing the way it is recorded)
        for goods, bad, probes in self.WITNESS:
            pr = ' | '.join('eval %s | stack | out' % hexsrc(p) for p in probes)
            steps = ['xs limits 4000 - -'] + ['eval %s' % hexsrc(g) for g in goods] + \
                    ['clone', 'clone', 'use 2', 'compile %s' % hexsrc(bad), 'use 0', 'eval %s' % hexsrc(bad), 'out', pr, 'dump', 'use 1', pr, 'dump']
            cs.append(' | '.join(steps))
        return cs

    WITNESS = [([': foo immediate drop ;', '7 8'], 'foo bar', ['depth']),
               (['#( 1 const X #)'], '#( 5 const X #) junk', ['X']),
               (['late foo : bar foo ;'], ': foo 2 ; #( bar #) junk', ['7 drop : foo 1 ; bar'])]
    D30 = ('a rejected source that invoked a user-defined immediate word: the word ran at build time on the caller\'s data stack / variables '
           'and what it did is not undone (witness: `: foo immediate drop ;` `7 8`, then the rejected `foo bar` leaves only 7)')
    D31 = ('a rejected source whose meta block redefined an existing constant: `const` overwrites the entry in place, below the mark the '
           'unwinding truncates to (witness: `#( 1 const X #)`, then the rejected `#( 5 const X #) junk` leaves X = 5)')
    D32 = ('a rejected source whose meta block ran a late-bound word defined earlier: the stub is resolved to a definition of the rejected '
           'source and keeps pointing into the removed code (witness: `late foo : bar foo ;`, rejected `: foo 2 ; #( bar #) junk`, then '
           '`: foo 1 ; bar` fails)')

    D40 = ('a rejected source that names a file with `require`: the file stays registered as read although its definitions were removed '
           'with the rest of the source, so a later `require` of the same file does nothing (witness: a file holding `: libw 42 ;`, the '
           'rejected source `require "F" junk`, then `require "F" libw` fails with an unknown word)')

    D42 = ('after a source failed at run time, a later source submitted by compile followed by run resumes the failed program at the '
           'failing instruction instead of running its own code (eval, which the REPL uses since the repair of D17, starts at its own code) '
           '(witness: eval `7 1 0 / 8` fails; then compile `5`, run -> the division is executed again and fails with a stack underflow, 5 is never pushed)')

    def known(self, text, impl, spec):
        if 'limits 4010 ' in text:
            return self.D42
        m = re.search(r'history: (.*)', text)
        if not m:
            return None
        srcs = m.group(1).split(' ;; ')
        k = next((i for i in range(len(srcs) - 1) if srcs[i] == srcs[i + 1]), None)
        if k is None:
            return None
        goods, bad = ' \n '.join(srcs[:k]), srcs[k]
        btoks = bad.split()
        if re.search(r'\brequire\s+"', bad):
            return self.D40
        for w in re.findall(r':\s+(\S+)\s+immediate\b', goods):
            if w in btoks:
                return self.D30
        for w in re.findall(r'\bconst\s+(\S+)', goods):
            if re.search(r'\bconst\s+%s(\s|$)' % re.escape(w), bad):
                return self.D31
        for w in re.findall(r'\blate\s+(\S+)', goods):
            if re.search(r':\s+%s\s' % re.escape(w), bad) and '#(' in bad:
                return self.D32
        return None

    def group_check(self, cases, impl):
        fails, samples = [], []
        n = rejected = 0
        for c, o in zip(cases, impl):
            st = c.split(' | ')
            ou = o.split(' | ')
            if c.startswith('xs limits 4010 '):
                if len(st) == len(ou) and ou[1] != 'ok' and 'PANIC' not in o:
                    n += 1
                    ev = (ou[3], ou[4], ou[5])
                    cr = (ou[8] if ou[7] == 'ok' else ou[7], ou[9], ou[10])
                    if ev != cr:
                        fails.append(('case: %s\nhistory: %s\nlater source by eval: %s\nlater source by compile + run: %s' % (c, ' ;; '.join(src_of(c)), ev, cr),
                                      'after a source failed at run time, a later source submitted by compile + run does not run its own code'))
                continue
            if len(st) != len(ou) or 'clone' not in st:
                continue
            ic = st.index('use 0')
            iu = st.index('use 1')
            badres = ou[ic + 1]
            if ou[ic - 1] == 'ok' or badres == 'ok':
                continue          # the source compiles (it may fail when run): not a case of this property
            if 'PANIC' in o:
                continue
            n += 1
            rejected += 1
            a = ou[ic + 3:iu]     # skip the rejected source's own result and what it printed while being built
            b = ou[iu + 1:]
            a = a[:-1] + [strip_meter(a[-1])]
            b = b[:-1] + [strip_meter(b[-1])]
            if a != b:
                k = next(i for i in range(min(len(a), len(b))) if a[i] != b[i])
                fails.append(('case: %s\nhistory: %s\nrejected-source-result: %s\nafter-rejected: %s\nnever-submitted: %s' % (
                    c, ' ;; '.join(src_of(c)), badres, a[k][:800], b[k][:800]),
                    'a later source behaves differently because of the rejected one'))
        if cases:
            samples.append(dict(history=src_of(cases[0]), result=impl[0][:300]))
        return n, fails, samples, dict(histories=n, rejected_sources=rejected)


    RUNTIME_FAIL = ['1 0 /', '"a" 1 +', 'drop', '[ 1 ] 5 nth', 'nil assert', '1 2 assert-eq', '"boom" error', ': f 1 0 / ; f', '3 0 do I 1 == if 1 0 / then loop',
                    '|ff| open-bitstr 16 bits']

    def direct(self, exes, rng, tier):
        """the REPL binary itself: a line that fails at run time is not re-executed by later lines"""
        import subprocess, tempfile, shutil
        from . import lib
        tgt = os.path.join(lib.HARNESS, 'target-repl')
        rc, out = lib.sh('timeout 1500 cargo build --offline 2>&1', cwd=lib.REPO, env=dict(lib.ENV, CARGO_TARGET_DIR=tgt))
        exe = os.path.join(tgt, 'debug', 'xeh')
        if rc != 0 or not os.path.exists(exe):
            return 1, [('the REPL binary does not build:\n' + out[-1500:], 'REPL build failed')], [], {}
        n = 40 if tier == 'quick' else 400
        fails, samples = [], []
        cwd = tempfile.mkdtemp(prefix='xeh-repl-', dir=os.path.join(lib.VERIF, 'evidence'))
        try:
            for i in range(n):
                mark = 'MARK%d' % i
                bad = '"%s" println %s' % (mark, rng.choice(self.RUNTIME_FAIL))
                pre = [rng.choice(GOOD) for _ in range(rng.randint(0, 2))]
                post = [rng.choice(['4', 'depth', '1 2 +', ': f 1 ; f', '.s', '"p" println', '[ 1 ]']) for _ in range(rng.randint(2, 5))]
                script = '\n'.join(['/repl'] + pre + [bad] + post) + '\n'
                try:
                    p = subprocess.run([exe], input=script, cwd=cwd, stdout=subprocess.PIPE, stderr=subprocess.PIPE, text=True, timeout=20)
                except subprocess.TimeoutExpired:
                    fails.append(('repl-script:\n' + script, 'REPL did not terminate'))
                    continue
                if p.stdout.count(mark) != 1:
                    fails.append(('repl-script:\n%s\nstdout:\n%s\nstderr:\n%s' % (script, p.stdout[-1500:], p.stderr[-1500:]),
                                  'the failing line ran %d times' % p.stdout.count(mark)))
                if i == 0:
                    samples.append(dict(repl_script=script, stdout=p.stdout[-300:]))
        finally:
            shutil.rmtree(cwd, ignore_errors=True)
        return n, fails, samples, dict(repl_scripts=n)


PROP = C10()
