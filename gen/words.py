"""Argument signatures of the dictionary words (deepest argument first).
Types: any int nat small flag str vec map bits real num key idx."""
SIG = {
    'equal?': ['any', 'any'], 'nil?': ['any'], 'length': ['coll'], 'nth': ['vec', 'idx'], 'get': ['vecmap', 'key'],
    'concat': ['vec'], 'join': ['vec', 'str'], 'sort': ['vecint'], 'reverse': ['vec'], 'push': ['any', 'vec'],
    'collect': ['any', 'any', 'small'], 'unbox': ['vec'], 'dup': ['any'], 'drop': ['any'], 'swap': ['any', 'any'],
    'rot': ['any', 'any', 'any'], 'over': ['any', 'any'], 'depth': [], 'assert': ['flag'], 'assert-eq': ['any', 'any'],
    '.s': ['any'], 'println': ['any'], 'print': ['any'], 'newline': [], 'str>number': ['numstr'], 'slice': ['vecstr', 'idx', 'idx'],
    'insert': ['map', 'any', 'key'], 'remove': ['map', 'key'], 'tags': ['any'], 'with-tags': ['any', 'map'],
    'insert-tag': ['any', 'any', 'key'], 'remove-tag': ['any', 'key'], 'get-tag': ['any', 'key'], 'error': ['any'],
    '+': ['num', 'num'], '-': ['num', 'num'], '*': ['num', 'num'], '/': ['num', 'num'], 'rem': ['num', 'num'],
    'neg': ['num'], 'abs': ['num'], '<': ['num', 'num'], '<=': ['num', 'num'], '>': ['num', 'num'], '>=': ['num', 'num'],
    '==': ['num', 'num'], '<>': ['num', 'num'], 'and': ['flag', 'flag'], 'or': ['flag', 'flag'], 'xor': ['flag', 'flag'],
    'not': ['flag'], 'band': ['int', 'int'], 'bor': ['int', 'int'], 'bxor': ['int', 'int'], 'bnot': ['int'],
    'bsl': ['int', 'shift'], 'bsr': ['int', 'shift'], 'round': ['real'], 'min': ['num', 'num'], 'max': ['num', 'num'],
    '>real': ['num'], '>int': ['num'], 'zero?': ['num'], 'positive?': ['num'], 'negative?': ['num'], 'popcnt': ['int'],
    'bool?': ['any'], 'int?': ['any'], 'real?': ['any'], 'str?': ['any'], 'bitstr?': ['any'], 'vec?': ['any'],
    'open-bitstr': ['bits'], 'close-bitstr': [], '>b': ['nat'], '>kb': ['nat'], '>mb': ['nat'], 'seek': ['nat'], 'remain': [],
    'find': ['bits'], 'bits': ['small'], 'bytes': ['small'], 'bitstr-len': ['bits'], 'bitstr-append': ['bits', 'bits'],
    'bitstr-not': ['bits'], 'bitstr-and': ['bits', 'bits'], 'bitstr-or': ['bits', 'bits'], 'bitstr-xor': ['bits', 'bits'],
    'hex>bitstr': ['hexstr'], 'bitstr>hex': ['bits'], '>bitstr': ['bytesrc'], 'bitstr>utf8': ['bits'], 'big': [], 'little': [],
    'magic': ['bits'], 'emit': ['bits'], 'float': ['fsize'], 'float!': ['real', 'fsize'], 'int': ['small'], 'uint': ['small'],
    'int!': ['int', 'small'], 'uint!': ['int', 'small'], 'nulbytestr': [], 'cstr': [],
    'base32': ['bytesrc'], 'base32>': ['str'], 'base32hex': ['bytesrc'], 'base32hex>': ['str'], 'base64': ['bytesrc'],
    'base64>': ['str'], 'zero85': ['bytesrc4'], 'zero85>': ['str'], 'I': [], 'J': [], 'K': [], 'exit': ['int'],
    'dump': [], 'dump-at': ['nat'],
}
for n in (8, 16, 32, 64):
    for sfx in ('', 'le', 'be'):
        SIG['u%d%s' % (n, sfx)] = []
        SIG['i%d%s' % (n, sfx)] = []
        SIG['u%d%s!' % (n, sfx)] = ['int']
        SIG['i%d%s!' % (n, sfx)] = ['int']
for n in (32, 64):
    for sfx in ('', 'le', 'be'):
        SIG['f%d%s' % (n, sfx)] = []
        SIG['f%d%s!' % (n, sfx)] = ['real']

# words that touch the outside world or are inherently non-deterministic
EXTERNAL = {'write-all', 'read-all', 'exec-piped', 'random', 'random-bits', '<name>'}
# the tag words and the printing words that honour the formatting tag (excluded from C13 by the property)
TAG_WORDS = {'tags', 'with-tags', 'insert-tag', 'remove-tag', 'get-tag'}
FMT_WORDS = {'print', 'println', '.s', 'concat', 'join', 'str>number', 'dump', 'dump-at'}


def arg_of(rng, ty, cells):
    """canonical cell tuple of the requested type"""
    c = cells
    if ty == 'any':
        return c.rand_cell(rng)
    if ty == 'int':
        return c.rand_cell(rng, types=['int'])
    if ty in ('nat', 'small'):
        return ('I', rng.choice([0, 1, 2, 3, 4, 7, 8, 9, 16] if ty == 'small' else [0, 1, 8, 16, 24, 1000, 2 ** 40]))
    if ty == 'shift':
        return ('I', rng.choice([0, 1, 7, 63, 64, 127]))
    if ty == 'idx':
        return ('I', rng.choice([0, 1, 2, -1, -2, 5, -5, 2 ** 63 - 1, -(2 ** 63)]))
    if ty == 'flag':
        return (rng.choice('TF'),)
    if ty == 'str':
        return c.rand_cell(rng, types=['str'])
    if ty == 'numstr':
        return ('S', rng.choice([b'12', b'-7', b'ff', b'0', b'1_0', b'zz', b'']))
    if ty == 'hexstr':
        return ('S', rng.choice([b'', b'ff', b'0a 1', b'abc', b'xyz']))
    if ty == 'vec':
        return c.rand_cell(rng, types=['vec', 'vec', 'int', 'str'], depth=0) if False else ('V', [c.rand_cell(rng, 1) for _ in range(rng.randint(0, 3))])
    if ty == 'vecint':
        return ('V', [('I', rng.randint(-5, 5)) for _ in range(rng.randint(0, 4))])
    if ty == 'map':
        return c.rand_cell(rng, types=['map'], depth=0)
    if ty == 'vecmap':
        return rng.choice([arg_of(rng, 'vec', c), arg_of(rng, 'map', c)])
    if ty == 'vecstr':
        return rng.choice([arg_of(rng, 'vec', c), arg_of(rng, 'str', c)])
    if ty == 'coll':
        return rng.choice([arg_of(rng, 'vec', c), arg_of(rng, 'str', c), arg_of(rng, 'bits', c)])
    if ty == 'key':
        return rng.choice([('I', rng.choice([0, 1, 2, 7])), ('S', rng.choice([b'k', b'a', b'abc', b'len']))])
    if ty == 'bits':
        v = c.rand_cell(rng, types=['bits'])
        if v[0] == 'B' and rng.random() < 0.3:
            # the same bits as a view into a longer buffer (uniquely owned, not starting at bit 0)
            return ('W', rng.choice([1, 3, 4, 8, 9]), rng.choice([0, 1, 7, 8, 12]), v[1])
        return v
    if ty == 'real':
        return c.rand_cell(rng, types=['real'])
    if ty == 'num':
        return c.rand_cell(rng, types=['int', 'int', 'real'])
    if ty == 'fsize':
        return ('I', rng.choice([32, 64, 16]))
    if ty in ('bytesrc', 'bytesrc4') and rng.random() < 0.25:
        n = (8 if ty == 'bytesrc' else 32) * rng.randint(0, 3)
        return ('W', rng.choice([8, 16, 3, 5]), rng.choice([8, 16, 24, 1]), ''.join(rng.choice('01') for _ in range(n)))
    if ty == 'bytesrc':
        return rng.choice([('B', ''.join(rng.choice('01') for _ in range(8 * rng.randint(0, 4)))), ('S', rng.choice([b'', b'ab', b'hello'])),
                           ('V', [('I', rng.randint(0, 255)) for _ in range(rng.randint(0, 5))])])
    if ty == 'bytesrc4':
        return ('B', ''.join(rng.choice('01') for _ in range(32 * rng.randint(0, 2))))
    return c.rand_cell(rng)
