"""C09: arithmetic, comparison and bitwise words follow exact integer / IEEE semantics."""
from .xsbase import *
from . import cells
import struct

I_MIN, I_MAX = -(1 << 127), (1 << 127) - 1
BIN_INT = ['+', '-', '*', '/', 'rem', 'min', 'max', '<', '<=', '>', '>=', '==', '<>', 'band', 'bor', 'bxor']
UN_INT = ['neg', 'abs', 'bnot', 'popcnt', 'zero?', 'positive?', 'negative?', '>real', '>int']
BIN_REAL = ['+', '-', '*', '/', 'rem', 'min', 'max', '<', '<=', '>', '>=', '==', '<>']
UN_REAL = ['neg', 'abs', 'round', '>int', '>real', 'zero?', 'positive?', 'negative?']


def wrap(v):
    v &= (1 << 128) - 1
    return v - (1 << 128) if v >= 1 << 127 else v


def tquot(a, b):
    q = abs(a) // abs(b)
    return q if (a < 0) == (b < 0) else -q


def int_grid(rng, n):
    vs = {0, 1, -1, 2, -2, 3, 7, I_MIN, I_MIN + 1, I_MAX, I_MAX - 1, 2 ** 63 - 1, 2 ** 63, 2 ** 63 + 1, -(2 ** 63), 2 ** 64 - 1, 2 ** 64,
          2 ** 64 + 1, -(2 ** 64) - 1, -(2 ** 64) + 1}
    for k in range(0, 127, 7):
        vs.update({1 << k, (1 << k) - 1, (1 << k) + 1, -(1 << k)})
    while len(vs) < n:
        vs.add(rng.getrandbits(rng.choice([8, 32, 64, 100, 127])) * rng.choice([1, -1]))
    return sorted(vs)


def f64bits(x):
    return struct.unpack('>Q', struct.pack('>d', x))[0]


def real_grid(rng, n, nan=True):
    vs = {0, 1 << 63, 1, (1 << 63) | 1, 0x0010000000000000, 0x8010000000000000, 0x000fffffffffffff, 0x3ff0000000000000, 0xbff0000000000000,
          0x7fefffffffffffff, 0xffefffffffffffff, 0x7ff0000000000000, 0xfff0000000000000, 0x3fe0000000000000, 0x3ff8000000000000,
          0x4004000000000000, 0xc004000000000000, 0x4340000000000000, 0x433fffffffffffff, 0x47e0000000000000, 0x47efffffffffffff,
          0xc7e0000000000000, 0x3fdfffffffffffff, 0x3fe0000000000001, f64bits(0.1), f64bits(1e300), f64bits(-1e-300), f64bits(123456789.75)}
    if nan:
        vs.update({0x7ff8000000000000, 0xfff8000000000001, 0x7ff0000000000001})
    while len(vs) < n:
        vs.add(rng.getrandbits(64))
    out = sorted(vs)
    if not nan:
        out = [v for v in out if not ((v >> 52) & 0x7ff == 0x7ff and v & ((1 << 52) - 1))]
    return out


def rcell(b):
    return 'Rnan' if ((b >> 52) & 0x7ff == 0x7ff and b & ((1 << 52) - 1)) else 'R%016x' % b


class C09(XsProp):
    id = 'C09'
    trusted_base = XS_TRUSTED + [
        'Flocq 4 (binary64 operations of Model/F64.v; the xf stream runs the model with them)',
        'axioms, used ONLY by the theorems of Props/C09_ieee.v (the IEEE-754 meaning on real numbers, through Flocq and Coq Reals): '
        'Classical_Prop.classic, ClassicalDedekindReals.sig_not_dec, ClassicalDedekindReals.sig_forall_dec, '
        'FunctionalExtensionality.functional_extensionality_dep; all theorems of Props/C09.v are closed under the global context']
    rule = ('operand grids: i128 {min, min+1, -2^64+-1, -1, 0, 1, 2^63+-1, 2^64+-1, max-1, max, 2^k, 2^k+-1, random} squared for every '
            'binary integer word, all shift counts 0..127 for bsl/bsr, unary words on the grid; f64 {+-0, +-min subnormal, +-min normal, '
            '+-1, +-max, +-inf, halves, 2^53 neighbourhood, i128 range edges, NaNs (arithmetic words only), random patterns} squared; every '
            'operand type pairing over 9 cell classes. The model side runs the Flocq binary64 operations (round to nearest even) and exact '
            'integer arithmetic. Direct predicates (Python big integers): exact result when representable, else wrapped value or overflow '
            'error; division/remainder by zero is a division error; truncating division; sign of remainder; shifts; comparisons; a type '
            'error reports one of the two operands. non-trivial = distinct (word, operands) with a non-zero operand')

    def case(self, args, w):
        return 'xf limits 100 - - | %s | eval %s | stack' % (' | '.join('push %s' % a for a in args), hexsrc(w))

    def generate(self, rng, tier):
        thorough = tier == 'thorough'
        cs = []
        ig = int_grid(rng, 70 if not thorough else 140)
        pairs = [(a, b) for a in ig for b in ig]
        for w in BIN_INT:
            sel = pairs if thorough else rng.sample(pairs, 700)
            for a, b in sel:
                cs.append(self.case(['I' + hx(a), 'I' + hx(b)], w))
        # the full product of the boundary values for every binary word (the sampled grid above can miss a single pair)
        I_MIN_, I_MAX_ = -(1 << 127), (1 << 127) - 1
        edge = [I_MIN_, I_MIN_ + 1, -2, -1, 0, 1, 2, I_MAX_ - 1, I_MAX_, 1 << 64, -(1 << 64), (1 << 63) - 1, -(1 << 63)]
        for w in BIN_INT:
            for a in edge:
                for b in edge:
                    cs.append(self.case(['I' + hx(a), 'I' + hx(b)], w))
        for w in ('bsl', 'bsr'):
            for a in (ig if thorough else rng.sample(ig, 25)):
                for n in list(range(128)) + [128, 129, 255, 256, -1, 2 ** 64, 2 ** 32]:
                    cs.append(self.case(['I' + hx(a), 'I' + hx(n)], w))
        for w in UN_INT:
            for a in ig:
                cs.append(self.case(['I' + hx(a)], w))
        rg = real_grid(rng, 60 if not thorough else 110, nan=True)
        rg_nonan = real_grid(rng, 60 if not thorough else 110, nan=False)
        for w in BIN_REAL:
            g = rg if w in ('+', '-', '*', '/', 'rem', 'min', 'max') else rg_nonan
            allp = [(a, b) for a in g for b in g]
            sel = allp if thorough else rng.sample(allp, 500)
            for a, b in sel:
                cs.append(self.case([rcell(a), rcell(b)], w))
        for w in UN_REAL:
            for a in (rg if w not in ('zero?', 'positive?', 'negative?', '>int') else rg_nonan):
                cs.append(self.case([rcell(a)], w))
        # >int around every power of two (a conversion that goes through a narrower integer type shows at its boundary)
        for e_ in list(range(0, 130)):
            for m_ in (2.0 ** e_, 2.0 ** e_ * 1.5, 2.0 ** e_ * (1 + 2.0 ** -52), 2.0 ** e_ * (2 - 2.0 ** -52)):
                for sg_ in (1.0, -1.0):
                    if rng.random() < (1.0 if thorough else 0.5):
                        cs.append(self.case([rcell(struct.unpack('>Q', struct.pack('>d', sg_ * m_))[0])], '>int'))
        # >int near the i128 edges and halves for round
        for b in [0x47dfffffffffffff, 0x47e0000000000000, 0xc7e0000000000000, 0xc7e0000000000001, 0x43e0000000000000, 0x3fe0000000000000,
                  0xbfe0000000000000, 0x4004000000000000, 0x400c000000000000, 0x3fdfffffffffffff, 0x4330000000000001]:
            cs.append(self.case([rcell(b)], '>int'))
            cs.append(self.case([rcell(b)], 'round'))
        # type pairings
        classes = ['N', 'T', 'I5', 'R3ff8000000000000', 'S61', 'B1010', 'V(I1)', 'M(I1=I2)', 'G(I7,M(S6b=I1))', 'G(S61,M(S6b=I1))', 'G(I0,M(S6b=I1))',
                   'G(R0000000000000000,M(S6b=I1))', 'I0', 'R0000000000000000']
        for w in BIN_INT + ['bsl', 'and', 'or', 'xor']:
            for a in classes:
                for b in classes:
                    cs.append(self.case([a, b], w))
        for w in UN_INT + ['round', 'not']:
            for a in classes:
                cs.append(self.case([a], w))
        return cs

    def canon_impl(self, s):
        return s

    def group_check(self, cases, impl):
        fails, samples = [], []
        n = 0
        for c, o in zip(cases, impl):
            st = c.split(' | ')
            ou = o.split(' | ')
            if len(st) != len(ou) or 'PANIC' in o or not c.startswith('xf limits 100'):
                continue
            args = [x[5:] for x in st if x.startswith('push ')]
            w = src_of(c)[0]
            res, stack = ou[-2], [t for t in cells.strip_text(ou[-1]).strip('[] ').split(' ') if t]
            pa = [cells.parse(a) for a in args]
            n += 1
            bad = None
            if all(cells.strip(p)[0] == 'I' for p in pa):
                vals = [cells.strip(p)[1] for p in pa]
                exact = None
                err = None
                if len(vals) == 2:
                    a, b = vals
                    if w == '+': exact = a + b
                    elif w == '-': exact = a - b
                    elif w == '*': exact = a * b
                    elif w == '/':
                        if b == 0: err = 'EDivZero'
                        else: exact = tquot(a, b)
                    elif w == 'rem':
                        if b == 0: err = 'EDivZero'
                        else: exact = a - b * tquot(a, b)
                    elif w == 'min': exact = min(a, b)
                    elif w == 'max': exact = max(a, b)
                    elif w == 'band': exact = a & b
                    elif w == 'bor': exact = a | b
                    elif w == 'bxor': exact = a ^ b
                    elif w == 'bsr' and 0 <= b <= 127: exact = a >> b
                    elif w == 'bsl' and 0 <= b <= 127: exact = wrap(a << b)
                    elif w in ('<', '<=', '>', '>=', '==', '<>'):
                        exact = {'<': a < b, '<=': a <= b, '>': a > b, '>=': a >= b, '==': a == b, '<>': a != b}[w]
                elif len(vals) == 1:
                    a = vals[0]
                    if w == 'neg': exact = -a
                    elif w == 'abs': exact = abs(a)
                    elif w == 'bnot': exact = ~a
                    elif w == 'popcnt': exact = bin(a & ((1 << 128) - 1)).count('1')
                    elif w == 'zero?': exact = a == 0
                    elif w == 'positive?': exact = a > 0
                    elif w == 'negative?': exact = a < 0
                    elif w == '>int': exact = a
                if err:
                    if res != err:
                        bad = 'expected %s, got %s %s' % (err, res, stack)
                elif exact is not None:
                    if isinstance(exact, bool):
                        want = ['T' if exact else 'F']
                        if res != 'ok' or stack != want:
                            bad = 'expected %s, got %s %s' % (want, res, stack)
                    elif I_MIN <= exact <= I_MAX:
                        if res != 'ok' or stack != ['I' + hx(exact)]:
                            bad = 'exact result %d is representable, got %s %s' % (exact, res, stack)
                    else:
                        # not representable: wrapped value or overflow error, nothing else
                        if not (res == 'EOverflow' or (res == 'ok' and stack == ['I' + hx(wrap(exact))])):
                            bad = 'unrepresentable result must wrap or overflow, got %s %s' % (res, stack)
            elif w in ('min', 'max') and len(pa) == 2 and all(cells.strip(p)[0] == 'R' for p in pa) and \
                    sum(cells.strip(p)[1] == 'nan' for p in pa) == 1:
                # IEEE minNum / maxNum: a single NaN operand is ignored
                other = [cells.strip(p) for p in pa if cells.strip(p)[1] != 'nan'][0]
                if res != 'ok' or stack != ['R' + other[1]]:
                    bad = '%s with one NaN operand must return the other operand %s, got %s %s' % (w, 'R' + other[1], res, stack)
            elif all(cells.strip(p)[0] == 'R' for p in pa) and all(cells.strip(p)[1] != 'nan' for p in pa):
                # reals: the host's binary64 arithmetic (Python floats) as an independent oracle for the failing-input search
                import math
                fv = [struct.unpack('>d', bytes.fromhex(cells.strip(p)[1]))[0] for p in pa]
                rb = lambda x: 'Rnan' if x != x else 'R' + struct.pack('>d', x).hex()
                want = None
                if len(fv) == 2:
                    a, b = fv
                    try:
                        if w == '+': want = ('ok', [rb(a + b)])
                        elif w == '-': want = ('ok', [rb(a - b)])
                        elif w == '*': want = ('ok', [rb(a * b)])
                        elif w == '/':
                            if b == 0.0: want = ('EDivZero', None)
                            elif math.isinf(a) and math.isinf(b): want = ('ok', ['Rnan'])
                            else: want = ('ok', [rb(a / b)])
                        elif w in ('<', '<=', '>', '>=', '==', '<>'):
                            t = {'<': a < b, '<=': a <= b, '>': a > b, '>=': a >= b, '==': a == b, '<>': a != b}[w]
                            want = ('ok', ['T' if t else 'F'])
                        elif w in ('min', 'max') and not (a == 0.0 and b == 0.0):
                            want = ('ok', [rb(min(a, b) if w == 'min' else max(a, b))])
                    except (OverflowError, ZeroDivisionError, ValueError):
                        want = None
                elif len(fv) == 1:
                    a = fv[0]
                    if w == 'round' and not math.isinf(a):
                        # nearest integer, halves away from zero, computed exactly; the sign is kept
                        from fractions import Fraction
                        q = Fraction(abs(a)) + Fraction(1, 2)
                        r = float(q.numerator // q.denominator)
                        want = ('ok', [rb(math.copysign(r, a))])
                    elif w == '>int' and not math.isinf(a) and not math.isnan(a):
                        # truncation toward zero, exact, saturated to the 128-bit range (`as` cast semantics)
                        t = max(-(2 ** 127), min(2 ** 127 - 1, int(a)))
                        want = ('ok', ['I' + hx(t)])
                    elif w == '>real' : want = ('ok', [rb(a)])
                    elif w == 'neg': want = ('ok', [rb(-a)])
                    elif w == 'abs': want = ('ok', [rb(abs(a))])
                    elif w == 'zero?': want = ('ok', ['T' if a == 0.0 else 'F'])
                    elif w == 'positive?': want = ('ok', ['T' if a > 0.0 else 'F'])
                    elif w == 'negative?': want = ('ok', ['T' if a < 0.0 else 'F'])
                if want is not None:
                    if want[1] is None:
                        if res != want[0]:
                            bad = 'expected %s, got %s %s' % (want[0], res, stack)
                    elif res != want[0] or stack != want[1]:
                        bad = 'binary64 result is %s, got %s %s' % (want[1], res, stack)
            elif res.startswith('EType('):
                payload = res[6:-1]
                if payload not in args and payload not in [cells.fmt(cells.strip(p)) for p in pa]:
                    bad = 'type error reports %s, which is none of the operands %s' % (payload, args)
            if bad:
                fails.append(('case: %s\nword: %s operands: %s\nresult: %s' % (c, w, args, o), bad))
        if cases:
            samples.append(dict(case=cases[0], result=impl[0]))
        return n, fails, samples, dict(operand_cases=n)

    def canon_model(self, s):
        return s


from .common import hx
PROP = C09()
