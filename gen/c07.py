"""C07: binary construction is the inverse of binary parsing."""
from .xsbase import *
from . import cells
from .common import int_pool


def real_lit(rng):
    return rng.choice(['0.0', '1.5', '-2.25', '1.0', '100.0', '0.1', '-0.0', '3.0'])


class C07(XsProp):
    id = 'C07'
    rule = ('records of 1..12 typed fields - integers of width 1..128 (N int!/uint!, fixed uN!/iN! with le/be suffixes), f64 and f32 '
            'reals, raw bit-string literals, strings and byte vectors - with byte-order switches (big/little) between fields so that fields '
            'start at every bit alignment; packed with [ ... ] >bitstr, and in a second form emitted in 1..4 chunks with output interception '
            'on; then parsed back with the matching read words. Direct predicates: length of the packed value = sum of widths; every '
            'integer read returns the original value reduced to its width (twos complement / modulo), reals and raw fields return equal '
            'values; remain = 0 at the end; output = concatenation of the emitted chunks and output-length = its length. '
            'non-trivial = distinct record with at least one field starting off a byte boundary')

    def field(self, rng):
        k = rng.random()
        if k < 0.45:
            w = rng.choice([1, 2, 3, 4, 5, 7, 8, 9, 12, 15, 16, 17, 24, 31, 32, 33, 48, 63, 64, 65, 100, 127, 128, rng.randint(1, 128)])
            signed = rng.random() < 0.5
            v = rng.choice(int_pool(rng, w, 2))
            pack = '%d %d %s' % (v, w, 'int!' if signed else 'uint!')
            read = '%d %s' % (w, 'int' if (signed or w == 128) else 'uint')
            sg = signed or w == 128
            exp = v % (1 << w)
            if sg and exp >= 1 << (w - 1):
                exp -= 1 << w
            return dict(pack=pack, read=read, width=w, expect=('I', exp))
        if k < 0.65:
            w = rng.choice([8, 16, 32, 64])
            sfx = rng.choice(['', 'le', 'be'])
            signed = rng.random() < 0.5
            v = rng.choice(int_pool(rng, w, 2))
            pack = '%d %s%d%s!' % (v, 'i' if signed else 'u', w, sfx)
            read = '%s%d%s' % ('i' if signed else 'u', w, sfx)
            exp = v % (1 << w)
            if signed and exp >= 1 << (w - 1):
                exp -= 1 << w
            return dict(pack=pack, read=read, width=w, expect=('I', exp))
        if k < 0.7:
            # a packed record as a raw field of the enclosing record: read back as a view, opened, parsed to its end, closed
            wa, wb = rng.choice([3, 8, 12, 16, 33]), rng.choice([1, 5, 8, 24])
            a_, b_ = rng.getrandbits(wa), rng.getrandbits(wb)
            pack = '[ %d %d uint! %d %d uint! ] >bitstr' % (a_, wa, b_, wb)
            read = '%d bits open-bitstr [ %d uint %d uint remain ] close-bitstr' % (wa + wb, wa, wb)
            return dict(pack=pack, read=read, width=wa + wb, expect=('V', [('I', a_), ('I', b_), ('I', 0)]))
        if k < 0.75:
            sfx = rng.choice(['', 'le', 'be'])
            r = real_lit(rng)
            return dict(pack='%s f64%s!' % (r, sfx), read='f64%s' % sfx, width=64, expect=('Rsrc', r))
        if k < 0.85:
            n = rng.choice([0, 1, 3, 4, 8, 9, 13, 16])
            bits = ''.join(rng.choice('01') for _ in range(n))
            lit = '|' + ''.join('x' if b == '1' else '.' for b in bits) + '|'
            return dict(pack=lit, read='%d bits' % n, width=n, expect=('B', bits))
        if k < 0.93:
            t = rng.choice(['', 'a', 'xyz', 'hello'])
            bits = ''.join('{:08b}'.format(b) for b in t.encode())
            return dict(pack='"%s"' % t, read='%d bytes' % len(t), width=8 * len(t), expect=('B', bits))
        bs = [rng.randint(0, 255) for _ in range(rng.randint(0, 3))]
        bits = ''.join('{:08b}'.format(b) for b in bs)
        return dict(pack='[ %s]' % ''.join('%d ' % b for b in bs), read='%d bytes' % len(bs), width=8 * len(bs), expect=('B', bits))

    def generate(self, rng, tier):
        n = 600 if tier == 'quick' else 15000
        cs = []
        self.expect = {}
        self.refuse = set()
        # emitting values that are slices of an input: output-length stays the length of output
        self.emit_len = set()
        for data, reads in [('|ab cd ef|', ['8 bits emit', '4 bits emit', '3 bits emit']), ('|01 02 03 04|', ['u8 drop 2 bytes emit', '5 bits emit']),
                            ('[ 255 15 7 ] >bitstr', ['4 bits drop 12 bits emit', '1 bytes emit']), ('|f0 0f|', ['7 bits emit 9 bits emit'])]:
            for k in range(1, len(reads) + 1):
                src = '%s open-bitstr %s output-length output length' % (data, ' '.join(reads[:k]))
                case = 'xs limits 4000 - - | intercept on | eval %s | stack' % hexsrc(src)
                cs.append(case)
                self.emit_len.add(case)
        # byte lists with one element that is not a byte: must be refused, whatever its low bits are
        for bad in [256, -1, 300, 2 ** 63, 2 ** 64, 2 ** 64 + 65, 3 * 2 ** 64 + 255, -(2 ** 64) + 7, -(2 ** 127), 2 ** 127 - 1, 2 ** 32 + 1, 2 ** 8 * 3 + 5]:
            for form in ['[ %d ] >bitstr', '[ 1 %d 2 ] >bitstr', '[ [ %d ] ] >bitstr', '[ "a" %d ] >bitstr', '[ 7 [ 8 %d ] ] >bitstr emit output']:
                case = 'xs limits 4000 - - | eval %s | stack' % hexsrc(form % bad)
                cs.append(case)
                self.refuse.add(case)
        # bitstr>utf8 (in the model since round 11): the inverse of packing a string - strict UTF-8, checked against an independent decoder
        self.utf8 = {}
        edge = [b'', b'A', b'h\xc3\xa9\xe2\x82\xac\xf0\x9f\x98\x80', b'\xed\xa0\x80', b'\xed\x9f\xbf', b'\xf4\x90\x80\x80', b'\xf4\x8f\xbf\xbf',
                b'\xc0\x80', b'\xc1\xbf', b'\xc2\x80', b'\xe0\x80\x80', b'\xe0\x9f\xbf', b'\xe0\xa0\x80', b'\xf0\x80\x80\x80', b'\xf0\x8f\xbf\xbf',
                b'\xf0\x90\x80\x80', b'\x80', b'\xbf', b'\xe2\x82', b'\xf0\x9f\x98', b'\xf5\x80\x80\x80', b'\xff', b'\xfe', b'a\x80b', b'\xef\xbf\xbf',
                b'\xee\x80\x80', b'\xdf\xbf', b'\xdf', b'ab\xc3', b'\x00', b'\x7f']
        pool = [0x00, 0x41, 0x7f, 0x80, 0x8f, 0x90, 0x9f, 0xa0, 0xbf, 0xc0, 0xc1, 0xc2, 0xdf, 0xe0, 0xe1, 0xec, 0xed, 0xee, 0xef, 0xf0, 0xf1, 0xf3, 0xf4, 0xf5, 0xff]
        datas = list(edge)
        for _ in range(250 if tier == 'quick' else 20000):
            k = rng.random()
            if k < 0.4:
                datas.append(bytes(rng.choice(pool) for _ in range(rng.randint(1, 6))))
            elif k < 0.8:
                t = ''.join(chr(rng.choice([rng.randint(0x20, 0x7e), rng.randint(0x80, 0x7ff), rng.randint(0x800, 0xd7ff), rng.randint(0xe000, 0xffff),
                                            rng.randint(0x10000, 0x10ffff)])) for _ in range(rng.randint(0, 8)))
                datas.append(t.encode('utf-8'))
            else:
                b = bytearray(''.join(chr(rng.randint(0x80, 0x10ffff) if rng.random() < 0.5 else rng.randint(0x20, 0x7e)) for _ in range(rng.randint(1, 5))).encode('utf-8', 'ignore'))
                if b:
                    i = rng.randrange(len(b))
                    if rng.random() < 0.5:
                        b[i] = rng.choice(pool)
                    else:
                        del b[i]
                datas.append(bytes(b))
        for d in datas:
            off = rng.choice([0, 0, 3, 8, 5])
            bits = ''.join('{:08b}'.format(x) for x in d)
            if off == 0:
                case = 'xs limits 4000 - - | push B%s | eval %s | stack' % (bits or '-', hexsrc('bitstr>utf8'))
            else:
                allbits = ''.join(rng.choice('01') for _ in range(off)) + bits + ''.join(rng.choice('01') for _ in range((-(off + len(bits))) % 8 + 8))
                hx_ = ''.join('%02x' % int(allbits[i:i + 8], 2) for i in range(0, len(allbits), 8))
                case = 'xs limits 4000 - - | input %s %d %d | eval %s | stack' % (hx_, off, len(allbits), hexsrc('%d bits bitstr>utf8' % len(bits)))
            cs.append(case)
            self.utf8[case] = d
            try:
                d.decode('utf-8')
                # packing the string again gives the bytes back
                case2 = 'xs limits 4000 - - | push S%s | eval %s | stack' % (d.hex() or '-', hexsrc('dup >bitstr bitstr>utf8 equal?'))
                cs.append(case2)
                self.utf8[case2] = None
            except UnicodeDecodeError:
                pass
        for bad in ['|41 4|', '|x|', '5', '"s"', 'nil', '[ 65 ]']:
            cs.append('xs limits 4000 - - | eval %s | stack' % hexsrc('%s bitstr>utf8' % bad))
        for i in range(n):
            fs = []
            order = 'little'
            for _ in range(rng.randint(1, 12)):
                f = self.field(rng)
                if rng.random() < 0.25:
                    order = rng.choice(['big', 'little'])
                    f['pre'] = order
                fs.append(f)
            total = sum(f['width'] for f in fs)
            packs = ' '.join((f.get('pre', '') + ' ' + f['pack']).strip() for f in fs)
            reads = [(f.get('pre', '') + ' ' + f['read']).strip() for f in fs]
            if i % 2 == 0:
                src1 = 'little [ %s ] >bitstr dup length swap little open-bitstr' % packs
                steps = ['xs limits 20000 400 -', 'eval %s' % hexsrc(src1), 'stack']
            else:
                # the same record emitted in chunks
                cuts = sorted(rng.sample(range(1, len(fs)), min(len(fs) - 1, rng.randint(0, 3)))) if len(fs) > 1 else []
                chunks, a = [], 0
                for cpos in cuts + [len(fs)]:
                    chunks.append(fs[a:cpos])
                    a = cpos
                parts = ['little']
                for ch in chunks:
                    parts.append('[ %s ] >bitstr emit' % ' '.join((f.get('pre', '') + ' ' + f['pack']).strip() for f in ch))
                parts.append('output-length output little open-bitstr')
                steps = ['xs limits 20000 400 -', 'intercept on', 'eval %s' % hexsrc(' '.join(parts)), 'stack']
            for r in reads:
                steps.append('eval %s | stack' % hexsrc(r))
            steps.append('eval %s | stack' % hexsrc('remain'))
            case = ' | '.join(steps)
            cs.append(case)
            self.expect[case] = (total, [f['expect'] for f in fs], [f['width'] for f in fs])
        return cs

    def group_check(self, cases, impl):
        fails, samples = [], []
        n = unal = 0
        for c, o in zip(cases, impl):
            if c in getattr(self, 'emit_len', ()):
                n += 1
                ou = o.split(' | ')
                sk = [t for t in ou[-1].strip('[] ').split(' ') if t]
                if ou[-2] != 'ok' or len(sk) < 2 or sk[-1] != sk[-2]:
                    fails.append(('case: %s\nsource: %s\nresult: %s' % (c, src_of(c)[0], o[:300]), 'output-length is not the length of output'))
                continue
            if c in getattr(self, 'utf8', {}):
                n += 1
                d = self.utf8[c]
                ou = o.split(' | ')
                sk = [t for t in ou[-1].strip('[] ').split(' ') if t]
                if d is None:
                    if ou[-2] != 'ok' or sk != ['T']:
                        fails.append(('case: %s\nresult: %s' % (c, o[:300]), 'a string packed with >bitstr did not come back through bitstr>utf8'))
                    continue
                try:
                    want = d.decode('utf-8')
                except UnicodeDecodeError:
                    want = None
                if want is None:
                    if ou[-2] == 'ok' or sk:
                        fails.append(('case: %s\nbytes: %s\nresult: %s' % (c, d.hex(), o[:300]), 'bitstr>utf8 accepted bytes that are not well-formed UTF-8 (or left something behind)'))
                elif ou[-2] != 'ok' or sk != ['S' + (d.hex() or '-')]:
                    fails.append(('case: %s\nbytes: %s\nresult: %s' % (c, d.hex(), o[:300]), 'bitstr>utf8 did not return the string with exactly these bytes'))
                continue
            if c in getattr(self, 'refuse', ()):
                n += 1
                if o.split(' | ')[1] == 'ok':
                    fails.append(('case: %s\nsource: %s\nresult: %s' % (c, src_of(c)[0], o[:300]),
                                  'a byte list with an element outside 0..255 was packed (the bytes would not parse back to it)'))
                continue
            if c not in getattr(self, 'expect', {}) or 'PANIC' in o:
                continue
            total, exps, widths = self.expect[c]
            ou = o.split(' | ')
            st = c.split(' | ')
            n += 1
            pos = 0
            if any((sum(widths[:k]) % 8) for k in range(len(widths))):
                unal += 1
            k0 = 2 if 'intercept on' not in st else 3
            bad = None
            if ou[k0 - 1] != 'ok':
                bad = 'packing failed: %s' % ou[k0 - 1]
            else:
                first = [t for t in ou[k0].strip('[] ').split(' ') if t]
                if first != ['I%x' % total]:
                    bad = 'packed length / output-length is %s, the field widths sum to %d' % (first, total)
            i = k0 + 1
            below = 'I%x' % total
            for e in exps:
                if bad:
                    break
                res, sk = ou[i], [t for t in ou[i + 1].strip('[] ').split(' ') if t]
                i += 2
                if res != 'ok':
                    bad = 'reading field %d failed: %s' % (pos, res)
                    break
                got = cells.strip(cells.parse(sk[-1]))
                if e[0] == 'Rsrc':
                    import struct
                    want = ('R', '%016x' % struct.unpack('>Q', struct.pack('>d', float(e[1])))[0])
                else:
                    want = e
                if got != want:
                    bad = 'field %d read back as %s, packed %s' % (pos, cells.fmt(got), cells.fmt(want) if want[0] != 'B' else 'B' + want[1])
                pos += 1
            if not bad:
                last = [t for t in ou[-1].strip('[] ').split(' ') if t]
                if ou[-2] != 'ok' or last[-1] != 'I0':
                    bad = 'remain after the last field is %s' % last[-1:]
            if bad:
                fails.append(('case: %s\nsources: %s\nresult: %s' % (c, src_of(c), o[:1200]), bad))
        if cases:
            samples.append(dict(sources=src_of(cases[0]), result=impl[0][:300]))
        return n, fails, samples, dict(records=n, records_with_unaligned_fields=unal)


PROP = C07()
