"""C11: meta-evaluation is sealed and equivalent to inlining its result."""
from .xsbase import *
from . import lib, cells

EXPRS = ['1', '2 3 +', '10 3 -', '2 3 * 4 +', '1 2', '1 2 3', '[ 1 2 ]', '[ ]', '"s"', '1 2 swap', '5 dup *', '7 2 rem', '[ 1 [ 2 ] ]',
         ': sq dup * ; 4 sq', ': k 9 ; k k +', '#( 2 #) 3 +', '1 #( 2 3 + #) +', '6 const SIX', '6 const SIX SIX', '2 const TWO TWO TWO *',
         'depth', '1 2 depth', 'nil', 'true', '{ 1 "a" }', '3 0 do I loop', '1 if 2 else 3 then', '[ 1 2 3 ] length', '|ff|', '100 neg',
         '[ 1 2 3 ] reverse', '"a" "b"', '1 2 3 rot', '5 0 do I loop 5 collect', '2 #( 3 #) *', ': g 1 2 ; g', '0x10 1 bsl',
         # several helper words and constants in one block, in every order (the purge must remove every word and keep every constant)
         ': f 2 ; : g 3 ; f g *', ': a 1 ; : b 2 ; : c 3 ; a b c + +', ': h1 10 ; h1 const SIX : h2 SIX 1 + ; h2',
         ': a 1 ; 6 const SIX : b SIX ; : c b a + ; c', '6 const SIX 2 const TWO : m SIX TWO * ; : n m m + ; n',
         ': a 1 ; : b 2 ; 6 const SIX : c 3 ; : d 4 ; 2 const TWO a b c d + + +', ': f 1 ; : f 2 ; : f 3 ; f']
SEAL = ['vv', 'drop', '1 ! vv', '5 var inner', 'swap', 'dup', 'rdv', 'wrv', 'rdv 1 +', 'rdv print', '1 if rdv then', 'true if wrv then', ': q rdv ; q',
        '[ rdv ]', 'rdv drop 5',
        # the block owns one or two cells and the word needs more: it must not take them from below
        '1 rot', '1 2 rot', '1 swap', '1 over', '1 drop drop', '1 2 + +', '[ 1 ] swap', '1 2 swap rot', '1 2 rot drop', '"a" 1 rot', '1 dup rot', '1 2 drop rot']
SEAL_HELPERS = ' : rdv vv ; : wrv 1 ! vv ;'
PRE = ['', '1', '100 200', '"x"', '7 var vv', '7 var vv vv', '[ 1 ]']
POST = ['', '1 +', 'dup', 'depth', 'drop', '2', 'print']


def cells_count(lit):
    """top-level values in a literal source text"""
    out, d = [], 0
    for t in lit.split():
        if d == 0:
            out.append(t)
        d += t in ('[', '{')
        d -= t in (']', '}')
    return out


class C11(XsProp):
    id = 'C11'
    rule = ('constant expressions e (arithmetic, stack words, vectors, maps, local word definitions, nested meta blocks, const '
            'definitions, loops) are first evaluated alone by the implementation; then `#( e #)` is placed at top level, inside a '
            'vector builder, inside a map builder, inside a word definition and inside another meta block, between random surroundings, and '
            'compared with the same program with the block replaced by the literal values (last result first): results, stack, stdout, '
            'emitted opcodes and the dictionary afterwards (minus constants defined by e) must agree; blocks that try to read or change the '
            'surrounding stack or variables must fail the same way on any surroundings; compile alone must leave stack and heap unchanged. '
            'non-trivial = distinct (position, e, surroundings) with e of more than one token')

    def generate(self, rng, tier):
        exe = self.exes[self.profiles[0]]
        # phase 1: the value(s) of each expression, evaluated alone
        probe = ['xs limits 4000 - - | eval %s | stack' % hexsrc(e) for e in EXPRS]
        res = lib.run_impl(exe, probe)
        lits = {}
        for e, r in zip(EXPRS, res):
            parts = r.split(' | ')
            if parts[1] != 'ok':
                continue
            vals = [x for x in parts[2].strip('[] ').split(' ') if x]
            srcs = [cells.source(cells.parse(v)) for v in vals]
            if any(s is None for s in srcs):
                continue
            lits[e] = ' '.join(reversed(srcs))     # last result first
        # tagged results: there is no literal syntax for a tagged value, the written-out form is the run-time expression itself
        for e in ['5 ^{ 1 "k" ^}', '"ff" ^hex', 'nil 1 "a" insert-tag', '[ 1 ] ^{ 2 "z" ^}', '1.5 ^{ 1 "k" ^}', '0 ^bin "q" "w" insert-tag']:
            lits[e] = e
        self.lits = lits
        n = 700 if tier == 'quick' else 12000
        cs = []
        for i in range(n):
            e = rng.choice(list(lits))
            lit = lits[e]
            pre, post = rng.choice(PRE), rng.choice(POST)
            form = rng.choice(['top', 'top', 'vec', 'map', 'def', 'meta', 'defmeta', 'defnest', 'defnest2', 'vecnest', 'deflocal', 'deflocal2'])
            consts = ' '.join(w for w in ('SIX', 'TWO') if w in e)

            def wrap(x):
                if form == 'top':
                    return '%s %s %s' % (pre, x, post)
                if form == 'vec':
                    return '%s [ 5 %s 6 ] %s' % (pre, x, post)
                if form == 'map':
                    return '%s { %s "k" } %s' % (pre, x if len(lit.split()) == 1 or x != lit else x, post)
                if form == 'def':
                    return '%s : ff %s ; ff ff %s' % (pre, x, post)
                if form == 'meta':
                    return '%s #( 1 drop %s #) %s' % (pre, x, post)
                # the block stands in a definition that has locals, one of them named like a constant the block uses
                if form == 'deflocal':
                    return '%s : ff local zz %s zz drop ; 5 ff %s' % (pre, x, post)
                if form == 'deflocal2':
                    return '%s #( 6 const SIX 2 const TWO #) : ff local SIX local TWO %s ; 8 9 ff %s' % (pre, x, post)
                # a block nested in a block that stands in a word body / a builder, with values pending on the meta stack
                if form == 'defnest':
                    return '%s : ff #( 10 %s swap drop #) ; ff %s' % (pre, x, post)
                if form == 'defnest2':
                    return '%s : ff true if #( 10 20 %s rot rot drop drop #) then ; ff %s' % (pre, x, post)
                if form == 'vecnest':
                    return '%s [ #( 10 %s swap drop #) ] %s' % (pre, x, post)
                return '%s #( : gg %s ; gg #) %s' % (pre, x, post)
            if form in ('defnest', 'defnest2', 'vecnest') and 'depth' in e:
                form = 'def'      # nested blocks share the meta stack (pinned by test_meta_stack): `depth` sees the pending values
            if form == 'map' and len(lit.split()) != 1 and not lit.startswith(('[', '{', '"', '|')):
                form = 'top'
            a = wrap('#( %s #)' % e)
            b = wrap(lit)
            cs.append('xs limits 6000 - - | clone | eval %s | stack | out | code 0 | dict 239 | use 1 | eval %s | stack | out | code 0 | dict 239'
                      % (hexsrc(a), hexsrc(b)))
        # a block inside a definition uses a constant whose name is also a local of that definition (declared before the block):
        # the block is sealed, it means the constant
        pairs = [('#( 6 const SIX #) : ff local SIX #( SIX 1 + #) SIX + ; 10 ff', '#( 6 const SIX #) : ff local SIX 7 SIX + ; 10 ff'),
                 ('#( 2 const TWO #) : gg local a local TWO #( TWO TWO * #) a TWO ; 8 9 gg', '#( 2 const TWO #) : gg local a local TWO 4 a TWO ; 8 9 gg'),
                 ('#( 6 const SIX #) : hh local SIX 3 0 do #( SIX #) drop loop SIX ; 1 hh', '#( 6 const SIX #) : hh local SIX 3 0 do 6 drop loop SIX ; 1 hh'),
                 ('#( 6 const SIX #) : kk local q #( SIX #) q ; 1 kk', '#( 6 const SIX #) : kk local q 6 q ; 1 kk'),
                 (': mm local zz #( 1 2 + #) zz ; 5 mm', ': mm local zz 3 zz ; 5 mm'),
                 # a constant defined twice inside one block that also defines a word: the newest definition is the one that remains
                 ('#( : twice dup + ; 1 twice const SIX SIX twice const SIX #) SIX', '#( 4 const SIX #) SIX'),
                 ('#( : k 10 ; k const TWO #( TWO 1 + const TWO #) #) TWO', '#( 11 const TWO #) TWO'),
                 ('#( 1 const SIX : w SIX ; 2 const SIX : v 7 ; 3 const SIX #) SIX SIX +', '#( 3 const SIX #) SIX SIX +'),
                 ('#( : a 1 ; : b 2 ; 5 const SIX 6 const TWO 7 const SIX #) SIX TWO', '#( 7 const SIX 6 const TWO #) SIX TWO')]
        for a, b in pairs:
            for pre in ('', '100 200'):
                cs.append('xs limits 6000 - - | clone | eval %s | stack | out | code 0 | dict 239 | use 1 | eval %s | stack | out | code 0 | dict 239'
                          % (hexsrc((pre + ' ' + a).strip()), hexsrc((pre + ' ' + b).strip())))
        # sealing: the block cannot see or change the surroundings
        for i in range(n // 5):
            e = rng.choice(SEAL)
            pre = rng.choice(['7 var vv%s 1 2', '7 var vv%s', '7 var vv%s 9', '7 var vv%s 1 2 3', '7 var vv%s 4 5 6 7']) % SEAL_HELPERS
            case = ('xs limits 6000 - - | eval %s | clone | eval %s | stack | var 7676 | use 1 | stack | var 7676'
                    % (hexsrc(pre), hexsrc('#( %s #)' % e)))
            cs.append(case)
            if not hasattr(self, 'must_fail'):
                self.must_fail = set()
            self.must_fail.add(case)      # every SEAL expression touches the surroundings: the block must be refused
        # what a block prints / leaves must not depend on what is on the surrounding stack
        for e in ['.s', 'depth print', 'depth', '1 2 + print', '.s 1', 'depth .s']:
            for (x, y) in [('9', '8'), ('1 2 3', '"a"'), ('', '[ 1 ]')]:
                cs.append('xs limits 6001 - - | clone | eval %s | eval %s | out | use 1 | eval %s | eval %s | out' % (
                    hexsrc(x), hexsrc('#( %s #) drop' % e if e.endswith(('depth', '1')) else '#( %s #)' % e),
                    hexsrc(y), hexsrc('#( %s #) drop' % e if e.endswith(('depth', '1')) else '#( %s #)' % e)))
        # compile executes nothing outside meta blocks
        for i in range(n // 5):
            g = Gen(rng, bad=0.02)
            cs.append('xs limits 6000 - - | eval %s | dump | compile %s | dump' % (hexsrc('1 2 7 var vv'), hexsrc(g.program())))
        return cs

    @staticmethod
    def ops_only(code):
        return ' ; '.join(re.sub(r' @\S+$', '', x) for x in code.split(' ; '))

    D18 = ('a meta block nested in a meta block is not inlined: its results stay on the meta stack in evaluation order, so a nested '
           'block that yields several values, or one opened while the enclosing block has an open builder or control structure, '
           'or inside a word definition that follows values the enclosing block has already computed, differs from the written-out values '
           '(witness: #( [ 1 #( 2 #) 3 ] #) -> [ 1 3 ] 2 ; #( #( 1 2 #) #) -> 2 1 ; #( 5 : f #( 1 #) ; f #) differs from #( 5 : f 1 ; f #))')

    D29 = ('the debugging word `.s` prints the whole physical data stack, the part hidden from a meta block included, so a block using it '
           'shows its surroundings (witness: `9 #( .s #)` and `8 #( .s #)` print different text)')

    def known(self, text, impl, spec):
        if 'surroundings-differ' in text and re.search(r'(^|\s)\.s(\s|$)', text):
            return self.D29
        m = re.search(r'program-with-block: (.*)', text)
        if not m:
            return None
        toks = m.group(1).split()
        depth = 0
        opened = []          # per open meta block: number of open builders / control structures (definitions excluded)
        indef = []           # per open meta block: inside a word definition opened in that block
        i = 0
        while i < len(toks):
            t = toks[i]
            if t == '#(':
                if depth > 0:
                    if opened[-1] > 0 or indef[-1]:
                        return self.D18
                    # the nested block's own expression: several values?
                    j, d = i + 1, 1
                    while j < len(toks) and d > 0:
                        d += toks[j] == '#('
                        d -= toks[j] == '#)'
                        j += 1
                    inner = ' '.join(toks[i + 1:j - 1])
                    lit = getattr(self, 'lits', {}).get(inner)
                    if lit is not None and len(cells_count(lit)) >= 2:
                        return self.D18
                depth += 1
                opened.append(0)
                indef.append(False)
            elif t == '#)':
                depth -= 1
                if opened:
                    opened.pop()
                    indef.pop()
            elif depth > 0 and t == ':':
                # a definition that starts after the enclosing block has already produced something
                j = i - 1
                while j >= 0 and toks[j] != '#(':
                    j -= 1
                indef[-1] = (i - j) > 1
            elif depth > 0 and t == ';':
                indef[-1] = False
            elif depth > 0 and t in ('[', '{', 'if', 'begin', 'do', 'case', '^{'):
                opened[-1] += 1
            elif depth > 0 and t in (']', '}', 'then', 'repeat', 'until', 'loop', 'endcase', '^}') and opened[-1] > 0:
                opened[-1] -= 1
            i += 1
        return None

    def group_check(self, cases, impl):
        fails, samples = [], []
        n = 0
        for c, o in zip(cases, impl):
            st = c.split(' | ')
            ou = o.split(' | ')
            if len(st) != len(ou) or 'PANIC' in o:
                continue
            if len(st) > 1 and st[1] == 'clone' and 'code 0' in st:
                n += 1
                a = ou[2:7]
                b = ou[8:13]
                a[3], b[3] = '', ''     # a collection value is inlined as one constant cell: code is not compared
                # constants defined by e remain after the block; everything else of the dictionary must agree
                da = [' '.join(x.split(' ')[:2]) for x in a[4][5:].split(' ; ') if ' const ' not in x]
                db = [' '.join(x.split(' ')[:2]) for x in b[4][5:].split(' ; ') if ' const ' not in x]
                a[4], b[4] = da, db
                if a != b:
                    k = next(i for i in range(5) if a[i] != b[i])
                    srcs = src_of(c)
                    fails.append(('case: %s\nprogram-with-block: %s\nprogram-inlined: %s\nfield: %s\nwith-block: %s\ninlined: %s' % (
                        c, srcs[0], srcs[1], ['result', 'stack', 'stdout', 'code', 'dictionary'][k], str(a[k])[:600], str(b[k])[:600]),
                        'a program with a meta block differs from the program with the value written out'))
            elif c.startswith('xs limits 6001 '):
                n += 1
                if (ou[3], ou[4]) != (ou[7], ou[8]):
                    fails.append(('case: %s\nsurroundings-differ: %s\nblock-result-and-output: %s %s / %s %s' % (
                        c, ' ;; '.join(src_of(c)), ou[3], ou[4], ou[7], ou[8]), 'what a meta block does depends on the surrounding data stack'))
            elif 'var 7676' in st:
                n += 1
                # after the (failing or not) sealed block the outer stack and variable are as on the untouched clone,
                # except for results the block itself produced
                iu = st.index('use 1')
                blockres, stack_a, var_a = ou[iu - 3], ou[iu - 2], ou[iu - 1]
                stack_b, var_b = ou[iu + 1], ou[iu + 2]
                if c in getattr(self, 'must_fail', ()) and blockres == 'ok':
                    fails.append(('case: %s\nsources: %s\nresult: %s' % (c, src_of(c), o[:800]),
                                  'a meta block that reads or writes its surroundings (directly or through an outer word) was accepted'))
                elif var_a != var_b or (blockres != 'ok' and stack_a != stack_b) or \
                        (blockres == 'ok' and not stack_a.startswith(stack_b[:-2])):
                    fails.append(('case: %s\nsources: %s\nresult: %s' % (c, src_of(c), o[:800]), 'a meta block saw or changed its surroundings'))
            elif st[-2].startswith('compile'):
                n += 1
                d1, d2 = ou[2], ou[4]
                if ou[3] == 'ok' and (field(d1, 'ds') != field(d2, 'ds') or field(d1, 'heap').split(' ')[:7] != field(d2, 'heap').split(' ')[:7]):
                    fails.append(('case: %s\nsource: %s\nbefore: %s\nafter: %s' % (c, src_of(c)[-1], d1[:500], d2[:500]),
                                  'compile changed the data stack or a variable'))
        if cases:
            samples.append(dict(programs=src_of(cases[0]), result=impl[0][:300]))
        return n, fails, samples, dict(meta_comparisons=n, expressions=len(getattr(self, 'lits', {})))


PROP = C11()
