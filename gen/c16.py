"""C16: the lexer is total, loses no text, reads literals as written (+ C17a token_location)."""
from .engine import Prop
from .common import *
from . import lib

WS = [' ', ' ', ' ', '\n', '\t', '\r', '\r\n', '\x0c', '  ']
ODD = ['\x0b', '\u00a0', '\u2003', 'é', '日本', '\U0001f600', '“', '”', '"', '|', '\\', '\\(', '\\)', '#', '.', 'x', '_', '-', '+', '0x', '0b']


def num_spellings(rng):
    out = []
    mags = [0, 1, 7, 9, 10, 15, 16, 255, 2 ** 31, 2 ** 63 - 1, 2 ** 63, 2 ** 64, 2 ** 127 - 1, 2 ** 127, 2 ** 127 + 1, 2 ** 128,
            rng.getrandbits(rng.randint(1, 130))]
    for m in mags:
        for sign in ('', '-', '+'):
            out.append('%s%d' % (sign, m))
            out.append('%s0x%x' % (sign, m))
            out.append('%s0x%X' % (sign, m))
            out.append('%s0b%s' % (sign, bin(m)[2:]))
            out.append('%s0o%o' % (sign, m))
            out.append('%s0%x' % (sign, m))
            d = '%d' % m
            if len(d) > 3:
                k = rng.randrange(1, len(d))
                out.append(sign + d[:k] + '_' + d[k:])
                out.append(sign + d + '_')
    out += ['1x5', '7b1', '-3o7', '9xff', '1x', '9b2', '1x.5', '2b', '+5x1', '10x10', '1o7', '00x1', '0x0x1', '0b0b1',
            '0x', '0b', '0o', '0o8', '0o1_7', '0O17', '0o1.5', '0b2', '0xg', '09', '0a', '1a', '1_', '_1', '1__2', '0x-5', '0x+5', '-0x-5', '0b-1', '--1', '+-1', '-', '+',
            '1.', '1.5', '-1.5', '+0.25', '1.5e3', '1.e5', '1.5e', '1.5.2', '0x1.5', '0b1.1', '1_0.5', '0.1_5', '1e5', '1.5E-3', '01.5',
            '00.5', '1.\uff15', '1.5x', '1.inf', '9' * 400 + '.0', '1.' + '0' * 50 + '1', '123456789012345678901234567890.5', '4.9e-324', '2.2250738585072011e-308',
            '1.7976931348623159e308', '0.1', '0.3', '1.0000000000000002', '9007199254740993.0']
    return out


def str_lits(rng):
    bodies = ['', 'a', 'a b', 'a\\nb', 'a\\tb\\r', 'q\\"q', 'b\\\\', '\\x', '\\', 'é\\é', '日本', 'a|b', '\\(', '“', 'x”y', 'tab\there', 'nl\nin']
    out = []
    for b in bodies:
        for o in ('"', '“'):
            for c in ('"', '”', ''):
                out.append(o + b + c)
    return out


def bit_lits(rng):
    out = ['||', '| |', '|f|', '|F0|', '|x.|', '|x . x|', '|ff ff|', '|f', '|fg|', '|0x|', '|é|', '|.|', '|a\tb\nc|', '|1 23 4|', '|x|y|']
    for _ in range(6):
        n = rng.randint(0, 12)
        out.append('|' + ''.join(rng.choice('0123456789abcdefABCDEFx. ') for _ in range(n)) + '|')
    return out


def comments(rng):
    return ['\\ c', '\\ c\n', '\\', '\\\n', '\\x', '\\( a \\)', '\\( a \\) ', '\\( a \\)x \\)', '\\( a', '\\( a\\)', '\\( \\( \\) \\)',
            '\\(\n\\)\n', '\\( \\', '\\( \\)', '\\(x \\)', '\\( é \\)\t']


class C16(Prop):
    id = 'C16'
    rule = ('token soups over a grammar-aware pool (numeric spellings around every radix/sign/underscore/range boundary up to '
            '+-2^128, string literals with every escape and both quote styles, bit-string literals, line and block comments, '
            'unterminated literals, non-ASCII words and whitespace look-alikes) joined by every ASCII whitespace kind, plus '
            'byte-level splices of those; compared token by token (kind, byte span, value). Real literals: the text the model '
            'hands to the decimal->double oracle is parsed by Rust itself and compared with the token value. token_location '
            'cases: random texts with LF/CRLF/CR/tabs/multi-byte characters and every token start. '
            'non-trivial = distinct source text with at least 3 tokens or an error')
    trusted_base = [
        'Coq 8.16.1 kernel', 'extraction + OCaml driver ocaml/lex_drv.ml', 'Rust harness harness/src/lexs.rs; generator gen/c16.py',
        'oracle: str::parse::<f64> (decimal->double conversion is Rust core, not modelled)',
    ]
    assumptions = ['Model/Lexer.v matches src/lex.rs (differentially tested)', 'Rust strings are valid UTF-8']

    def nontrivial(self, line):
        return len(line) > 20

    D21 = ('an integer printed in a non-decimal base is rendered as its two\'s-complement bit pattern, so a negative one does not read back '
           '(witness: -1 ^hex print -> 0xffffffffffffffffffffffffffffffff); 0x-5 lexes as -5')

    def known(self, line, impl, spec):
        if 'printread' in line and 'G(I-' in line and 'S23666d74' in line:
            return self.D21
        import re as _re
        if _re.search(r"text: '[+-]?0[xbo][+-]", line):
            return self.D21      # a sign after the radix prefix is accepted (second half of the recorded finding)
        return None

    def known_case(self, case):
        return self.known(case, '', '')

    def spec_of(self, case):
        return 'ok | ok | printread:ok' if case.endswith('| printread') else None

    def classify(self, line):
        return ' '.join(line.split(' ')[:2])

    @staticmethod
    def ref_numeric(tok):
        """what a numeric-looking token (first character a digit, or a sign followed by a digit) denotes, written independently of
        the lexer: 'I<hex>' for an integer in range, 'real' for a text with a dot and no radix marker, 'err' otherwise.
        Rules of the language: `_` may separate digits; `0x` `0b` `0o` (after the optional sign) select radix 16 / 2 / 8; a leading
        `0` without marker means radix 16 (pinned by the suite: `0f` is 15); everything else is decimal; range = i128."""
        t = tok
        neg = t.startswith('-')
        body = t[1:] if t[:1] in '+-' else t
        if not body or not body[0].isdigit() or not body.isascii():
            return None
        marker = None
        if body[0] == '0' and len(body) > 1 and body[1] in 'xbo':
            marker = {'x': 16, 'b': 2, 'o': 8}[body[1]]
            digits = body[2:]
        else:
            digits = body
        digits = digits.replace('_', '')
        if '.' in digits:
            return 'err' if marker else 'real'
        radix = marker or (16 if body[0] == '0' else 10)
        if marker is None and body[0] == '0':
            digits = digits       # the leading zero is itself a digit
        if not digits:
            return 'err'
        alphabet = '0123456789abcdefghijklmnopqrstuvwxyz'[:radix]
        v = 0
        for ch in digits.lower():
            if ch not in alphabet:
                return 'err'
            v = v * radix + alphabet.index(ch)
        v = -v if neg else v
        if not (-(1 << 127) <= v < (1 << 127)):
            return 'err'
        return 'I' + ('-%x' % -v if v < 0 else '%x' % v)

    def group_check(self, cases, impl):
        """block comments, on the implementation alone: a text that starts with `\\(` + whitespace is one comment up to the first
        `\\)` that stands between whitespace (or before the end of the text), the whitespace after it included; what follows is
        lexed as if the comment were not there (here: the literal 7 is read)"""
        import re
        fails, n = [], 0
        WSP = ' \t\n\r\x0c'
        for c, o in zip(cases, impl):
            if c in getattr(self, 'num_texts', {}):
                n += 1
                want = self.ref_numeric(self.num_texts[c])
                first = o.split(' ')[0] if o else ''
                kind = first.split(':')[0]
                got = kind[1:] if kind.startswith('LI') else ('real' if kind.startswith('LR') else ('err' if kind.startswith('E') else kind))
                if kind.startswith('LI'):
                    got = 'I' + kind[2:]
                if want == 'real' and got in ('real', 'err'):
                    continue      # whether the text is a valid real is the decimal->double oracle's business
                if want is not None and got != want:
                    fails.append(('case: %s\ntext: %r\ntokens: %s\nexpected: %s' % (c, self.num_texts[c], o, want),
                                  'a numeric text is not read as what it writes (or is accepted although malformed)'))
                continue
            if c in getattr(self, 'word_texts', {}):
                n += 1
                want = ['W' + w.encode('utf-8').hex() for w in self.word_texts[c]]
                got = [t.split(':')[0] for t in o.split(' ') if t and not t.startswith(('_', 'C:', 'End'))]
                if got != want:
                    fails.append(('case: %s\nsource: %r\ntokens: %s\nexpected-words: %s' % (c, bytes.fromhex(c.split(' ')[2]).decode('utf-8'), o, want),
                                  'a word does not extend to the next ASCII whitespace (or something else was read where a word stands)'))
                continue
            if not c.startswith('lex all 5c28'):
                continue
            src = bytes.fromhex(c.split(' ')[2]).decode('utf-8')
            if len(src) < 3 or src[2] not in WSP:
                continue
            n += 1
            m = re.search(r'[ \t\n\r\x0c]\\\)(?=[ \t\n\r\x0c]|$)', src[2:])
            toks = o.split(' ')
            bl = lambda i: len(src[:i].encode('utf-8'))
            if m is None:
                if not toks[0].startswith('EUntermComment'):
                    fails.append(('case: %s\nsource: %r\ntokens: %s' % (c, src, o), 'a block comment without terminator must be an error'))
                continue
            end = 2 + m.end() + (1 if 2 + m.end() < len(src) else 0)
            want = 'C:0-%d' % bl(end)
            if toks[0] != want:
                fails.append(('case: %s\nsource: %r\ntokens: %s\nexpected-first-token: %s' % (c, src, o, want),
                              'the block comment does not end at its terminator'))
                continue
            rest = src[end:]
            if rest.startswith('7') and (len(rest) == 1 or rest[1] in WSP):
                if len(toks) < 2 or toks[1] != 'LI7:%d-%d' % (bl(end), bl(end) + 1):
                    fails.append(('case: %s\nsource: %r\ntokens: %s' % (c, src, o), 'the literal after the comment is not read'))
        return n, fails, [], dict(block_comment_texts=n)

    def canon_impl(self, s):
        return s.rstrip()

    def canon_model(self, s):
        return s.rstrip()

    def post_model(self, mirror, exes):
        import re
        texts = set()
        for m in mirror:
            for t in re.findall(r'LRtext:([0-9a-f-]+):', m):
                texts.add(t)
        texts = sorted(texts)
        if not texts:
            return mirror
        res = lib.run_impl(exes[self.profiles[0]], ['lex parsef %s' % t for t in texts])
        table = dict(zip(texts, res))
        out = []
        for m in mirror:
            def sub(mo):
                r = table[mo.group(1)]
                return ('L' + r + ':') if r != 'Err' else 'PARSEFLOATERR:'
            m2 = re.sub(r'LRtext:([0-9a-f-]+):', sub, m)
            # a rejected real literal is a parse-float error over the token span
            m2 = re.sub(r'PARSEFLOATERR:(\d+)-(\d+)', lambda mo: 'EFloat[%s-%s]:%s-%s' % (mo.group(1), mo.group(2), mo.group(1), mo.group(2)), m2)
            if 'EFloat[' in m2 and 'PARSEFLOATERR' not in m and m2 != m:
                # tokens after a failed real literal are not produced by the implementation
                idx = m2.index('EFloat[')
                end = m2.index(' ', idx) if ' ' in m2[idx:] else len(m2)
                m2 = m2[:end]
            out.append(m2.rstrip())
        return out

    def generate(self, rng, tier):
        thorough = tier == 'thorough'
        pool = num_spellings(rng) + str_lits(rng) + bit_lits(rng) + comments(rng) + \
            ['foo', 'dup', ':', ';', 'if', '[', ']', '#(', '#)', '~)', 'é', 'wörd', 'a"b', 'x|y', '1+', '-x', '+x', '.5', 'a.b', '\x0b', 'a\u00a0b'] + ODD
        cs = []
        seen = set()

        def add(src):
            h = src.encode('utf-8').hex() or '-'
            if h not in seen:
                seen.add(h)
                cs.append('lex all %s' % h)
        self.num_texts = {}
        for p in num_spellings(rng):
            if p and p.isascii() and self.ref_numeric(p) is not None:
                h = p.encode('utf-8').hex()
                self.num_texts['lex all %s' % h] = p
        for p in pool:
            add(p)
            add(p + ' ')
            add(' ' + p)
            add(p + '\n1')
            add('1 ' + p + ' 2')
        n = 6000 if not thorough else 120000
        for _ in range(n):
            k = rng.randint(1, 8)
            parts = []
            for _ in range(k):
                parts.append(rng.choice(pool))
                parts.append(rng.choice(WS) if rng.random() < 0.93 else '')
            src = ''.join(parts)
            if rng.random() < 0.3 and src:
                # splice: cut at a character boundary and glue another piece
                i = rng.randrange(len(src))
                src = src[:i] + rng.choice(ODD + WS) + src[i + rng.randint(0, 2):]
            add(src)
        add('')
        # block comments: every short body over the characters that matter for finding the terminator, every separator, then a literal
        import itertools
        btoks = ['a', '\\', '\\)', '\\(', '\\)x', 'x\\)', 'é']
        for k in range(0, 4 if not thorough else 5):
            for body in itertools.product(btoks, repeat=k):
                for sep in (' ', '\n', '  '):
                    if k == 3 and sep != ' ' and rng.random() < 0.7:
                        continue
                    for tail in (' 7', '\n7 8', '', ' '):
                        add('\\(' + sep + ''.join(t + sep for t in body) + '\\)' + tail)
        # words end at ASCII whitespace only: chunks that contain look-alike separators (VT, NBSP, NEL, the Unicode spaces, line /
        # paragraph separators, ideographic space) are single words
        look = ['\x0b', '\u0085', '\u00a0', '\u1680', '\u2000', '\u2003', '\u200a', '\u2028', '\u2029', '\u202f', '\u205f', '\u3000', '\ufeff']
        stems = ['a', 'xy', 'é', 'dup', 'q1', '-x', '#w', ':k']
        self.word_texts = {}
        for _ in range(400 if not thorough else 8000):
            chunks = []
            for _ in range(rng.randint(1, 5)):
                parts = [rng.choice(stems)]
                for _ in range(rng.randint(0, 2)):
                    parts.append(rng.choice(look))
                    if rng.random() < 0.8:
                        parts.append(rng.choice(stems + ['1', '7x']))
                chunks.append(''.join(parts))
            seps = [rng.choice(WS) for _ in chunks]
            src = ''.join(c + w for c, w in zip(chunks, seps))
            if rng.random() < 0.3:
                src = rng.choice(WS) + src
            h = src.encode('utf-8').hex()
            if h not in seen:
                seen.add(h)
                cs.append('lex all %s' % h)
                self.word_texts['lex all %s' % h] = chunks
        # token_location
        fill = ['a', 'bc', ' ', '\t', '\n', '\r\n', '\r', 'é', '日', '\U0001f600', '\n\n', ' x ']
        for _ in range(1500 if not thorough else 30000):
            src = ''.join(rng.choice(fill) for _ in range(rng.randint(1, 14)))
            b = src.encode('utf-8')
            # character starts only (a token always starts at one)
            starts = [i for i in range(len(b) + 1) if i == len(b) or (b[i] & 0xc0) != 0x80]
            a = rng.choice(starts)
            e = rng.choice([x for x in starts if x >= a])
            if len(b) == 0:
                continue
            cs.append('lex loc %s %d %d' % (b.hex(), a, e))
        # print / read round trip of integers, bit-strings and vectors / maps of those
        from . import cells
        I_MIN, I_MAX = -(1 << 127), (1 << 127) - 1
        vals = [('I', v) for v in (0, 1, -1, 9, 10, -10, 255, I_MIN, I_MIN + 1, I_MAX, I_MAX - 1, 2 ** 63, -(2 ** 63), 2 ** 64, 10 ** 38, -(10 ** 38))]
        for _ in range(60 if not thorough else 3000):
            vals.append(('I', rng.getrandbits(rng.choice([7, 31, 64, 100, 127])) * rng.choice([1, -1])))
        for ln in range(0, 41):
            vals.append(('B', ''.join(rng.choice('01') for _ in range(ln))))
        for _ in range(40 if not thorough else 1500):
            vals.append(('B', ''.join(rng.choice('01') for _ in range(rng.randint(0, 200)))))
        for _ in range(120 if not thorough else 4000):
            vals.append(cells.rand_cell(rng, types=['int', 'int', 'bits', 'vec', 'map'] , depth=0))
        vals.append(('V', [('I', 1), ('I', I_MIN), ('I', -1)]))
        # strings: every escape the reader knows, characters a printer might escape although the reader does not know the escape
        # (apostrophe, question mark, bell, ...), quotes of both styles inside, non-ASCII text
        for t in ['', 'a', "it's", 'q"q', 'b\\s', 'line\nfeed', 'tab\there', 'cr\rx', "'", '?', 'a b  c', 'é日本', '“curly”', 'a”b', '%d {} $x', '#( ~)', '| |', '\\( \\)',
                  "''", 'x\\', '0x10', '-1']:
            vals.append(('S', t.encode('utf-8')))
            vals.append(('V', [('S', t.encode('utf-8')), ('I', 7)]))
        for v in vals:
            if cells.has_tag(v):
                continue
            cs.append('xs limits 4000 - - | push %s | printread' % cells.fmt(v))
        # bit-strings that are views into a longer buffer, starting at every bit offset (the printer walks them in 8-bit groups that
        # straddle bytes; a short last group may straddle too)
        for pre in range(1, 8):
            for ln in list(range(0, 26)) + [rng.randint(26, 90) for _ in range(3)]:
                if not thorough and ln > 12 and rng.random() < 0.5:
                    continue
                bits = ''.join(rng.choice('01') for _ in range(ln))
                post = rng.choice([0, 1, 3, 9])
                cs.append('xs limits 4000 - - | push W%d.%d.%s | printread' % (pre, post, bits or '-'))
                if rng.random() < 0.2:
                    cs.append('xs limits 4000 - - | push V(W%d.%d.%s,I5) | printread' % (pre, post, bits or '-'))
        # non-negative integers printed in every base the printer knows (with its prefix; hex in both letter cases) read back
        for v in (0, 1, 7, 8, 9, 15, 16, 255, 2 ** 63, 2 ** 64 + 5, I_MAX):
            for flags in (0x102, 0x108, 0x110, 0x910):
                cs.append('xs limits 4000 - - | push G(I%x,M(S23666d74=I%x)) | printread' % (v, flags))
        # recorded finding D21: a negative integer printed in hexadecimal does not read back
        cs.append('xs limits 4000 - - | push G(I-1,M(S23666d74=I110)) | printread')
        return cs


PROP = C16()
