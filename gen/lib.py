"""Shared machinery of ./check: builds, sharded runs of implementation and model,
comparison, the violation / known-finding protocol, evidence files."""
import json, os, re, subprocess, sys, time, hashlib, random, fcntl

VERIF = os.path.dirname(os.path.dirname(os.path.abspath(__file__)))
REPO = '/repo'
COQ = os.path.join(VERIF, 'coq')
HARNESS = os.path.join(VERIF, 'harness')
OCAML = os.path.join(VERIF, 'ocaml')
EVID = os.path.join(VERIF, 'evidence')
REPLAY = os.path.join(EVID, 'replay')
NPROC = 16
CHUNK_TIMEOUT = 240      # seconds a worker process may spend on its share of the cases

ENV = dict(os.environ, CARGO_NET_OFFLINE='true')
# the harness always builds into its own target directory, whatever the caller's environment says
ENV['CARGO_TARGET_DIR'] = os.path.join(VERIF, 'harness', 'target')

FORBIDDEN = re.compile(r'\b(Admitted|admit|Axiom|Axioms|Parameter|Parameters|Conjecture|Hypothesis|Variable'
                       r'|bypass_check)\b|Unset Guard|Admit Obligations|type-in-type|impredicative-set'
                       r'|Unset Positivity|Unset Universe')

# axioms of the standard library that a theorem may depend on (named in DESIGN.md section 4), and the only property files
# whose theorems may: the statements that Model/F64.v's operations are IEEE-754 arithmetic on real numbers rest on Flocq's
# correctness theorems, which use the classical axioms of Coq's Reals library.  Every other theorem must be closed.
AXIOM_ALLOW_FILES = {'C09_ieee'}
AXIOM_ALLOW = {
    'Classical_Prop.classic', 'ClassicalDedekindReals.sig_not_dec', 'ClassicalDedekindReals.sig_forall_dec',
    'FunctionalExtensionality.functional_extensionality_dep',
}


class Lock:
    def __init__(self, name):
        self.path = os.path.join(VERIF, '.lock-' + name)

    def __enter__(self):
        self.f = open(self.path, 'w')
        fcntl.flock(self.f, fcntl.LOCK_EX)

    def __exit__(self, *a):
        fcntl.flock(self.f, fcntl.LOCK_UN)
        self.f.close()


def sh(cmd, cwd=None, timeout=1800, env=None):
    p = subprocess.run(cmd, shell=True, cwd=cwd, stdout=subprocess.PIPE, stderr=subprocess.STDOUT,
                       timeout=timeout, env=env or ENV, text=True)
    return p.returncode, p.stdout


# ------------------------------------------------------------------ builds

def build_harness(profile='dev'):
    """Rebuild the harness against /repo's current working tree (hooks on)."""
    with Lock('cargo'):
        lock_src = os.path.join(REPO, 'Cargo.lock')
        lock_dst = os.path.join(HARNESS, 'Cargo.lock')
        if not os.path.exists(lock_dst):
            subprocess.run(['cp', lock_src, lock_dst])
        flag = '--release' if profile == 'release' else ''
        rc, out = sh('timeout 1500 cargo build --offline %s 2>&1' % flag, cwd=HARNESS)
        if rc != 0:
            # retry once with the repository's lock file (a dependency change in /repo)
            subprocess.run(['cp', lock_src, lock_dst])
            rc, out = sh('timeout 1500 cargo build --offline %s 2>&1' % flag, cwd=HARNESS)
        if rc != 0:
            raise BuildError('cargo build of the harness against /repo failed:\n' + out[-4000:])
    return os.path.join(HARNESS, 'target', 'release' if profile == 'release' else 'debug', 'impl_run')


class BuildError(Exception):
    pass


def coq_make(targets):
    """Full .vo build of the given targets through the coq_makefile Makefile."""
    with Lock('coq'):
        if not os.path.exists(os.path.join(COQ, 'Makefile')) or \
                os.path.getmtime(os.path.join(COQ, 'Makefile')) < os.path.getmtime(os.path.join(COQ, '_CoqProject')):
            rc, out = sh('coq_makefile -f _CoqProject -o Makefile', cwd=COQ)
            if rc != 0:
                return False, out
        rc, out = sh('timeout 3000 make -j%d %s 2>&1' % (NPROC, ' '.join(targets)), cwd=COQ, timeout=3100)
        return rc == 0, out


def build_model_driver():
    with Lock('coq'):
        srcs = [os.path.join(OCAML, f) for f in os.listdir(OCAML) if f.endswith('.ml') or f.endswith('.sh')]
        srcs += [os.path.join(COQ, 'Extract', 'Extract.v')]
        srcs += [os.path.join(COQ, 'Model', f) for f in os.listdir(os.path.join(COQ, 'Model')) if f.endswith('.v')]
        exe = os.path.join(OCAML, '_build', 'model_run')
        if os.path.exists(exe) and all(os.path.getmtime(s) <= os.path.getmtime(exe) for s in srcs):
            return exe
        rc, out = sh('timeout 900 ./build.sh 2>&1', cwd=OCAML)
        if rc != 0:
            raise BuildError('building the extracted model driver failed:\n' + out[-4000:])
        return exe


def model_targets():
    vs = sorted(f for f in os.listdir(os.path.join(COQ, 'Model')) if f.endswith('.v'))
    return ['Model/' + f + 'o' for f in vs]


# ------------------------------------------------------------------ proof obligations

def prop_files(prop):
    """Props/<prop>.v and its continuation files Props/<prop>_*.v (module names, main file first)"""
    d = os.path.join(COQ, 'Props')
    extra = sorted(f[:-2] for f in os.listdir(d) if f.startswith(prop + '_') and f.endswith('.v'))
    return [prop] + extra


def theorems_of(prop):
    src = '\n'.join(open(os.path.join(COQ, 'Props', m + '.v')).read() for m in prop_files(prop))
    # comments are not allowed to hide anything: strip them before scanning
    names = re.findall(r'^\s*Theorem\s+([A-Za-z0-9_\']+)', src, re.M)
    return names, src


def scan_forbidden():
    bad = []
    for root, _, files in os.walk(COQ):
        for f in files:
            if f.endswith('.v'):
                p = os.path.join(root, f)
                txt = open(p).read()
                txt = strip_comments(txt)
                # Variable / Hypothesis are section-local binders inside a Section (allowed);
                # outside one they would declare an axiom
                depth = 0
                for sent in re.split(r'(?<=\.)\s', txt):
                    st = sent.strip()
                    if re.match(r'Section\s+\w+\s*\.$', st):
                        depth += 1
                        continue
                    if re.match(r'End\s+\w+\s*\.$', st) and depth > 0:
                        depth -= 1
                        continue
                    for m in FORBIDDEN.finditer(sent):
                        if depth > 0 and m.group(0) in ('Variable', 'Hypothesis'):
                            continue
                        bad.append('%s: %s' % (os.path.relpath(p, COQ), m.group(0)))
    return bad


def strip_comments(txt):
    out = []
    depth = 0
    i = 0
    while i < len(txt):
        if txt.startswith('(*', i):
            depth += 1
            i += 2
        elif txt.startswith('*)', i) and depth > 0:
            depth -= 1
            i += 2
        else:
            if depth == 0:
                out.append(txt[i])
            i += 1
    return ''.join(out)


def check_proofs(prop):
    """Build Props/<prop>.vo, pin statements, collect Print Assumptions.
    Returns dict(obligations, discharged, theorems, axioms, failures, cmd)."""
    res = dict(obligations=0, discharged=0, theorems=[], axioms={}, failures=[], cmd='')
    names, src = theorems_of(prop)
    res['obligations'] = len(names)
    res['theorems'] = names
    res['cmd'] = 'cd /verif/coq && coq_makefile -f _CoqProject -o Makefile && make %s && ' \
                 'coqc -R . Xeh <Print Assumptions of each theorem>' % ' '.join('Props/%s.vo' % m for m in prop_files(prop))
    bad = scan_forbidden()
    if bad:
        res['failures'].append('forbidden vernacular: ' + '; '.join(bad[:10]))
    ok, out = coq_make(['Props/%s.vo' % m for m in prop_files(prop)])
    if not ok:
        res['failures'].append('make Props/%s.vo failed: %s' % (prop, out[-1500:]))
        return res
    # every theorem must be pinned by a Check line with an explicit statement
    nocom = strip_comments(src)
    for n in names:
        if not re.search(r'Check\s+(?:\(\s*@\s*%s\s*\)|@?%s)\s*:' % (re.escape(n), re.escape(n)), nocom):
            res['failures'].append('theorem %s has no pinning Check line' % n)
    # assumptions, from a fresh coqc run against the compiled library
    qual = {}
    for m in prop_files(prop):
        for n in re.findall(r'^\s*Theorem\s+([A-Za-z0-9_\']+)', open(os.path.join(COQ, 'Props', m + '.v')).read(), re.M):
            qual[n] = 'Xeh.Props.%s.%s' % (m, n)
    tmpd = os.path.join(COQ, '.assume')
    os.makedirs(tmpd, exist_ok=True)
    tmp = os.path.join(tmpd, 'A_%s_%d.v' % (prop, os.getpid()))
    with open(tmp, 'w') as f:
        for m in prop_files(prop):
            f.write('From Xeh Require Props.%s.\n' % m)
        for n in names:
            f.write('Goal True. idtac "BEGIN %s". Abort.\nPrint Assumptions %s.\n' % (n, qual[n]))
        f.write('Goal True. idtac "BEGIN -". Abort.\n')
    rc, out = sh('timeout 600 coqc -R . Xeh %s 2>&1' % tmp, cwd=COQ)
    for ext in ('.v', '.vo', '.glob', '.vok', '.vos'):
        try:
            os.remove(tmp[:-2] + ext)
        except OSError:
            pass
    try:
        os.remove(os.path.join(tmpd, '.' + os.path.basename(tmp)[:-2] + '.aux'))
    except OSError:
        pass
    if rc != 0:
        res['failures'].append('Print Assumptions run failed: ' + out[-1000:])
        return res
    blocks = re.split(r'BEGIN (\S+)\n', out)
    # blocks: [pre, name1, body1, name2, body2, ...]
    for i in range(1, len(blocks) - 1, 2):
        name, body = blocks[i], blocks[i + 1]
        if name == '-':
            continue
        if 'Closed under the global context' in body:
            res['axioms'][name] = []
            res['discharged'] += 1
            continue
        # entries start in column 0: `name : type` or `name` with the type on the following indented lines
        axs = [a for a in re.findall(r'^([A-Za-z_][A-Za-z0-9_\.\']*)(?=\s*:|\s*$)', body, re.M) if a != 'Axioms']
        res['axioms'][name] = axs
        mod = qual.get(name, '').split('.')[-2] if name in qual else ''
        extra = [a for a in axs if not (a in AXIOM_ALLOW and mod in AXIOM_ALLOW_FILES)]
        if extra:
            res['failures'].append('theorem %s depends on %s' % (name, ', '.join(extra)))
        else:
            res['discharged'] += 1
    if res['failures']:
        res['discharged'] = min(res['discharged'], res['obligations'] - 1) if res['obligations'] else 0
    return res


def coqchk(prop):
    rc, out = sh('timeout 2400 coqchk -o -silent -R . Xeh %s 2>&1' % ' '.join('Xeh.Props.' + m for m in prop_files(prop)), cwd=COQ, timeout=2500)
    return rc == 0, out


# ------------------------------------------------------------------ sharded runs

def _run_chunk(exe, chunk, env):
    """run one process over a chunk; when it dies, note why and go on with the cases after the fatal one"""
    res = []
    rest = list(chunk)
    guard = 0
    while rest and guard < 50:
        guard += 1
        p = subprocess.Popen([exe], stdin=subprocess.PIPE, stdout=subprocess.PIPE, stderr=subprocess.PIPE,
                             text=True, env=env, cwd='/', errors='replace')
        try:
            o, e = p.communicate('\n'.join(rest) + '\n', timeout=CHUNK_TIMEOUT)
        except subprocess.TimeoutExpired:
            p.kill()
            o, e = p.communicate()
            e = (e or '') + '\nTIMEOUT: the process did not finish a case within %d s' % CHUNK_TIMEOUT
        got = o.split('\n')
        if got and got[-1] == '':
            got.pop()
        got = got[:len(rest)]
        res.extend(got)
        if len(got) >= len(rest):
            break
        why = 'timeout' if 'TIMEOUT:' in e else 'alloc' if 'memory allocation of' in e or 'capacity overflow' in e else ('stack' if 'overflowed its stack' in e else 'other')
        if why == 'timeout':
            # the chunk as a whole ran out of time (a loaded machine): the case in progress is not to blame unless it
            # also fails to finish when it runs alone
            try:
                q = subprocess.run([exe], input=rest[len(got)] + '\n', stdout=subprocess.PIPE, stderr=subprocess.PIPE, text=True,
                                   env=env, cwd='/', errors='replace', timeout=CHUNK_TIMEOUT)
                one = q.stdout.split('\n')
                if q.returncode == 0 and one and one[0] != '':
                    res.append(one[0])
                    rest = rest[len(got) + 1:]
                    continue
            except subprocess.TimeoutExpired:
                pass
        res.append('CRASH exit=%s why=%s %s' % (p.returncode, why, ' '.join(e.strip().split('\n')[:1])[:160]))
        rest = rest[len(got) + 1:]
    if len(res) < len(chunk):
        res += ['NOT-RUN'] * (len(chunk) - len(res))
    return res


def _run_sharded(exe, lines, extra_env=None):
    if not lines:
        return []
    n = min(NPROC, max(1, len(lines) // 50))
    size = (len(lines) + n - 1) // n
    env = dict(ENV)
    if extra_env:
        env.update(extra_env)
    chunks = [lines[i * size:(i + 1) * size] for i in range(n)]
    import threading
    outs = [None] * len(chunks)

    def work(k):
        outs[k] = _run_chunk(exe, chunks[k], env)

    ths = [threading.Thread(target=work, args=(k,)) for k in range(len(chunks))]
    for t in ths:
        t.start()
    for t in ths:
        t.join()
    flat = []
    for o in outs:
        flat.extend(o)
    return flat


def run_impl(exe, lines):
    return _run_sharded(exe, lines)


def run_model(exe, lines):
    raw = _run_sharded(exe, lines, extra_env={'OCAMLRUNPARAM': 'l=8M'})
    mirror, spec = [], []
    for r in raw:
        if ' ;; ' in r:
            m, s = r.split(' ;; ', 1)
        else:
            m, s = r, '-'
        mirror.append(m)
        spec.append(s)
    return mirror, spec


# ------------------------------------------------------------------ known findings

def load_known():
    p = os.path.join(VERIF, 'known_findings.json')
    if not os.path.exists(p):
        return {'findings': [], 'fixed': []}
    return json.load(open(p))


# ------------------------------------------------------------------ evidence

def write_evidence(prop, tier, seed, coverage, wall, violations, assumptions):
    os.makedirs(EVID, exist_ok=True)
    ev = dict(property_id=prop, tier=tier, seed=seed, level='proof', coverage=coverage,
              assumptions=assumptions, wall_s=round(wall, 2), violations=violations)
    tmp = os.path.join(EVID, prop + '.json.tmp')
    with open(tmp, 'w') as f:
        json.dump(ev, f, indent=1, sort_keys=True)
        f.write('\n')
    os.replace(tmp, os.path.join(EVID, prop + '.json'))


def write_replay(prop, tag, body):
    os.makedirs(REPLAY, exist_ok=True)
    p = os.path.join(REPLAY, '%s-%s.txt' % (prop, tag))
    with open(p, 'w') as f:
        f.write(body)
    return p


def git_head(path):
    try:
        return subprocess.run(['git', '-C', path, 'rev-parse', '--short', 'HEAD'], stdout=subprocess.PIPE,
                              text=True).stdout.strip()
    except Exception:
        return '?'
