"""Canonical cell texts (the grammar printed by verif_hooks / ocaml conv.ml): parser,
printer, tag stripping, literal source text, and random generation."""
from .common import hx


def parse(s):
    pos = [0]

    def tok():
        st = pos[0]
        while pos[0] < len(s) and s[pos[0]] not in ',)=(':
            pos[0] += 1
        return s[st:pos[0]]

    def mapbody():
        pos[0] += 1
        items = []
        if s[pos[0]] == ')':
            pos[0] += 1
            return items
        while True:
            k = cell()
            pos[0] += 1
            v = cell()
            items.append((k, v))
            c = s[pos[0]]
            pos[0] += 1
            if c != ',':
                break
        return items

    def cell():
        c = s[pos[0]]
        pos[0] += 1
        if c == 'N':
            return ('N',)
        if c == 'T':
            return ('T',)
        if c == 'F' and (pos[0] >= len(s) or s[pos[0]] not in 'in'):
            return ('F',)
        if c == 'F':
            k = s[pos[0]]
            pos[0] += 1
            return ('Fun', k + tok())
        if c == 'I':
            return ('I', int(tok(), 16))
        if c == 'R':
            return ('R', tok())
        if c == 'S':
            t = tok()
            return ('S', b'' if t == '-' else bytes.fromhex(t))
        if c == 'B':
            t = tok()
            return ('B', '' if t == '-' else t)
        if c == 'A':
            return ('A',)
        if c == 'V':
            pos[0] += 1
            items = []
            if s[pos[0]] == ')':
                pos[0] += 1
                return ('V', items)
            while True:
                items.append(cell())
                ch = s[pos[0]]
                pos[0] += 1
                if ch != ',':
                    break
            return ('V', items)
        if c == 'M':
            return ('M', mapbody())
        if c == 'G':
            pos[0] += 1
            v = cell()
            pos[0] += 1  # ,
            pos[0] += 1  # M
            t = mapbody()
            pos[0] += 1  # )
            return ('G', v, t)
        raise ValueError('cell %r in %r' % (c, s))

    return cell()


def fmt(c):
    k = c[0]
    if k in 'NTFA' and len(c) == 1:
        return k
    if k == 'Fun':
        return 'F' + c[1]
    if k == 'I':
        return 'I' + hx(c[1])
    if k == 'R':
        return 'R' + c[1]
    if k == 'S':
        return 'S' + (c[1].hex() or '-')
    if k == 'B':
        return 'B' + (c[1] or '-')
    if k == 'W':
        # input-only: the bits c[3] as a view into a longer buffer (c[1] junk bits before, c[2] after)
        return 'W%d.%d.%s' % (c[1], c[2], c[3] or '-')
    if k == 'V':
        return 'V(' + ','.join(fmt(x) for x in c[1]) + ')'
    if k == 'M':
        return 'M(' + ','.join(fmt(a) + '=' + fmt(b) for a, b in c[1]) + ')'
    if k == 'G':
        return 'G(' + fmt(c[1]) + ',' + fmt(('M', c[2])) + ')'
    raise ValueError(c)


def strip(c):
    k = c[0]
    if k == 'G':
        return strip(c[1])
    if k == 'V':
        return ('V', [strip(x) for x in c[1]])
    if k == 'M':
        return ('M', [(strip(a), strip(b)) for a, b in c[1]])
    return c


def strip_text(s):
    """strip tags from every cell of a whitespace-separated list of canonical cells"""
    out = []
    for t in s.split(' '):
        if t and t[0] in 'NTFIRSBVMGA' and t not in ('[', ']'):
            try:
                out.append(fmt(strip(parse(t))))
                continue
            except Exception:
                pass
        out.append(t)
    return ' '.join(out)


def has_tag(c):
    k = c[0]
    if k == 'G':
        return True
    if k == 'V':
        return any(has_tag(x) for x in c[1])
    if k == 'M':
        return any(has_tag(a) or has_tag(b) for a, b in c[1])
    return False


def source(c):
    """XEH source text that evaluates to the cell (untagged data only); None if impossible"""
    k = c[0]
    if k == 'N':
        return 'nil'
    if k == 'T':
        return 'true'
    if k == 'F':
        return 'false'
    if k == 'I':
        return str(c[1])
    if k == 'S':
        t = c[1].decode('utf-8')
        if any(ord(ch) < 32 and ch not in '\n\r\t' for ch in t):
            return None
        return '"' + t.replace('\\', '\\\\').replace('"', '\\"').replace('\n', '\\n').replace('\r', '\\r').replace('\t', '\\t') + '"'
    if k == 'B':
        return '|' + ''.join('x' if b == '1' else '.' for b in c[1]) + '|'
    if k == 'V':
        parts = [source(x) for x in c[1]]
        if any(p is None for p in parts):
            return None
        return '[ ' + ''.join(p + ' ' for p in parts) + ']'
    if k == 'M':
        parts = []
        for a, b in c[1]:
            sa, sb = source(a), source(b)
            if sa is None or sb is None:
                return None
            parts.append(sb + ' ' + sa + ' ')
        return '{ ' + ''.join(parts) + '}'
    return None


def rand_cell(rng, depth=0, types=None, tags=0.0):
    """random data cell (canonical tuple form); maps get homogeneous int or str keys"""
    types = types or ['int', 'int', 'int', 'str', 'flag', 'nil', 'bits', 'vec', 'map', 'real']
    t = rng.choice(types)
    if depth > 2 and t in ('vec', 'map'):
        t = 'int'
    if t == 'int':
        c = ('I', rng.choice([0, 1, -1, 2, 7, 255, 256, 2 ** 63, -(2 ** 63), 2 ** 64, 2 ** 127 - 1, -(2 ** 127), rng.randint(-50, 50)]))
    elif t == 'str':
        c = ('S', rng.choice([b'', b'a', b'abc', 'é'.encode(), b'x y', b'k', b'12', b'0x1f', b'1.5']))
    elif t == 'flag':
        c = (rng.choice('TF'),)
    elif t == 'nil':
        c = ('N',)
    elif t == 'bits':
        c = ('B', ''.join(rng.choice('01') for _ in range(rng.choice([0, 1, 4, 8, 9, 16, 24]))))
    elif t == 'real':
        c = ('R', rng.choice(['0000000000000000', '3ff0000000000000', 'bff8000000000000', '4059000000000000', '8000000000000000',
                              '7ff0000000000000', '3fb999999999999a']))
    elif t == 'vec':
        c = ('V', [rand_cell(rng, depth + 1, types, tags) for _ in range(rng.randint(0, 3))])
    else:
        kt = rng.choice(['int', 'str'])
        keys = set()
        items = []
        for _ in range(rng.randint(0, 3)):
            k = rand_cell(rng, 3, [kt])
            if fmt(k) in keys:
                continue
            keys.add(fmt(k))
            items.append((k, rand_cell(rng, depth + 1, types, tags)))
        items.sort(key=lambda kv: (kv[0][1]))
        c = ('M', items)
    if tags and rng.random() < tags:
        c = add_tags(rng, c)
    return c


def add_tags(rng, c, nested=True):
    """wrap a cell with a tag map (string keys; may include #fmt and tagged tag values)"""
    v = strip(c) if c[0] == 'G' else c
    items = {}
    for _ in range(rng.randint(1, 2)):
        k = rng.choice([b'k', b'len', b'big', b'#fmt', b'z'])
        if k == b'#fmt':
            val = ('I', rng.choice([10, 16, 266, 272, 2, 258, 2320, 99, 0]))
        else:
            val = rng.choice([('I', 1), ('S', b'v'), ('T',), ('N',), ('V', [('I', 3)])])
            if nested and rng.random() < 0.3:
                val = ('G', val, [(('S', b'in'), ('I', 9))])
        items[k] = val
    return ('G', v, [(('S', k), items[k]) for k in sorted(items)])
