"""C12: maps, vectors and strings obey collection laws under the language's equality."""
from .xsbase import *
from . import cells
from .common import hx


def ceq(a, b):
    """the language's equal? on canonical cells (tags ignored)"""
    a, b = cells.strip(a), cells.strip(b)
    if a[0] != b[0]:
        return False
    k = a[0]
    if k in 'NTF' and len(a) == 1:
        return True
    if k == 'I':
        return a[1] == b[1]
    if k == 'R':
        if 'nan' in (a[1], b[1]):
            return False
        x, y = int(a[1], 16), int(b[1], 16)
        return x == y or (x & ~(1 << 63)) == 0 == (y & ~(1 << 63))
    if k in ('S', 'B'):
        return a[1] == b[1]
    if k == 'V':
        return len(a[1]) == len(b[1]) and all(ceq(x, y) for x, y in zip(a[1], b[1]))
    if k == 'M':
        return len(a[1]) == len(b[1]) and all(any(ceq(k1, k2) and ceq(v1, v2) for k2, v2 in b[1]) for k1, v1 in a[1])
    return False


def ktype(c):
    return cells.strip(c)[0]


ORDERED = ('I', 'R', 'S')


def key_pool(rng, hetero):
    ints = [('I', v) for v in (0, 1, 2, -1, 7, 2 ** 64, -(2 ** 127))]
    strs = [('S', s) for s in (b'a', b'b', b'abc', b'', 'é'.encode())]
    reals = [('R', r) for r in ('3ff0000000000000', '0000000000000000', '8000000000000000', 'bff8000000000000', '4059000000000000')]
    other = [('N',), ('T',), ('F',), ('B', '1010'), ('B', ''), ('B', '10100000'), ('V', [('I', 1)]), ('V', []), ('V', [('I', 1), ('S', b'a')]),
             ('M', [(('I', 1), ('I', 2))]), ('G', ('I', 1), [(('S', b'k'), ('I', 9))])]
    if not hetero:
        return rng.choice([ints, strs, reals])
    return ints + strs + reals + other


class C12(XsProp):
    id = 'C12'
    rule = ('operation sequences on a map held in a variable (insert, get, remove, foreach, literal construction with repeated keys, '
            'length via foreach count) with keys of every type, and on vectors/strings (push, nth, get, slice, reverse, length, collect, '
            'unbox, concat, join, sort) with an index grid {0, +-1, +-len, +-(len+1), isize and i128 extremes}; after every operation the '
            'old collection (kept in a variable) is re-read and must be unchanged. Direct predicate: agreement with a plain association '
            'list / list evaluator using the language equal?. Key sets that mix types, or use types other than int/real/str, exercise '
            'the recorded finding D19 (the tree order treats them as equal). non-trivial = distinct sequence of at least 3 operations')

    def generate(self, rng, tier):
        n = 700 if tier == 'quick' else 15000
        cs = []
        self.meta = {}
        for i in range(n):
            hetero = (i % 3 == 0)
            pool = key_pool(rng, hetero)
            steps = ['xs limits 20000 300 -', 'eval %s' % hexsrc('{ } var m')]
            ops = []
            for _ in range(rng.randint(3, 12)):
                k = rng.choice(pool)
                r = rng.random()
                ksrc = cells.source(cells.strip(k))     # None for values that have no literal (reals): they are pushed, never written
                ktxt = cells.fmt(k)
                if r < 0.12:
                    # the map is replaced by a literal, often with a key written twice: the last pair wins, as with successive inserts
                    pairs = []
                    for _ in range(rng.randint(0, 5)):
                        k2 = rng.choice(pool if rng.random() < 0.6 or not pairs else [p_[0] for p_ in pairs])
                        if cells.source(cells.strip(k2)) is None:
                            continue
                        pairs.append((cells.strip(k2), rng.choice([('I', rng.randint(0, 99))] * 4 + [('N',), ('F',)])))
                    src = '{ %s} ! m' % ''.join('%s %s ' % (cells.source(v_), cells.source(k_)) for k_, v_ in pairs)
                    steps.append('eval %s | stack' % hexsrc(src))
                    ops.append(('literal', pairs))
                elif r < 0.45:
                    # values of every kind - nil and flags included: a binding to nil is a binding (it counts, foreach visits it)
                    v = rng.choice([('I', rng.randint(0, 99))] * 3 + [('N',), ('N',), ('F',), ('T',), ('I', 0), ('S', b'v')])
                    steps.append('push %s | push %s | eval %s | stack' % (cells.fmt(v), ktxt, hexsrc('m rot swap insert ! m')))
                    ops.append(('insert', k, v))
                elif r < 0.75:
                    steps.append('push %s | eval %s | stack | eval 64726f70' % (ktxt, hexsrc('m swap get')))
                    ops.append(('get', k))
                elif r < 0.9:
                    steps.append('push %s | eval %s | stack' % (ktxt, hexsrc('m swap remove ! m')))
                    ops.append(('remove', k))
                else:
                    steps.append('eval %s | stack | eval 64726f70' % hexsrc('0 m foreach I drop drop 1 + loop'))
                    ops.append(('size',))
            steps.append('var 6d')
            case = ' | '.join(steps)
            cs.append(case)
            self.meta[case] = ('map', ops)
        # vectors and strings
        for i in range(n // 2):
            ln = rng.choice([0, 1, 2, 3, 5])
            vec = [('I', rng.randint(-5, 9)) for _ in range(ln)]
            vsrc = cells.source(('V', vec))
            idx = rng.choice([0, 1, -1, ln, -ln, ln + 1, -(ln + 1), ln - 1, 2 ** 63 - 1, -(2 ** 63), 2 ** 63, 2 ** 64, -(2 ** 127), 2 ** 127 - 1,
                              2 ** 64 + 1, 2 ** 64 + max(ln - 1, 0), 2 ** 65, 3 * 2 ** 64 + 1, 2 ** 32, 2 ** 32 + 1, -(2 ** 64), -(2 ** 64) + 1, 2 ** 127 - 2 ** 64 + 1])
            idx2 = rng.choice([0, 1, -1, ln, -ln, ln + 1, 2, 2 ** 63 - 1, -(2 ** 63), 2 ** 64])
            op = rng.choice(['nth', 'get', 'get', 'slice', 'reverse', 'push', 'length', 'sort', 'unbox', 'strslice', 'join', 'joinmix', 'joinmix'])
            if i % 9 == 0 and ln:
                # positions beyond the 64-bit range whose low bits would be a valid position
                op, idx = rng.choice(['get', 'nth', 'collectn']), rng.choice([1, 2, 3]) * 2 ** 64 + rng.randrange(ln)
            if op == 'joinmix':
                # elements of mixed kinds, empty strings and empty / nested vectors included, every separator
                def el(d=0):
                    k = rng.random()
                    if k < 0.35: return ('I', rng.randint(-5, 99))
                    if k < 0.7 or d > 1: return ('S', rng.choice([b'', b'', b'a', b'xy', b'\xc3\xa9']))
                    return ('V', [el(d + 1) for _ in range(rng.randint(0, 3))])
                mv = [el() for _ in range(rng.randint(0, 5))]
                # a tag (other than the formatting tag) on an element changes nothing
                tagm = [(('S', b'k'), ('I', 1))]
                tv = [('G', x, tagm) if rng.random() < 0.3 else x for x in mv]
                sep = rng.choice(['', ',', '+-', ' '])
                word = rng.choice(['join', 'join', 'concat'])
                prog = ('v "%s" join' % sep) if word == 'join' else 'v concat'
                if tv != mv:
                    case = 'xs limits 20000 300 - | push %s | eval %s | eval %s | stack | var 76' % (cells.fmt(('V', tv)), hexsrc('var v'), hexsrc(prog))
                    cs.append(case)
                    self.meta[case] = ('vec', ('joinmix', mv, sep if word == 'join' else None, 'tagged'))
                    continue
                case = 'xs limits 20000 300 - | eval %s | eval %s | stack | var 76' % (hexsrc('%s var v' % cells.source(('V', mv))), hexsrc(prog))
                cs.append(case)
                self.meta[case] = ('vec', ('joinmix', mv, sep if word == 'join' else None))
                continue
            if op == 'nth':
                prog, exp = 'v %d nth' % idx, ('nth', vec, idx)
            elif op == 'get':
                prog, exp = 'v %d get' % idx, ('get', vec, idx)
            elif op == 'slice':
                prog, exp = 'v %d %d slice' % (idx, idx2), ('slice', vec, idx, idx2)
            elif op == 'reverse':
                prog, exp = 'v reverse', ('reverse', vec)
            elif op == 'push':
                prog, exp = '77 v push', ('push', vec)
            elif op == 'length':
                prog, exp = 'v length', ('length', vec)
            elif op == 'sort':
                prog, exp = 'v sort', ('sort', vec)
            elif op == 'collectn':
                prog, exp = 'v unbox %d collect' % (idx + 1), ('collectn', vec)     # a count nobody can satisfy: must be refused
            elif op == 'unbox':
                prog, exp = 'v unbox %d collect' % ln, ('same', vec)
            elif op == 'join':
                prog, exp = 'v "," join', ('join', vec)
            else:
                s = rng.choice(['', 'a', 'abc', 'héllo', 'xyzzy'])
                prog, exp = '"%s" %d %d slice' % (s, idx, idx2), ('strslice', s, idx, idx2)
            case = 'xs limits 20000 300 - | eval %s | eval %s | stack | var 76' % (hexsrc('%s var v' % vsrc), hexsrc(prog))
            cs.append(case)
            self.meta[case] = ('vec', exp)
        return cs

    D19 = ('map keys that are not all ints, all (non-NaN) reals or all strings: the order used by the map treats values it cannot compare '
           'as equal, so unrelated keys collide (witness: { 1 "a" 2 5 } becomes { 2 5 } and "a" get returns 2)')

    def known(self, text, impl, spec):
        if 'hetero-keys: True' in text:
            return self.D19
        return None

    def known_case(self, case):
        """the case's key set mixes types or uses a type the tree order cannot compare"""
        if case not in getattr(self, 'meta', {}) or self.meta[case][0] != 'map':
            return None
        keys = []
        for op in self.meta[case][1]:
            if op[0] == 'literal':
                keys += [k for k, _ in op[1]]
            elif len(op) > 1:
                keys.append(op[1])
        types = {ktype(k) for k in keys}
        if len(types) > 1 or not types <= set(ORDERED):
            return self.D19
        return None

    @staticmethod
    def clampi(i, ln):
        if i < 0:
            return ln - min(-i, ln)
        return min(i, ln)

    def group_check(self, cases, impl):
        fails, samples = [], []
        n = 0
        for c, o in zip(cases, impl):
            if c not in getattr(self, 'meta', {}) or 'PANIC' in o:
                continue
            kind, info = self.meta[c]
            st = c.split(' | ')
            ou = o.split(' | ')
            n += 1
            if kind == 'map':
                model = []          # association list
                keys_seen = []
                i = 2
                bad = None
                for op in info:
                    if op[0] == 'literal':
                        res = ou[i]
                        i += 2
                        model = []
                        for k_, v_ in op[1]:
                            keys_seen.append(k_)
                            for j, (k, v) in enumerate(model):
                                if ceq(k, k_):
                                    model[j] = (k_, v_)
                                    break
                            else:
                                model.append((k_, v_))
                        if res != 'ok':
                            bad = 'map literal failed: %s' % res
                    elif op[0] == 'insert':
                        res, sk = ou[i + 2], ou[i + 3]
                        i += 4
                        keys_seen.append(op[1])
                        for j, (k, v) in enumerate(model):
                            if ceq(k, op[1]):
                                model[j] = (op[1], op[2])
                                break
                        else:
                            model.append((op[1], op[2]))
                        if res != 'ok':
                            bad = 'insert failed: %s' % res
                    elif op[0] == 'get':
                        res, sk = ou[i + 1], ou[i + 2]
                        i += 4
                        keys_seen.append(op[1])
                        want = next((v for k, v in model if ceq(k, op[1])), ('N',))
                        got = [t for t in sk.strip('[] ').split(' ') if t]
                        if res != 'ok' or not got or not ceq(cells.parse(got[-1]), want):
                            bad = 'get %s returned %s %s, the association list has %s' % (cells.fmt(op[1]), res, got[-1:], cells.fmt(want))
                    elif op[0] == 'remove':
                        res = ou[i + 1]
                        i += 3
                        keys_seen.append(op[1])
                        model = [(k, v) for k, v in model if not ceq(k, op[1])]
                        if res != 'ok':
                            bad = 'remove failed: %s' % res
                    else:
                        res, sk = ou[i], ou[i + 1]
                        i += 3
                        got = [t for t in sk.strip('[] ').split(' ') if t]
                        if res != 'ok' or got[-1:] != ['I%x' % len(model)]:
                            bad = 'foreach visited %s bindings, the association list has %d' % (got[-1:], len(model))
                    if bad:
                        break
                if not bad:
                    final = cells.parse(ou[-1]) if ou[-1].startswith('M') else None
                    if final is None or len(final[1]) != len(model) or not all(any(ceq(k, k2) and ceq(v, v2) for k2, v2 in final[1]) for k, v in model):
                        bad = 'final map %s differs from the association list %s' % (ou[-1], [(cells.fmt(k), cells.fmt(v)) for k, v in model])
                if bad:
                    types = {ktype(k) for k in keys_seen}
                    hetero = len(types) > 1 or not types <= set(ORDERED)
                    fails.append(('case: %s\nhetero-keys: %s\nresult: %s' % (c, hetero, o[:1500]), bad))
            else:
                exp = info
                sh = 1 if (len(exp) > 3 and exp[-1] == 'tagged') else 0      # one more step (push, then `var v`)
                res = ou[2 + sh]
                got = [t for t in ou[3 + sh].strip('[] ').split(' ') if t]
                vec_after = ou[4 + sh]
                if sh:
                    vec_after = cells.fmt(cells.strip(cells.parse(vec_after))) if vec_after.startswith(('V', 'G')) else vec_after
                bad = None
                if exp[0] != 'strslice':
                    vec = exp[1]
                    ln = len(vec)
                    if vec_after != cells.fmt(('V', vec)):
                        bad = 'the vector kept in the variable changed: %s' % vec_after
                    isz = lambda x: -(2 ** 63) <= x < 2 ** 63
                    if exp[0] == 'nth':
                        i = exp[2]
                        if not isz(i):
                            want = 'err'
                        elif 0 <= i < ln:
                            want = vec[i]
                        elif -ln <= i < 0:
                            want = vec[ln + i]
                        else:
                            want = 'err'
                    elif exp[0] == 'collectn':
                        want = 'err'
                    elif exp[0] == 'get':
                        i = exp[2]
                        want = vec[i] if 0 <= i < ln else 'err'
                    elif exp[0] == 'slice':
                        a, b = exp[2], exp[3]
                        if not (isz(a) and isz(b)):
                            want = 'err'
                        else:
                            s_, e_ = self.clampi(a, ln), self.clampi(b, ln)
                            want = ('V', vec[s_:max(s_, e_)])
                    elif exp[0] == 'reverse':
                        want = ('V', vec[::-1])
                    elif exp[0] == 'push':
                        want = ('V', vec + [('I', 77)])
                    elif exp[0] == 'length':
                        want = ('I', ln)
                    elif exp[0] == 'sort':
                        want = ('V', sorted(vec, key=lambda x: x[1]))
                    elif exp[0] == 'same':
                        want = ('V', vec)
                    elif exp[0] == 'join':
                        want = ('S', ','.join(str(x[1]) for x in vec).encode())
                    elif exp[0] == 'joinmix':
                        def rend(v, sep):
                            parts = [(rend(x[1], sep) if x[0] == 'V' else (x[1] if x[0] == 'S' else str(x[1]).encode())) for x in v]
                            return (sep.encode() if sep is not None else b'').join(parts)
                        want = ('S', rend(vec, exp[2]))
                    if not bad:
                        if want == 'err':
                            if res == 'ok':
                                bad = '%s succeeded with %s, the index is out of range' % (exp[0], got)
                        elif res != 'ok' or got[-1:] != [cells.fmt(want)]:
                            bad = '%s gave %s %s, the list model gives %s' % (exp[0], res, got[-1:], cells.fmt(want))
                else:
                    s, a, b = exp[1], exp[2], exp[3]
                    isz = lambda x: -(2 ** 63) <= x < 2 ** 63
                    if not (isz(a) and isz(b)):
                        if res == 'ok':
                            bad = 'slice accepted an index outside the machine word'
                    else:
                        s_, e_ = self.clampi(a, len(s)), self.clampi(b, len(s))
                        want = ('S', s[s_:max(s_, e_)].encode())
                        if res != 'ok' or got[-1:] != [cells.fmt(want)]:
                            bad = 'string slice gave %s %s, expected %s' % (res, got[-1:], cells.fmt(want))
                if bad:
                    fails.append(('case: %s\nhetero-keys: False\nsources: %s\nresult: %s' % (c, src_of(c), o[:800]), bad))
        if cases:
            samples.append(dict(sources=src_of(cases[0])[:4], result=impl[0][:300]))
        return n, fails, samples, dict(sequences=n)

    def canon_impl(self, s):
        return s


PROP = C12()
