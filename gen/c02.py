"""C02: reverse stepping exactly undoes forward stepping, and replay reproduces it."""
from .xsbase import *


class C02(XsProp):
    id = 'C02'
    rule = ('generated programs over the modelled repertoire (stack words incl. over/rot/swap, calls/returns, locals re-initialised '
            'in loops, do/loop, foreach, break, case, begin loops, variable stores, vector/map builders, tags, cursor reads) are compiled '
            'with recording on, stepped forward (<= 300 steps) recording the full dump (incl. the reverse log) after every step, then driven '
            'through a seeded random walk of 60..200 next/rnext moves; after each move the dump must equal the one recorded at that depth '
            '(direct predicate, computed in the harness). The model runs the same walk; the hash of all visited dumps is compared. '
            'non-trivial = distinct program whose walk covered at least 5 forward steps')

    def generate(self, rng, tier):
        n = 700 if tier == 'quick' else 15000
        cs = []
        fixed = [
            ': f 2 0 do I local x x drop loop ; f',
            '[ 10 20 ] foreach I drop loop',
            '1 2 over rot swap drop drop drop',
            ': g local a a a + ; 3 g 4 g +',
            '3 0 do I 1 = if break then I loop',
            '5 case 1 of 10 endof 5 of 50 endof 0 endcase',
            '0 var v 3 0 do v I + ! v loop v',
            '{ 1 "a" 2 "b" } foreach I drop drop loop',
            '[ 1 [ 2 3 ] ] let [ a [ b c ] ] a b c',
            '|ff 01 02| open-bitstr u8 4 uint 4 int remain close-bitstr',
            'begin 1 true until 2 begin dup 0 > while 1 - repeat',
            ': r local n n 0 > if n 1 - r then ; 3 r',
            '1 2 3 rot over "x" swap 1 +',
        ]
        for f in fixed:
            cs.append('xs rec on | limits 5000 - - | compile %s | walk %d 300 120' % (hexsrc(f), rng.getrandbits(32)))
        for i in range(n):
            meta = (i % 5 == 0)
            g = Gen(rng, bad=0.02 if i % 4 else 0.1, meta=meta, cursor=True)
            src = g.program()
            if rng.random() < 0.2:
                src = '|a5 0f 33 cc 01| open-bitstr ' + src + rng.choice([' u8', ' 3 uint', ' 4 bits', ' 9 int', ' remain', ' 16 seek', ' close-bitstr'])
            if meta and i % 10:
                # build-time execution of meta blocks under recording is a recorded finding (see known_findings.json):
                # most meta programs are therefore compiled first and recorded afterwards
                cs.append('xs limits 5000 %s - | compile %s | rec on | walk %d 300 %d' % (
                    rng.choice(['-', '-', '400', '5']), hexsrc(src), rng.getrandbits(32), rng.choice([60, 120, 200])))
            else:
                cs.append('xs rec on | limits 5000 %s - | compile %s | walk %d 300 %d' % (
                    rng.choice(['-', '-', '400', '5']), hexsrc(src), rng.getrandbits(32), rng.choice([60, 120, 200])))
        for src in ['7 var x x 1 "u" insert-tag ! x x tags', '10 var X X ^hex ! X X 1 +', '0.0 var z -0.0 ! z z', '[ 1 ] var v v 2 "t" insert-tag ! v v tags',
                    '3 var q 3 0 do q ^bin ! q q ^dec ! q loop q', ': f 3 0 do I 10 * local x x loop ; f', '1 2 3 rot rot swap over drop']:
            cs.append('xs rec on | limits 5000 - - | compile %s | walk %d 300 200' % (hexsrc(src), rng.getrandbits(32)))
        return cs

    def nontrivial(self, line):
        return True

    D24 = ('recording enabled before compiling a source with a meta block: build-time execution writes reverse-log '
           'entries without an instruction boundary, and a later rnext crosses into them (witness: rec on; compile '
           '"#( [ 1 ] #) 2"; next; rnext)')

    def known(self, text, impl, spec):
        # D24: recording enabled while a source with a meta block is built
        m = re.search(r'case: (xs [^\n]*)', text)
        case = m.group(1) if m else text
        if case.startswith('xs rec on') and ' compile ' in case:
            srcs = src_of(case)
            if srcs and '#(' in srcs[0]:
                return self.D24
        return None

    def group_check(self, cases, impl):
        fails, samples = [], []
        n = 0
        big = 0
        for c, o in zip(cases, impl):
            w = o.split(' | ')[-1]
            if not w.startswith('walk:'):
                continue
            n += 1
            if w.startswith('walk:MISMATCH'):
                fails.append(('case: %s\nprogram: %s\nresult: %s' % (c, src_of(c)[0], w[:2000]), 'rewind/replay does not restore the recorded state'))
            else:
                m = re.search(r'n=(\d+)', w)
                if m and int(m.group(1)) >= 5:
                    big += 1
        if n:
            samples.append(dict(program=src_of(cases[0])[0], walk=impl[0].split(' | ')[-1][:200]))
        return n, fails, samples, dict(walks=n, walks_with_5_or_more_steps=big)


PROP = C02()
