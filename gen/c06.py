"""C06: parsing cursor - a read returns exactly the requested bits and advances that far."""
from .xsbase import *
from . import cells

SIZES = [0, 1, 3, 4, 7, 8, 9, 12, 16, 24, 31, 32, 33, 63, 64, 65, 127, 128, 129, 200]
HUGE = [2 ** 31, 2 ** 63 - 1, 2 ** 63, 2 ** 64 - 1, 2 ** 64, 2 ** 127 - 1, -1, -(2 ** 63),
        2 ** 61, 2 ** 61 + 1, 2 ** 61 + 2, 2 ** 62 + 1, 3 * 2 ** 61 + 3, 2 ** 60 + 1, 2 ** 64 + 8, 2 ** 32 + 1]
NONINT = ['"x"', 'nil', '[ 1 ]', '1.5', 'true']
FIXED = ['u8', 'i8', 'u16', 'i16le', 'u16be', 'u32', 'i32be', 'u32le', 'u64', 'i64', 'u64be', 'i64le', 'f32', 'f64', 'f32be', 'f64le']
FIXED_W = {'8': 8, '16': 16, '32': 32, '64': 64}


def width_of(op):
    for k in ('64', '32', '16', '8'):
        if k in op:
            return int(k)
    return None


def bits_value(bits, signed, big):
    """value of a bit string: big-endian = plain binary; little-endian = 8-bit groups from the front weigh 2^(8k)"""
    n = len(bits)
    if n == 0:
        return 0
    if big:
        u = int(bits, 2)
    else:
        u, sh = 0, 0
        for i in range(0, n, 8):
            g = bits[i:i + 8]
            u |= int(g, 2) << sh
            sh += len(g)
    if signed and u >= 1 << (n - 1):
        u -= 1 << n
    return u


class C06(XsProp):
    id = 'C06'
    rule = ('random binary inputs (0..40 bytes, random bit start/end so every alignment occurs, stale bits around) and sequences of '
            '4..25 parsing words: N bits, N bytes, fixed-width and N int/uint reads in both byte orders, f32/f64/N float, magic, seek, find, '
            'remain, nulbytestr, cstr, nested open-bitstr/close-bitstr, big/little; sizes from {0,1,7,8,9,...,128,129,remain-1,remain,'
            'remain+1, 2^31, 2^63, 2^64-1, 2^64, 2^127, negative, non-integers}. After every word the harness reports cursor '
            '(start,end,offset,bits) and the visible stack. Direct predicates: a successful read returns bits [offset,offset+n) (numbers: '
            'their value under the byte order, with len/big tags) and advances by n leaving the input unchanged; any failure leaves input and '
            'offset unchanged and only pops; start<=offset<=end always; remain=end-offset; find does not move; close restores the suspended '
            '(input,offset) in LIFO order. non-trivial = distinct (input, word sequence) with at least one successful unaligned read')

    def generate(self, rng, tier):
        n = 900 if tier == 'quick' else 20000
        cs = []
        for i in range(n):
            nb = rng.choice([0, 1, 2, 3, 5, 8, 16, 17, 40])
            data = bytes(rng.getrandbits(8) if rng.random() < 0.8 else rng.choice([0, 255, 0x41]) for _ in range(nb))
            if rng.random() < 0.3 and nb > 3:
                data = data[:nb // 2] + b'\x00' + data[nb // 2 + 1:]
            tot = 8 * nb
            s = rng.choice([0, 0, rng.randint(0, tot)])
            e = rng.choice([tot, tot, rng.randint(s, tot)])
            # one case in six runs under a tight stack limit: a read refused by the limit must not move either
            slim = rng.choice(['300'] * 5 + [str(rng.randint(0, 3))])
            steps = ['xs limits 6000 %s - | input %s %d %d | cursor | stack' % (slim, data.hex() or '-', s, e)]
            remain_guess = e - s
            dumped = False
            for _ in range(rng.randint(4, 25)):
                k = rng.random()

                def size():
                    r = rng.random()
                    if r < 0.6:
                        return str(rng.choice(SIZES + [max(0, remain_guess - 1), remain_guess, remain_guess + 1, remain_guess // 2]))
                    if r < 0.85:
                        return str(rng.choice(HUGE))
                    return rng.choice(NONINT)
                if k < 0.2:
                    op = '%s %s' % (size(), rng.choice(['bits', 'bits', 'bytes']))
                elif k < 0.4:
                    op = rng.choice(FIXED)
                elif k < 0.55:
                    op = '%s %s' % (size(), rng.choice(['int', 'uint', 'uint', 'float']))
                elif k < 0.62:
                    if rng.random() < 0.4:
                        # the pattern is itself a slice read from the input (so it starts inside its buffer); the cursor goes back so that
                        # the pattern can match: read, seek back, magic - as three separate steps
                        nb = rng.choice([8, 8, 4, 16, 3])
                        steps.append('eval %s | cursor | stack' % hexsrc('offset %d bits swap seek' % nb))
                        op = 'magic'
                    else:
                        op = '%s magic' % rng.choice(['|ff|', '|0|', '||', '|x.x|', '|41 42|', '"AB" >bitstr', '1'])
                elif k < 0.72:
                    op = '%s seek' % rng.choice([str(rng.randint(0, tot + 8)), str(s), str(e), size()])
                elif k < 0.78:
                    op = '%s find' % rng.choice(['|00|', '|41|', '|ff ff|', '|x|', '||', '"B" >bitstr', '5'])
                elif k < 0.84:
                    op = 'remain'
                elif k < 0.88:
                    op = rng.choice(['nulbytestr', 'cstr'])
                elif k < 0.93:
                    opnd = rng.choice(['|12 34 56|', '|x.x|', '||', '|ff 00 41 00|', '8 bits', '3 bits', '"s"'])
                    if opnd.endswith('bits'):
                        # a slice of the current input becomes the new input (read first, open in a separate step)
                        steps.append('eval %s | cursor | stack' % hexsrc(opnd))
                        op = 'open-bitstr'
                    else:
                        op = '%s open-bitstr' % opnd
                elif k < 0.97:
                    op = 'close-bitstr'
                else:
                    op = rng.choice(['big', 'little'])
                if rng.random() < 0.08:
                    # the inspection words of the cursor vocabulary (in the model since round 11): they print and must move nothing
                    steps.append('eval %s | cursor | stack' % hexsrc(rng.choice(['dump', 'dump', '%s dump-at' % rng.choice(
                        [str(rng.randint(0, tot + 8)), str(s), str(e), size()])])))
                    dumped = True
                steps.append('eval %s | cursor | stack' % hexsrc(op))
            if dumped:
                steps.append('out')
            cs.append(' | '.join(steps))
        return cs

    def group_check(self, cases, impl):
        fails, samples = [], []
        nops = nread = nunal = 0
        for c, o in zip(cases, impl):
            st = c.split(' | ')
            ou = o.split(' | ')
            if len(st) != len(ou) or 'PANIC' in o or 'cursor' not in st:
                continue

            def cur(x):
                f = x.split(':')
                if len(f) != 5 or f[1] == '?':
                    return None
                start, end = int(f[1]), int(f[2])
                off = cells.parse(f[3])
                bits = '' if f[4] == '-' else f[4]
                return (start, end, off[1] if off[0] == 'I' else None, bits)

            def stack(x):
                return [t for t in x.strip('[] ').split(' ') if t]
            prev_cur, prev_stack = cur(ou[2]), stack(ou[3])
            big = False
            stash = []
            i = 4
            bad = None
            while i + 2 < len(st) + 1 and bad is None:
                op = src_of(st[i])[0] if st[i].startswith('eval') else ''
                res, cu, sk = ou[i], cur(ou[i + 1]), stack(ou[i + 2])
                i += 3
                nops += 1
                if prev_cur is None or cu is None:
                    break
                start, end, off, bits = prev_cur
                word = op.split(' ')[-1]
                # invariant
                if cu[2] is None or not (cu[0] <= cu[2] <= cu[1]):
                    bad = 'offset %s outside the input %d..%d after `%s`' % (cu[2], cu[0], cu[1], op)
                    break
                if res != 'ok':
                    if word == 'close-bitstr' and stash and not res.startswith('ELimit'):
                        bad = '`close-bitstr` failed (%s) although the input %s was suspended by an earlier `open-bitstr`' % (res, stash[-1])
                    elif cu != prev_cur and word not in ('open-bitstr',):
                        bad = 'failing `%s` (%s) changed the cursor %s -> %s' % (op, res, prev_cur, cu)
                    elif not (len(sk) <= len(prev_stack) + (0 if word != 'open-bitstr' else 0) and prev_stack[:len(sk)] == sk):
                        # arguments pushed by the same source before the failing word are allowed to remain
                        extra = len(op.split(' ')) - 1
                        if not (prev_stack == sk[:len(prev_stack)] and len(sk) <= len(prev_stack) + extra):
                            bad = 'failing `%s` (%s) left the stack %s (was %s)' % (op, res, sk, prev_stack)
                else:
                    if word in ('big', 'little'):
                        big = word == 'big'
                    n = None
                    if word in ('bits', 'bytes', 'int', 'uint', 'float'):
                        try:
                            n = int(op.split(' ')[0]) * (8 if word == 'bytes' else 1)
                        except ValueError:
                            n = None
                    elif width_of(word) and word[0] in 'uif':
                        n = width_of(word)
                    if n is not None and word != 'seek':
                        nread += 1
                        exp = bits[off - start: off - start + n]
                        if cu[:2] + (cu[3],) != (start, end, bits) or cu[2] != off + n:
                            bad = '`%s` moved the cursor %s -> %s (expected offset %d)' % (op, prev_cur, cu, off + n)
                        elif sk[:-1] != prev_stack:
                            bad = '`%s` disturbed the rest of the stack: %s -> %s' % (op, prev_stack, sk)
                        else:
                            top = cells.parse(sk[-1])
                            if (off % 8) or (n % 8):
                                nunal += 1
                            if word in ('bits', 'bytes'):
                                if top != ('B', exp):
                                    bad = '`%s` returned %s, expected bits %s' % (op, sk[-1], exp)
                            elif word[0] in 'ui':
                                order_big = big if not word.endswith(('le', 'be')) else word.endswith('be')
                                v = bits_value(exp, word[0] == 'i', order_big)
                                val = cells.strip(top)
                                if val != ('I', v):
                                    bad = '`%s` decoded %s from bits %s, expected %d' % (op, sk[-1], exp, v)
                                elif top[0] != 'G' or (('S', b'len'), ('I', n)) not in top[2]:
                                    bad = '`%s` result lacks the len tag: %s' % (op, sk[-1])
                    elif word in ('nulbytestr', 'cstr') and op == word:
                        rest = bits[off - start:]
                        bs_ = [int(rest[i:i + 8], 2) for i in range(0, len(rest) - len(rest) % 8, 8)]
                        k = (bs_.index(0) + 1) if 0 in bs_ else len(bs_)
                        nread += 1
                        if off % 8:
                            nunal += 1
                        top = cells.strip(cells.parse(sk[-1])) if sk else None
                        want = ('B', rest[:8 * k]) if word == 'nulbytestr' else ('S', ''.join(chr(b) for b in bs_[:k] if b).encode('utf-8'))
                        if cu[:2] + (cu[3],) != (start, end, bits) or cu[2] != off + 8 * k:
                            bad = '`%s` moved the cursor %s -> %s (the string with its terminator has %d bits)' % (op, prev_cur, cu, 8 * k)
                        elif sk[:-1] != prev_stack:
                            bad = '`%s` disturbed the rest of the stack: %s -> %s' % (op, prev_stack, sk)
                        elif top != want:
                            bad = '`%s` returned %s, the bytes up to the terminator are %s' % (op, sk[-1], cells.fmt(want) if want[0] == 'S' else 'B' + want[1])
                    elif word in ('dump', 'dump-at'):
                        if cu != prev_cur or sk != prev_stack:
                            bad = '`%s` changed the cursor or the stack: %s %s -> %s %s' % (op, prev_cur, prev_stack, cu, sk)
                    elif word == 'remain':
                        if cu != prev_cur or sk != prev_stack + ['I%x' % (end - off)]:
                            bad = '`remain` gave %s with cursor %s' % (sk[-1:], prev_cur)
                    elif word == 'find':
                        if cu != prev_cur:
                            bad = '`find` moved the cursor'
                    elif word == 'seek':
                        if cu[:2] + (cu[3],) != (start, end, bits):
                            bad = '`seek` changed the input'
                    elif word == 'open-bitstr':
                        stash.append(prev_cur)
                        if cu[2] != cu[0]:
                            bad = '`open-bitstr` did not start at the beginning of the new input'
                    elif word == 'close-bitstr':
                        if stash:
                            want = stash.pop()
                            if cu != want:
                                bad = '`close-bitstr` restored %s, suspended was %s' % (cu, want)
                    elif word == 'magic':
                        # the pattern: a literal in the same source, or the value on top of the stack before
                        pat = None
                        if op == 'magic' and prev_stack:
                            t = cells.parse(prev_stack[-1])
                            t = cells.strip(t)
                            pat = t[1] if t[0] == 'B' else None
                        if pat is not None:
                            if cu[:2] + (cu[3],) != (start, end, bits) or cu[2] != off + len(pat):
                                bad = '`magic` moved the cursor %s -> %s (expected offset %d, the pattern has %d bits)' % (prev_cur, cu, off + len(pat), len(pat))
                            elif bits[off - start: off - start + len(pat)] != pat:
                                bad = '`magic` succeeded although the input at the cursor is not the pattern'
                prev_cur, prev_stack = cu, sk
            if bad:
                fails.append(('case: %s\nwords: %s\nresult: %s' % (c, src_of(c), o[:1500]), bad))
        if cases:
            samples.append(dict(words=src_of(cases[0]), result=impl[0][:300]))
        return nops, fails, samples, dict(word_executions=nops, successful_sized_reads=nread, unaligned_reads=nunal)


PROP = C06()
