"""The check flow shared by all properties (DESIGN.md section 2.1 and 3)."""
import os, sys, time, random, json, collections
from . import lib


class Prop:
    """Base class of a property check.  Subclasses provide generators and rules."""
    id = 'C00'
    profiles = ('dev',)
    trusted_base = []
    assumptions = []
    rule = ''
    widen_budget_s = 90

    def generate(self, rng, tier):
        return []

    def nontrivial(self, line):
        return True

    def classify(self, line):
        t = line.split(' ')
        return ' '.join(t[:2])

    def known(self, line, impl, spec):
        """label of the known finding this failing case belongs to, or None"""
        return None

    def canon_impl(self, s):
        return s

    def same(self, impl, mirror):
        return impl == mirror

    def canon_model(self, s):
        return s

    def direct(self, exes, rng, tier):
        """direct predicates evaluated on the implementation alone:
        returns (evaluations, failures[(replay_text, what)], samples, extra_coverage)"""
        return 0, [], [], {}

    def corpus(self):
        d = os.path.join(lib.VERIF, 'corpus', self.id)
        out = []
        if os.path.isdir(d):
            for f in sorted(os.listdir(d)):
                for l in open(os.path.join(d, f)):
                    l = l.rstrip('\n')
                    if l and not l.startswith('#'):
                        out.append(l)
        return out

    def stale_findings(self, exes):
        """replay the witnesses of recorded findings; returns list of KNOWN-FINDING lines"""
        return []


def shrink_pick(cands):
    """smallest failing case (cases are independent lines; the generators already
    enumerate small scopes first, so the minimum by length is the shrunk witness)"""
    return min(cands, key=lambda c: (len(c[0]), c[0]))


def spec_same(prop, a, s):
    """does the observed line [a] meet the specification line [s]?  Equality unless the property defines `meets`."""
    if hasattr(prop, 'meets'):
        return prop.meets(a, s)
    return a == s


def run_check(prop, tier, seed, replay=None):
    t0 = time.time()
    rng = random.Random(seed)
    out_lines = []
    violations = 0
    known_lines = []

    # a matcher's verdict counts only while the finding is listed in known_findings.json (never written at run time)
    listed = set(f.get('line') for f in lib.load_known().get('findings', []) if f.get('property') == prop.id)
    if not getattr(prop, '_known_wrapped', False):
        _k = prop.known
        prop.known = lambda *a, _k=_k, _l=frozenset(listed): (lambda r: r if r in _l else None)(_k(*a))
        if hasattr(prop, 'known_case'):
            _kc = prop.known_case
            prop.known_case = lambda *a, _kc=_kc, _l=frozenset(listed): (lambda r: r if r in _l else None)(_kc(*a))
        prop._known_wrapped = True

    def say(s):
        print(s, flush=True)

    # stale replay files of earlier runs of this property
    if os.path.isdir(lib.REPLAY) and not replay:
        for f in os.listdir(lib.REPLAY):
            if f.startswith(prop.id + '-'):
                try:
                    os.remove(os.path.join(lib.REPLAY, f))
                except OSError:
                    pass

    # ---- builds (always from /repo's working tree)
    try:
        exes = {p: lib.build_harness(p) for p in prop.profiles}
    except lib.BuildError as e:
        path = lib.write_replay(prop.id, 'build', 'the harness does not build against /repo:\n%s\n' % e)
        say('VIOLATION property=%s replay=%s no-failing-input-found' % (prop.id, path))
        lib.write_evidence(prop.id, tier, seed, dict(obligations=1, discharged=0, checker_cmd='cargo build',
                           trusted_base=prop.trusted_base, evaluations=1, distinct_nontrivial=0,
                           explanation='harness build failed'), time.time() - t0, 1, prop.assumptions)
        return 1
    prop.exes = exes
    ok, out = lib.coq_make(lib.model_targets())
    proofs = lib.check_proofs(prop.id)
    if tier == 'thorough' and not replay and not proofs['failures']:
        # independent re-check of the compiled property file and everything it depends on
        okc, outc = lib.coqchk(prop.id)
        import re as _re
        ax = _re.search(r'\* Axioms:\s*(.*?)\n\s*\n', outc, _re.S)
        axioms = ax.group(1).strip() if ax else '?'
        proofs['cmd'] += ' && coqchk -o -silent -R . Xeh Xeh.Props.%s' % prop.id
        proofs['coqchk'] = dict(ok=okc, axioms=axioms)
        ax_listed = [] if axioms == '<none>' else [a.strip() for a in axioms.split('\n') if a.strip()]
        allowed = lib.AXIOM_ALLOW if any(m in lib.AXIOM_ALLOW_FILES for m in lib.prop_files(prop.id)) else set()
        stray = [a for a in ax_listed if not any(a == b or a.endswith('.' + b) for b in allowed)]
        proofs['coqchk']['axioms'] = ', '.join(ax_listed) if ax_listed else '<none>'
        if not okc or axioms == '?' or stray:
            proofs['failures'].append('coqchk: %s' % (outc[-600:] if not okc else 'axioms: ' + ', '.join(stray or [axioms])))
    model_exe = lib.build_model_driver()

    # ---- cases
    if replay:
        cases = [l.rstrip('\n') for l in open(replay) if l.startswith('case: ')]
        cases = [l[len('case: '):] for l in cases]
    else:
        cases = prop.corpus() + prop.generate(rng, tier)
    impl = {}
    for p in prop.profiles:
        impl[p] = [prop.canon_impl(x) for x in lib.run_impl(exes[p], cases)]
    mirror, spec = lib.run_model(model_exe, cases)
    mirror = [prop.canon_model(x) for x in mirror]
    spec = [prop.canon_model(x) for x in spec]
    if hasattr(prop, 'post_model'):
        mirror = prop.post_model(mirror, exes)
    if hasattr(prop, 'spec_of'):
        spec = [(prop.spec_of(c) or sp) for c, sp in zip(cases, spec)]

    unsupported = 0
    corr_breaks = []   # (case, impl, mirror, spec, profile)
    prop_fails = []
    model_bugs = []
    for p in prop.profiles:
        for i, c in enumerate(cases):
            a = impl[p][i]
            if spec[i] != '-' and not spec_same(prop, a, spec[i]):
                prop_fails.append((c, a, mirror[i], spec[i], p))
            elif mirror[i] == 'UNSUP':
                unsupported += 1          # behaviour outside the model: not comparable
            elif not (prop.same_case(c, a, mirror[i]) if hasattr(prop, 'same_case') else prop.same(a, mirror[i])):
                corr_breaks.append((c, a, mirror[i], spec[i], p))
    for i, c in enumerate(cases):
        if spec[i] != '-' and mirror[i] != 'UNSUP' and not spec_same(prop, mirror[i], spec[i]):
            if hasattr(prop, 'known_case') and prop.known_case(c):
                continue      # a recorded finding: the faithful mirror violates the property exactly like the code
            model_bugs.append((c, '-', mirror[i], spec[i], '-'))

    # ---- direct predicates on the implementation
    d_evals, d_fails, d_samples, d_cov = prop.direct(exes, rng, tier) if not replay else (0, [], [], {})
    # predicates over groups of cases of this run (e.g. the same program under several drive modes)
    prop.last_spec = spec
    if hasattr(prop, 'group_check'):
        for p in prop.profiles:
            ge, gf, gs, gc = prop.group_check(cases, impl[p])
            d_evals += ge
            d_fails += gf
            d_samples += gs
            d_cov.update(gc)

    def replay_body(kind, item, note=''):
        c, a, m, s, p = item
        return ('property: %s\nkind: %s\nprofile: %s\ncase: %s\nimplementation: %s\nmirror-model: %s\n'
                'specification: %s\n%s' % (prop.id, kind, p, c, a, m, s, note))

    # disagreements with the mirror that a recorded finding explains (the mirror has the property, the code does not)
    if hasattr(prop, 'known_case'):
        kept = []
        for item in corr_breaks:
            lab = prop.known_case(item[0])
            if lab:
                known_lines.append(lab)
            else:
                kept.append(item)
        corr_breaks = kept

    # ---- verdicts
    new_fail = []
    for item in prop_fails:
        lab = prop.known(item[0], item[1], item[3])
        if lab:
            known_lines.append(lab)
        else:
            new_fail.append(item)
    if new_fail:
        item = shrink_pick(new_fail)
        path = lib.write_replay(prop.id, 'fail', replay_body('property fails on the implementation', item,
                                'failing-cases: %d\n' % len(new_fail)))
        say('VIOLATION property=%s replay=%s' % (prop.id, path))
        violations += 1
    for (text, what) in d_fails:
        lab = prop.known(text, what, '')
        if lab:
            known_lines.append(lab)
            continue
        path = lib.write_replay(prop.id, 'direct', 'property: %s\nkind: direct predicate on the implementation\n'
                                'what: %s\n%s\n' % (prop.id, what, text))
        say('VIOLATION property=%s replay=%s' % (prop.id, path))
        violations += 1
        break
    if violations == 0 and (corr_breaks or proofs['failures'] or model_bugs):
        # the model no longer matches the code (or a proof no longer checks): the property is
        # not shown to hold.  Search wider for an input on which it actually fails.
        found = None
        if not replay:
            t_end = time.time() + (prop.widen_budget_s if tier == 'quick' else 4 * prop.widen_budget_s)
            k = 0
            while time.time() < t_end and not found:
                k += 1
                r2 = random.Random(seed * 1000003 + k)
                cs = prop.generate(r2, tier)       # fresh seeds, same size: the budget bounds the search
                if not cs:
                    break
                ms, ss = lib.run_model(model_exe, cs)
                ss = [prop.canon_model(x) for x in ss]
                for p in prop.profiles:
                    im = [prop.canon_impl(x) for x in lib.run_impl(exes[p], cs)]
                    bad = [(c, a, prop.canon_model(m), s, p) for c, a, m, s in zip(cs, im, ms, ss)
                           if s != '-' and not spec_same(prop, a, s) and not prop.known(c, a, s)]
                    if bad:
                        found = shrink_pick(bad)
                        break
                fe, ff, _, _ = prop.direct(exes, r2, 'thorough')
                if ff and not found:
                    text, what = ff[0]
                    if not prop.known(text, what, ''):
                        found = (text, what, '', '', 'direct')
        if found:
            path = lib.write_replay(prop.id, 'fail', replay_body('property fails on the implementation '
                                    '(found by the widened search)', found))
            say('VIOLATION property=%s replay=%s' % (prop.id, path))
        else:
            note = ''
            if proofs['failures']:
                note += 'proof-obligations-not-checked: %s\n' % ' | '.join(proofs['failures'])
            if model_bugs:
                note += 'mirror-disagrees-with-specification: %d cases, e.g. %s\n' % (len(model_bugs), model_bugs[0][0])
            if corr_breaks:
                item = shrink_pick(corr_breaks)
                body = replay_body('correspondence %s/%s no longer checks: implementation and mirror model '
                                   'differ; no input found on which the property itself fails'
                                   % (prop.id, prop.classify(item[0])), item,
                                   note + 'disagreeing-cases: %d\n' % len(corr_breaks))
            else:
                body = 'property: %s\nkind: proof obligation no longer checks\n%s' % (prop.id, note)
            path = lib.write_replay(prop.id, 'corr', body)
            say('VIOLATION property=%s replay=%s no-failing-input-found' % (prop.id, path))
        violations += 1

    for l in sorted(set(known_lines + prop.stale_findings(exes))):
        say('KNOWN-FINDING: property=%s %s' % (prop.id, l))

    # ---- evidence
    distinct = set(c for c in cases if prop.nontrivial(c))
    hist = collections.Counter(prop.classify(c) for c in cases)
    kinds = collections.Counter()
    for i, c in enumerate(cases):
        a = impl[prop.profiles[0]][i]
        kinds['None' if a.startswith('None') else ('Err' if a.startswith('E') else ('PANIC' if a == 'PANIC' else 'value'))] += 1
    samples = [dict(case=cases[i], implementation=impl[prop.profiles[0]][i], mirror=mirror[i], spec=spec[i])
               for i in sorted(set([0, len(cases) // 3, (2 * len(cases)) // 3, len(cases) - 1])) if 0 <= i < len(cases)]
    cov = dict(
        obligations=max(1, proofs['obligations']), discharged=proofs['discharged'],
        checker_cmd=proofs['cmd'], trusted_base=prop.trusted_base,
        theorems=proofs['theorems'], axioms=proofs['axioms'], proof_failures=proofs['failures'], coqchk=proofs.get('coqchk'),
        evaluations=len(cases) * len(prop.profiles) + d_evals,
        distinct_nontrivial=len(distinct), rule=prop.rule,
        samples=samples + d_samples,
        programs=len(cases), disagreements_checked=len(corr_breaks) + len(prop_fails),
        correspondence_breaks=len(corr_breaks), property_failures=len(prop_fails),
        outside_model=unsupported, compared_with_specification=sum(1 for x in spec if x != '-'),
        known_findings_hit=sorted(set(known_lines)),
        distribution=dict(hist.most_common(60)), result_kinds=dict(kinds),
        profiles=list(prop.profiles), repo_head=lib.git_head(lib.REPO),
        direct_evaluations=d_evals,
    )
    cov.update(d_cov)
    lib.write_evidence(prop.id, tier, seed, cov, time.time() - t0, violations, prop.assumptions)
    if violations == 0:
        say('OK property=%s tier=%s cases=%d direct=%d theorems=%d/%d wall=%.1fs' % (
            prop.id, tier, len(cases), d_evals, proofs['discharged'], proofs['obligations'], time.time() - t0))
    return 1 if violations else 0
