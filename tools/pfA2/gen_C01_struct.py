# generates Props/C01_struct.v
import re
out = []
def C(txt): out.append("(* " + txt.strip() + " *)")
def S(x): return re.sub(r'"([^"]*)"', r'"\1"%string', x)
def T(name, lemma, stmt):
    stmt = S(stmt.strip())
    out.append("Theorem %s : %s.\nProof. exact %s. Qed.\nCheck %s : %s.\n" % (name, stmt, lemma, name, stmt))
def E(name, stmt, proof="vm_compute. reflexivity."):
    stmt = S(stmt)
    out.append("Example %s : %s.\nProof. %s Qed.\n" % (name, stmt.strip(), proof))
def RAW(txt): out.append(txt)

RAW('''(* C01 (structural side) - the evaluator [sblock]/[sstmt] and the parser [pseq] of Model/Struct.v.
   Property theorems only; every one is closed by [exact] of a lemma proved in Proofs/Struct*.v.
   (The simulation of the evaluator by the VM running the compiled layout is proved elsewhere;
   these are the facts about evaluator and parser themselves that transfer through it.)

   Vocabulary
   - [sblock fo funs fuel b s], [sstmt fo funs fuel x s]: structural evaluation; results
     [SDone s'] (ran to the end), [SBroke s'] (stopped at a `break` of an enclosing loop),
     [SFail k payload pos s'] (error), [SOut] (fuel exhausted), [SUnsup] (outside the model).
   - [do_iter body pl k s] (Proofs/StructBase.v): the local fixpoint [iter] of the [SDo] case, the
     trips of a counted loop whose record is on the loop stack; [case_go blk dflt arms s]: the
     local fixpoint [go] of the [SCase] case.  C01_do_is_do_iter / C01_case_is_case_go connect them.
   - [fin r]: [Some s'] when [r] is [SDone s'] or [SBroke s'], else [None].
   - [lkey l = (l_start l, l_end l)]: index and limit of a loop record (what I / J / K and `loop` read
     of a counted loop; the third field [l_items] is the collection of a foreach loop).
   - [nfe_block b], [nfe_funs funs]: the block / every function body does not name the native word
     "%foreach-next" (the ONLY native word that writes into a loop record: it sets [l_items]).
   - [has_own_break x]: [x] can stop at a `break` that belongs to a loop around [x]: an [SBreak], or
     one inside if / else / case / until inside [x] (repeat, while, do catch their own).
     [funs_nobreak funs]: no function body has one.  The parser guarantees both
     (C01_parse_source_no_stray_break).
   - [rs_sim a b]: same frames below the top, and the top frame is the same activation (its locals may
     differ: `local` writes them).  [no_local_block b]: no [SLocSet] in [b] (calls not followed).
   - [trips body n s]: n times (evaluate the body to its end, then the increment of `loop`).
   - [no_result r]: [r] is neither [SDone] nor [SBroke]; [stops r]: [r] is [SBroke], [SFail] or [SUnsup].
   - [kext], [pinv] (Proofs/StructParse.v): the parser invariant. *)
From Xeh Require Import Model.Prelude Model.Bits Model.Codec Model.Cell Model.Lexer Model.Fmt
                        Model.Vm Model.Words Model.Struct Model.Boot.
From Xeh Require Import Proofs.StructBase Proofs.StructFuel Proofs.StructNat Proofs.StructInv
                        Proofs.StructLoops Proofs.StructRs Proofs.StructSize Proofs.StructDo
                        Proofs.StructNonterm Proofs.StructSeq Proofs.StructParse Proofs.StructSource
                        Proofs.StructExamples.
Local Notation length := List.length.
''')

RAW("(* ====================== 1. fuel monotonicity, determinism ====================== *)")
T("C01_block_fuel_monotone", "sblock_fuel_mono", '''forall fo funs f l s r,
  sblock fo funs f l s = r -> r <> SOut -> forall f', f <= f' -> sblock fo funs f' l s = r''')
T("C01_stmt_fuel_monotone", "sstmt_fuel_mono", '''forall fo funs f x s r,
  sstmt fo funs f x s = r -> r <> SOut -> forall f', f <= f' -> sstmt fo funs f' x s = r''')
C("the local fixpoints of the SDo and SCase cases, under their names")
T("C01_do_is_do_iter", "sstmt_SDo", '''forall fo funs f p b pl s,
  sstmt fo funs (S f) (SDo p b pl) s =
  run_m do_init p s (fun l s1 =>
    if (l_end l <=? l_start l)%Z then SDone s1
    else run_m (push_loop l) p s1 (fun _ s2 => do_iter (sblock fo funs f b) pl f s2))''')
T("C01_case_is_case_go", "sstmt_SCase", '''forall fo funs f arms dflt s,
  sstmt fo funs (S f) (SCase arms dflt) s = case_go (sblock fo funs f) dflt arms s''')
T("C01_do_trips_fuel_monotone", "do_iter_fuel_mono", '''forall fo funs b pl f k s r,
  do_iter (sblock fo funs f b) pl k s = r -> r <> SOut ->
  forall f' k', f <= f' -> k <= k' -> do_iter (sblock fo funs f' b) pl k' s = r''')
T("C01_case_arms_fuel_monotone", "case_go_fuel_mono", '''forall fo funs dflt arms f s r,
  case_go (sblock fo funs f) dflt arms s = r -> r <> SOut ->
  forall f', f <= f' -> case_go (sblock fo funs f') dflt arms s = r''')
C("hence the result, when there is one, does not depend on the fuel")
T("C01_block_result_unique", "sblock_result_unique", '''forall fo funs f1 f2 l s r1 r2,
  sblock fo funs f1 l s = r1 -> r1 <> SOut -> sblock fo funs f2 l s = r2 -> r2 <> SOut -> r1 = r2''')
T("C01_stmt_result_unique", "sstmt_result_unique", '''forall fo funs f1 f2 x s r1 r2,
  sstmt fo funs f1 x s = r1 -> r1 <> SOut -> sstmt fo funs f2 x s = r2 -> r2 <> SOut -> r1 = r2''')
T("C01_out_of_fuel_downward", "sblock_out_down", '''forall fo funs f f' l s,
  f' <= f -> sblock fo funs f l s = SOut -> sblock fo funs f' l s = SOut''')
C("non-vacuity: the example program (definitions with a local, a redefinition, begin/repeat left by break, nested counted loops with J I) has a result with fuel 40, and not with fuel 5")
E("C01_fuel_example", '''res_ds (sblock xfo ex_funs 40 ex_body boot) =
  Some [CInt 2; CInt 1; CInt 1; CInt 1; CInt 0; CInt 1; CInt 2; CInt 0; CInt 1; CInt 0; CInt 0; CInt 0; CInt 83521]
  /\\ sblock xfo ex_funs 5 ex_body boot = SOut''', "split; vm_compute; reflexivity.")

RAW("(* ====================== 2. loop-index and return-stack hygiene ====================== *)")
C('''every native word keeps the return stack, the context marks, and index and limit of every loop record;
   every native word except "%foreach-next" keeps the loop stack literally; in the success state and in the error state.
   ([rkeeps fe s r] unfolds to: for the state s' of [r], rs s' = rs s /\\ cx s' = cx s /\\
    map lkey (loops s') = map lkey (loops s) /\\ (fe = false -> loops s' = loops s);  [may_set_items w] is [w =? "%foreach-next"])''')
T("C01_native_words_keep_control_stacks", "native_keeps", '''forall fo w f s,
  native_fn fo w = Some f -> rkeeps (may_set_items w) s (f s)''')
C('finding (by design of foreach): "%foreach-next" is a native word, the grammar accepts it as a plain word, and it writes the items field of the innermost loop record')
E("C01_foreach_next_writes_loop_record", '''match native_fn xfo "%foreach-next" with
  | Some m => match m ex_foreach_state with
              | ROk _ s' => (loops ex_foreach_state, loops s')
              | _ => ([], [])
              end
  | None => ([], [])
  end = ([mkloop CNil 0 3], [mkloop (CVec [CInt 7]) 0 3])''')
C("index and limit of every loop record and the context marks: EVERY program, both ways of leaving a block")
T("C01_loop_keys_block", "loop_keys_block", '''forall fo funs f b s s',
  sblock fo funs f b s = SDone s' \\/ sblock fo funs f b s = SBroke s' ->
  cx s' = cx s /\\ map lkey (loops s') = map lkey (loops s)''')
T("C01_loop_keys_stmt", "loop_keys_stmt", '''forall fo funs f x s s',
  sstmt fo funs f x s = SDone s' \\/ sstmt fo funs f x s = SBroke s' ->
  cx s' = cx s /\\ map lkey (loops s') = map lkey (loops s)''')
C('the loop stack itself, for programs that do not use "%foreach-next"')
T("C01_loops_block", "loops_block", '''forall fo funs f b s s',
  nfe_funs funs -> nfe_block b = true ->
  sblock fo funs f b s = SDone s' \\/ sblock fo funs f b s = SBroke s' ->
  loops s' = loops s''')
T("C01_loops_stmt", "loops_stmt", '''forall fo funs f x s s',
  nfe_funs funs -> nfe_stmt x = true ->
  sstmt fo funs f x s = SDone s' \\/ sstmt fo funs f x s = SBroke s' ->
  loops s' = loops s''')
C("a terminated counted loop leaves no loop index visible to later code: the active loops after it are the active loops before it")
T("C01_do_leaves_no_index", "do_leaves_no_index", '''forall fo funs f p b pl s s',
  sstmt fo funs f (SDo p b pl) s = SDone s' ->
  map lkey (active_loops s') = map lkey (active_loops s)''')
T("C01_do_leaves_no_index_exact", "do_leaves_no_index_exact", '''forall fo funs f p b pl s s',
  nfe_funs funs -> nfe_block b = true ->
  sstmt fo funs f (SDo p b pl) s = SDone s' ->
  active_loops s' = active_loops s''')
C("I / J / K are [w_counter 0/1/2]; after a counted loop entered with fewer than n+1 active loops the n-th index word still finds none")
T("C01_index_words", "(fun fo => conj (native_I fo) (conj (native_J fo) (native_K fo)))", '''forall fo,
  native_fn fo "I" = Some (w_counter 0) /\\ native_fn fo "J" = Some (w_counter 1) /\\
  native_fn fo "K" = Some (w_counter 2)''')
T("C01_index_word_after_do", "index_word_after_do", '''forall fo funs f p b pl s s' n,
  sstmt fo funs f (SDo p b pl) s = SDone s' ->
  nth_error (active_loops s) n = None ->
  w_counter n s' = RErr ELoopUnderflow None s' ''')
C("where a break can come from: a block without a break at its own level never stops at a break")
T("C01_no_own_break_never_broke", "nobreak_block", '''forall fo funs, funs_nobreak funs ->
  forall f b s s', has_own_break_block b = false -> sblock fo funs f b s <> SBroke s' ''')
T("C01_call_never_broke", "call_never_broke", '''forall fo funs, funs_nobreak funs ->
  forall f g p s s', sstmt fo funs f (SCall g p) s <> SBroke s' ''')
C("the return stack: up to the locals of the current frame for every block; exactly for a block that declares no local; exactly for a call (the caller's locals are untouched)")
T("C01_rs_block", "rs_hygiene_block", '''forall fo funs, funs_nobreak funs ->
  forall f b s s', fin (sblock fo funs f b s) = Some s' -> cx s' = cx s /\\ rs_sim (rs s) (rs s')''')
T("C01_rs_exact_block", "rs_exact_block", '''forall fo funs, funs_nobreak funs ->
  forall f b s s', no_local_block b = true -> fin (sblock fo funs f b s) = Some s' ->
  cx s' = cx s /\\ rs s' = rs s''')
T("C01_call_keeps_return_stack", "call_keeps_rs", '''forall fo funs, funs_nobreak funs ->
  forall f g p s s', sstmt fo funs f (SCall g p) s = SDone s' -> rs s' = rs s /\\ cx s' = cx s''')
C("[rs s' = rs s] for ANY block is false: `local` writes the locals of the current frame (by design)")
E("C01_local_writes_current_frame", '''match sstmt xfo [] 3 (SLocSet 0 p0) ex_frame_state with
  | SDone s' => (rs ex_frame_state, rs s')
  | _ => ([], [])
  end = ([mkframe 0 0 []], [mkframe 0 0 [CInt 9]])''')
C("the hypothesis [funs_nobreak] is needed (evaluator level only; the parser never produces such a table): a break inside a function body leaves the call with the callee's frame still pushed")
E("C01_break_escapes_call_in_unparsed_table", '''match sstmt xfo [(0, [SBreak])] 5 (SCall 0 p0) boot with
  | SBroke s' => Some (rs s')
  | _ => None
  end = Some [mkframe 0 0 []]''')
C("non-vacuity of the hygiene hypotheses on the example program, and what it leaves")
E("C01_hygiene_example", '''nfe_block ex_body = true /\\
  forallb (fun gb => nfe_block (snd gb)) ex_funs = true /\\
  forallb (fun gb => negb (has_own_break_block (snd gb))) ex_funs = true /\\
  has_own_break_block ex_body = false /\\
  res_stacks (sblock xfo ex_funs 40 ex_body boot) = Some ([], [])''', "repeat split; vm_compute; reflexivity.")
T("C01_check_funs_all", "funs_all_check", '''forall P funs,
  forallb (fun gb => all_block P (snd gb)) funs = true -> funs_all P funs''')
T("C01_check_funs_nobreak", "funs_nobreak_check", '''forall funs,
  forallb (fun gb => negb (has_own_break_block (snd gb))) funs = true -> funs_nobreak funs''')

RAW("(* ====================== 7a. sizes of the layout ====================== *)")
T("C01_size_block_app", "size_block_app", "forall b1 b2, size_block (b1 ++ b2) = size_block b1 + size_block b2")
T("C01_lay_block_length", "lay_block_length", "forall faddr b org bc, length (lay_block faddr b org bc) = size_block b")
T("C01_lay_stmt_length", "lay_stmt_length", "forall faddr x org bc, length (lay_stmt faddr x org bc) = size_stmt x")
T("C01_lay_block_app", "lay_block_app", '''forall faddr b1 b2 org bc,
  lay_block faddr (b1 ++ b2) org bc =
  lay_block faddr b1 org bc ++ lay_block faddr b2 (org + size_block b1) bc''')
E("C01_lay_example", '''length (lay_block (fun _ => 0) ex_body 0 BNone) = 21 /\\ size_block ex_body = 21''', "split; vm_compute; reflexivity.")

RAW("(* ====================== 3. zero trips, limit - start trips ====================== *)")
C("limit <= start: the state after reading the limits, for every body and every fuel: the body is not evaluated")
T("C01_do_zero_trip", "do_zero_trip", '''forall fo funs f p b pl s l s1,
  do_init s = ROk l s1 -> (l_end l <= l_start l)%Z ->
  sstmt fo funs (S f) (SDo p b pl) s = SDone s1''')
T("C01_do_limits_unreadable", "do_init_fails", '''forall fo funs f p b pl s k pay s1,
  do_init s = RErr k pay s1 -> sstmt fo funs (S f) (SDo p b pl) s = SFail k pay p s1''')
C("start < limit and the body runs to its end each time: exactly limit - start evaluations of the body, then the record (whose index has reached the limit) is popped")
T("C01_do_exact_trips", "do_exact_trips", '''forall fo funs f p b pl s l s1 s2 n s4,
  do_init s = ROk l s1 -> (l_start l < l_end l)%Z -> push_loop l s1 = ROk tt s2 ->
  n = Z.to_nat (l_end l - l_start l) -> n <= f ->
  trips (sblock fo funs f b) n s2 = Some s4 ->
  exists l5 s5, pop_loop s4 = ROk l5 s5 /\\ l_start l5 = l_end l /\\ l_end l5 = l_end l /\\
                sstmt fo funs (S f) (SDo p b pl) s = SDone s5''')
C("the index that the (i+1)-th evaluation of the body finds on top of the loop stack is start + i")
T("C01_do_trip_index", "do_trip_index", '''forall fo funs f b l s1 s2 i si,
  push_loop l s1 = ROk tt s2 -> (Z.of_nat i <= l_end l - l_start l)%Z ->
  trips (sblock fo funs f b) i s2 = Some si ->
  exists li ri, loops si = li :: ri /\\ l_start li = (l_start l + Z.of_nat i)%Z /\\ l_end li = l_end l''')
E("C01_do_trips_example", '''(match do_init ex_do_state with
   | ROk l s1 =>
     (l_start l <? l_end l)%Z &&
     match push_loop l s1 with
     | ROk _ s2 =>
       match trips (sblock xfo [] 10 [SPrim "I" p0]) (Z.to_nat (l_end l - l_start l)) s2 with
       | Some s4 => match ds s4 with [CInt 2; CInt 1; CInt 0] => true | _ => false end
       | None => false
       end
     | _ => false
     end
   | _ => false
   end = true) /\\
  (match do_init ex_do_zero_state with ROk l _ => (l_end l <=? l_start l)%Z | _ => false end = true)''', "split; vm_compute; reflexivity.")

RAW("(* ====================== 4. loops that never terminate never fall through ====================== *)")
C("begin ... repeat whose body never stops at a break: never SDone (nor SBroke), for every fuel and state")
T("C01_repeat_never_done", "repeat_never_done", '''forall fo funs b,
  (forall f s s', sblock fo funs f b s <> SBroke s') ->
  forall f s s', sstmt fo funs f (SRepeat b) s <> SDone s' ''')
C("syntactic sufficient condition: no break at the loop's own level")
T("C01_repeat_no_break_no_result", "repeat_no_break_never_done", '''forall fo funs b,
  funs_nobreak funs -> has_own_break_block b = false ->
  forall f s, no_result (sstmt fo funs f (SRepeat b) s)''')
C("if moreover the body always runs to its end (on an invariant set of states): out of fuel for every fuel")
T("C01_repeat_diverges", "repeat_diverges", '''forall fo funs b (Inv : state -> Prop),
  (forall f s, Inv s -> sblock fo funs f b s = SOut \\/ exists s', sblock fo funs f b s = SDone s' /\\ Inv s') ->
  forall f s, Inv s -> sstmt fo funs f (SRepeat b) s = SOut''')
C("begin ... until whose condition is never true")
T("C01_until_never_done", "until_never_done", '''forall fo funs b p,
  (forall f s s1 s2, sblock fo funs f b s = SDone s1 -> m_test s1 <> ROk true s2) ->
  forall f s s', sstmt fo funs f (SUntil b p) s <> SDone s' ''')
T("C01_until_no_result", "until_no_result", '''forall fo funs b p,
  funs_nobreak funs -> has_own_break_block b = false ->
  (forall f s s1 s2, sblock fo funs f b s = SDone s1 -> m_test s1 <> ROk true s2) ->
  forall f s, no_result (sstmt fo funs f (SUntil b p) s)''')
T("C01_until_diverges", "until_diverges", '''forall fo funs b p (Inv : state -> Prop),
  (forall f s, Inv s ->
     sblock fo funs f b s = SOut \\/
     exists s1 s2, sblock fo funs f b s = SDone s1 /\\ m_test s1 = ROk false s2 /\\ Inv s2) ->
  forall f s, Inv s -> sstmt fo funs f (SUntil b p) s = SOut''')
C("begin ... while ... repeat whose condition is never false")
T("C01_while_never_done", "while_never_done", '''forall fo funs c p b,
  (forall f s s', sblock fo funs f c s <> SBroke s') ->
  (forall f s s', sblock fo funs f b s <> SBroke s') ->
  (forall f s s1 s2, sblock fo funs f c s = SDone s1 -> m_test s1 <> ROk false s2) ->
  forall f s s', sstmt fo funs f (SWhile c p b) s <> SDone s' ''')
T("C01_while_no_result", "while_no_result", '''forall fo funs c p b,
  funs_nobreak funs -> has_own_break_block c = false -> has_own_break_block b = false ->
  (forall f s s1 s2, sblock fo funs f c s = SDone s1 -> m_test s1 <> ROk false s2) ->
  forall f s, no_result (sstmt fo funs f (SWhile c p b) s)''')
T("C01_while_diverges", "while_diverges", '''forall fo funs c p b (Inv : state -> Prop),
  (forall f s, Inv s ->
     sblock fo funs f c s = SOut \\/
     exists s1 s2, sblock fo funs f c s = SDone s1 /\\ m_test s1 = ROk true s2 /\\
                   (sblock fo funs f b s2 = SOut \\/ exists s3, sblock fo funs f b s2 = SDone s3 /\\ Inv s3)) ->
  forall f s, Inv s -> sstmt fo funs f (SWhile c p b) s = SOut''')
C("never falls through: the statements after such a loop are not evaluated; the block's result is the loop's")
T("C01_block_stops_at_no_result", "block_stops_at_no_result", '''forall fo funs f x r s,
  no_result (sstmt fo funs f x s) -> sblock fo funs (S f) (x :: r) s = sstmt fo funs f x s''')
C("non-vacuity: `begin 1 drop repeat`, `begin false until`, `begin true while repeat` from the boot state")
E("C01_repeat_diverges_example", "forall f, sstmt xfo [] f (SRepeat ex_spin_body) boot = SOut",
  "intro f. apply (repeat_diverges xfo [] ex_spin_body (fun s => s = boot) ex_spin_inv). reflexivity.")
E("C01_until_diverges_example", "forall f, sstmt xfo [] f (SUntil ex_until_body p0) boot = SOut",
  "intro f. apply (until_diverges xfo [] ex_until_body p0 (fun s => s = boot) ex_until_inv). reflexivity.")
E("C01_while_diverges_example", "forall f, sstmt xfo [] f (SWhile ex_while_cond p0 []) boot = SOut",
  "intro f. apply (while_diverges xfo [] ex_while_cond p0 [] (fun s => s = boot) ex_while_inv). reflexivity.")
E("C01_until_condition_example", '''forall f s s1 s2,
  sblock xfo [] f ex_until_body s = SDone s1 -> m_test s1 <> ROk true s2''', "exact ex_until_never_true.")
E("C01_while_condition_example", '''forall f s s1 s2,
  sblock xfo [] f ex_while_cond s = SDone s1 -> m_test s1 <> ROk false s2''', "exact ex_while_never_false.")

RAW("(* ====================== 5. break ====================== *)")
T("C01_break_skips_rest", "break_skips_rest", '''forall fo funs f x r s s1,
  sstmt fo funs f x s = SBroke s1 -> sblock fo funs (S f) (x :: r) s = SBroke s1''')
T("C01_break_through_if", "break_through_if", '''forall fo funs f p t s s1 s2,
  m_test s = ROk true s1 -> sblock fo funs f t s1 = SBroke s2 -> sstmt fo funs (S f) (SIf p t) s = SBroke s2''')
T("C01_break_through_if_else", "break_through_ife", '''forall fo funs f p t e s c s1 s2,
  m_test s = ROk c s1 -> sblock fo funs f (if c then t else e) s1 = SBroke s2 ->
  sstmt fo funs (S f) (SIfE p t e) s = SBroke s2''')
C("case: whatever the body of the selected arm (or the default part) does is what the case does - SBroke included")
T("C01_case_arm_selected", "case_arm_selected", '''forall fo funs f pre pof body rest d s s1 s2 c s3,
  sblock fo funs f pre s = SDone s1 -> m_of s1 = ROk true s2 -> pop_data s2 = ROk c s3 ->
  sstmt fo funs (S f) (SCase ((pre, pof, body) :: rest) d) s = sblock fo funs f body s3''')
T("C01_case_arm_skipped", "case_arm_skipped", '''forall fo funs f pre pof body rest d s s1 s2,
  sblock fo funs f pre s = SDone s1 -> m_of s1 = ROk false s2 ->
  sstmt fo funs (S f) (SCase ((pre, pof, body) :: rest) d) s = sstmt fo funs (S f) (SCase rest d) s2''')
T("C01_case_default", "case_default", "forall fo funs f d s, sstmt fo funs (S f) (SCase [] d) s = sblock fo funs f d s")
T("C01_break_in_case_selector", "break_in_case_selector", '''forall fo funs f pre pof body rest d s s1,
  sblock fo funs f pre s = SBroke s1 -> sstmt fo funs (S f) (SCase ((pre, pof, body) :: rest) d) s = SBroke s1''')
C("the nearest enclosing loop ends normally in the state of the break")
T("C01_repeat_catches_break", "repeat_catches_break", '''forall fo funs f b s s1,
  sblock fo funs f b s = SBroke s1 -> sstmt fo funs (S f) (SRepeat b) s = SDone s1''')
T("C01_while_catches_break_in_body", "while_catches_break_in_body", '''forall fo funs f c p b s s1 s2 s3,
  sblock fo funs f c s = SDone s1 -> m_test s1 = ROk true s2 -> sblock fo funs f b s2 = SBroke s3 ->
  sstmt fo funs (S f) (SWhile c p b) s = SDone s3''')
T("C01_while_catches_break_in_condition", "while_catches_break_in_condition", '''forall fo funs f c p b s s1,
  sblock fo funs f c s = SBroke s1 -> sstmt fo funs (S f) (SWhile c p b) s = SDone s1''')
C("until does not catch a break (the compiler refuses a break directly under until: C01_parse_source_no_stray_break)")
T("C01_until_passes_break", "until_passes_break", '''forall fo funs f b p s s1,
  sblock fo funs f b s = SBroke s1 -> sstmt fo funs (S f) (SUntil b p) s = SBroke s1''')
C("a counted loop: after i complete trips (i < limit - start) the body stops at a break: the loop pops its own record and ends")
T("C01_do_catches_break", "do_catches_break", '''forall fo funs f p b pl s l s1 s2 i si s3,
  do_init s = ROk l s1 -> push_loop l s1 = ROk tt s2 ->
  (Z.of_nat i < l_end l - l_start l)%Z -> i < f ->
  trips (sblock fo funs f b) i s2 = Some si -> sblock fo funs f b si = SBroke s3 ->
  sstmt fo funs (S f) (SDo p b pl) s = run_m pop_loop pl s3 (fun _ s4 => SDone s4)''')
T("C01_do_catches_break_done", "do_catches_break_done", '''forall fo funs f p b pl s l s1 s2 i si s3,
  ls_len (cx s) <= length (loops s) ->
  do_init s = ROk l s1 -> push_loop l s1 = ROk tt s2 ->
  (Z.of_nat i < l_end l - l_start l)%Z -> i < f ->
  trips (sblock fo funs f b) i s2 = Some si -> sblock fo funs f b si = SBroke s3 ->
  exists l4 s4, pop_loop s3 = ROk l4 s4 /\\ sstmt fo funs (S f) (SDo p b pl) s = SDone s4 /\\
                map lkey (loops s4) = map lkey (loops s) /\\ cx s4 = cx s''')
C("the other trips of repeat / while / until")
T("C01_repeat_next_trip", "repeat_next_trip", '''forall fo funs f b s s1,
  sblock fo funs f b s = SDone s1 -> sstmt fo funs (S f) (SRepeat b) s = sstmt fo funs f (SRepeat b) s1''')
T("C01_while_next_trip", "while_next_trip", '''forall fo funs f c p b s s1 s2 s3,
  sblock fo funs f c s = SDone s1 -> m_test s1 = ROk true s2 -> sblock fo funs f b s2 = SDone s3 ->
  sstmt fo funs (S f) (SWhile c p b) s = sstmt fo funs f (SWhile c p b) s3''')
T("C01_while_exit", "while_exit", '''forall fo funs f c p b s s1 s2,
  sblock fo funs f c s = SDone s1 -> m_test s1 = ROk false s2 -> sstmt fo funs (S f) (SWhile c p b) s = SDone s2''')
T("C01_until_exit", "until_exit", '''forall fo funs f b p s s1 s2,
  sblock fo funs f b s = SDone s1 -> m_test s1 = ROk true s2 -> sstmt fo funs (S f) (SUntil b p) s = SDone s2''')
T("C01_until_next_trip", "until_next_trip", '''forall fo funs f b p s s1 s2,
  sblock fo funs f b s = SDone s1 -> m_test s1 = ROk false s2 ->
  sstmt fo funs (S f) (SUntil b p) s = sstmt fo funs f (SUntil b p) s2''')
E("C01_break_example", '''(* 5 0 do I 2 == if break then I loop : leaves 0 1 and an empty loop stack *)
  match sstmt xfo [] 20 (SDo p0 [SPrim "I" p0; SLit (CInt 2) p0; SPrim "==" p0; SIf p0 [SBreak]; SPrim "I" p0] p0)
              (set_ds boot [CInt 0; CInt 5]) with
  | SDone s' => Some (ds s', loops s')
  | _ => None
  end = Some ([CInt 1; CInt 0], [])''')

C("non-vacuity of the hypotheses of C01_do_catches_break_done: two complete trips, the third stops at the break")
E("C01_do_break_hypotheses_example", '''let b := [SPrim "I" p0; SLit (CInt 2) p0; SPrim "==" p0; SIf p0 [SBreak]; SPrim "I" p0] in
  let s := set_ds boot [CInt 0; CInt 5] in
  match do_init s with
  | ROk l s1 =>
    match push_loop l s1 with
    | ROk _ s2 =>
      match trips (sblock xfo [] 19 b) 2 s2 with
      | Some si => match sblock xfo [] 19 b si with SBroke s3 => (Z.of_nat 2 <? l_end l - l_start l)%Z | _ => false end
      | None => false
      end
    | _ => false
    end
  | _ => false
  end = true /\\ ls_len (cx s) <= length (loops s)''', "split; [ vm_compute; reflexivity | vm_compute; lia ].")

RAW("(* ====================== 6. sequencing, first error ====================== *)")
T("C01_block_app_exact", "sblock_app_exact", '''forall fo funs l1 f l2 s,
  length l1 < f ->
  sblock fo funs f (l1 ++ l2) s =
  on_res (sblock fo funs f l1 s) (fun s' => sblock fo funs (f - length l1) l2 s') SBroke''')
T("C01_block_app_short", "sblock_app_short", '''forall fo funs l1 f l2 s,
  f <= length l1 -> sblock fo funs f (l1 ++ l2) s = sblock fo funs f l1 s''')
T("C01_block_app_done", "sblock_app_done", '''forall fo funs f1 f2 l1 l2 s s1 r,
  sblock fo funs f1 l1 s = SDone s1 -> sblock fo funs f2 l2 s1 = r -> r <> SOut ->
  forall f, f1 + f2 <= f -> sblock fo funs f (l1 ++ l2) s = r''')
T("C01_block_app_stops", "sblock_app_stops", '''forall fo funs f1 l1 l2 s r,
  sblock fo funs f1 l1 s = r -> stops r -> forall f, f1 <= f -> sblock fo funs f (l1 ++ l2) s = r''')
C("error = first error")
T("C01_block_first_error", "block_first_error", '''forall fo funs f1 f2 l1 x l2 s s1 k pl p s',
  sblock fo funs f1 l1 s = SDone s1 -> sstmt fo funs f2 x s1 = SFail k pl p s' ->
  forall f, f1 + S f2 <= f -> sblock fo funs f (l1 ++ x :: l2) s = SFail k pl p s' ''')
T("C01_block_fail_inv", "block_fail_inv", '''forall fo funs b f s k pl p s',
  sblock fo funs f b s = SFail k pl p s' ->
  exists l1 x l2 s1,
    b = l1 ++ x :: l2 /\\ length l1 < f /\\ sblock fo funs f l1 s = SDone s1 /\\
    sstmt fo funs (f - length l1 - 1) x s1 = SFail k pl p s' ''')
T("C01_block_stop_inv", "block_stop_inv", '''forall fo funs b f s r,
  sblock fo funs f b s = r -> stops r ->
  exists l1 x l2 s1,
    b = l1 ++ x :: l2 /\\ length l1 < f /\\ sblock fo funs f l1 s = SDone s1 /\\
    sstmt fo funs (f - length l1 - 1) x s1 = r''')
T("C01_block_done_each", "sblock_done_each", '''forall fo funs l1 x l2 f s s',
  sblock fo funs f (l1 ++ x :: l2) s = SDone s' ->
  exists s1 s2, sblock fo funs f l1 s = SDone s1 /\\ sstmt fo funs (f - length l1 - 1) x s1 = SDone s2 /\\
                sblock fo funs (f - length l1 - 1) l2 s2 = SDone s' ''')
E("C01_first_error_example", '''(* 1 drop drop 5 : the second drop underflows; 5 is never pushed *)
  match sblock xfo [] 9 ([SLit (CInt 1) p0; SPrim "drop" p0] ++ SPrim "drop" (7, 11)%nat :: [SLit (CInt 5) p0]) boot with
  | SFail k _ p s' => Some (k, p, ds s')
  | _ => None
  end = Some (EUnderflow, (7, 11)%nat, [])''')

RAW("(* ====================== 7b. the parser ====================== *)")
C("a local: the NEWEST declaration (last occurrence)")
T("C01_rpos_is_last", "rpos_is_last", '''forall ls n k,
  rpos ls n 0 None = Some k ->
  nth_error ls k = Some n /\\ forall j, k < j -> nth_error ls j <> Some n''')
T("C01_rpos_none", "rpos_none", "forall ls n, rpos ls n 0 None = None <-> ~ In n ls")
T("C01_rpos_declared_last", "rpos_declared_last", "forall ls n, rpos (ls ++ [n]) n 0 None = Some (length ls)")
C("a global: the newest binding")
T("C01_lookup_newest", "lookup_newest", "forall n b l, lookup ((n, b) :: l) n = Some b")
T("C01_lookup_other", "lookup_other", "forall m b l n, m <> n -> lookup ((m, b) :: l) n = lookup l n")
C("a local of the enclosing definition is found before any global, terminator, keyword or native word")
T("C01_parse_local_first", "pseq_local_first", '''forall fo pr f w a b rest e terms acc brk i,
  local_ix e w = Some i ->
  pseq fo pr (S f) ((TWord w, a, b) :: rest) e terms acc brk =
  pseq fo pr f rest e terms (SLocGet i (a, b) :: acc) brk''')
T("C01_parse_global", "pseq_global", '''forall fo pr f w a b rest e terms acc brk bd,
  local_ix e w = None -> lookup (names e) w = Some bd ->
  pseq fo pr (S f) ((TWord w, a, b) :: rest) e terms acc brk =
  pseq fo pr f rest e terms (stmt_of_binding bd (a, b) :: acc) brk''')
C("`break` outside every loop is a flow error, and the tokens after it are never consumed (the result does not depend on [rest])")
T("C01_parse_break_outside_loop", "pseq_break_outside", '''forall fo pr f a b rest e terms acc brk,
  local_ix e "break" = None -> lookup (names e) "break" = None -> mem terms "break" = false ->
  loopdepth e = 0 ->
  pseq fo pr (S f) ((TWord "break", a, b) :: rest) e terms acc brk = PErr EFlow''')
T("C01_parse_break_inside_loop", "pseq_break_inside", '''forall fo pr f a b rest e terms acc brk,
  local_ix e "break" = None -> lookup (names e) "break" = None -> mem terms "break" = false ->
  0 < loopdepth e ->
  pseq fo pr (S f) ((TWord "break", a, b) :: rest) e terms acc brk =
  pseq fo pr f rest e terms (SBreak :: acc) true''')
T("C01_parse_lex_error", "pseq_lex_error", '''forall fo pr f x y z a b rest e terms acc brk,
  pseq fo pr (S f) ((TErr x y z, a, b) :: rest) e terms acc brk = PErr EParse''')
C("the invariant of every parse (all token lists, environments, accumulators)")
T("C01_parse_invariant", "pseq_inv", '''forall fo pr f toks e terms acc brk,
  pinv e acc brk (pseq fo pr f toks e terms acc brk)''')
T("C01_parse_keeps_compiled", "parse_keeps_compiled", '''forall fo pr f toks e terms acc brk body t tp rest e' brk',
  pseq fo pr f toks e terms acc brk = POk body t tp rest e' brk' ->
  exists l, body = (rev acc ++ l)%list''')
T("C01_parse_funs_stable", "parse_funs_stable", '''forall fo pr f toks e terms acc brk body t tp rest e' brk',
  pseq fo pr f toks e terms acc brk = POk body t tp rest e' brk' ->
  nfun e <= nfun e' /\\ forall g, g < nfun e -> fun_body (funs e') g = fun_body (funs e) g''')
C("outside every loop no break is compiled at the current level, also not under if / case (there the parse is an error: C01_parse_break_outside_loop, and errors of sub-parses are passed on)")
T("C01_parse_depth0_no_break", "parse_depth0_no_break", '''forall fo pr f toks e terms acc body t tp rest e' brk',
  pseq fo pr f toks e terms acc false = POk body t tp rest e' brk' ->
  loopdepth e = 0 ->
  brk' = false /\\ exists l, body = (rev acc ++ l)%list /\\ has_own_break_block l = false''')
T("C01_parse_counters_restored", "parse_counters_restored", '''forall fo pr f toks e terms acc brk body t tp rest e' brk',
  pseq fo pr f toks e terms acc brk = POk body t tp rest e' brk' ->
  loopdepth e' = loopdepth e /\\ nest e' = nest e''')
C("redefinition (and recursion): the statements compiled so far are kept, so a call compiled before keeps its id; the name means the new id from the first token of the body on; the new id is fresh and bound to the body; every older id keeps its body")
T("C01_redefinition", "redefinition", '''forall fo pr f a b rest e terms acc brk name na nb r0 body tp r1 e1,
  local_ix e ":" = None -> lookup (names e) ":" = None -> mem terms ":" = false ->
  plocals e = None -> skipb rest = (TWord name, na, nb) :: r0 ->
  pseq fo pr f r0 (def_env e name) [";"] [] false = POk body ";" tp r1 e1 false ->
  let e2 := after_def e e1 body in
  pseq fo pr (S f) ((TWord ":", a, b) :: rest) e terms acc brk =
    pseq fo pr f r1 e2 terms (SDef (nfun e) :: acc) brk /\\
  lookup (names e2) name = Some (BFun (nfun e)) /\\
  fun_body (funs e2) (nfun e) = Some body /\\
  (forall g, g < nfun e -> fun_body (funs e2) g = fun_body (funs e) g) /\\
  (forall g, lookup (names e) name = Some (BFun g) -> g < nfun e ->
     fun_body (funs e2) g = fun_body (funs e) g)''')
T("C01_recursion_binding", "(fun e name => lookup_newest name (BFun (nfun e)) (names e))", '''forall e name,
  lookup (names (def_env e name)) name = Some (BFun (nfun e))''')
C("whole sources: no stray break at the top level or in any definition, no `local` at the top level; what seval_source runs is the parsed program; hygiene for every source that runs to its end: context marks, index and limit of every loop record, the return stack")
T("C01_parse_source_no_stray_break", "parse_source_no_stray_break", '''forall fo pr src h body funs n,
  parse_source fo pr src h = Some (body, funs, n) ->
  has_own_break_block body = false /\\ funs_nobreak funs /\\ no_local_block body = true''')
T("C01_seval_source_runs_parse", "seval_source_runs_parse", '''forall fo pr fuel src s r,
  seval_source fo pr fuel src s = CRun r ->
  exists body funs n,
    parse_source fo pr src (length (heap s)) = Some (body, funs, n) /\\
    r = sblock fo funs fuel body (set_heap s (heap s ++ repeat CNil (n - length (heap s)))%list)''')
T("C01_seval_source_never_broke", "seval_source_never_broke", '''forall fo pr fuel src s s',
  seval_source fo pr fuel src s <> CRun (SBroke s')''')
T("C01_seval_source_hygiene", "seval_source_hygiene", '''forall fo pr fuel src s s',
  seval_source fo pr fuel src s = CRun (SDone s') ->
  cx s' = cx s /\\ map lkey (loops s') = map lkey (loops s) /\\ rs s' = rs s''')
C("non-vacuity of the hypotheses of C01_redefinition: the second `: sq` of the example, met with `sq` already bound to id 0")
E("C01_redefinition_hypotheses_example", '''let e := mkpenv [("sq", BFun 0)] [(0, [SPrim "dup" p0; SPrim "*" p0])] 1 6 None 0 0 in
  let rest := lex_string " sq 1 + ; 3 sq" in
  local_ix e ":" = None /\\ lookup (names e) ":" = None /\\ mem [] ":" = false /\\ plocals e = None /\\
  match skipb rest with
  | (TWord name, _, _) :: r0 =>
    match pseq xfo nopr 20 r0 (def_env e name) [";"] [] false with
    | POk body ";" _ _ e1 false =>
      (name, body, lookup (names (after_def e e1 body)) "sq", fun_body (funs (after_def e e1 body)) 0)
    | _ => (name, [], None, None)
    end
  | _ => ("", [], None, None)
  end = ("sq", [SLit (CInt 1) (4, 5)%nat; SPrim "+" (6, 7)%nat], Some (BFun 1), Some [SPrim "dup" p0; SPrim "*" p0])''', "repeat split; vm_compute; reflexivity.")
E("C01_parse_examples", '''(* the call of `sq` inside `quad` keeps id 0 after `sq` is redefined as id 2; the later call uses id 2 *)
  parse_source xfo nopr ": sq dup * ; : quad sq sq ; : sq 1 + ; 3 quad sq" 6 =
    Some ([SDef 0; SDef 1; SDef 2; SLit (CInt 3) (39, 40)%nat; SCall 1 (41, 45)%nat; SCall 2 (46, 48)%nat],
          [(2, [SLit (CInt 1) (33, 34)%nat; SPrim "+" (35, 36)%nat]);
           (1, [SCall 0 (20, 22)%nat; SCall 0 (23, 25)%nat]);
           (0, [SPrim "dup" (5, 8)%nat; SPrim "*" (9, 10)%nat])], 6) /\\
  (* a local shadows a global variable of the same name; the newest local of that name wins *)
  parse_source xfo nopr "0 var x : f local x local x x ; x" 6 =
    Some ([SLit (CInt 0) (0, 1)%nat; SSet 6 (6, 7)%nat; SDef 0; SGet 6 (32, 33)%nat],
          [(0, [SLocSet 0 (18, 19)%nat; SLocSet 1 (26, 27)%nat; SLocGet 1 (28, 29)%nat])], 7) /\\
  (* break outside a loop, also under if; break directly under until *)
  seval_source xfo nopr 10 "1 if break then 2 3" boot = CBuildErr EFlow /\\
  seval_source xfo nopr 10 "begin break 1 until" boot = CBuildErr EFlow /\\
  seval_source xfo nopr 30 "begin 1 if break then repeat 7" boot <> CBuildErr EFlow''', "repeat split; try (vm_compute; reflexivity). vm_compute. discriminate.")

open("/root/work/pfA2/coq/Props/C01_struct.v", "w").write("\n".join(out) + "\n")
