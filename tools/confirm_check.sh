#!/bin/bash
# phase B: apply each seeded change to /repo, run the property's quick check, undo.  usage: confirm_check.sh <seed names...>
cd /verif
for d in "$@"; do
  p=${d%%-*}
  echo "######## $d"
  if git -C /repo apply /verif/seeded/$d/patch.diff; then
    ./check $p 2>&1 | grep -v "^KNOWN" | tail -2
    for f in /verif/evidence/replay/$p-*.txt; do [ -f "$f" ] && { echo "--- $f"; head -c 500 "$f"; echo; }; done
  else echo "PATCH DOES NOT APPLY"; fi
  git -C /repo checkout -- .
done
git -C /repo status --short | head -3
