#!/bin/sh
# Confirm a seeded change independently: usage confirm_seed.sh <dir with patch.diff demo.rs> 
# 1. in a scratch worktree: suite passes with the change; demo fails with it and passes without it
# 2. apply to /repo, run the property's quick check, undo
set -u
D="$1"; PROP="$2"
WT=/tmp/confirm_$$
git -C /repo worktree add -q "$WT" HEAD || exit 2
cd "$WT"
export CARGO_TARGET_DIR=/tmp/confirm_target
cp "$D/demo.rs" tests_demo.rs 2>/dev/null
mkdir -p tests && cp "$D/demo.rs" tests/demo.rs
echo "== demo without the change"; cargo test --offline --test demo 2>&1 | grep -E "^test result|error(\[|:)" | head -3
git apply "$D/patch.diff" || { echo "PATCH DOES NOT APPLY"; cd /; git -C /repo worktree remove --force "$WT"; exit 3; }
echo "== demo with the change"; cargo test --offline --test demo 2>&1 | grep -E "^test result|error(\[|:)" | head -3
rm -f tests/demo.rs tests_demo.rs; rmdir tests 2>/dev/null
echo "== suite with the change"; cargo test --offline 2>&1 | grep -E "^test result" | head -1
cd /; git -C /repo worktree remove --force "$WT"
unset CARGO_TARGET_DIR
echo "== check $PROP on /repo with the change"
git -C /repo apply "$D/patch.diff" && (cd /verif && ./check "$PROP" 2>&1 | grep -v "^KNOWN" | tail -3; for f in /verif/evidence/replay/$PROP-*.txt; do [ -f "$f" ] && head -c 700 "$f"; done)
git -C /repo checkout -- .
git -C /repo status --short | head -3
