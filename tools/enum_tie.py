#!/usr/bin/env python3
"""Tie of the `enum ... endenum` part of the model to the implementation.
Runs the sessions of gen/enumprogs.py through the Rust harness (dev and, with --release, the wrapping build) and through the
extracted model and prints every disagreement.
  tools/enum_tie.py [--n N] [--seed S] [--thorough] [--release] [--show K] [--src 'text' ...]"""
import os, re, sys, random
sys.path.insert(0, os.path.dirname(os.path.dirname(os.path.abspath(__file__))))
from gen import lib, enumprogs
from gen.xsbase import src_of


def same(impl, mirror):
    if impl == mirror:
        return True
    if 'loc:?' in mirror:
        # a run-time failure inside a meta block of a rejected source: the model has no counterpart of last_error.location
        return re.sub(r'loc:\S+', 'loc:?', impl) == mirror
    return False


def main():
    a = sys.argv[1:]
    n, seed, thorough, show, profiles, extra = 600, 20260923, False, 12, ['dev'], []
    i = 0
    while i < len(a):
        if a[i] == '--n': n = int(a[i + 1]); i += 2
        elif a[i] == '--seed': seed = int(a[i + 1]); i += 2
        elif a[i] == '--show': show = int(a[i + 1]); i += 2
        elif a[i] == '--thorough': thorough = True; i += 1
        elif a[i] == '--release': profiles.append('release'); i += 1
        elif a[i] == '--src': extra.append(a[i + 1]); i += 2
        else: i += 1
    rng = random.Random(seed)
    if extra:
        cases = [enumprogs._session(e.split(' ;; ')) for e in extra]
    else:
        cases = enumprogs.cases(rng, n, thorough)
    model = lib.build_model_driver()
    mirror, _ = lib.run_model(model, cases)
    bad = 0
    for p in profiles:
        exe = lib.build_harness(p)
        impl = lib.run_impl(exe, cases)
        unsup = sum(1 for m in mirror if m == 'UNSUP')
        panics = [(c, x) for c, x in zip(cases, impl) if 'PANIC' in x or x.startswith('CRASH')]
        diffs = [(c, x, m) for c, x, m in zip(cases, impl, mirror) if m != 'UNSUP' and not same(x, m)]
        ovf = sum(1 for c in cases if enumprogs.is_overflow_case(c))
        print('profile=%s cases=%d outside-model=%d disagreements=%d implementation-panics=%d i128-overflow-cases=%d' % (
            p, len(cases), unsup, len(diffs), len(panics), ovf))
        for c, x, m in sorted(diffs, key=lambda d: len(d[0]))[:show]:
            xs, ms = x.split(' | '), m.split(' | ')
            k = next((j for j in range(min(len(xs), len(ms))) if xs[j] != ms[j]), min(len(xs), len(ms)))
            print('  case: %s\n    sources: %r\n    step %d: impl  %s\n            model %s' % (
                c, src_of(c), k, (xs[k] if k < len(xs) else '<missing>')[:600], (ms[k] if k < len(ms) else '<missing>')[:600]))
        for c, x in panics[:show]:
            print('  PANIC sources: %r -> %s' % (src_of(c), x[:200]))
        if extra:
            for c, x, m in zip(cases, impl, mirror):
                print('  impl : %s\n  model: %s' % (x, m))
        bad += len(diffs)
    return 1 if bad else 0


if __name__ == '__main__':
    sys.exit(main())
