#!/bin/bash
# confirm every seeded change given as args (dir names under /verif/seeded)
cd /verif
for d in "$@"; do
  p=${d%%-*}
  echo "######## $d"
  sh tools/confirm_seed.sh /verif/seeded/$d $p 2>&1 | cut -c1-400
done
