S('1. string literals')

T('''a known escape (backslash followed by one of: backslash, double quote, n, r, t) contributes the
   character [escape_value] gives for it and consumes two bytes''',
'C16_str_escape',
'''  forall curly f c v r pos tmp start endpos, escape_value c = Some v ->
  lex_str curly (S f) (String "\\" (String c r)) pos tmp start endpos =
  lex_str curly f r (pos + 2) (tmp ++ String v "") start endpos''',
'lex_str_escape')

T('''the table of escapes, spelled out''',
'C16_str_escape_table',
'''  escape_value "\\" = Some "\\"%char /\\ escape_value """" = Some """"%char /\\
  escape_value "n" = Some (ascii_of_N 10) /\\ escape_value "r" = Some (ascii_of_N 13) /\\
  escape_value "t" = Some (ascii_of_N 9) /\\
  (forall c, escape_value c <> None ->
     c = "\\"%char \\/ c = """"%char \\/ c = "n"%char \\/ c = "r"%char \\/ c = "t"%char)''',
'escape_table')

T('''any other character after a backslash - whole, of any width - is the error "unknown escape" whose
   span is the backslash and that character''',
'C16_str_unknown_escape',
'''  forall curly f r c2 r2 pos tmp start endpos,
  take_char r = Some (c2, r2) -> (forall c, escape_value c <> None -> c2 <> String c "") ->
  lex_str curly (S f) (String "\\" r) pos tmp start endpos =
  (TErr PEscape pos (S pos + String.length c2), r2, S pos + String.length c2)''',
'lex_str_bad_escape')

T('''THE QUOTE RULE.  [curly] says which quote opened the literal: false - the straight quote,
   true - the left curly quote (U+201C).  A straight quote closes either kind; the right curly quote
   (U+201D) closes a literal only if a left curly quote opened it''',
'C16_str_quotes_spec',
'''  (forall q, is_opener false q <-> q = dq) /\\ (forall q, is_opener true q <-> q = ldq) /\\
  (forall q, is_closer false q <-> q = dq) /\\ (forall q, is_closer true q <-> (q = dq \\/ q = rdq))''',
'quotes_spec')

T('''... and accordingly the right curly quote, as an item of a body ([rdq_item]: its text and its value are
   the three bytes of U+201D), is an ordinary character of a straight-opened literal and is not
   allowed in the body of a curly-opened one; every other item is allowed in both alike''',
'C16_str_rdq_item_spec',
'''  sitem_text rdq_item = rdq /\\ sitem_value rdq_item = rdq /\\
  sitem_ok false rdq_item = true /\\ sitem_ok true rdq_item = false /\\
  (forall i, sitem_ok true i = true -> sitem_ok false i = true) /\\
  (forall i, sitem_ok false i = true -> i <> rdq_item -> sitem_ok true i = true)''',
'rdq_item_spec')

T('''READING A WRITTEN STRING LITERAL.  Opening quote (straight: curly = false, left curly: curly = true),
   a body of ordinary bytes, three-byte characters led by E2 - any of them in a straight-opened
   literal, so the right curly quote is part of the value there; any but the right curly quote in a
   curly-opened one - and known escapes, closing quote (straight, or right curly if curly = true):
   the token is the string made of the item values when whitespace or the end follows, the error
   "expect whitespace" otherwise; the state afterwards is just past the closing quote.  Any lexer
   state, any continuation''',
'C16_str_literal',
'''  forall l curly qo items qc rest,
  is_opener curly qo -> is_closer curly qc -> forallb (sitem_ok curly) items = true ->
  lrest l = qo ++ sitems_text items ++ qc ++ rest ->
  let p' := lpos l + String.length qo + String.length (sitems_text items) + String.length qc in
  lex_next l = (if next_is_ws_or_end rest then TLit (CStr (sitems_value items))
                else TErr PExpectWs (lpos l) p',
                mklex rest p' (lpos l) (llen l))''',
'lex_next_string')

T('''A LITERAL WITHOUT ESCAPES DENOTES ITS TEXT: every valid UTF-8 body without backslash and straight
   quote - and, only if the literal is curly-opened, without right curly quote ([plain_text curly]) -
   between an opening quote and a matching closing quote, in any lexer state''',
'C16_str_plain_literal',
'''  forall l curly qo s qc rest,
  is_opener curly qo -> is_closer curly qc -> valid_utf8 s = true -> plain_text curly s = true ->
  lrest l = qo ++ s ++ qc ++ rest ->
  let p' := lpos l + String.length qo + String.length s + String.length qc in
  lex_next l = (if next_is_ws_or_end rest then TLit (CStr s) else TErr PExpectWs (lpos l) p',
                mklex rest p' (lpos l) (llen l))''',
'lex_next_plain_string')

T('''... as a whole text''',
'C16_str_plain_literal_string',
'''  forall s, valid_utf8 s = true -> plain_text false s = true ->
  let txt := dq ++ s ++ dq in
  lex_string txt = [(TLit (CStr s), 0, String.length txt); (TEnd, String.length txt, String.length txt)]''',
'lex_string_plain_string')

T('''for a straight-opened literal [plain_text] is just: no backslash, no straight quote; a body that is
   plain for a curly-opened literal is plain for a straight-opened one''',
'C16_str_plain_text_straight',
'''  (forall s, plain_text false s = no_backslash_no_quote s) /\\
  (forall s, plain_text true s = true -> plain_text false s = true)''',
'(conj plain_text_straight plain_text_curly_straight)')

T('''[no_backslash_no_quote], spelled out on the bytes of the text''',
'C16_str_no_backslash_no_quote_spec',
'''  forall s, no_backslash_no_quote s = true <->
  (forall i c, String.get i s = Some c -> c <> "\\"%char /\\ c <> """"%char)''',
'no_backslash_no_quote_spec')

T('''STRAIGHT-QUOTED TEXT READS BACK VERBATIM (the lexer side of print/read for the text the printer writes
   verbatim, non-ASCII included): every valid UTF-8 string without backslash and without straight
   quote - with any number of curly quotes of either kind - between straight quotes is one
   literal whose value is that string''',
'C16_str_straight_literal_string',
'''  forall s, valid_utf8 s = true -> no_backslash_no_quote s = true ->
  let txt := dq ++ s ++ dq in
  lex_string txt = [(TLit (CStr s), 0, String.length txt); (TEnd, String.length txt, String.length txt)]''',
'lex_string_straight_string')

T('''... in any lexer state and with any continuation''',
'C16_str_straight_literal',
'''  forall l s rest, valid_utf8 s = true -> no_backslash_no_quote s = true ->
  lrest l = dq ++ s ++ dq ++ rest ->
  let p' := lpos l + String.length s + 2 in
  lex_next l = (if next_is_ws_or_end rest then TLit (CStr s) else TErr PExpectWs (lpos l) p',
                mklex rest p' (lpos l) (llen l))''',
'lex_next_straight_string')

T('''... in particular with a curly quote (right or left) anywhere inside: it is part of the value''',
'C16_str_straight_curly_inside',
'''  forall a q b, valid_utf8 a = true -> valid_utf8 b = true ->
  no_backslash_no_quote a = true -> no_backslash_no_quote b = true -> q = rdq \\/ q = ldq ->
  let s := a ++ q ++ b in
  let txt := dq ++ s ++ dq in
  lex_string txt = [(TLit (CStr s), 0, String.length txt); (TEnd, String.length txt, String.length txt)]''',
'lex_string_straight_curly_inside')

T('''a right curly quote does not close a straight-opened literal: with nothing else after it the string is
   unterminated''',
'C16_str_straight_curly_close_unterminated',
'''  forall s, valid_utf8 s = true -> no_backslash_no_quote s = true ->
  let txt := dq ++ s ++ rdq in
  lex_string txt = [(TErr PUntermStr (String.length txt) (String.length txt), 0, String.length txt)]''',
'lex_string_straight_curly_close')

T('''a body without escapes is a written body in the sense of C16_str_literal (so escapes can be mixed in freely)''',
'C16_str_plain_items',
'''  forall curly s, valid_utf8 s = true -> plain_text curly s = true ->
  forallb (sitem_ok curly) (text_items s) = true /\\ sitems_text (text_items s) = s /\\ sitems_value (text_items s) = s''',
'text_items_ok')

T('''PRINT/READ ROUND TRIP, whole text: every string the printer renders reads back as itself''',
'C16_print_read_str',
'''  forall s b, fmt_str_body s = Some b ->
  let txt := dq ++ b ++ dq in
  lex_string txt = [(TLit (CStr s), 0, String.length txt); (TEnd, String.length txt, String.length txt)]''',
'print_read_str')

T('''the same on the printer entry point, for every flags word''',
'C16_print_read_str_cell',
'''  forall f s txt, fmt_cell f (CStr s) = Some txt ->
  lex_string txt = [(TLit (CStr s), 0, String.length txt); (TEnd, String.length txt, String.length txt)]''',
'print_read_str_cell')

T('''round trip in any lexer state and with any continuation: a printed string followed by whitespace
   or the end is read as its value and the lexer stands right after it; followed by anything else
   it is the error "expect whitespace"''',
'C16_print_read_str_next',
'''  forall l s b rest, fmt_str_body s = Some b ->
  lrest l = dq ++ b ++ dq ++ rest ->
  let p' := lpos l + String.length b + 2 in
  lex_next l = (if next_is_ws_or_end rest then TLit (CStr s) else TErr PExpectWs (lpos l) p',
                mklex rest p' (lpos l) (llen l))''',
'lex_next_printed_string')

T('''a printed string followed by whitespace and any further text: it is the first token, and the
   remaining tokens are those of the further text''',
'C16_print_read_str_then',
'''  forall s b rest, fmt_str_body s = Some b ->
  next_is_ws_or_end rest = true ->
  let txt := dq ++ b ++ dq in
  lex_string (txt ++ rest) =
  (TLit (CStr s), 0, String.length txt) :: lex_from rest (String.length txt) (String.length (txt ++ rest))''',
'print_read_str_then')

T('''the body the printer writes is a written body in the above sense, with the string as its value''',
'C16_print_str_items',
'''  forall s b, fmt_str_body s = Some b -> forall curly,
  forallb (sitem_ok curly) (print_items s) = true /\\ sitems_text (print_items s) = b /\\
  sitems_value (print_items s) = s''',
'fmt_str_body_items')

T('''no closing quote: "unterminated string" at the end of the text''',
'C16_str_unterminated',
'''  forall l curly qo items,
  is_opener curly qo -> forallb (sitem_ok curly) items = true -> lrest l = qo ++ sitems_text items ->
  let p' := lpos l + String.length qo + String.length (sitems_text items) in
  lex_next l = (TErr PUntermStr p' (llen l), mklex "" p' (lpos l) (llen l))''',
'lex_next_string_unterminated')

T('''a backslash as the last character of the text: "unterminated string" at the backslash''',
'C16_str_trailing_backslash',
'''  forall l curly qo items,
  is_opener curly qo -> forallb (sitem_ok curly) items = true -> lrest l = qo ++ sitems_text items ++ "\\" ->
  let p := lpos l + String.length qo + String.length (sitems_text items) in
  lex_next l = (TErr PUntermStr p (llen l), mklex "" (S p) (lpos l) (llen l))''',
'lex_next_string_trailing_backslash')

T('''an unknown escape inside a literal: the error token, wherever it stands in the body''',
'C16_str_literal_unknown_escape',
'''  forall l curly qo items r c2 r2,
  is_opener curly qo -> forallb (sitem_ok curly) items = true -> lrest l = qo ++ sitems_text items ++ String "\\" r ->
  take_char r = Some (c2, r2) -> (forall c, escape_value c <> None -> c2 <> String c "") ->
  let p := lpos l + String.length qo + String.length (sitems_text items) in
  lex_next l = (TErr PEscape p (S p + String.length c2), mklex r2 (S p + String.length c2) (lpos l) (llen l))''',
'lex_next_string_bad_escape')

T('''COMPLETENESS: in a valid UTF-8 text, whatever follows an opening quote (of either kind: [curly]) is a
   written body for that kind of literal followed by
   one of: a closing quote for that kind (C16_str_literal), the end of the text (C16_str_unterminated), a final
   backslash (C16_str_trailing_backslash), an unknown escape (C16_str_literal_unknown_escape) -
   so these four statements describe Lex::next on every string literal''',
'C16_str_complete',
'''  forall curly s, valid_utf8 s = true ->
  exists items tl, forallb (sitem_ok curly) items = true /\\ s = sitems_text items ++ tl /\\ str_tail curly tl''',
'str_decompose_valid')

T('''[str_tail], spelled out: after a straight opening quote only the straight quote is a closing quote
   (C16_str_quotes_spec), so a right curly quote is never a tail there - it is an item of the body''',
'C16_str_tail_spec',
'''  forall curly tl, str_tail curly tl <->
  ((exists q rest, is_closer curly q /\\ tl = q ++ rest) \\/ tl = "" \\/ tl = "\\" \\/
   (exists r c2 r2, tl = String "\\" r /\\ take_char r = Some (c2, r2) /\\
                    forall c, escape_value c <> None -> c2 <> String c ""))''',
'str_tail_spec')

E('''non-vacuity: a string with every escape, a quote and a backslash inside, printed and read''',
'C16_ex_print_read_str',
'''  let s := "a""b\\c" ++ String (ascii_of_N 10) (String (ascii_of_N 13) (String (ascii_of_N 9) " z~")) in
  fmt_cell fmt_default (CStr s) = Some """a\\""b\\\\c\\n\\r\\t z~""" /\\
  lex_string """a\\""b\\\\c\\n\\r\\t z~""" = [(TLit (CStr s), 0, 18); (TEnd, 18, 18)]''',
'vm_compute. split; reflexivity.')

E('''a plain body with a three-byte character; bodies that are not plain (the right curly quote only
   for a curly-opened literal)''',
'C16_ex_str_plain',
'''  let euro := String (ascii_of_N 226) (String (ascii_of_N 130) (String (ascii_of_N 172) "")) in
  let s := "a " ++ euro ++ " b" in
  valid_utf8 s = true /\\ plain_text false s = true /\\ plain_text true s = true /\\
  lex_string (dq ++ s ++ dq) = [(TLit (CStr s), 0, 9); (TEnd, 9, 9)] /\\
  plain_text true ("a" ++ rdq) = false /\\ plain_text false ("a" ++ rdq) = true /\\
  no_backslash_no_quote ("a" ++ rdq ++ ldq) = true /\\
  plain_text false "a\\b" = false /\\ plain_text true "a\\b" = false''',
'vm_compute. repeat split; reflexivity.')

E('''curly quotes, a three-byte character (the euro sign E2 82 AC) and a two-byte one in the body''',
'C16_ex_str_curly',
'''  let euro := String (ascii_of_N 226) (String (ascii_of_N 130) (String (ascii_of_N 172) "")) in
  let ecute := String (ascii_of_N 195) (String (ascii_of_N 169) "") in
  let items := [SByte "a"; SE2 (ascii_of_N 130) (ascii_of_N 172); SEsc "n"; SByte (ascii_of_N 195); SByte (ascii_of_N 169)] in
  forallb (sitem_ok true) items = true /\\ sitems_text items = "a" ++ euro ++ "\\n" ++ ecute /\\
  lex_string (ldq ++ sitems_text items ++ rdq ++ " 1") =
    [(TLit (CStr ("a" ++ euro ++ String (ascii_of_N 10) ecute)), 0, 14); (TWs, 14, 15); (TLit (CInt 1), 15, 16); (TEnd, 16, 16)]''',
'vm_compute. repeat split; reflexivity.')

E('''the model has no triple-quote form: the third quote is not whitespace; and the error cases''',
'C16_ex_str_errors',
'''  lex_string """""""abc""""""" = [(TErr PExpectWs 0 2, 0, 2)] /\\
  lex_string """abc" = [(TErr PUntermStr 4 4, 0, 4)] /\\
  lex_string """a\\qb""" = [(TErr PEscape 2 4, 0, 4)] /\\
  lex_string """abc""def" = [(TErr PExpectWs 0 5, 0, 5)] /\\
  lex_string """abc\\" = [(TErr PUntermStr 4 5, 0, 5)]''',
'vm_compute. repeat split; reflexivity.')

E('''a right curly quote inside a straight-quoted literal is part of the value (before the repair of the
   lexer it ended the literal: the first text gave TErr PExpectWs 0 5), also together with a left one
   and next to an escape; the backslash still does not escape it; the model's printer renders
   ASCII only (fmt_str_body = None for this string) - the Rust printer writes it verbatim, which
   is the first text''',
'C16_ex_str_curly_inside',
'''  lex_string (dq ++ "a" ++ rdq ++ "b" ++ dq) = [(TLit (CStr ("a" ++ rdq ++ "b")), 0, 7); (TEnd, 7, 7)] /\\
  lex_string (dq ++ rdq ++ ldq ++ rdq ++ "\\n" ++ rdq ++ dq) =
    [(TLit (CStr (rdq ++ ldq ++ rdq ++ String (ascii_of_N 10) rdq)), 0, 16); (TEnd, 16, 16)] /\\
  lex_string (dq ++ "a\\" ++ rdq ++ "b" ++ dq) = [(TErr PEscape 2 6, 0, 6)] /\\
  fmt_str_body ("a" ++ rdq ++ "b") = None''',
'vm_compute. repeat split; reflexivity.')

E('''which quote closes which: a curly-opened literal is closed by the right curly quote or by the
   straight quote; a straight-opened one by the straight quote only - with a right curly quote in
   its place the string is unterminated; a right curly quote inside a curly-opened literal ends it''',
'C16_ex_str_curly_close',
'''  lex_string (ldq ++ "abc" ++ rdq) = [(TLit (CStr "abc"), 0, 9); (TEnd, 9, 9)] /\\
  lex_string (ldq ++ "abc" ++ dq) = [(TLit (CStr "abc"), 0, 7); (TEnd, 7, 7)] /\\
  lex_string (dq ++ "abc" ++ rdq) = [(TErr PUntermStr 7 7, 0, 7)] /\\
  lex_string (dq ++ "abc" ++ rdq ++ " 1 " ++ dq) = [(TLit (CStr ("abc" ++ rdq ++ " 1 ")), 0, 11); (TEnd, 11, 11)] /\\
  lex_string (ldq ++ "a" ++ rdq ++ "b" ++ rdq) = [(TErr PExpectWs 0 7, 0, 7)] /\\
  lex_string (ldq ++ "a" ++ rdq ++ " b") = [(TLit (CStr "a"), 0, 7); (TWs, 7, 8); (TWord "b", 8, 9); (TEnd, 9, 9)]''',
'vm_compute. repeat split; reflexivity.')

S('5. integer literals in every radix, with separators')

T('''the three radix markers: 0x (radix 16), 0b (radix 2), 0o (radix 8); lower-case letters only''',
'C16_rmark_spec',
'''  rmark_text RHex = "x" /\\ rmark_radix RHex = 16%N /\\
  rmark_text RBin = "b" /\\ rmark_radix RBin = 2%N /\\
  rmark_text ROct = "o" /\\ rmark_radix ROct = 8%N /\\
  (forall c r, radix_mark (String c r) =
     if (byte_of c =? 98)%N then Some 2%N else if (byte_of c =? 120)%N then Some 16%N
     else if (byte_of c =? 111)%N then Some 8%N else None) /\\
  radix_mark "" = None''',
'rmark_spec')

T('''[sign] 0x / 0b / 0o followed by digits of the radix (either case) and separators, then whitespace
   or the end: the literal denotes the written value when it has at least one digit and fits i128,
   and is the error "parse int" otherwise''',
'C16_int_literal_marked',
'''  forall l sg (m : rmark) items rest,
  let radix := rmark_radix m in
  forallb (nitem_ok radix) items = true -> next_is_ws_or_end rest = true ->
  lrest l = sgn_text sg ++ "0" ++ rmark_text m ++ nitems_text items ++ rest ->
  let p4 := lpos l + String.length (sgn_text sg) + 2 + List.length items in
  lex_next l = (int_tok sg radix items (lpos l) p4, mklex rest p4 (lpos l) (llen l))''',
'lex_next_int_marked')

T('''[sign] a non-zero decimal digit followed by decimal digits and separators: decimal''',
'C16_int_literal_decimal',
'''  forall l sg up d0 items rest,
  (1 <= d0 <= 9)%N -> forallb (nitem_ok 10) items = true -> next_is_ws_or_end rest = true ->
  lrest l = sgn_text sg ++ nitems_text (NDig up d0 :: items) ++ rest ->
  let p4 := lpos l + String.length (sgn_text sg) + 1 + List.length items in
  lex_next l = (int_tok sg 10 (NDig up d0 :: items) (lpos l) p4, mklex rest p4 (lpos l) (llen l))''',
'lex_next_int_decimal')

T('''what [int_tok] is: the token of an integer literal with the given sign, radix and written digits''',
'C16_int_tok_spec',
'''  forall sg radix items a b,
  int_tok sg radix items a b =
  match nitems_digits items with
  | [] => TErr PInt a b
  | _ => let v := sgn_apply sg (digits_value (Z.of_N radix) (nitems_digits items) 0) in
         if in_i128 v then TLit (CInt v) else TErr PInt a b
  end''',
'int_tok_spec')

T('''MODEL BEHAVIOUR (recorded): [sign] 0 followed by further digits, without marker, is read in
   radix 16 - 010 is sixteen, 0e5 is 229''',
'C16_int_literal_leading_zero_is_hex',
'''  forall l sg items rest,
  forallb (nitem_ok 16) items = true -> next_is_ws_or_end rest = true ->
  radix_mark (nitems_text items ++ rest) = None ->
  lrest l = sgn_text sg ++ "0" ++ nitems_text items ++ rest ->
  let p4 := lpos l + String.length (sgn_text sg) + 1 + List.length items in
  lex_next l = (int_tok sg 16 (NDig false 0 :: items) (lpos l) p4, mklex rest p4 (lpos l) (llen l))''',
'lex_next_int_leading_zero')

T('''a numeric text without marker and without dot that contains a character which is not a digit of
   its radix (1e5, 12abc, 09z) is the error "parse int" over the whole text''',
'C16_int_literal_bad_digit',
'''  forall l sg c0 a c b rest,
  is_digit c0 = true -> lrest l = sgn_text sg ++ String c0 ((a ++ String c b) ++ rest) ->
  no_ws (a ++ String c b) = true -> has_dot (a ++ String c b) = false -> next_is_ws_or_end rest = true ->
  ((byte_of c0 =? 48)%N = true -> radix_mark ((a ++ String c b) ++ rest) = None) ->
  (byte_of c =? 95)%N = false ->
  match digit_val c with
  | Some v => (v <? (if (byte_of c0 =? 48)%N then 16 else 10))%N
  | None => false
  end = false ->
  let p4 := lpos l + String.length (sgn_text sg) + 1 + String.length (a ++ String c b) in
  lex_next l = (TErr PInt (lpos l) p4, mklex rest p4 (lpos l) (llen l))''',
'lex_next_int_bad_digit')

T('''every numeric text (optional sign, a digit, anything up to the next whitespace): the token is
   determined by the text without its separators - the general form behind the statements above''',
'C16_numeric_text',
'''  forall l sg c0 body rest,
  is_digit c0 = true -> lrest l = sgn_text sg ++ String c0 (body ++ rest) ->
  no_ws body = true -> next_is_ws_or_end rest = true ->
  ((byte_of c0 =? 48)%N = true -> radix_mark (body ++ rest) = None) ->
  let p4 := lpos l + String.length (sgn_text sg) + 1 + String.length body in
  lex_next l =
  (numeric_tok (lpos l) p4 c0 None (sgn_text sg ++ String c0 (strip_us body)) (has_dot body),
   mklex rest p4 (lpos l) (llen l))''',
'lex_next_numeric_plain')

T('''... and with a radix marker''',
'C16_numeric_text_marked',
'''  forall l sg (m : rmark) body rest,
  lrest l = sgn_text sg ++ "0" ++ rmark_text m ++ body ++ rest ->
  no_ws body = true -> next_is_ws_or_end rest = true ->
  let p4 := lpos l + String.length (sgn_text sg) + 2 + String.length body in
  lex_next l =
  (numeric_tok (lpos l) p4 "0" (Some (rmark_radix m)) (sgn_text sg ++ strip_us body) (has_dot body),
   mklex rest p4 (lpos l) (llen l))''',
'lex_next_numeric_marked')

T('''PRINT/READ in base 2, 8 and 16 (either case) with the radix prefix, any lexer state, any continuation
   that starts with whitespace or is empty: a non-negative integer reads back (negative ones are
   printed as two's complement and do not: C16_known_hex_negative_refuted)''',
'C16_print_read_int_radix_next',
'''  forall l f z rest,
  (fl_base f = 2 \\/ fl_base f = 8 \\/ fl_base f = 16)%Z -> fl_prefix f = true -> (0 <= z)%Z -> in_i128 z = true ->
  next_is_ws_or_end rest = true ->
  lrest l = fmt_int f z ++ rest ->
  let p' := lpos l + String.length (fmt_int f z) in
  lex_next l = (TLit (CInt z), mklex rest p' (lpos l) (llen l))''',
'print_read_int_radix_next')

T('''... and as a whole text''',
'C16_print_read_int_radix',
'''  forall f z,
  (fl_base f = 2 \\/ fl_base f = 8 \\/ fl_base f = 16)%Z -> fl_prefix f = true -> (0 <= z)%Z -> in_i128 z = true ->
  let txt := fmt_int f z in
  lex_string txt = [(TLit (CInt z), 0, String.length txt); (TEnd, String.length txt, String.length txt)]''',
'print_read_int_radix')

E('''the octal print reads back (0o was unknown to the lexer before the repair: former finding
   C16_print_octal_refuted); the marker is lower case only, digits must be octal''',
'C16_ex_print_octal',
'''  fmt_int (fl_set_base fmt_default 8) 8 = "0o10" /\\
  lex_string "0o10" = [(TLit (CInt 8), 0, 4); (TEnd, 4, 4)] /\\
  lex_string "-0o1_7" = [(TLit (CInt (-15)), 0, 6); (TEnd, 6, 6)] /\\
  lex_string "0O17" = [(TErr PInt 0 4, 0, 4)] /\\
  lex_string "0o8" = [(TErr PInt 0 3, 0, 3)]''',
'exact print_octal_reads.')

T('''FINDING: printed without the prefix, a hexadecimal text reads as a different number or not at all''',
'C16_print_noprefix_refuted',
'''  let f := fl_set_bit (fl_set_base fmt_default 16) 8 false in
  fl_base f = 16%Z /\\ fl_prefix f = false /\\
  fmt_int f 16 = "10" /\\ lex_string "10" = [(TLit (CInt 10), 0, 2); (TEnd, 2, 2)] /\\
  fmt_int f 31 = "1f" /\\ lex_string "1f" = [(TErr PInt 0 2, 0, 2)]''',
'print_noprefix_refuted')

E('''non-vacuity of the radix round trip''',
'C16_ex_print_read_radix',
'''  let f := fl_set_bit (fl_set_base fmt_default 16) 11 true in
  fl_base f = 16%Z /\\ fl_prefix f = true /\\ fmt_int f 48879 = "0xBEEF" /\\
  lex_string "0xBEEF" = [(TLit (CInt 48879), 0, 6); (TEnd, 6, 6)] /\\
  fmt_int (fl_set_base fmt_default 2) 5 = "0b101" /\\
  fl_base (fl_set_base fmt_default 8) = 8%Z /\\ fl_prefix (fl_set_base fmt_default 8) = true /\\
  fmt_int (fl_set_base fmt_default 8) 511 = "0o777" /\\
  lex_string "0o777" = [(TLit (CInt 511), 0, 5); (TEnd, 5, 5)]''',
'vm_compute. repeat split; reflexivity.')

E('''the i128 boundaries: the least value reads, one past the greatest is an error''',
'C16_ex_int_bounds',
'''  lex_string "-170141183460469231731687303715884105728" =
    [(TLit (CInt (-170141183460469231731687303715884105728)), 0, 40); (TEnd, 40, 40)] /\\
  lex_string "170141183460469231731687303715884105727" =
    [(TLit (CInt 170141183460469231731687303715884105727), 0, 39); (TEnd, 39, 39)] /\\
  lex_string "170141183460469231731687303715884105728" = [(TErr PInt 0 39, 0, 39)] /\\
  lex_string "-170141183460469231731687303715884105729" = [(TErr PInt 0 40, 0, 40)] /\\
  lex_string "-0x8000_0000_0000_0000_0000_0000_0000_0000" =
    [(TLit (CInt (-170141183460469231731687303715884105728)), 0, 42); (TEnd, 42, 42)] /\\
  lex_string "0x8000_0000_0000_0000_0000_0000_0000_0000" = [(TErr PInt 0 41, 0, 41)]''',
'vm_compute. repeat split; reflexivity.')

E('''separators, both cases, all three signs, the three markers; the instances of the general theorems''',
'C16_ex_int_radix',
'''  lex_string "0xFf_fF" = [(TLit (CInt 65535), 0, 7); (TEnd, 7, 7)] /\\
  lex_string "-0b1_01" = [(TLit (CInt (-5)), 0, 7); (TEnd, 7, 7)] /\\
  lex_string "+1_000_" = [(TLit (CInt 1000), 0, 7); (TEnd, 7, 7)] /\\
  lex_string "0x_" = [(TErr PInt 0 3, 0, 3)] /\\
  lex_string "0b12" = [(TErr PInt 0 4, 0, 4)] /\\
  lex_string "010" = [(TLit (CInt 16), 0, 3); (TEnd, 3, 3)] /\\
  lex_string "0e5" = [(TLit (CInt 229), 0, 3); (TEnd, 3, 3)] /\\
  lex_string "0o17" = [(TLit (CInt 15), 0, 4); (TEnd, 4, 4)] /\\
  lex_string "09z" = [(TErr PInt 0 3, 0, 3)] /\\
  int_tok SPlus 8 [NDig false 1; NSep; NDig false 7] 0 6 = TLit (CInt 15) /\\
  lex_string "12abc" = [(TErr PInt 0 5, 0, 5)] /\\
  lex_string "0x-5" = [(TLit (CInt (-5)), 0, 4); (TEnd, 4, 4)] /\\
  int_tok SMinus 2 [NDig false 1; NSep; NDig false 0; NDig false 1] 0 7 = TLit (CInt (-5))''',
'vm_compute. repeat split; reflexivity.')

S('4. bit-string literals')

T('''READ AS WRITTEN: between the bars every hex digit (either case) contributes its four bits, most
   significant first, '.' a clear bit, 'x' a set bit, whitespace nothing; the value is well formed
   and its bit sequence is the concatenation.  No separator is required after the closing bar''',
'C16_bitstr_literal',
'''  forall l items rest,
  forallb bitem_ok items = true -> lrest l = "|" ++ bitems_text items ++ "|" ++ rest ->
  let p' := lpos l + List.length items + 2 in
  lex_next l = (TLit (CBits (of_bools (bitems_bits items))), mklex rest p' (lpos l) (llen l)) /\\
  wf (of_bools (bitems_bits items)) /\\ abs (of_bools (bitems_bits items)) = bitems_bits items''',
'lex_next_bitstr_full')

T('''the bits of one written character''',
'C16_bitstr_item_bits',
'''  forall up d c,
  bitem_bits (BHex up d) = [N.testbit d 3; N.testbit d 2; N.testbit d 1; N.testbit d 0] /\\
  bitem_bits BDot = [false] /\\ bitem_bits BX = [true] /\\ bitem_bits (BSpace c) = []''',
'bitem_bits_spec')

T('''no closing bar: "unterminated bit-string" at the end of the text''',
'C16_bitstr_unterminated',
'''  forall l items,
  forallb bitem_ok items = true -> lrest l = "|" ++ bitems_text items ->
  let p' := lpos l + 1 + List.length items in
  lex_next l = (TErr PUntermBits p' (llen l), mklex "" p' (lpos l) (llen l))''',
'lex_next_bitstr_unterminated')

T('''any other character (not a hex digit, whitespace, '.', 'x' or the bar): "parse bitstr" at it; the
   whole character is consumed''',
'C16_bitstr_malformed',
'''  forall l items c more,
  forallb bitem_ok items = true -> bits_bad_char c = true ->
  lrest l = "|" ++ bitems_text items ++ String c more ->
  let p := lpos l + 1 + List.length items in
  lex_next l = (TErr PBits p (llen l),
                mklex (str_drop (utf8_width c) (String c more)) (p + utf8_width c) (lpos l) (llen l))''',
'lex_next_bitstr_bad')

T('''COMPLETENESS: whatever follows an opening bar is a well-formed part followed by the closing bar,
   by the end of the text or by an offending character - the three statements above describe
   Lex::next on every bit-string literal''',
'C16_bitstr_complete',
'''  forall s, exists items, forallb bitem_ok items = true /\\
  ((exists rest, s = bitems_text items ++ "|" ++ rest) \\/
   s = bitems_text items \\/
   (exists c more, bits_bad_char c = true /\\ s = bitems_text items ++ String c more))''',
'bits_decompose')

E('''a literal mixing hex digits of both cases, bits and spaces; a malformed and an open one''',
'C16_ex_bitstr',
'''  let items := [BHex false 10; BHex true 11; BSpace " "; BX; BDot; BX; BSpace (ascii_of_N 10); BHex false 1] in
  forallb bitem_ok items = true /\\ bitems_text items = "aB x.x" ++ String (ascii_of_N 10) "1" /\\
  bitems_bits items = [true;false;true;false; true;false;true;true; true;false;true; false;false;false;true] /\\
  (exists b, lex_string ("|" ++ bitems_text items ++ "|tail") =
             [(TLit (CBits b), 0, 10); (TWord "tail", 10, 14); (TEnd, 14, 14)] /\\ abs b = bitems_bits items) /\\
  lex_string "|12g4|" = [(TErr PBits 3 6, 0, 4)] /\\
  lex_string "|12 " = [(TErr PUntermBits 4 4, 0, 4)]''',
'''vm_compute. repeat split; try reflexivity. eexists. split; reflexivity.''')

S('3. whitespace and comments')

T('''a maximal run of ASCII whitespace is one whitespace token''',
'C16_ws_token',
'''  forall l w rest, w <> "" -> all_ws w = true -> next_not_ws rest = true ->
  lrest l = w ++ rest ->
  lex_next l = (TWs, mklex rest (lpos l + String.length w) (lpos l) (llen l))''',
'lex_next_ws')

T('''LINE COMMENT: the word "\\" (a backslash followed by whitespace or the end) opens a comment whose
   span runs up to, not including, the next line feed (or to the end of the text); the lexer then
   stands at that line feed''',
'C16_line_comment',
'''  forall l cm rest,
  lrest l = "\\" ++ cm ++ rest -> next_is_ws_or_end (cm ++ rest) = true ->
  no_nl cm = true -> next_is_nl_or_end rest = true ->
  let p' := lpos l + 1 + String.length cm in
  lex_next l = (TComment, mklex rest p' (lpos l) (llen l))''',
'lex_next_line_comment')

T('''MULTI-LINE COMMENT, all bodies: the word "\\(" opens a comment that ends after the FIRST closing
   marker - a whitespace character, "\\)", and then either a whitespace character (which is
   consumed too) or the end of the text; without such a marker the token is the error
   "unterminated comment" and the rest of the text is dropped''',
'C16_multiline_comment',
'''  forall l r4,
  lrest l = "\\(" ++ r4 -> next_is_ws_or_end r4 = true ->
  lex_next l =
  match first_close r4 with
  | Some i => (TComment, mklex (str_drop (i + 4) r4) (lpos l + 2 + Nat.min (i + 4) (String.length r4))
                               (lpos l) (llen l))
  | None => (TErr PUntermComment (lpos l) (llen l), mklex "" (llen l) (lpos l) (llen l))
  end''',
'lex_next_mlc')

T('''[first_close s = Some i] says exactly: a closing marker starts at i and none starts before''',
'C16_first_close_some',
'''  forall s i, first_close s = Some i <->
  (closes_here (str_drop i s) = true /\\ forall j, j < i -> closes_here (str_drop j s) = false)''',
'first_close_some_iff')

T('''[first_close s = None] says exactly: no closing marker anywhere''',
'C16_first_close_none',
'''  forall s, first_close s = None <-> forall j, closes_here (str_drop j s) = false''',
'first_close_none_iff')

T('''a closing marker, spelled out''',
'C16_closes_here_spec',
'''  forall s, closes_here s = true <->
  exists c r, s = String c ("\\)" ++ r) /\\ is_ws c = true /\\ next_is_ws_or_end r = true''',
'closes_here_spec')

T('''TRANSPARENCY (state form): blank material - whitespace runs, line comments ended by a line feed,
   closed multi-line comments, in any order and number - standing at a token boundary in front
   of any text: the significant (non-whitespace, non-comment) tokens are exactly those of the
   text after it, lexed from the position after it''',
'C16_blank_transparent',
'''  forall g rest, blank g rest -> forall p n,
  significant (lex_from (g ++ rest) p n) = significant (lex_from rest (p + String.length g) n)''',
'blank_transparent')

T('''TRANSPARENCY (whole text): blank material in front of a text only moves the spans''',
'C16_blank_prefix',
'''  forall g b, blank g b ->
  significant (lex_string (g ++ b)) = map (shift_span (String.length g)) (significant (lex_string b))''',
'blank_prefix_string')

T('''POSITION INDEPENDENCE: the tokens of a text do not depend on where it stands - moving the lexer
   state by d bytes moves every span (inside error tokens too) by d''',
'C16_lex_shift',
'''  forall d rest p n,
  lex_from rest (p + d) (n + d) = map (shift_span d) (lex_from rest p n)''',
'lex_from_shift')

T('''[lex_from] is the token list of a lexer state, [lex_string] the one of the initial state; the
   fuel of [lex_all] is irrelevant''',
'C16_lex_from_spec',
'''  (forall s, lex_string s = lex_from s 0 (String.length s)) /\\
  (forall f r p st n, String.length r < f -> lex_all f (mklex r p st n) = lex_from r p n)''',
'lex_from_spec')

T('''LOCALITY: when whitespace (or nothing) follows a valid UTF-8 text u, a token that ends inside u,
   or at its end unless it is whitespace or a comment, is the same whatever follows, and the lexer
   continues with the rest of u followed by that continuation''',
'C16_token_local',
'''  forall X, next_is_ws_or_end X = true ->
  forall u p stA nA stB nB t lA',
  valid_go u 0 = true ->
  lex_next (mklex u p stA nA) = (t, lA') -> is_final t = false ->
  ~ (lrest lA' = "" /\\ is_blank_tok t = true) ->
  lex_next (mklex (u ++ X) p stB nB) = (t, mklex (lrest lA' ++ X) (lpos lA') p nB)''',
'lex_next_app')

T('''COMPOSITION: if a valid UTF-8 text a lexes to its end without error and does not end in
   whitespace or a comment, then for every continuation X that starts with whitespace (or is
   empty) the tokens of a ++ X are the tokens of a followed by the tokens of X''',
'C16_prefix_stable',
'''  forall a X pre e e',
  valid_utf8 a = true -> next_is_ws_or_end X = true ->
  lex_string a = (pre ++ [(TEnd, e, e')])%list -> last_significant pre ->
  lex_string (a ++ X) = (pre ++ lex_from X (String.length a) (String.length (a ++ X)))%list''',
'prefix_stable_string')

T('''TRANSPARENCY IN CONTEXT: a as above, g blank material in front of b (g ++ b starts with
   whitespace or is empty): the significant tokens of a ++ g ++ b are those of a followed by those
   of b, moved behind a and g''',
'C16_blank_transparent_in_context',
'''  forall a g b pre e e',
  valid_utf8 a = true -> lex_string a = (pre ++ [(TEnd, e, e')])%list -> last_significant pre ->
  next_is_ws_or_end (g ++ b) = true -> blank g b ->
  significant (lex_string (a ++ g ++ b)) =
  (significant pre ++ map (shift_span (String.length a + String.length g)) (significant (lex_string b)))%list''',
'blank_transparent_in_context')

T('''... in particular replacing the blank material by a single space changes nothing but the spans
   of the tokens behind it''',
'C16_blank_vs_space',
'''  forall a g b pre e e',
  valid_utf8 a = true -> lex_string a = (pre ++ [(TEnd, e, e')])%list -> last_significant pre ->
  next_is_ws_or_end (g ++ b) = true -> blank g b ->
  let sb := significant (lex_string b) in
  significant (lex_string (a ++ g ++ b)) =
    (significant pre ++ map (shift_span (String.length a + String.length g)) sb)%list /\\
  significant (lex_string (a ++ " " ++ b)) =
    (significant pre ++ map (shift_span (String.length a + 1)) sb)%list''',
'blank_vs_space')

T('''the side condition on a is needed: a line comment at the end of a swallows what follows a space
   but not what follows a line feed''',
'C16_blank_context_condition_needed',
'''  let nl := String (ascii_of_N 10) "" in
  blank nl "1" /\\ valid_utf8 "\\ c" = true /\\ lex_string "\\ c" = [(TComment, 0, 3); (TEnd, 3, 3)] /\\
  significant (lex_string ("\\ c" ++ nl ++ "1")) = [(TLit (CInt 1), 4, 5); (TEnd, 5, 5)] /\\
  significant (lex_string ("\\ c" ++ " " ++ "1")) = [(TEnd, 5, 5)]''',
'blank_context_condition_needed')

E('''the constructors of [blank] are satisfiable together: whitespace, a line comment, a closed
   multi-line comment and a multi-line comment that contains a decoy marker''',
'C16_ex_blank',
'''  let nl := String (ascii_of_N 10) "" in
  let g := "  \\ a comment" ++ nl ++ "\\( one \\)x \\) \\( two" ++ nl ++ "\\)" ++ nl in
  blank g "1 +" /\\
  significant (lex_string (g ++ "1 +")) = [(TLit (CInt 1), 38, 39); (TWord "+", 40, 41); (TEnd, 41, 41)] /\\
  significant (lex_string (" " ++ "1 +")) = [(TLit (CInt 1), 1, 2); (TWord "+", 3, 4); (TEnd, 4, 4)]''',
'exact ex_blank.')

E('''an instance of transparency in context: a definition, a comment block, more code''',
'C16_ex_blank_in_context',
'''  let nl := String (ascii_of_N 10) "" in
  let a := ": sq dup *" in
  let g := " \\ squares" ++ nl ++ "  \\( note \\) " in
  let b := "; 3 sq" in
  valid_utf8 a = true /\\ blank g b /\\ next_is_ws_or_end (g ++ b) = true /\\
  (exists pre e e', lex_string a = (pre ++ [(TEnd, e, e')])%list /\\ last_significant pre) /\\
  map (fun x => fst (fst x)) (significant (lex_string (a ++ g ++ b))) =
    [TWord ":"; TWord "sq"; TWord "dup"; TWord "*"; TWord ";"; TLit (CInt 3); TWord "sq"; TEnd] /\\
  map (fun x => fst (fst x)) (significant (lex_string (a ++ " " ++ b))) =
    [TWord ":"; TWord "sq"; TWord "dup"; TWord "*"; TWord ";"; TLit (CInt 3); TWord "sq"; TEnd]''',
'exact ex_blank_in_context.')

E('''where comments end, and what is not a comment''',
'C16_ex_comments',
'''  let nl := String (ascii_of_N 10) "" in
  lex_string ("\\ x" ++ nl ++ "1") = [(TComment, 0, 3); (TWs, 3, 4); (TLit (CInt 1), 4, 5); (TEnd, 5, 5)] /\\
  lex_string "\\ to the end" = [(TComment, 0, 12); (TEnd, 12, 12)] /\\
  lex_string "\\( a \\) 1" = [(TComment, 0, 8); (TLit (CInt 1), 8, 9); (TEnd, 9, 9)] /\\
  lex_string "\\( a \\)" = [(TComment, 0, 7); (TEnd, 7, 7)] /\\
  lex_string "\\( a\\) \\)x \\) 1" = [(TComment, 0, 14); (TLit (CInt 1), 14, 15); (TEnd, 15, 15)] /\\
  lex_string "\\( a \\)x" = [(TErr PUntermComment 0 8, 0, 8)] /\\
  lex_string "\\(a \\) 1" = [(TWord "\\(a", 0, 3); (TWs, 3, 4); (TWord "\\)", 4, 6); (TWs, 6, 7); (TLit (CInt 1), 7, 8); (TEnd, 8, 8)] /\\
  lex_string "\\x 1" = [(TWord "\\x", 0, 2); (TWs, 2, 3); (TLit (CInt 1), 3, 4); (TEnd, 4, 4)]''',
'vm_compute. repeat split; reflexivity.')

S('2. flags and nil')

T('''flags and nil are printed as the words true / false / nil''',
'C16_const_printed',
'''  forall f c w, const_word c = Some w -> fmt_cell f c = Some w''',
'const_word_printed')

T('''... which are lexed as single word tokens with that text (in any state, before whitespace or
   the end) ...''',
'C16_const_lexed',
'''  forall c w l rest, const_word c = Some w ->
  lrest l = w ++ rest -> next_is_ws_or_end rest = true ->
  lex_next l = (TWord w, mklex rest (lpos l + String.length w) (lpos l) (llen l))''',
'const_word_lex_next')

T('''the whole-text form''',
'C16_const_lex_string',
'''  forall c w, const_word c = Some w ->
  lex_string w = [(TWord w, 0, String.length w); (TEnd, String.length w, String.length w)]''',
'const_word_lex_string')

T('''[const_word], spelled out''',
'C16_const_word_spec',
'''  const_word CNil = Some "nil" /\\ const_word (CFlag true) = Some "true" /\\
  const_word (CFlag false) = Some "false" /\\
  (forall c w, const_word c = Some w -> c = CNil \\/ c = CFlag true \\/ c = CFlag false)''',
'const_word_spec')

T('''... and become values at build time: in every state whose dictionary binds true / false to the
   flag constants, compiling the word emits the load of that flag''',
'C16_build_word_flag',
'''  forall fo pr rf fuel s (b : bool),
  dict_entry s (if b then "true" else "false") = Some (DConst (CFlag b)) ->
  build_word fo pr rf fuel (if b then "true" else "false") s = code_emit (OLoadCell (CFlag b)) s''',
'build_word_flag')

T('''nil is an immediate word that emits the load of nil''',
'C16_build_word_nil',
'''  forall fo pr rf fuel s,
  dict_entry s "nil" = Some (DFun true (FNative "nil") None) ->
  build_word fo pr rf fuel "nil" s = code_emit OLoadNil s''',
'build_word_nil')

T('''the boot dictionary has these three entries''',
'C16_boot_const_entries',
'''  dict_entry boot "true" = Some (DConst (CFlag true)) /\\
  dict_entry boot "false" = Some (DConst (CFlag false)) /\\
  dict_entry boot "nil" = Some (DFun true (FNative "nil") None)''',
'boot_const_entries')

E('''end to end on the boot state: the three words, a string with an escape, a bit-string and a
   negative hex literal with a separator, evaluated''',
'C16_ex_eval_literals',
'''  ds_of (eval fo0 (fun _ => None) 100 100 "nil true false" boot) = Some [CFlag false; CFlag true; CNil] /\\
  ds_of (eval fo0 (fun _ => None) 100 100 """a\\nb"" |f x.| -0x1_0" boot) =
    Some [CInt (-16); CBits (mkcbs 0 6 [248%N]); CStr ("a" ++ String (ascii_of_N 10) "b")]''',
'vm_compute. split; reflexivity.')

S('6. real literals (decimal to double conversion is an oracle: the token carries the text)')

T('''a numeric text without radix marker that contains a dot is a real literal; the token carries
   exactly the written text without its separators - the value is whatever str::parse::<f64> says
   for that text (Build.next_token: [parse_real txt])''',
'C16_real_literal',
'''  forall l sg c0 body rest,
  is_digit c0 = true -> lrest l = sgn_text sg ++ String c0 (body ++ rest) ->
  no_ws body = true -> has_dot body = true -> next_is_ws_or_end rest = true ->
  ((byte_of c0 =? 48)%N = true -> radix_mark (body ++ rest) = None) ->
  let p4 := lpos l + String.length (sgn_text sg) + 1 + String.length body in
  lex_next l = (TReal (sgn_text sg ++ String c0 (strip_us body)), mklex rest p4 (lpos l) (llen l))''',
'lex_next_real')

T('''with a radix marker a dot is the error "parse float"''',
'C16_real_marked_error',
'''  forall l sg (m : rmark) body rest,
  lrest l = sgn_text sg ++ "0" ++ rmark_text m ++ body ++ rest ->
  no_ws body = true -> has_dot body = true -> next_is_ws_or_end rest = true ->
  let p4 := lpos l + String.length (sgn_text sg) + 2 + String.length body in
  lex_next l = (TErr PFloat (lpos l) p4, mklex rest p4 (lpos l) (llen l))''',
'lex_next_real_marked')

T('''the value of a real literal is what the conversion oracle says for exactly that text, and a text
   the oracle rejects is a parse error (Build.next_token)''',
'C16_real_value_oracle',
'''  forall pr f (s : state) il rest txt l',
  input s = il :: rest ->
  lex_next_nonws (S (String.length (lrest (in_lex il)))) (in_lex il) = (TReal txt, l') ->
  next_token pr (S f) s =
  let s1 := set_last_tok (set_input s (mkinlex (in_src il) l' :: rest)) (Some (in_src il, lstart l', lpos l')) in
  match pr txt with
  | Some r => ROk (BLit (CReal r)) s1
  | None => RErr EParse None s1
  end''',
'next_token_real')

T('''a text that does not start like a number (no digit, no sign-and-digit), a string or a bit-string
   is a word: in particular .5 and -.5 are words, not numbers''',
'C16_word_token',
'''  forall l c body rest,
  lrest l = String c (body ++ rest) -> (byte_of c < 128)%N -> is_ws c = false ->
  (byte_of c =? 34)%N = false -> (byte_of c =? 124)%N = false ->
  leads_number (String c (body ++ rest)) = false ->
  no_ws body = true -> next_is_ws_or_end rest = true ->
  String.eqb (String c body) "\\" = false -> String.eqb (String c body) "\\(" = false ->
  let p4 := lpos l + 1 + String.length body in
  lex_next l = (TWord (String c body), mklex rest p4 (lpos l) (llen l))''',
'lex_next_word')

E('''end to end with a stand-in oracle that knows the text 10.5: the literal 1_0.5 becomes the value the
   oracle gives for 10.5; 1.2.3 is a real token whose text the oracle rejects: a parse error''',
'C16_ex_real_oracle',
'''  ds_of (eval fo0 pr0 100 100 "1_0.5" boot) = Some [CReal 4622100592565682176] /\\
  is_parse_error (eval fo0 pr0 100 100 "1.2.3" boot) = true''',
'vm_compute. split; reflexivity.')

E('''the shapes: 1. and 1.5e3 and 1.2.3 are real tokens (the oracle decides), separators are
   removed, .5 and -.5 are words, 1e5 is an integer error, 0e5 is the hexadecimal integer 229,
   0x1.8 and 0o1.5 are float errors''',
'C16_ex_real_shapes',
'''  lex_string "1." = [(TReal "1.", 0, 2); (TEnd, 2, 2)] /\\
  lex_string "-1_0.5_0" = [(TReal "-10.50", 0, 8); (TEnd, 8, 8)] /\\
  lex_string "+1.5e3" = [(TReal "+1.5e3", 0, 6); (TEnd, 6, 6)] /\\
  lex_string "0.5" = [(TReal "0.5", 0, 3); (TEnd, 3, 3)] /\\
  lex_string "1.2.3" = [(TReal "1.2.3", 0, 5); (TEnd, 5, 5)] /\\
  lex_string ".5" = [(TWord ".5", 0, 2); (TEnd, 2, 2)] /\\
  lex_string "-.5" = [(TWord "-.5", 0, 3); (TEnd, 3, 3)] /\\
  lex_string "1e5" = [(TErr PInt 0 3, 0, 3)] /\\
  lex_string "0e5" = [(TLit (CInt 229), 0, 3); (TEnd, 3, 3)] /\\
  lex_string "0x1.8" = [(TErr PFloat 0 5, 0, 5)] /\\
  lex_string "0o1.5" = [(TErr PFloat 0 5, 0, 5)]''',
'vm_compute. repeat split; reflexivity.')
