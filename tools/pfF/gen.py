#!/usr/bin/env python3
# generates Props/C16_more.v from a list of (comment, name, statement, lemma)
import sys
HEADER = r'''(* C16 (continued) - the lexer reads literals as written; comments and whitespace are transparent.
   Statements only; proofs in Proofs/LexStr.v, LexStrPlain.v, LexMoreNum.v, LexMoreBits.v, LexMoreCmt.v,
   LexMoreShift.v, LexMoreWords.v, LexMoreLocal.v, LexMoreComplete.v, LexMorePrint.v,
   LexMoreExtra.v.
   Conventions: a lexer state [l] is arbitrary (any position in any text) unless stated; [rest] is
   the text that follows the literal; [next_is_ws_or_end rest] says that ASCII whitespace or the end
   of the text follows.  The "items" types describe a written literal character by character:
     sitem (string bodies), nitem (digits and '_'), bitem (bit-string characters). *)
From Xeh Require Import Model.Prelude Model.Bits Model.Codec Model.Cell Model.Lexer Model.Fmt Model.Vm Model.Words
  Model.Build Model.Boot.
From Xeh Require Import Proofs.BitsProofs Proofs.LexProofs Proofs.LexStr Proofs.LexStrPlain Proofs.LexMoreNum Proofs.LexMoreBits
  Proofs.LexMoreCmt Proofs.LexMoreShift Proofs.LexMoreWords Proofs.LexMoreLocal Proofs.LexMoreComplete Proofs.LexMorePrint Proofs.LexMoreExtra.
Local Open Scope string_scope.
'''
items = []
def T(comment, name, stmt, lemma):
    items.append(('T', comment, name, stmt.strip('\n'), lemma))
def E(comment, name, stmt, proof):
    items.append(('E', comment, name, stmt.strip('\n'), proof))
def S(title):
    items.append(('S', title))
exec(open('/verif/gen/items.py').read())
out=[HEADER]
for it in items:
    if it[0]=='S':
        out.append('\n(* ================= %s ================= *)\n' % it[1])
    elif it[0]=='T':
        _,c,n,s,l=it
        out.append('\n(* %s *)\nTheorem %s :\n%s.\nProof. exact %s. Qed.\nCheck %s :\n%s.\n' % (c,n,s,l,n,s))
    else:
        _,c,n,s,p=it
        out.append('\n(* %s *)\nExample %s :\n%s.\nProof. %s Qed.\n' % (c,n,s,p))
open('/verif/coq/Props/C16_more.v','w').write(''.join(out))
