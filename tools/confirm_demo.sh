#!/bin/sh
# phase A of the confirmation of a seeded change, in a scratch worktree of its own (does not touch /repo):
# demo passes without the change, fails with it, suite passes with it.  usage: confirm_demo.sh <seed dir name>
D=/verif/seeded/$1
WT=/tmp/cfm_$1
git -C /repo worktree add -q "$WT" HEAD || exit 2
cd "$WT"
export CARGO_TARGET_DIR=$WT/target CARGO_NET_OFFLINE=true
mkdir -p tests && cp "$D/demo.rs" tests/demo.rs
A=$(cargo test --offline --test demo 2>&1 | grep -E "^test result" | head -1)
git apply "$D/patch.diff" || { echo "$1 PATCH DOES NOT APPLY"; cd /; git -C /repo worktree remove --force "$WT"; exit 3; }
B=$(cargo test --offline --test demo 2>&1 | grep -E "^test result|error(\[|:)" | head -1)
rm -rf tests
C=$(cargo test --offline 2>&1 | grep -E "^test result" | head -1)
cd /; git -C /repo worktree remove --force "$WT"; rm -rf "$WT"
echo "$1 | without: $A | with: $B | suite: $C"
