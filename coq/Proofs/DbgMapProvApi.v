(* DbgMapProvApi.v (C17, 2): the provenance invariant through whole sources and the API.

   [PT] (alignment, every debug entry and the last token are token spans of their source, no
   input pending) holds of [boot] and is kept - in the state a success or an error leaves - by
   [eval] / [compile] of ANY text with any fuel, by [next], [run], [rnext] and the settings. *)
From Xeh Require Import Model.Prelude Model.Bits Model.Codec Model.Cell Model.Lexer Model.Fmt
                        Model.Vm Model.Words Model.Build Model.Boot.
From Xeh Require Import Proofs.LexLoc Proofs.LexBasic Proofs.LexNext Proofs.LexAll Proofs.NoPanicLex.
From Xeh Require Import Proofs.VmFrame Proofs.VmLimits Proofs.DbgMapVm Proofs.DbgMapGen
                        Proofs.DbgMapAlign Proofs.DbgMapProv.

#[local] Arguments Z.add : simpl never.
#[local] Arguments Z.sub : simpl never.
#[local] Arguments Z.mul : simpl never.
#[local] Arguments Z.ltb : simpl never.
#[local] Arguments Z.leb : simpl never.
#[local] Arguments Z.eqb : simpl never.
#[local] Arguments Z.of_nat : simpl never.
#[local] Arguments Z.to_nat : simpl never.

Lemma bind_ok {A B} (m : M A) (f : A -> M B) s b s' :
  bind m f s = ROk b s' -> exists a s1, m s = ROk a s1 /\ f a s1 = ROk b s'.
Proof. unfold bind. destruct (m s) as [a s1|k p s1| |]; try discriminate. eauto. Qed.

(* ---------- a successful build has read all its input ---------- *)
Section Input.
  Variable fo : fops.
  Variable pr : string -> option Z.
  Variable rf : nat.

  Lemma next_token_end_input : forall fuel s s', next_token pr fuel s = ROk BEnd s' -> input s' = [].
  Proof.
    induction fuel as [|f IH]; intros s s' H; cbn [next_token] in H; [discriminate|].
    destruct (input s) as [|il rest] eqn:Ein.
    - injection H as <-. exact Ein.
    - cbv zeta in H. destruct (lex_next_nonws _ _) as [t l']. destruct t; try discriminate.
      + eapply IH. exact H.
      + destruct (pr text); discriminate.
  Qed.

  Lemma build1_ok_input : forall fuel d s u s', build1 fo pr rf fuel d s = ROk u s' -> input s' = [].
  Proof.
    induction fuel as [|f IH]; intros d s u s' H; cbn [build1] in H; [discriminate|].
    apply bind_ok in H. destruct H as (s0 & s0' & H0 & H). injection H0 as <- <-.
    apply bind_ok in H. destruct H as (u1 & s1 & _ & H).
    apply bind_ok in H. destruct H as (t & s2 & Ht & H).
    destruct t as [|name|v].
    - apply bind_ok in H. destruct H as (s3 & s3' & H3 & H). injection H3 as E3 E3'. subst s3 s3'.
      destruct (negb _); [discriminate|]. destruct (has_pending_flow s2); [discriminate|].
      injection H as H. subst s'. eapply next_token_end_input. exact Ht.
    - apply bind_ok in H. destruct H as (s3 & s3' & H3 & H). injection H3 as E3 E3'. subst s3 s3'.
      destruct (top_function_flow s2) as [[[fa fb] ls]|].
      + destruct (rposition ls name 0 None);
          apply bind_ok in H; destruct H as (u4 & s4 & _ & H); eapply IH; exact H.
      + apply bind_ok in H; destruct H as (u4 & s4 & _ & H); eapply IH; exact H.
    - apply bind_ok in H; destruct H as (u4 & s4 & _ & H); eapply IH; exact H.
  Qed.
End Input.

(* ---------- context_close keeps the input and the last token ---------- *)
Definition kin (s s' : state) : Prop :=
  input s' = input s /\ last_tok s' = last_tok s /\ sources s' = sources s.

Lemma kin_refl s : kin s s.
Proof. repeat split. Qed.
Lemma kin_trans a b c : kin a b -> kin b c -> kin a c.
Proof. intros (A1 & A2 & A3) (B1 & B2 & B3). repeat split; congruence. Qed.
Lemma vmrel_kin s s' : vmrel s s' -> kin s s'.
Proof. intros V. destruct (vmrel_keeps _ _ V) as (_ & _ & K3 & K4 & K5 & _). repeat split; assumption. Qed.

Lemma code_emit_kin op s : res_all (kin s) (code_emit op s).
Proof.
  unfold code_emit. cbv zeta. destruct (_ <? _)%nat; [cbn [res_all]; repeat split|].
  destruct (_ =? _)%nat; [cbn [res_all]; repeat split|exact I].
Qed.

Section CloseKin.
  Variable fo : fops.
  Variable rf : nat.

  Lemma run_m_vmrel s : res_all (vmrel s) (run_m fo rf s).
  Proof.
    unfold run_m. pose proof (run_vmrel (nf fo) (native_wl fo) rf s) as H.
    destruct (run (nf fo) rf s); [exact H|exact I].
  Qed.

  Lemma emit_results_kin : forall fuel s, res_all (kin s) (emit_results fuel s).
  Proof.
    induction fuel as [|f IH]; intros s; cbn [emit_results]; [apply kin_refl|].
    destruct (ds_len (cx s) <? length (ds s))%nat; [|apply kin_refl].
    pose proof (wl_frm _ _ wl_pop_data s) as H1.
    destruct (pop_data s) as [v s1|k p s1| |]; cbn [res_all] in *; auto.
    - assert (K1 : kin s s1) by (apply vmrel_kin, vmrel_frm; exact H1).
      unfold code_emit_value. pose proof (code_emit_kin (load_value_opcode v) s1) as H2.
      destruct (code_emit (load_value_opcode v) s1) as [u s2|k p s2| |]; cbn [res_all] in *; auto.
      + specialize (IH s2). destruct (emit_results f s2); cbn [res_all] in *; auto;
          (eapply kin_trans; [exact K1|eapply kin_trans; eassumption]).
      + eapply kin_trans; eassumption.
    - apply vmrel_kin, vmrel_frm; exact H1.
  Qed.

  Lemma context_close_kin : forall s, res_all (kin s) (context_close fo rf s).
  Proof.
    intros s. unfold context_close.
    destruct (nested s) as [|prev rest]; [apply kin_refl|]. cbv zeta.
    pose proof (run_m_vmrel (set_nested s rest)) as H.
    destruct (cmode (cx (set_nested s rest))).
    - cbn [res_all]. repeat split.
    - destruct (run_m fo rf (set_nested s rest)) as [u s1|k p s1| |]; cbn [res_all] in *; auto;
        apply vmrel_kin in H; destruct H as (A1 & A2 & A3); repeat split; assumption.
    - destruct (run_m fo rf (set_nested s rest)) as [u s1|k p s1| |]; cbn [res_all] in *; auto.
      + apply vmrel_kin in H.
        set (s2 := set_dbg (set_code s1 (firstn (cs_len (cx s1)) (code s1))) (firstn (cs_len (cx s1)) (dbg s1))).
        set (s3 := set_dict s2 _).
        assert (K3 : kin s s3) by (destruct H as (A1 & A2 & A3); repeat split; assumption).
        match goal with |- context [if ?b then _ else _] => destruct b end.
        * pose proof (emit_results_kin (S (length (ds s3))) s3) as H4.
          destruct (emit_results (S (length (ds s3))) s3) as [u4 s4|k p s4| |]; cbn [res_all] in *; auto.
          -- destruct (kin_trans _ _ _ K3 H4) as (A1 & A2 & A3). repeat split; assumption.
          -- eapply kin_trans; eassumption.
        * cbn [res_all]. destruct K3 as (A1 & A2 & A3). repeat split; assumption.
      + apply vmrel_kin in H. exact H.
  Qed.
End CloseKin.

(* ---------- changing only the context fields ---------- *)
Lemma PE_ctx s s' :
  code s' = code s -> dbg s' = dbg s -> sources s' = sources s -> last_tok s' = last_tok s ->
  (last_tok s <> None \/ nometa s') -> PE s -> PE s'.
Proof.
  intros E1 E2 E3 E4 Hr (A & B & C & D).
  split; [eapply al_eq; eassumption|]. split; [eapply dbg_ok_eq; eassumption|].
  split; [eapply last_ok_eq; eassumption|].
  destruct Hr as [Hr|Hr]; [left; congruence|right; exact Hr].
Qed.

Section Top.
  Variable fo : fops.
  Variable pr : string -> option Z.
  Variable rf : nat.

  (* the final context_close of a source: with or without a token read *)
  Lemma close_top : forall s, P0 s ->
    match context_close fo rf s with
    | ROk _ s' => PE s' /\ input s' = input s
    | RErr _ _ s' => PE s' /\ input s' = input s
    | _ => True
    end.
  Proof.
    intros s Hs. pose proof (context_close_kin fo rf s) as K.
    destruct (last_tok s) as [t0|] eqn:El.
    - assert (H1 : P1 s) by (split; [exact Hs|congruence]).
      pose proof (prov_close fo rf s H1) as H.
      destruct (context_close fo rf s) as [u s'|k p s'| |]; cbn [res_all] in K; auto.
      + destruct K as (K1 & _). split; [apply P1_PE; exact H|exact K1].
      + destruct K as (K1 & _). split; [exact H|exact K1].
    - destruct Hs as (He & Hi). pose proof He as (Ha & Hd & Hl & [Hr|Hr]); [congruence|].
      destruct Hr as [N1 N2].
      revert K. unfold context_close.
      destruct (nested s) as [|prev rest] eqn:En; [intros _; split; [exact He|reflexivity]|]. cbv zeta.
      inversion N2 as [|x y Np Nr]; subst x y.
      assert (He0 : PE (set_nested s rest)).
      { eapply PE_ctx; [..|exact He]; try reflexivity. right. split; [exact N1|exact Nr]. }
      pose proof (run_m_vmrel fo rf (set_nested s rest)) as V.
      change (cmode (cx (set_nested s rest))) with (cmode (cx s)).
      destruct (cmode (cx s)) eqn:Em; [| |congruence].
      + intros K. cbn [res_all] in K. destruct K as (K1 & _). split; [|exact K1].
        eapply PE_ctx; [..|exact He]; try reflexivity. right. split; [exact Np|exact Nr].
      + assert (X : forall s1, vmrel (set_nested s rest) s1 ->
                      PE (set_cx s1 (if mode_eqb (cmode prev) MEval then set_ctx_ip prev (ip s1) else prev))).
        { intros s1 V1. pose proof (PE_vm _ _ V1 He0) as He1.
          destruct (vmrel_keeps _ _ V1) as (_ & _ & _ & _ & K5 & K6 & _).
          eapply PE_ctx; [..|exact He1]; try reflexivity. right. split.
          - cbn [set_cx cx]. destruct (mode_eqb (cmode prev) MEval); exact Np.
          - cbn [set_cx nested]. rewrite K6. exact Nr. }
        destruct (run_m fo rf (set_nested s rest)) as [u s1|k p s1| |]; cbn [res_all] in *; auto;
          intros K; destruct K as (K1 & _); (split; [apply X; exact V|exact K1]).
  Qed.

  (* ---------- build_unwind ---------- *)
  Lemma nometa_leave : forall fuel depth s, nometa s -> nometa (leave_contexts fuel depth s).
  Proof.
    induction fuel as [|f IH]; intros depth s H; cbn [leave_contexts]; [exact H|].
    destruct (S depth <? length (nested s))%nat; [|exact H].
    destruct (nested s) as [|prev rest] eqn:En; [exact H|].
    apply IH. destruct H as [N1 N2]. rewrite En in N2. inversion N2; subst.
    split; assumption.
  Qed.

  Lemma lastn_0 {A} (l : list A) : lastn 0 l = [].
  Proof. unfold lastn. rewrite Nat.sub_0_r. apply skipn_all. Qed.

  Lemma PE_build_unwind : forall depth inputs dsl heapl s, PE s ->
    PE (build_unwind depth inputs dsl heapl s) /\
    (inputs = 0 -> input (build_unwind depth inputs dsl heapl s) = []) /\
    last_tok (build_unwind depth inputs dsl heapl s) = last_tok s /\
    sources (build_unwind depth inputs dsl heapl s) = sources s.
  Proof.
    intros depth inputs dsl heapl s He. unfold build_unwind. cbv zeta.
    set (s0 := set_input s _).
    set (s1 := leave_contexts _ depth s0).
    destruct (leave_contexts_code (S (length (nested s0))) depth s0) as (A & B & C & D & F).
    fold s1 in A, B, C, D, F.
    assert (R1 : last_tok s <> None \/ nometa s1).
    { destruct He as (_ & _ & _ & [Hr|Hr]); [left; exact Hr|right]. apply nometa_leave. exact Hr. }
    assert (H1 : PE s1) by (eapply PE_ctx; [exact A|exact B|exact C|exact D|exact R1|exact He]).
    set (s2 := set_dbg (set_code s1 _) _).
    assert (H2 : PE s2).
    { destruct H1 as (Ha & Hd & Hl & Hr). split; [apply al_trunc; exact Ha|].
      split; [apply dbg_ok_trunc; exact Hd|]. split; [exact Hl|exact Hr]. }
    set (s5 := set_heap _ _).
    assert (H5 : PE s5) by exact H2.
    assert (I5 : inputs = 0 -> input s5 = []).
    { intros ->. change (input s5) with (input s1). rewrite F. unfold s0. cbn [set_input input]. apply lastn_0. }
    assert (L5 : last_tok s5 = last_tok s) by exact D.
    assert (S5 : sources s5 = sources s) by exact C.
    destruct (nested s5) as [|prev rest] eqn:En; [auto|].
    destruct (depth <? length (prev :: rest))%nat; [|auto].
    split; [|auto].
    eapply PE_ctx; [..|exact H5]; try reflexivity.
    destruct H5 as (_ & _ & _ & [Hr|[N1 N2]]); [left; exact Hr|right].
    rewrite En in N2. inversion N2; subst. split; assumption.
  Qed.

  (* ---------- whole sources ---------- *)
  Theorem PT_build_from_source : forall fuel src m s, m <> MMeta -> PT s ->
    res_all PT (build_from_source fo pr rf fuel src m s).
  Proof.
    intros fuel src m s Hm [He Hin]. unfold build_from_source. cbv zeta.
    change ((context_open m;; intern_source src) s) with
      (intern_source src (set_nested (set_cx s (mkctx
         (if mode_eqb (cmode (cx s)) m then ds_len (cx s) else length (ds s))
         (length (code s)) (length (rs s)) (length (flows s)) (length (loops s))
         (length (special s)) (length (dict s)) (code_origin s) m)) (cx s :: nested s))).
    match goal with |- context [intern_source src ?so] => set (s_o := so) end.
    assert (Ho : PE s_o).
    { eapply PE_ctx; [..|exact He]; try reflexivity.
      destruct He as (_ & _ & _ & [Hr|Hr]); [left; exact Hr|right].
      apply nometa_open with (m := m); [exact Hm|reflexivity|exact Hr]. }
    assert (Hio : inputs_ok s_o).
    { unfold inputs_ok. change (input s_o) with (input s). rewrite Hin. constructor. }
    unfold intern_source.
    match goal with |- context [build1 fo pr rf fuel ?d ?s1] =>
      assert (H1 : P0 s1) by (split; [apply intern_state_PE; exact Ho|apply intern_state_inputs; exact Hio]);
      pose proof (prov_build1 fo pr rf fuel d s1 H1) as H2;
      pose proof (build1_ok_input fo pr rf fuel d s1) as H3;
      destruct (build1 fo pr rf fuel d s1) as [u2 s2|k p s2| |]; auto
    end.
    - pose proof (close_top s2 H2) as H4. specialize (H3 u2 s2 eq_refl).
      destruct (context_close fo rf s2) as [u s'|k p s'| |]; cbn [res_all]; auto;
        destruct H4 as [X1 X2]; (split; [exact X1|congruence]).
    - cbn [res_all]. rewrite Hin. cbn [length].
      destruct (PE_build_unwind (length (nested s)) 0 (length (ds s)) (length (heap s)) s2 H2) as (X1 & X2 & _).
      split; [exact X1|apply X2; reflexivity].
  Qed.

  Theorem PT_eval : forall fuel src s, PT s -> res_all PT (eval fo pr rf fuel src s).
  Proof. intros fuel src s Hs. apply PT_build_from_source; [discriminate|exact Hs]. Qed.

  Theorem PT_compile : forall fuel src s, PT s -> res_all PT (compile fo pr rf fuel src s).
  Proof. intros fuel src s Hs. apply PT_build_from_source; [discriminate|exact Hs]. Qed.
End Top.

(* ---------- machine steps and the API ---------- *)
Lemma PT_boot : PT boot.
Proof.
  split; [|reflexivity]. split; [reflexivity|]. split; [constructor|]. split; [exact I|].
  right. split; [discriminate|constructor].
Qed.

Lemma PT_same s s' :
  code s' = code s -> dbg s' = dbg s -> sources s' = sources s -> last_tok s' = last_tok s ->
  input s' = input s -> cx s' = cx s -> nested s' = nested s -> PT s -> PT s'.
Proof.
  intros E1 E2 E3 E4 E5 E6 E7 [He Hi]. split; [|congruence].
  eapply PE_ctx; [..|exact He]; try assumption.
  destruct He as (_ & _ & _ & [Hr|Hr]); [left; exact Hr|right].
  eapply nometa_eq; [| |exact Hr]; congruence.
Qed.

Section Api.
  Variable fo : fops.
  Variable pr : string -> option Z.

  Theorem reach_PT : forall s, reach fo pr s -> PT s.
  Proof.
    induction 1 as [|s rf bf src s' _ IH E|s rf bf src s' _ IH E|s s' _ IH E|s fuel r s' _ IH E1 E2|s s' _ IH E
                    |s i h k _ IH|s l _ IH].
    - exact PT_boot.
    - exact (res_state_all _ _ _ (PT_eval fo pr rf bf src s IH) E).
    - exact (res_state_all _ _ _ (PT_compile fo pr rf bf src s IH) E).
    - eapply res_state_all; [|exact E]. eapply res_all_vm; [|apply next_vmrel, native_wl].
      intros s2 V. eapply PT_vm; eassumption.
    - pose proof (run_vmrel (native_fn fo) (native_wl fo) fuel s) as H. rewrite E1 in H.
      eapply res_state_all; [|exact E2]. eapply res_all_vm; [|exact H].
      intros s2 V. eapply PT_vm; eassumption.
    - pose proof (rnext_frm s) as H. eapply res_state_all; [|exact E].
      destruct (rnext s); cbn [res_all] in *; auto; (eapply PT_vm; [apply vmrel_frm; exact H|exact IH]).
    - eapply PT_same; [..|exact IH]; reflexivity.
    - eapply PT_same; [..|exact IH]; reflexivity.
  Qed.

  (* the statement in plain terms *)
  Definition entry_ok (s : state) (t : tokref) : Prop :=
    let '(n, a, b) := t in
    exists src, nth_error (sources s) n = Some src /\
                (exists tk, In (tk, a, b) (lex_string src) /\ nonws tk = true) /\
                (valid_utf8 src = true -> a <= b /\ b <= String.length src).

  Lemma tok_ok_entry_ok s t : tok_ok s t -> entry_ok s t.
  Proof.
    destruct t as [[n a] b]. cbn [tok_ok entry_ok]. intros [H1 H2].
    exists (src_of s n). split.
    - unfold src_of. apply nth_error_nth'. exact H1.
    - split; [exact H2|]. intros Hv. destruct H2 as (tk & Hin & _).
      eapply lex_span_inside_full; eassumption.
  Qed.

  Theorem api_prov : forall s, api_reach fo pr s ->
    (forall i t, nth_error (dbg s) i = Some t -> entry_ok s t) /\
    (forall t, last_tok s = Some t -> entry_ok s t) /\
    input s = [].
  Proof.
    intros s H. apply (proj1 (api_reach_iff fo pr s)) in H. apply reach_PT in H.
    destruct H as ((Ha & Hd & Hl & Hr) & Hi). split; [|split; [|exact Hi]].
    - intros i t Hn. apply tok_ok_entry_ok. unfold dbg_ok in Hd. rewrite Forall_forall in Hd.
      apply Hd. eapply nth_error_In. exact Hn.
    - intros t Ht. apply tok_ok_entry_ok. unfold last_ok in Hl. rewrite Ht in Hl. exact Hl.
  Qed.
End Api.
