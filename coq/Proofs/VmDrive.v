(* VmDrive.v: how a program is driven does not change what it does (statements of Props/C15.v). *)
From Xeh Require Import Model.Prelude Model.Bits Model.Codec Model.Cell Model.Lexer Model.Fmt
                        Model.Vm Model.Words Proofs.VmFrame.
Local Notation length := List.length.

#[local] Arguments Z.add : simpl never.
#[local] Arguments Z.sub : simpl never.
#[local] Arguments Z.mul : simpl never.
#[local] Arguments Z.ltb : simpl never.
#[local] Arguments Z.leb : simpl never.
#[local] Arguments Z.eqb : simpl never.
#[local] Arguments Z.of_nat : simpl never.
#[local] Arguments Z.to_nat : simpl never.

(* ---------- next / run are single stepping ---------- *)
Theorem next_is_step : forall nf s,
  next nf s = (if is_running s then fetch_and_run nf s else ROk tt s).
Proof. intros. reflexivity. Qed.

Lemma meter_increase_code : forall s u s1, meter_increase s = ROk u s1 -> code s1 = code s.
Proof.
  intros s u s1 H. rewrite meter_increase_eq in H.
  destruct (mlim s (meter s)); [ discriminate | ]. injection H as _ <-. reflexivity.
Qed.

(* a step that does not panic starts from a running machine *)
Lemma step_ok_running : forall nf s u s', fetch_and_run nf s = ROk u s' -> is_running s = true.
Proof.
  intros nf s u s' H. unfold fetch_and_run in H.
  destruct (meter_increase s) as [v s1| | |] eqn:E; try discriminate.
  rewrite (meter_increase_code _ _ _ E) in H.
  unfold is_running. apply Nat.ltb_lt. apply nth_error_Some.
  destruct (nth_error (code s) (ip s)); [ discriminate | discriminate H ].
Qed.

Theorem run_is_stepping : forall nf n s sn fuel,
  steps nf n s = Some sn -> n < fuel ->
  run nf fuel s = (if is_running sn then run nf (fuel - n) sn else Some (ROk tt sn)).
Proof.
  intros nf n. induction n as [|n IH]; intros s sn fuel H Hlt.
  - cbn [steps] in H. injection H as <-. rewrite Nat.sub_0_r.
    destruct fuel as [|f]; [ lia | ]. cbn [run].
    destruct (is_running s); reflexivity.
  - cbn [steps] in H.
    destruct (fetch_and_run nf s) as [u s1| | |] eqn:E; try discriminate.
    destruct fuel as [|f]; [ lia | ]. cbn [run].
    rewrite (step_ok_running _ _ _ _ E). rewrite E.
    rewrite (IH s1 sn f H ltac:(lia)). reflexivity.
Qed.

(* ---------- recording is transparent ---------- *)
Definition P_log {A} (m : M A) : Prop := forall s, res_map erase_log (m s) = m (erase_log s).

Ltac destruct_state s :=
  destruct s as [d0 h0 c0 g0 so0 in0 st0 rs0 fl0 lo0 sp0 cx0 ne0 me0 il0 hl0 sl0 rl0 ou0 lt0 sg0].

Ltac break_matches :=
  repeat (match goal with
          | |- context [match ?x with _ => _ end] => is_var x; destruct x
          end; cbv beta iota);
  repeat (match goal with
          | |- context [match ?x with _ => _ end] =>
            lazymatch x with context [match _ with _ => _ end] => fail | _ => idtac end;
            destruct x eqn:?
          end; cbv beta iota).

Ltac log_prim :=
  let s := fresh "s" in
  intro s; destruct_state s;
  cbv [push_data pop_data top_data swap_data rot_data over_data push_return pop_return top_frame
       push_loop pop_loop loop_next loop_set_items push_special pop_special get_var set_var
       init_local set_ip next_ip print modify ret fail unsup panic
       add_rstep limit_reached data_depth ip set_ip_raw erase_log res_map
       set_ds set_rs set_loops set_special set_heap set_cx set_rlog set_out set_stopping
       dict heap code dbg sources input ds rs flows loops special cx nested meter insn_limit
       heap_limit stack_limit rlog out last_tok stopping];
  break_matches; reflexivity.

Lemma wl_log : forall A (m : M A), wl m -> P_log m.
Proof.
  induction 1; try (log_prim; fail).
  - (* bind *)
    intro s. unfold bind. rewrite <- (IHwl s).
    destruct (m s) as [a s1 | k p s1 | |]; cbn [res_map]; try reflexivity.
    apply H1.
  - (* get *)
    intro s. unfold bind, get. unfold erase_log at 2. rewrite H1. apply H0.
Qed.

Lemma meter_increase_log : P_log meter_increase.
Proof.
  intro s. destruct_state s. cbv [meter_increase erase_log res_map set_rlog set_meter insn_limit meter
                                  dict heap code dbg sources input ds rs flows loops special cx nested
                                  heap_limit stack_limit rlog out last_tok stopping].
  break_matches; reflexivity.
Qed.

Section WithTable.
  Variable nf : natives.
  Hypothesis Hnf : forall w f, nf w = Some f -> wl f.

  Lemma exec_op_log : forall ip0 op, P_log (exec_op nf ip0 op).
  Proof. intros. apply wl_log. apply wl_exec_op. exact Hnf. Qed.

  Lemma recording_transparent_gen : forall s,
    res_map erase_log (fetch_and_run nf s) = fetch_and_run nf (erase_log s).
  Proof.
    intro s. unfold fetch_and_run.
    rewrite <- (meter_increase_log s).
    change (ip (erase_log s)) with (ip s).
    destruct (meter_increase s) as [u s1 | k p s1 | |]; cbn [res_map]; try reflexivity.
    change (code (erase_log s1)) with (code s1).
    destruct (nth_error (code s1) (ip s)) as [op|]; [ | reflexivity ].
    destruct op; try apply exec_op_log.
    change (dict_entry (erase_log s1) name) with (dict_entry s1 name).
    destruct (dict_entry s1 name) as [e|]; [ | reflexivity ].
    change (set_code (erase_log s1) (list_set (code s1) (ip s) (resolve_op e)))
      with (erase_log (set_code s1 (list_set (code s1) (ip s) (resolve_op e)))).
    rewrite <- (meter_increase_log (set_code s1 (list_set (code s1) (ip s) (resolve_op e)))).
    destruct (meter_increase (set_code s1 (list_set (code s1) (ip s) (resolve_op e))))
      as [u3 s3 | k3 p3 s3 | |]; cbn [res_map]; try reflexivity.
    apply exec_op_log.
  Qed.

  Lemma recording_transparent_run_gen : forall fuel s,
    option_map (res_map erase_log) (run nf fuel s) = run nf fuel (erase_log s).
  Proof.
    induction fuel as [|f IH]; intro s; cbn [run option_map]; [ reflexivity | ].
    change (is_running (erase_log s)) with (is_running s).
    destruct (is_running s); [ | reflexivity ].
    rewrite <- (recording_transparent_gen s).
    destruct (fetch_and_run nf s) as [u s1 | k p s1 | |]; cbn [res_map option_map]; try reflexivity.
    apply IH.
  Qed.
End WithTable.

(* ---------- the statements of C15 ---------- *)
Theorem recording_transparent : forall fo s,
  res_map erase_log (fetch_and_run (native_fn fo) s) = fetch_and_run (native_fn fo) (erase_log s).
Proof. intro fo. apply recording_transparent_gen. apply native_wl. Qed.

Theorem recording_transparent_run : forall fo fuel s,
  option_map (res_map erase_log) (run (native_fn fo) fuel s) = run (native_fn fo) fuel (erase_log s).
Proof. intro fo. apply recording_transparent_run_gen. apply native_wl. Qed.
