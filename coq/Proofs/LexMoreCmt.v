(* Words, whitespace and comments at the level of Lex::next: the exact token and the exact
   lexer state afterwards; where a multi-line comment ends, for all comment bodies. *)
From Xeh Require Import Model.Prelude Model.Bits Model.Cell Model.Lexer Model.Fmt.
From Xeh Require Import Proofs.LexLoc Proofs.LexBasic Proofs.LexNext Proofs.LexNum Proofs.LexAll Proofs.LexPrintInt
  Proofs.LexStr Proofs.LexMoreNum.
From Coq Require Import ZifyBool ZifyNat ZifyN.
Local Open Scope string_scope.

(* ---------- whitespace ---------- *)

Fixpoint all_ws (s : string) : bool :=
  match s with "" => true | String c r => is_ws c && all_ws r end.

Definition next_not_ws (s : string) : bool :=
  match s with "" => true | String c _ => negb (is_ws c) end.

Lemma skip_ws_run : forall w rest n, all_ws w = true -> next_not_ws rest = true ->
  skip_ws (w ++ rest) n = (rest, n + String.length w).
Proof.
  induction w as [|c w IH]; intros rest n Hw Hr.
  - cbn [append String.length]. rewrite Nat.add_0_r. destruct rest as [|c r]; [reflexivity|].
    cbn [next_not_ws] in Hr. cbn [skip_ws]. destruct (is_ws c); [discriminate|reflexivity].
  - cbn [all_ws] in Hw. apply andb_prop in Hw. destruct Hw as [Hc Hw].
    cbn [append skip_ws String.length]. rewrite Hc. rewrite IH by assumption. f_equal. lia.
Qed.

(* a maximal run of whitespace is one TWs token *)
Lemma lex_next_ws l w rest : w <> "" -> all_ws w = true -> next_not_ws rest = true ->
  lrest l = w ++ rest ->
  lex_next l = (TWs, mklex rest (lpos l + String.length w) (lpos l) (llen l)).
Proof.
  intros Hne Hw Hr Hl. rewrite lex_next_unfold. cbv zeta. rewrite Hl.
  rewrite skip_ws_run by assumption. cbn [Nat.add].
  destruct w as [|c w]; [congruence|]. cbn [String.length Nat.ltb Nat.leb]. reflexivity.
Qed.

(* every text splits into its leading whitespace and a rest that does not start with whitespace *)
Lemma ws_split : forall s, exists w r, s = w ++ r /\ all_ws w = true /\ next_not_ws r = true.
Proof.
  induction s as [|c s IH].
  - exists "", "". repeat split.
  - destruct (is_ws c) eqn:Ec.
    + destruct IH as (w & r & E & Hw & Hr). exists (String c w), r. subst s.
      cbn [append all_ws]. rewrite Ec, Hw. repeat split. exact Hr.
    + exists "", (String c s). cbn [append all_ws next_not_ws]. rewrite Ec. repeat split.
Qed.

(* ---------- the word branch ---------- *)

(* does the text enter the numeric branch: a digit, or a sign followed by a digit *)
Definition leads_number (s : string) : bool :=
  match s with
  | String c r =>
    is_digit c ||
    (((byte_of c =? 45)%N || (byte_of c =? 43)%N) &&
     match r with String c2 _ => is_digit c2 | "" => false end)
  | "" => false
  end.

(* what Lex::next does with a non-numeric text once it has been scanned *)
Definition word_tail (l : lexst) (text rest : string) (p4 : nat) : tok * lexst :=
  if String.eqb text "\" then
    let '(r5, n5) := skip_line rest 0 in (TComment, mklex r5 (p4 + n5) (lpos l) (llen l))
  else if String.eqb text "\(" then
    match skip_mlc (S (String.length rest)) rest p4 with
    | Some (r5, p5) => (TComment, mklex r5 p5 (lpos l) (llen l))
    | None => (TErr PUntermComment (lpos l) (llen l), mklex "" (llen l) (lpos l) (llen l))
    end
  else (TWord text, mklex rest p4 (lpos l) (llen l)).

Lemma lex_next_wordlike l c body rest :
  lrest l = String c (body ++ rest) -> (byte_of c < 128)%N -> is_ws c = false ->
  (byte_of c =? 34)%N = false -> (byte_of c =? 124)%N = false ->
  leads_number (String c (body ++ rest)) = false ->
  no_ws body = true -> next_is_ws_or_end rest = true ->
  lex_next l = word_tail l (String c body) rest (lpos l + 1 + String.length body).
Proof.
  intros Hl Ha Hws H34 H124 Hn Hb Hr.
  destruct (ascii_width c Ha) as [Hw _].
  rewrite lex_next_unfold. cbv zeta. rewrite Hl. cbn [skip_ws]. rewrite Hws.
  cbn [Nat.ltb Nat.leb]. rewrite H34. rewrite starts_ldq_false by lia. rewrite H124.
  unfold lex_word. cbv zeta. rewrite Hl, Hw. cbn [str_drop].
  assert (E1 : num_stage1 c (body ++ rest) (lpos l + 1) = (None, "", body ++ rest, lpos l + 1)).
  { unfold num_stage1. cbn [leads_number] in Hn. apply orb_false_elim in Hn. destruct Hn as [N1 N2].
    rewrite N1. destruct ((byte_of c =? 45)%N || (byte_of c =? 43)%N); [|reflexivity].
    cbn [andb] in N2. destruct (body ++ rest) as [|c2 r2]; [reflexivity|]. rewrite N2. reflexivity. }
  rewrite E1. cbn [is0_of]. unfold num_stage2. cbv iota.
  unfold word_finish, word_tail. cbv zeta. cbn [numeric_of negb].
  rewrite scan_word_plain by assumption. cbn [Nat.add]. rewrite Hl.
  replace (lpos l + 1 + String.length body - lpos l) with (S (String.length body)) by lia.
  cbn [str_take]. rewrite str_take_app_length. reflexivity.
Qed.

(* an ordinary word *)
Lemma lex_next_word l c body rest :
  lrest l = String c (body ++ rest) -> (byte_of c < 128)%N -> is_ws c = false ->
  (byte_of c =? 34)%N = false -> (byte_of c =? 124)%N = false ->
  leads_number (String c (body ++ rest)) = false ->
  no_ws body = true -> next_is_ws_or_end rest = true ->
  String.eqb (String c body) "\" = false -> String.eqb (String c body) "\(" = false ->
  let p4 := lpos l + 1 + String.length body in
  lex_next l = (TWord (String c body), mklex rest p4 (lpos l) (llen l)).
Proof.
  intros Hl Ha Hws H34 H124 Hn Hb Hr E1 E2 p4.
  rewrite (lex_next_wordlike l c body rest Hl Ha Hws H34 H124 Hn Hb Hr).
  unfold word_tail. rewrite E1, E2. reflexivity.
Qed.

(* ---------- line comments ---------- *)

Fixpoint no_nl (s : string) : bool :=
  match s with "" => true | String c r => negb (byte_of c =? 10)%N && no_nl r end.

(* nothing, or a line feed, comes next *)
Definition next_is_nl_or_end (s : string) : bool :=
  match s with "" => true | String c _ => (byte_of c =? 10)%N end.

Lemma skip_line_run : forall cm rest n, no_nl cm = true -> next_is_nl_or_end rest = true ->
  skip_line (cm ++ rest) n = (rest, n + String.length cm).
Proof.
  induction cm as [|c cm IH]; intros rest n Hc Hr.
  - cbn [append String.length]. rewrite Nat.add_0_r. destruct rest as [|c r]; [reflexivity|].
    cbn [next_is_nl_or_end] in Hr. cbn [skip_line]. rewrite Hr. reflexivity.
  - cbn [no_nl] in Hc. apply andb_prop in Hc. destruct Hc as [H1 H2].
    cbn [append skip_line String.length]. destruct (byte_of c =? 10)%N; [discriminate|].
    rewrite IH by assumption. f_equal. lia.
Qed.

(* a backslash word starts a comment that runs up to (not including) the next line feed *)
Lemma lex_next_line_comment l cm rest :
  lrest l = "\" ++ cm ++ rest -> next_is_ws_or_end (cm ++ rest) = true ->
  no_nl cm = true -> next_is_nl_or_end rest = true ->
  let p' := lpos l + 1 + String.length cm in
  lex_next l = (TComment, mklex rest p' (lpos l) (llen l)).
Proof.
  intros Hl Hw Hc Hr p'.
  assert (Hl' : lrest l = String "\" ("" ++ (cm ++ rest))) by exact Hl.
  rewrite (lex_next_wordlike l "\" "" (cm ++ rest) Hl' ltac:(reflexivity) eq_refl eq_refl eq_refl eq_refl eq_refl Hw).
  unfold word_tail. cbn [String.eqb Ascii.eqb Bool.eqb]. cbv iota.
  rewrite skip_line_run by assumption. cbn [String.length Nat.add]. subst p'.
  rewrite Nat.add_0_r. reflexivity.
Qed.

(* ---------- multi-line comments ---------- *)

(* a closing marker starts here: whitespace, backslash, ')' and then whitespace or the end *)
Definition closes_here (s : string) : bool :=
  match s with
  | String c (String c1 (String c2 r)) =>
    is_ws c && (byte_of c1 =? 92)%N && (byte_of c2 =? 41)%N && next_is_ws_or_end r
  | _ => false
  end.

(* the first position at which a closing marker starts *)
Fixpoint first_close (s : string) : option nat :=
  match s with
  | "" => None
  | String c r => if closes_here s then Some 0 else option_map S (first_close r)
  end.

(* declarative reading of first_close *)
Lemma first_close_some : forall s i, first_close s = Some i ->
  closes_here (str_drop i s) = true /\ forall j, j < i -> closes_here (str_drop j s) = false.
Proof.
  induction s as [|c r IH]; intros i H; [discriminate|].
  cbn [first_close] in H. destruct (closes_here (String c r)) eqn:Ec.
  - injection H as <-. split; [exact Ec|]. intros j Hj. lia.
  - destruct (first_close r) as [k|] eqn:Ek; [|discriminate]. cbn [option_map] in H. injection H as <-.
    destruct (IH k eq_refl) as [I1 I2]. split; [exact I1|].
    intros j Hj. destruct j as [|j]; [exact Ec|]. cbn [str_drop]. apply I2. lia.
Qed.

Lemma first_close_none : forall s, first_close s = None -> forall j, closes_here (str_drop j s) = false.
Proof.
  induction s as [|c r IH]; intros H j.
  - rewrite str_drop_nil. reflexivity.
  - cbn [first_close] in H. destruct (closes_here (String c r)) eqn:Ec; [discriminate|].
    destruct (first_close r) as [k|] eqn:Ek; [discriminate|].
    destruct j as [|j]; [exact Ec|]. cbn [str_drop]. apply IH. reflexivity.
Qed.

Lemma first_close_unique s i : closes_here (str_drop i s) = true ->
  (forall j, j < i -> closes_here (str_drop j s) = false) -> first_close s = Some i.
Proof.
  intros H1 H2. destruct (first_close s) as [k|] eqn:Ek.
  - destruct (first_close_some s k Ek) as [K1 K2]. f_equal.
    destruct (Nat.lt_trichotomy k i) as [L|[L|L]]; [|exact L|].
    + rewrite (H2 k L) in K1. discriminate.
    + rewrite (K2 i L) in H1. discriminate.
  - rewrite (first_close_none s Ek i) in H1. discriminate.
Qed.

(* what skip_mlc returns, in terms of the first closing marker *)
Definition mlc_result (s : string) (pos : nat) : option (string * nat) :=
  match first_close s with
  | Some i => Some (str_drop (i + 4) s, pos + Nat.min (i + 4) (String.length s))
  | None => None
  end.

Lemma mlc_result_skip c r pos : closes_here (String c r) = false ->
  mlc_result (String c r) pos = mlc_result r (S pos).
Proof.
  intros H. unfold mlc_result. cbn [first_close]. rewrite H.
  destruct (first_close r) as [i|]; cbn [option_map]; [|reflexivity].
  cbn [Nat.add str_drop String.length]. f_equal. f_equal. lia.
Qed.

Lemma closes_here_not_ws c r : is_ws c = false -> closes_here (String c r) = false.
Proof. intros H. destruct r as [|c1 [|c2 r]]; cbn [closes_here]; try reflexivity. rewrite H. reflexivity. Qed.

Lemma skip_mlc_spec_exact : forall f s pos, String.length s < f -> skip_mlc f s pos = mlc_result s pos.
Proof.
  induction f as [|f IH]; intros s pos Hf; [lia|].
  cbn [skip_mlc]. destruct s as [|c r]; [reflexivity|]. cbn [String.length] in Hf.
  destruct (is_ws c) eqn:Ec.
  2:{ rewrite mlc_result_skip by (apply closes_here_not_ws; exact Ec). apply IH. lia. }
  destruct r as [|c1 r1].
  { rewrite mlc_result_skip by reflexivity. apply IH. cbn [String.length]. lia. }
  cbn [String.length] in Hf.
  destruct (byte_of c1 =? 92)%N eqn:E1.
  2:{ rewrite mlc_result_skip.
      - apply IH. cbn [String.length]. lia.
      - destruct r1 as [|c2 r2]; cbn [closes_here]; [reflexivity|]. rewrite E1, andb_false_r. reflexivity. }
  assert (W1 : is_ws c1 = false) by (unfold is_ws; lia).
  destruct r1 as [|c2 r2].
  { rewrite mlc_result_skip by reflexivity.
    rewrite mlc_result_skip by reflexivity.
    replace (pos + 2) with (S (S pos)) by lia. apply IH. cbn [String.length]. lia. }
  cbn [String.length] in Hf.
  destruct (byte_of c2 =? 41)%N eqn:E2.
  2:{ rewrite mlc_result_skip by (cbn [closes_here]; rewrite E2, andb_false_r; reflexivity).
      rewrite mlc_result_skip by (apply closes_here_not_ws; exact W1).
      replace (pos + 2) with (S (S pos)) by lia. apply IH. cbn [String.length]. lia. }
  assert (W2 : is_ws c2 = false) by (unfold is_ws; lia).
  destruct r2 as [|c3 r3].
  { unfold mlc_result. cbn [first_close closes_here next_is_ws_or_end]. rewrite Ec, E1, E2. reflexivity. }
  destruct (is_ws c3) eqn:E3.
  { unfold mlc_result. cbn [first_close closes_here next_is_ws_or_end]. rewrite Ec, E1, E2, E3.
    cbn [andb Nat.add str_drop String.length]. rewrite Nat.min_l by lia. reflexivity. }
  rewrite mlc_result_skip by (cbn [closes_here next_is_ws_or_end]; rewrite E3, andb_false_r; reflexivity).
  rewrite mlc_result_skip by (apply closes_here_not_ws; exact W1).
  rewrite mlc_result_skip by (apply closes_here_not_ws; exact W2).
  replace (pos + 3) with (S (S (S pos))) by lia. apply IH. cbn [String.length] in *. lia.
Qed.

(* the word "\(" opens a comment that ends after the first closing marker - whitespace, "\)",
   whitespace (consumed) or the end of the text; without one the rest of the text is an error *)
Lemma lex_next_mlc l r4 :
  lrest l = "\(" ++ r4 -> next_is_ws_or_end r4 = true ->
  lex_next l =
  match first_close r4 with
  | Some i => (TComment, mklex (str_drop (i + 4) r4) (lpos l + 2 + Nat.min (i + 4) (String.length r4))
                               (lpos l) (llen l))
  | None => (TErr PUntermComment (lpos l) (llen l), mklex "" (llen l) (lpos l) (llen l))
  end.
Proof.
  intros Hl Hw.
  assert (Hl' : lrest l = String "\" ("(" ++ r4)) by exact Hl.
  rewrite (lex_next_wordlike l "\" "(" r4 Hl' ltac:(reflexivity) eq_refl eq_refl eq_refl eq_refl eq_refl Hw).
  unfold word_tail. cbn [String.eqb Ascii.eqb Bool.eqb]. cbv iota.
  rewrite skip_mlc_spec_exact by lia. unfold mlc_result. cbn [String.length].
  destruct (first_close r4) as [i|]; [|reflexivity].
  replace (lpos l + 1 + 1) with (lpos l + 2) by lia. reflexivity.
Qed.

(* ---------- significant tokens ---------- *)

Definition is_blank_tok (t : tok) : bool := match t with TWs | TComment => true | _ => false end.

Definition significant (l : list (tok * nat * nat)) : list (tok * nat * nat) :=
  filter (fun x => negb (is_blank_tok (fst (fst x)))) l.

(* skipping one whitespace / comment token does not change the significant tokens *)
Lemma significant_step r p n t r' p' st' :
  lex_next (mklex r p p n) = (t, mklex r' p' st' n) -> is_blank_tok t = true ->
  significant (lex_from r p n) = significant (lex_from r' p' n).
Proof.
  intros H Hb. rewrite (lex_from_step r p n t r' p' st' n H) by (destruct t; try discriminate; reflexivity).
  unfold significant at 1. cbn [filter fst]. rewrite Hb. reflexivity.
Qed.

(* whitespace in front of a text: any amount, whatever follows *)
Lemma significant_ws w rest p n : all_ws w = true ->
  significant (lex_from (w ++ rest) p n) = significant (lex_from rest (p + String.length w) n).
Proof.
  intros Hw. destruct w as [|c0 w0] eqn:Ew0.
  { cbn [append String.length]. rewrite Nat.add_0_r. reflexivity. }
  rewrite <- Ew0 in *. assert (Hne : w <> "") by (rewrite Ew0; discriminate). clear Ew0.
  destruct (ws_split rest) as (w2 & r2 & -> & Hw2 & Hr2).
  assert (Hall : all_ws (w ++ w2) = true).
  { clear Hne. induction w as [|c w IH]; [exact Hw2|]. cbn [append all_ws] in *.
    apply andb_prop in Hw. destruct Hw as [H1 H2]. rewrite H1. apply IH. exact H2. }
  assert (Hne2 : w ++ w2 <> "") by (destruct w; [congruence|discriminate]).
  assert (E1 : lex_next (mklex (w ++ w2 ++ r2) p p n) =
               (TWs, mklex r2 (p + String.length (w ++ w2)) p n)).
  { apply (lex_next_ws (mklex (w ++ w2 ++ r2) p p n) (w ++ w2) r2 Hne2 Hall Hr2).
    cbn [lrest]. rewrite app_assoc_s. reflexivity. }
  rewrite (significant_step _ _ _ _ _ _ _ E1 eq_refl).
  destruct w2 as [|c2 w2'] eqn:Ew2.
  - cbn [append]. rewrite app_nil_r_s. reflexivity.
  - rewrite <- Ew2 in *. assert (Hne3 : w2 <> "") by (rewrite Ew2; discriminate).
    assert (E2 : lex_next (mklex (w2 ++ r2) (p + String.length w) (p + String.length w) n) =
                 (TWs, mklex r2 (p + String.length w + String.length w2) (p + String.length w) n)).
    { apply (lex_next_ws (mklex (w2 ++ r2) (p + String.length w) (p + String.length w) n) w2 r2 Hne3 Hw2 Hr2).
      reflexivity. }
    rewrite (significant_step _ _ _ _ _ _ _ E2 eq_refl).
    rewrite app_length_s, Nat.add_assoc. reflexivity.
Qed.
