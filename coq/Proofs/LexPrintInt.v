(* printing an integer in the default (decimal) format and lexing the text back *)
From Xeh Require Import Model.Prelude Model.Bits Model.Cell Model.Lexer Model.Fmt.
From Xeh Require Import Proofs.LexLoc Proofs.LexBasic Proofs.LexNext Proofs.LexNum Proofs.LexAll.
From Coq Require Import ZifyBool ZifyNat ZifyN.
Local Open Scope string_scope.

Fixpoint all_dig (s : string) : bool :=
  match s with "" => true | String c r => is_digit c && all_dig r end.

Lemma all_dig_app a b : all_dig (a ++ b) = all_dig a && all_dig b.
Proof. induction a as [|c a IH]; [reflexivity|]. cbn [append all_dig]. rewrite IH. apply andb_assoc. Qed.

Lemma digit_facts c : is_digit c = true ->
  is_ws c = false /\ (byte_of c =? 46)%N = false /\ (byte_of c =? 95)%N = false /\
  (byte_of c =? 34)%N = false /\ (byte_of c =? 226)%N = false /\ (byte_of c =? 124)%N = false /\
  (byte_of c =? 45)%N = false /\ (byte_of c =? 43)%N = false /\ utf8_width c = 1.
Proof.
  unfold is_digit, is_ws, utf8_width. intros H.
  replace (byte_of c <? 128)%N with true by lia. repeat split; lia.
Qed.

(* decimal digit characters *)
Lemma dec_digit d : (0 <= d < 10)%Z ->
  let c := digit_char false (Z.to_N d) in
  is_digit c = true /\ digit_val c = Some (Z.to_N d) /\ (byte_of c =? 48)%N = (d =? 0)%Z.
Proof.
  intros H.
  assert (C : (d = 0 \/ d = 1 \/ d = 2 \/ d = 3 \/ d = 4 \/ d = 5 \/ d = 6 \/ d = 7 \/ d = 8 \/ d = 9)%Z) by lia.
  repeat (destruct C as [->|C]; [vm_compute; auto|]). subst d. vm_compute. auto.
Qed.

Lemma digits_val_app radix : forall x y acc,
  digits_val radix (x ++ y) acc =
  match digits_val radix x acc with Some v => digits_val radix y v | None => None end.
Proof.
  induction x as [|c x IH]; intros y acc; cbn [append digits_val]; [reflexivity|].
  destruct (digit_val c) as [v|]; [|reflexivity].
  destruct (v <? radix)%N; [apply IH|reflexivity].
Qed.

Definition head_is_zero (s : string) : bool :=
  match s with String c _ => (byte_of c =? 48)%N | "" => false end.

Lemma digits_go_10 : forall fuel z acc, (0 <= z < 10 ^ Z.of_nat fuel)%Z -> 0 < fuel ->
  exists ds, digits_go fuel 10 false z acc = ds ++ acc /\ all_dig ds = true /\ ds <> "" /\
             (forall a, digits_val 10 ds a = Some (a * 10 ^ Z.of_nat (String.length ds) + z)%Z) /\
             (z <> 0%Z -> head_is_zero ds = false) /\
             (z = 0%Z -> ds = "0").
Proof.
  induction fuel as [|f IH]; intros z acc Hz Hf; [lia|].
  cbn [digits_go]. cbv zeta.
  assert (Hm : (0 <= z mod 10 < 10)%Z) by (apply Z.mod_pos_bound; lia).
  destruct (dec_digit (z mod 10) Hm) as (D1 & D2 & D3). cbv zeta in D1, D2, D3.
  set (c := digit_char false (Z.to_N (z mod 10))) in *.
  destruct (z / 10 =? 0)%Z eqn:Eq.
  - exists (String c ""). cbn [append all_dig String.length digits_val head_is_zero].
    rewrite D1, D2. replace (Z.to_N (z mod 10) <? 10)%N with true by lia.
    split; [reflexivity|]. split; [reflexivity|]. split; [discriminate|]. split; [|split].
    + intros a. f_equal. change (Z.of_N 10) with 10%Z. rewrite Z2N.id by lia.
      change (10 ^ Z.of_nat 1)%Z with 10%Z. lia.
    + intros Hne. rewrite D3. lia.
    + intros ->. reflexivity.
  - assert (Hq : (0 <= z / 10 < 10 ^ Z.of_nat f)%Z).
    { rewrite Nat2Z.inj_succ, Z.pow_succ_r in Hz by lia. lia. }
    assert (Hf' : 0 < f).
    { destruct f; [|lia]. change (10 ^ Z.of_nat 0)%Z with 1%Z in Hq. lia. }
    destruct (IH (z / 10)%Z (String c acc) Hq Hf') as (ds & E1 & E2 & E3 & E4 & E5 & _).
    exists (ds ++ String c ""). rewrite E1, app_assoc_s. cbn [append].
    split; [reflexivity|]. split; [|split; [|split; [|split]]].
    + rewrite all_dig_app, E2. cbn [all_dig]. rewrite D1. reflexivity.
    + destruct ds; [congruence|discriminate].
    + intros a. rewrite digits_val_app, E4. cbn [digits_val]. rewrite D2.
      replace (Z.to_N (z mod 10) <? 10)%N with true by lia. f_equal.
      change (Z.of_N 10) with 10%Z. rewrite Z2N.id by lia.
      rewrite app_length_s. cbn [String.length]. rewrite Nat2Z.inj_add.
      change (Z.of_nat 1) with 1%Z. rewrite Z.pow_add_r by lia. change (10 ^ 1)%Z with 10%Z.
      pose proof (Z.div_mod z 10). lia.
    + intros _. destruct ds as [|c0 ds0]; [congruence|]. cbn [append head_is_zero].
      apply E5. lia.
    + intros ->. discriminate.
Qed.

Lemma pow10_130 : (two127 < 10 ^ Z.of_nat 130)%Z.
Proof. vm_compute. reflexivity. Qed.

Lemma digits_10 z : (0 <= z <= two127)%Z ->
  exists ds, digits 10 false z = ds /\ all_dig ds = true /\ ds <> "" /\
             digits_val 10 ds 0 = Some z /\
             (z <> 0%Z -> head_is_zero ds = false) /\ (z = 0%Z -> ds = "0").
Proof.
  intros Hz. pose proof pow10_130.
  destruct (digits_go_10 130 z "" ltac:(lia) ltac:(lia)) as (ds & E1 & E2 & E3 & E4 & E5 & E6).
  exists ds. unfold digits. rewrite E1, app_nil_r_s. repeat split; try assumption.
  rewrite E4. f_equal.
Qed.

(* ---------- the lexer on digit strings ---------- *)

Lemma scan_word_digits : forall r n tmp, all_dig r = true ->
  scan_word r n true tmp false = ("", n + String.length r, tmp ++ r, false).
Proof.
  induction r as [|c r IH]; intros n tmp H; cbn [scan_word all_dig String.length] in *.
  - rewrite app_nil_r_s. f_equal. f_equal. f_equal. lia.
  - apply andb_prop in H. destruct H as [H1 H2].
    destruct (digit_facts c H1) as (F1 & F2 & F3 & _). rewrite F1, F2, F3. cbn [negb andb orb].
    rewrite IH by assumption. rewrite app_assoc_s. cbn [append]. f_equal. f_equal. f_equal. lia.
Qed.

Lemma starts_ldq_false c r : (byte_of c =? 226)%N = false -> starts_ldq (String c r) = false.
Proof. intros H. destruct r as [|b [|d r]]; cbn [starts_ldq]; try reflexivity. rewrite H. reflexivity. Qed.

Lemma lex_next_end n s : lex_next (mklex "" n s n) = (TEnd, mklex "" n n n).
Proof. reflexivity. Qed.

(* an unsigned decimal literal *)
Lemma lex_next_digits c r z :
  is_digit c = true -> all_dig r = true -> ((byte_of c =? 48)%N = true -> r = "") ->
  int_from_str_radix (String c r) (if (byte_of c =? 48)%N then 16 else 10) = Some z ->
  let n := String.length (String c r) in
  lex_next (lex_new (String c r)) = (TLit (CInt z), mklex "" n 0 n).
Proof.
  intros Hc Hr H0 Hi n.
  destruct (digit_facts c Hc) as (F1 & F2 & F3 & F4 & F5 & F6 & F7 & F8 & F9).
  rewrite lex_next_unfold. cbv zeta. unfold lex_new. cbn [lrest lpos llen skip_ws]. rewrite F1.
  cbn [Nat.ltb Nat.leb]. rewrite F4, (starts_ldq_false c r F5), F6.
  unfold lex_word. cbv zeta. cbn [lrest lpos llen]. rewrite F9. cbn [str_drop Nat.add].
  unfold num_stage1. rewrite Hc. cbn [is0_of].
  assert (E2 : num_stage2 (byte_of c =? 48)%N (String c "") r 1 = (None, String c "", r, 1)).
  { unfold num_stage2. destruct (byte_of c =? 48)%N; [|reflexivity]. rewrite (H0 eq_refl). reflexivity. }
  rewrite E2. unfold word_finish. cbv zeta. cbn [numeric_of lpos llen lrest].
  rewrite scan_word_digits by assumption. cbn [negb append is0_of]. rewrite Hi.
  cbn [Nat.add]. reflexivity.
Qed.

(* a negative decimal literal *)
Lemma lex_next_neg_digits c r z :
  is_digit c = true -> all_dig r = true -> (byte_of c =? 48)%N = false ->
  int_from_str_radix (String "-" (String c r)) 10 = Some z ->
  let n := String.length (String "-" (String c r)) in
  lex_next (lex_new (String "-" (String c r))) = (TLit (CInt z), mklex "" n 0 n).
Proof.
  intros Hc Hr H0 Hi n.
  rewrite lex_next_unfold. cbv zeta. unfold lex_new. cbn [lrest lpos llen skip_ws].
  change (is_ws "-") with false. cbn [Nat.ltb Nat.leb].
  change (byte_of "-" =? 34)%N with false.
  rewrite (starts_ldq_false "-" (String c r) eq_refl).
  change (byte_of "-" =? 124)%N with false.
  unfold lex_word. cbv zeta. cbn [lrest lpos llen]. change (utf8_width "-") with 1. cbn [str_drop Nat.add].
  unfold num_stage1. change (is_digit "-") with false.
  change ((byte_of "-" =? 45)%N || (byte_of "-" =? 43)%N) with true. cbv iota. rewrite Hc.
  cbn [is0_of]. rewrite H0. unfold num_stage2. cbv iota.
  unfold word_finish. cbv zeta. cbn [numeric_of lpos llen lrest].
  rewrite scan_word_digits by assumption. cbn [negb append is0_of]. rewrite H0, Hi.
  cbn [Nat.add]. reflexivity.
Qed.

Lemma lex_string_one_literal txt v :
  txt <> "" ->
  lex_next (lex_new txt) = (TLit v, mklex "" (String.length txt) 0 (String.length txt)) ->
  lex_string txt = [(TLit v, 0, String.length txt); (TEnd, String.length txt, String.length txt)].
Proof.
  intros Hne H. unfold lex_string.
  destruct txt as [|c r]; [congruence|]. set (n := String.length (String c r)) in *.
  assert (En : n = S (String.length r)) by reflexivity. rewrite En at 1.
  rewrite lex_all_S, H. cbn [is_final lstart lpos]. rewrite lex_all_S, lex_next_end.
  cbn [is_final lstart lpos]. reflexivity.
Qed.

Lemma digit_not_sign c : is_digit c = true -> c <> "-"%char /\ c <> "+"%char.
Proof. intros H. split; intros ->; vm_compute in H; discriminate. Qed.

Lemma in_i128_bounds z : in_i128 z = true -> (- two127 <= z <= two127 - 1)%Z.
Proof. unfold in_i128, i128_min, i128_max. lia. Qed.

Lemma print_read_int : forall z, in_i128 z = true ->
  let txt := fmt_int fmt_default z in
  lex_string txt = [(TLit (CInt z), 0, String.length txt); (TEnd, String.length txt, String.length txt)].
Proof.
  intros z Hz txt. pose proof (in_i128_bounds z Hz) as Hb.
  assert (Et : txt = if (z <? 0)%Z then "-" ++ digits 10 false (- z) else digits 10 false z) by reflexivity.
  assert (P127 : (0 < two127)%Z) by (vm_compute; reflexivity).
  destruct (z <? 0)%Z eqn:Eneg.
  - destruct (digits_10 (- z)%Z ltac:(lia)) as (ds & D1 & D2 & D3 & D4 & D5 & _).
    rewrite D1 in Et. destruct ds as [|c r]; [congruence|].
    cbn [all_dig] in D2. apply andb_prop in D2. destruct D2 as [Dc Dr].
    assert (H0 : (byte_of c =? 48)%N = false) by (apply D5; lia).
    change ("-" ++ String c r) with (String "-" (String c r)) in Et. rewrite Et.
    apply lex_string_one_literal; [discriminate|].
    apply lex_next_neg_digits; try assumption.
    rewrite int_from_str_radix_unfold. cbn [sign_split]. rewrite D4.
    cbv zeta. rewrite Z.opp_involutive, Hz. reflexivity.
  - destruct (digits_10 z ltac:(lia)) as (ds & D1 & D2 & D3 & D4 & D5 & D6).
    rewrite D1 in Et. destruct ds as [|c r]; [congruence|].
    cbn [all_dig] in D2. apply andb_prop in D2. destruct D2 as [Dc Dr].
    rewrite Et. apply lex_string_one_literal; [discriminate|].
    destruct (digit_not_sign c Dc) as [S1 S2].
    destruct (Z.eq_dec z 0) as [->|Hnz].
    + specialize (D6 eq_refl). injection D6 as -> ->. vm_compute. reflexivity.
    + specialize (D5 Hnz). cbn [head_is_zero] in D5.
      apply lex_next_digits; try assumption.
      * rewrite D5. discriminate.
      * rewrite D5. rewrite int_from_str_radix_unfold, sign_split_other by assumption.
        rewrite D4. cbv zeta. rewrite Hz. reflexivity.
Qed.
