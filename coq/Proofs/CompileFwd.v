(* CompileFwd.v: the forward simulation, construct by construct (part 1: blocks, one-cell
   statements, calls, if / if-else, begin-until, begin-repeat, begin-while-repeat). *)
From Xeh Require Import Model.Prelude Model.Bits Model.Codec Model.Cell Model.Lexer Model.Fmt
                        Model.Vm Model.Words Model.Struct
                        Proofs.VmFrame Proofs.CompileSim Proofs.CompileLayout Proofs.CompileStep
                        Proofs.CompileEval.
Local Notation length := List.length.

#[local] Arguments Z.add : simpl never.
#[local] Arguments Z.sub : simpl never.
#[local] Arguments Z.mul : simpl never.
#[local] Arguments Z.ltb : simpl never.
#[local] Arguments Z.leb : simpl never.
#[local] Arguments Z.eqb : simpl never.
#[local] Arguments Z.of_nat : simpl never.
#[local] Arguments Z.to_nat : simpl never.

Section Fwd.
  Variable fo : fops.
  Variable funs : list (nat * list stmt).
  Variable faddr : nat -> nat.
  Variable c : list opcode.
  Notation nf := (native_fn fo).

  (* every function of the program is laid out at its address, followed by Ret; its body is
     well formed and has no pending break (`;` refuses one) *)
  Definition funs_placed : Prop :=
    forall g body, fun_body funs g = Some body ->
      code_at c (faddr g) (lay_block faddr body (faddr g) BNone ++ [ORet]) /\ wf_b body /\ nb_b body.

  Definition Pb_at (f : nat) (b : list stmt) : Prop :=
    forall org bc t s,
      wf_b b -> brk_ok bc b -> code_at c org (lay_block faddr b org bc) ->
      mach c s -> ip s = org -> sim t s ->
      ok nf c s (org + size_block b) bc (sblock fo funs f b t).
  Definition Ps_at (f : nat) (x : stmt) : Prop :=
    forall org bc t s,
      wf_s x -> brk_ok_s bc x -> code_at c org (lay_stmt faddr x org bc) ->
      mach c s -> ip s = org -> sim t s ->
      ok nf c s (org + size_stmt x) bc (sstmt fo funs f x t).
  Definition Pb (f : nat) : Prop := forall b, Pb_at f b.
  Definition Ps (f : nat) : Prop := forall x, Ps_at f x.

  Hypothesis placed : funs_placed.

  Ltac ok_shift := (eapply ok_endp; cycle 1).

  (* ---------- blocks ---------- *)
  Lemma block_step : forall f, Ps f -> Pb f -> Pb (S f).
  Proof.
    intros f HS HB b org bc t s W B C M Hip Hsim.
    destruct b as [|x r].
    - rewrite sblock_nil. cbn [size_block]. rewrite Nat.add_0_r, <- Hip. apply ok_done_here; assumption.
    - rewrite sblock_cons. cbn [lay_block size_block] in *.
      apply code_at_app in C. destruct C as [Cx Cr]. rewrite lay_stmt_length in Cr.
      inversion W as [|x' r' Wx Wr]; subst x' r'.
      assert (Bx : brk_ok_s bc x) by (intro E; specialize (B E); inversion B; assumption).
      assert (Br : brk_ok bc r) by (intro E; specialize (B E); inversion B; assumption).
      pose proof (HS x org bc t s Wx Bx Cx M Hip Hsim) as H.
      destruct (sstmt fo funs f x t) as [t1|t1|k pl p t1| |]; try exact H.
      cbn [ok] in H. destruct H as (s1 & R & M1 & I1 & S1 & K1).
      eapply ok_reach; [exact R|exact K1|].
      rewrite Nat.add_assoc. apply HB; assumption.
  Qed.

  (* ---------- one-cell statements ---------- *)
  Lemma case_Lit : forall f c0 p, Ps_at (S f) (SLit c0 p).
  Proof.
    intros f c0 p org bc t s W B C M Hip Hsim. rewrite sstmt_Lit.
    cbn [lay_stmt] in C. apply code_at_one in C. subst org.
    change (size_stmt (SLit c0 p)) with 1.
    eapply simple_stmt; [apply par_push_data|exact Hsim|exact M|exact C|apply load_value_not_resolve|].
    intro. apply exec_load_value.
  Qed.

  Lemma case_Prim : forall f w p, Ps_at (S f) (SPrim w p).
  Proof.
    intros f w p org bc t s W B C M Hip Hsim. rewrite sstmt_Prim.
    cbn [lay_stmt] in C. apply code_at_one in C. subst org.
    change (size_stmt (SPrim w p)) with 1.
    destruct (native_fn fo w) as [m|] eqn:E; [|exact Logic.I].
    eapply simple_stmt; [eapply native_par; exact E|exact Hsim|exact M|exact C|discriminate|].
    intro. cbn [exec_op]. rewrite E. reflexivity.
  Qed.

  Lemma case_Get : forall f a p, Ps_at (S f) (SGet a p).
  Proof.
    intros f a p org bc t s W B C M Hip Hsim. rewrite sstmt_Get.
    cbn [lay_stmt] in C. apply code_at_one in C. subst org.
    change (size_stmt (SGet a p)) with 1.
    eapply simple_stmt; [apply par_load|exact Hsim|exact M|exact C|discriminate|].
    intro. apply exec_load.
  Qed.

  Lemma case_Set : forall f a p, Ps_at (S f) (SSet a p).
  Proof.
    intros f a p org bc t s W B C M Hip Hsim. rewrite sstmt_Set.
    cbn [lay_stmt] in C. apply code_at_one in C. subst org.
    change (size_stmt (SSet a p)) with 1.
    eapply simple_stmt; [apply par_store|exact Hsim|exact M|exact C|discriminate|].
    intro. apply exec_store.
  Qed.

  Lemma case_LocSet : forall f i p, Ps_at (S f) (SLocSet i p).
  Proof.
    intros f i p org bc t s W B C M Hip Hsim. rewrite sstmt_LocSet.
    cbn [lay_stmt] in C. apply code_at_one in C. subst org.
    change (size_stmt (SLocSet i p)) with 1.
    eapply simple_stmt; [apply par_initlocal|exact Hsim|exact M|exact C|discriminate|].
    intro. apply exec_initlocal.
  Qed.

  Lemma case_LocGet : forall f i p, Ps_at (S f) (SLocGet i p).
  Proof.
    intros f i p org bc t s W B C M Hip Hsim. rewrite sstmt_LocGet.
    cbn [lay_stmt] in C. apply code_at_one in C. subst org.
    change (size_stmt (SLocGet i p)) with 1.
    eapply simple_stmt; [apply par_m_loadlocal|exact Hsim|exact M|exact C|discriminate|].
    intro. apply exec_loadlocal.
  Qed.

  Lemma case_Def : forall f g, Ps_at (S f) (SDef g).
  Proof.
    intros f g org bc t s W B C M Hip Hsim. rewrite sstmt_Def.
    change (size_stmt (SDef g)) with 0. rewrite Nat.add_0_r, <- Hip. apply ok_done_here; assumption.
  Qed.

  Lemma case_Break : forall f, Ps_at (S f) SBreak.
  Proof.
    intros f org bc t s W B C M Hip Hsim. rewrite sstmt_Break.
    rewrite lay_SBreak in C. apply code_at_one in C. subst org.
    cbn [ok]. exists s. split; [apply reaches_refl|]. split; [exact M|]. split; [exact C|].
    split; [|split; [exact Hsim|reflexivity]].
    intro E. specialize (B E). inversion B.
  Qed.

  (* ---------- calls ---------- *)
  Lemma case_Call : forall f g p, Pb f -> Ps_at (S f) (SCall g p).
  Proof.
    intros f g p HB org bc t s W B C M Hip Hsim. rewrite sstmt_Call.
    destruct (fun_body funs g) as [body|] eqn:Eg; [|exact Logic.I].
    destruct (placed g body Eg) as (Cg & Wg & Ng).
    cbn [lay_stmt] in C. apply code_at_one in C. subst org.
    change (size_stmt (SCall g p)) with 1.
    destruct (call_to nf c s t (faddr g) M Hsim C) as (t1 & s1 & Ep & F & M1 & I1 & S1 & K1).
    unfold run_m at 1. rewrite Ep.
    apply code_at_app in Cg. destruct Cg as [Cb Cr]. rewrite lay_block_length in Cr. apply code_at_one in Cr.
    pose proof (HB body (faddr g) BNone t1 s1 Wg (fun _ => Ng) Cb M1 I1 S1) as H.
    assert (R1 : reaches nf s s1) by (eapply reaches_step; [exact F|apply reaches_refl]).
    destruct (sblock fo funs f body t1) as [t2|t2|k pl p' t2| |]; cbn [ok] in H |- *; auto.
    - destruct H as (s2 & R2 & M2 & I2 & S2 & K2).
      rewrite <- I2 in Cr. rewrite K1 in K2.
      pose proof (ret_to nf c s2 t2 _ _ _ M2 S2 Cr K2) as H3.
      unfold run_m. destruct (pop_return t2) as [fr t3|k pl t3| |]; cbn [ok]; try contradiction.
      + destruct H3 as (s3 & F3 & M3 & I3 & S3 & K3). exists s3.
        split; [eapply reaches_trans; [exact R1|eapply reaches_trans; [exact R2|eapply reaches_step; [exact F3|apply reaches_refl]]]|].
        split; [exact M3|]. split; [lia|]. split; [exact S3|exact K3].
      + destruct H3 as (s3 & F3 & S3). exists s2, s3.
        split; [eapply reaches_trans; eassumption|]. split; [exact M2|]. split; assumption.
    - destruct H as (s2 & _ & _ & _ & Hne & _). contradiction Hne. reflexivity.
    - destruct H as (sN & s' & RN & MN & FN & SN). exists sN, s'.
      split; [eapply reaches_trans; eassumption|]. split; [exact MN|]. split; assumption.
  Qed.

  (* ---------- if ... then ---------- *)
  Lemma case_If : forall f p t0, Pb f -> Ps_at (S f) (SIf p t0).
  Proof.
    intros f p t0 HB org bc t s W B C M Hip Hsim. rewrite sstmt_If.
    rewrite lay_SIf in C. apply code_at_cons in C. destruct C as [C0 C1].
    rewrite size_SIf. inversion W; subst.
    assert (Bt : brk_ok bc t0) by (intro E; specialize (B E); inversion B; assumption).
    eapply step_run_m; [apply par_m_test|exact Hsim|exact M|exact C0|discriminate|intro; apply exec_jumpifnot|].
    intros b t1 s1 Em S1 A1 F. destruct b; cbn [negb] in F.
    - destruct (cont_next c s s1 t1 A1 S1) as (s2 & E2 & M2 & I2 & S2 & K2). rewrite E2 in F.
      eapply ok_step; [exact F|exact K2|].
      ok_shift. { apply (HB t0 (S (ip s)) bc t1 s2); assumption. } lia.
    - destruct (cont_goto c s s1 t1 (jump_target (ip s) (Z.of_nat (1 + size_block t0))) A1 S1)
        as (s2 & E2 & M2 & I2 & S2 & K2). rewrite E2 in F.
      eapply ok_step; [exact F|exact K2|].
      ok_shift. { apply ok_done_here; eassumption. } rewrite I2, jt_fwd. lia.
  Qed.

  (* ---------- if ... else ... then ---------- *)
  Lemma case_IfE : forall f p t0 e0, Pb f -> Ps_at (S f) (SIfE p t0 e0).
  Proof.
    intros f p t0 e0 HB org bc t s W B C M Hip Hsim. rewrite sstmt_IfE.
    rewrite lay_SIfE in C. apply code_at_app in C. destruct C as [C0 C2].
    apply code_at_cons in C0. destruct C0 as [C0 C1].
    cbn [length] in C2. rewrite lay_block_length in C2.
    apply code_at_cons in C2. destruct C2 as [C2 C3].
    rewrite size_SIfE. inversion W; subst.
    assert (Bt : brk_ok bc t0) by (intro E; specialize (B E); inversion B; assumption).
    assert (Be : brk_ok bc e0) by (intro E; specialize (B E); inversion B; assumption).
    eapply step_run_m; [apply par_m_test|exact Hsim|exact M|exact C0|discriminate|intro; apply exec_jumpifnot|].
    intros b t1 s1 Em S1 A1 F. destruct b; cbn [negb] in F.
    - destruct (cont_next c s s1 t1 A1 S1) as (s2 & E2 & M2 & I2 & S2 & K2). rewrite E2 in F.
      eapply ok_step; [exact F|exact K2|].
      eapply ok_then_jump with (e := ip s + S (size_block t0)); [|exact C2|rewrite jt_fwd; lia].
      ok_shift. { apply (HB t0 (S (ip s)) bc t1 s2); assumption. } lia.
    - destruct (cont_goto c s s1 t1 (jump_target (ip s) (Z.of_nat (2 + size_block t0))) A1 S1)
        as (s2 & E2 & M2 & I2 & S2 & K2). rewrite E2 in F.
      eapply ok_step; [exact F|exact K2|].
      rewrite jt_fwd in I2.
      replace (S (ip s + S (size_block t0))) with (ip s + 2 + size_block t0) in C3 by lia.
      ok_shift. { apply (HB e0 (ip s + 2 + size_block t0) bc t1 s2); try assumption. lia. } lia.
  Qed.

  (* ---------- begin ... until ---------- *)
  Lemma case_Until : forall f b0 p, Pb f -> Ps f -> Ps_at (S f) (SUntil b0 p).
  Proof.
    intros f b0 p HB HS org bc t s W B C M Hip Hsim. rewrite sstmt_Until.
    pose proof C as Call.
    rewrite lay_SUntil in C. apply code_at_app in C. destruct C as [C0 C1].
    rewrite lay_block_length in C1. apply code_at_one in C1.
    rewrite size_SUntil. inversion W; subst.
    pose proof (HB b0 (ip s) BNone t s ltac:(assumption) ltac:(intro; assumption) C0 M eq_refl Hsim) as H.
    destruct (sblock fo funs f b0 t) as [t1|t1|k pl p' t1| |]; cbn [ok] in H |- *; auto.
    - destruct H as (s1 & R1 & M1 & I1 & S1 & K1).
      eapply ok_reach; [exact R1|exact K1|].
      rewrite <- I1 in C1.
      eapply step_run_m; [apply par_m_test|exact S1|exact M1|exact C1|discriminate|intro; apply exec_jumpifnot|].
      intros b t2 s2 Em S2 A2 F. destruct b; cbn [negb] in F.
      + destruct (cont_next c s1 s2 t2 A2 S2) as (s3 & E3 & M3 & I3 & S3 & K3). rewrite E3 in F.
        eapply ok_step; [exact F|exact K3|].
        ok_shift. { apply ok_done_here; eassumption. } lia.
      + destruct (cont_goto c s1 s2 t2 (jump_target (ip s1) (- Z.of_nat (size_block b0))%Z) A2 S2)
          as (s3 & E3 & M3 & I3 & S3 & K3). rewrite E3 in F.
        eapply ok_step; [exact F|exact K3|].
        rewrite jt_back in I3 by lia.
        ok_shift. { apply (HS (SUntil b0 p) (ip s) bc t2 s3); try assumption. lia. }
        rewrite size_SUntil. reflexivity.
    - destruct H as (s2 & _ & _ & _ & Hne & _). contradiction Hne. reflexivity.
  Qed.

  (* ---------- begin ... repeat ---------- *)
  Lemma case_Repeat : forall f b0, Pb f -> Ps f -> Ps_at (S f) (SRepeat b0).
  Proof.
    intros f b0 HB HS org bc t s W B C M Hip Hsim. rewrite sstmt_Repeat.
    pose proof C as Call.
    rewrite lay_SRepeat in C. apply code_at_app in C. destruct C as [C0 C1].
    rewrite lay_block_length in C1. apply code_at_one in C1.
    rewrite size_SRepeat. inversion W; subst.
    pose proof (HB b0 (ip s) (BJump (ip s + size_block b0 + 1)) t s ltac:(assumption)
                   ltac:(intro; discriminate) C0 M eq_refl Hsim) as H.
    destruct (sblock fo funs f b0 t) as [t1|t1|k pl p' t1| |]; cbn [ok] in H; auto.
    - destruct H as (s1 & R1 & M1 & I1 & S1 & K1).
      eapply ok_reach; [exact R1|exact K1|].
      rewrite <- I1 in C1.
      destruct (jump_to nf c s1 t1 _ M1 S1 C1) as (s2 & F & M2 & I2 & S2 & K2).
      eapply ok_step; [exact F|exact K2|].
      rewrite jt_back in I2 by lia.
      ok_shift. { apply (HS (SRepeat b0) (ip s) bc t1 s2); try assumption. lia. }
      rewrite size_SRepeat. reflexivity.
    - destruct H as (s1 & R1 & M1 & C2 & _ & S1 & K1). cbn [brk_op] in C2.
      eapply ok_reach; [exact R1|exact K1|].
      destruct (jump_to nf c s1 t1 _ M1 S1 C2) as (s2 & F & M2 & I2 & S2 & K2).
      eapply ok_step; [exact F|exact K2|].
      rewrite jt_rel in I2.
      ok_shift. { apply ok_done_here; eassumption. } lia.
  Qed.

  (* ---------- begin ... while ... repeat ---------- *)
  Lemma case_While : forall f c0 p b0, Pb f -> Ps f -> Ps_at (S f) (SWhile c0 p b0).
  Proof.
    intros f c0 p b0 HB HS org bc t s W B C M Hip Hsim. rewrite sstmt_While.
    pose proof C as Call.
    rewrite lay_SWhile in C. cbv zeta in C.
    apply code_at_app in C. destruct C as [C0 C1]. rewrite lay_block_length in C1.
    apply code_at_app in C1. destruct C1 as [C1 C3]. cbn [length] in C3. rewrite lay_block_length in C3.
    apply code_at_cons in C1. destruct C1 as [C1 C2]. apply code_at_one in C3.
    rewrite size_SWhile. inversion W; subst.
    set (endp := ip s + size_block c0 + 1 + size_block b0 + 1) in *.
    pose proof (HB c0 (ip s) (BJump endp) t s ltac:(assumption)
                   ltac:(intro; discriminate) C0 M eq_refl Hsim) as H.
    destruct (sblock fo funs f c0 t) as [t1|t1|k pl p' t1| |]; cbn [ok] in H; auto.
    - destruct H as (s1 & R1 & M1 & I1 & S1 & K1).
      eapply ok_reach; [exact R1|exact K1|].
      rewrite <- I1 in C1.
      eapply step_run_m; [apply par_m_test|exact S1|exact M1|exact C1|discriminate|intro; apply exec_jumpifnot|].
      intros go t2 s2 Em S2 A2 F. destruct go; cbn [negb] in F.
      + destruct (cont_next c s1 s2 t2 A2 S2) as (s3 & E3 & M3 & I3 & S3 & K3). rewrite E3 in F.
        eapply ok_step; [exact F|exact K3|].
        replace (S (ip s + size_block c0)) with (ip s + size_block c0 + 1) in C2 by lia.
        pose proof (HB b0 (ip s + size_block c0 + 1) (BJump endp) t2 s3 ltac:(assumption)
                       ltac:(intro; discriminate) C2 M3 ltac:(lia) S3) as H2.
        destruct (sblock fo funs f b0 t2) as [t3|t3|k pl p' t3| |]; cbn [ok] in H2; auto.
        * destruct H2 as (s4 & R4 & M4 & I4 & S4 & K4).
          eapply ok_reach; [exact R4|exact K4|].
          replace (ip s + size_block c0 + S (size_block b0)) with (ip s4) in C3 by lia.
          destruct (jump_to nf c s4 t3 _ M4 S4 C3) as (s5 & F5 & M5 & I5 & S5 & K5).
          eapply ok_step; [exact F5|exact K5|].
          rewrite jt_back in I5 by lia.
          ok_shift. { apply (HS (SWhile c0 p b0) (ip s) bc t3 s5); try assumption. lia. }
          rewrite size_SWhile. reflexivity.
        * destruct H2 as (s4 & R4 & M4 & C4 & _ & S4 & K4). cbn [brk_op] in C4.
          eapply ok_reach; [exact R4|exact K4|].
          destruct (jump_to nf c s4 t3 _ M4 S4 C4) as (s5 & F5 & M5 & I5 & S5 & K5).
          eapply ok_step; [exact F5|exact K5|].
          rewrite jt_rel in I5.
          ok_shift. { apply ok_done_here; eassumption. } rewrite I5. unfold endp. lia.
      + destruct (cont_goto c s1 s2 t2 (jump_target (ip s1) (Z.of_nat (size_block b0 + 2))) A2 S2)
          as (s3 & E3 & M3 & I3 & S3 & K3). rewrite E3 in F.
        eapply ok_step; [exact F|exact K3|].
        rewrite jt_fwd in I3.
        ok_shift. { apply ok_done_here; eassumption. } unfold endp. lia.
    - destruct H as (s1 & R1 & M1 & C4 & _ & S1 & K1). cbn [brk_op] in C4.
      eapply ok_reach; [exact R1|exact K1|].
      destruct (jump_to nf c s1 t1 _ M1 S1 C4) as (s2 & F & M2 & I2 & S2 & K2).
      eapply ok_step; [exact F|exact K2|].
      rewrite jt_rel in I2.
      ok_shift. { apply ok_done_here; eassumption. } rewrite I2. unfold endp. lia.
  Qed.
End Fwd.
