(* CursorFrame.v: C06 (b) as the plain frame property: a parsing word that fails - with ANY
   error kind, the data-stack limit included - leaves the heap (input, offset, stash, byte order,
   output) untouched and the data stack equal to the original minus the popped arguments.
   (With the former order "advance, then push" a push refused by the stack limit left the
   offset moved; the words now push first.) *)
From Xeh Require Import Model.Prelude Model.Bits Model.Codec Model.Cell Model.Lexer Model.Fmt
                        Model.Vm Model.Words Model.Boot.
From Xeh Require Import Proofs.BitsBasic Proofs.VmStep Proofs.CursorDefs Proofs.CursorProofs
                        Proofs.CursorWords Proofs.CursorTable Proofs.CursorProgress.
Local Notation length := List.length.

Lemma behaves_err r (Q : state -> Prop) (E : ekind -> state -> Prop) k p s' :
  behaves r Q E -> r = RErr k p s' -> E k s'.
Proof. intros H ->. exact H. Qed.

Lemma fail_frame_mono a b s s' : a <= b -> fail_frame a s s' -> fail_frame b s s'.
Proof.
  intros Hab (Hh & Hs & args & Ha & Hl). split; [exact Hh|]. split; [exact Hs|].
  exists args. split; [exact Ha|lia].
Qed.

(* what the frame means for the cursor *)
Lemma fail_frame_cursor ar s s' inp off :
  cursor s inp off -> fail_frame ar s s' ->
  cursor s' inp off /\ h_input (heap s') = Some inp /\ h_offset (heap s') = Some off /\
  h_stash (heap s') = h_stash (heap s).
Proof.
  intros (Hm & Hc) (Hh & Hs & _). rewrite Hh.
  split; [split; [eapply sim_notmeta; eauto|rewrite Hh; exact Hc]|].
  destruct Hc as (_ & Hi & Ho & _). auto.
Qed.

(* a word all of whose failures are frames popping at most [ar] arguments *)
Definition frame_word (ar : nat) (f : M unit) : Prop :=
  forall s inp off k p s', cursor s inp off -> f s = RErr k p s' -> fail_frame ar s s'.

Lemma frame_of_behaves ar (f : M unit) :
  (forall s inp off, cursor s inp off -> exists Q, behaves (f s) Q (fun _ => fail_frame ar s)) ->
  frame_word ar f.
Proof.
  intros H s inp off k p s' Hcur Hrun. destruct (H s inp off Hcur) as (Q & Hb).
  exact (behaves_err _ _ _ k p s' Hb Hrun).
Qed.

Ltac frame_by lem := apply frame_of_behaves; intros s inp off Hcur; eexists; apply (lem s inp off Hcur).

Lemma frame_bits : frame_word 1 (with_size read_bits).
Proof. frame_by bits_word. Qed.
Lemma frame_bytes : frame_word 1 (with_size (fun n => read_bits (n * 8))).
Proof. frame_by bytes_word. Qed.
Lemma frame_unsigned n o : frame_word 0 (read_unsigned n o).
Proof. apply frame_of_behaves; intros s inp off Hcur; eexists; apply (unsigned_word s inp off Hcur n o). Qed.
Lemma frame_signed n o : frame_word 0 (read_signed n o).
Proof. apply frame_of_behaves; intros s inp off Hcur; eexists; apply (signed_word s inp off Hcur n o). Qed.
Lemma frame_float fo n o : frame_word 0 (read_float fo n o).
Proof. apply frame_of_behaves; intros s inp off Hcur; eexists; apply (float_word s inp off Hcur fo n o). Qed.
Lemma frame_unsigned_cur n : frame_word 0 (with_order (read_unsigned n)).
Proof. apply frame_of_behaves; intros s inp off Hcur; eexists; apply (unsigned_cur_word s inp off Hcur n). Qed.
Lemma frame_signed_cur n : frame_word 0 (with_order (read_signed n)).
Proof. apply frame_of_behaves; intros s inp off Hcur; eexists; apply (signed_cur_word s inp off Hcur n). Qed.
Lemma frame_float_cur fo n : frame_word 0 (with_order (read_float fo n)).
Proof. apply frame_of_behaves; intros s inp off Hcur; eexists; apply (float_cur_word s inp off Hcur fo n). Qed.
Lemma frame_uint : frame_word 1 (with_size (fun n => with_order (read_unsigned n))).
Proof. frame_by uint_word. Qed.
Lemma frame_int : frame_word 1 (with_size (fun n => with_order (read_signed n))).
Proof. frame_by int_word. Qed.
Lemma frame_floatn fo : frame_word 1 (with_size (fun n => with_order (read_float fo n))).
Proof. apply frame_of_behaves; intros s inp off Hcur; eexists; apply (floatn_word s inp off Hcur fo). Qed.
Lemma frame_magic : frame_word 1 w_magic.
Proof. frame_by magic_word'. Qed.
Lemma frame_nulbytestr : frame_word 0 w_nulbytestr.
Proof. frame_by nulbytestr_word'. Qed.
Lemma frame_cstr : frame_word 0 w_cstr.
Proof. frame_by cstr_word'. Qed.
Lemma frame_seek : frame_word 1 w_seek.
Proof. frame_by seek_word'. Qed.
Lemma frame_remain : frame_word 0 w_remain.
Proof. frame_by remain_word'. Qed.
Lemma frame_find : frame_word 1 w_find.
Proof. frame_by find_word'. Qed.

Lemma frame_word_mono a b f : a <= b -> frame_word a f -> frame_word b f.
Proof. intros Hab H s inp off k p s' Hcur Hrun. eapply fail_frame_mono; eauto. Qed.

(* every parsing word except open-bitstr / close-bitstr, by name *)
Theorem plain_table_frame : forall fo, Forall (fun nw => frame_word 1 (snd nw)) (plain_table fo).
Proof.
  intro fo. unfold plain_table.
  repeat (apply Forall_cons;
          [ cbn [snd];
            first [ apply frame_bits | apply frame_bytes | apply frame_uint | apply frame_int
                  | apply frame_floatn | apply frame_magic | apply frame_seek | apply frame_find
                  | apply (frame_word_mono 0 1); [lia|];
                    first [ apply frame_nulbytestr | apply frame_cstr | apply frame_remain
                          | apply frame_unsigned | apply frame_signed | apply frame_float
                          | apply frame_unsigned_cur | apply frame_signed_cur | apply frame_float_cur ] ] | ]).
  apply Forall_nil.
Qed.

(* the same, spelled out: after any failure of any of these words the heap is the same heap,
   hence input and offset are what they were, and at most one argument is gone *)
Theorem plain_table_fail_keeps : forall fo,
  Forall (fun nw => forall s inp off k p s', cursor s inp off -> snd nw s = RErr k p s' ->
            heap s' = heap s /\ h_input (heap s') = Some inp /\ h_offset (heap s') = Some off /\
            cursor s' inp off /\ sim s s' /\
            exists args, ds s = (args ++ ds s')%list /\ length args <= 1)
         (plain_table fo).
Proof.
  intro fo. pose proof (plain_table_frame fo) as H. eapply Forall_impl; [|exact H].
  intros nw Hf s inp off k p s' Hcur Hrun. pose proof (Hf s inp off k p s' Hcur Hrun) as Hfr.
  destruct (fail_frame_cursor _ _ _ _ _ Hcur Hfr) as (Hc' & Hi & Ho & _).
  destruct Hfr as (Hh & Hs & Hargs). auto 10.
Qed.

(* the reading cores, for every width and order *)
Theorem fail_keeps_offset : forall s inp off k p s', cursor s inp off ->
  (forall n, read_bits n s = RErr k p s' -> fail_frame 0 s s') /\
  (forall n o, read_unsigned n o s = RErr k p s' -> fail_frame 0 s s') /\
  (forall n o, read_signed n o s = RErr k p s' -> fail_frame 0 s s') /\
  (forall fo n o, read_float fo n o s = RErr k p s' -> fail_frame 0 s s').
Proof.
  intros s inp off k p s' Hcur. split; [|split; [|split]].
  - intros n Hrun.
    assert (Hwp : wp (read_bits n) s (fun _ _ => True) (EF s 0) False).
    { eapply wp_conseq; [apply (read_bits_core s inp off Hcur n s (ds s) [] 0); eauto using st_init|auto|auto|auto]. }
    unfold wp in Hwp. rewrite Hrun in Hwp. exact Hwp.
  - intros n o Hrun. exact (frame_unsigned n o s inp off k p s' Hcur Hrun).
  - intros n o Hrun. exact (frame_signed n o s inp off k p s' Hcur Hrun).
  - intros fo n o Hrun. exact (frame_float fo n o s inp off k p s' Hcur Hrun).
Qed.

Theorem fail_keeps_offset_unsigned : forall n o s inp off k p s', cursor s inp off ->
  read_unsigned n o s = RErr k p s' ->
  h_offset (heap s') = Some off /\ h_input (heap s') = Some inp.
Proof.
  intros n o s inp off k p s' Hcur Hrun.
  pose proof (frame_unsigned n o s inp off k p s' Hcur Hrun) as Hfr.
  destruct (fail_frame_cursor _ _ _ _ _ Hcur Hfr) as (_ & Hi & Ho & _). auto.
Qed.

(* the former counterexample: the stack (one cell) is at its limit (1); u8be is refused with
   the limit error and NOTHING has changed - the state left behind is the state before *)
Definition lim_state : state :=
  mkstate [] [CInt 0; CBits (mkcbs 3 19 [171; 205; 239]%N); CInt 3; CVec []; CNil; CInt 0]
          [] [] [] [] [CInt 7] [] [] [] [] ctx0 [] 0%Z None None (Some 1%Z) None EmptyString None false.

Lemma lim_state_cursor : cursor lim_state (mkcbs 3 19 [171; 205; 239]%N) 3.
Proof.
  split; [reflexivity|]. unfold hcursor. cbn [lim_state heap].
  split; [cbn; lia|]. split; [reflexivity|]. split; [reflexivity|]. split.
  - split; [cbn; lia|]. split; [cbn; lia|]. repeat constructor.
  - split; [reflexivity|]. cbn. lia.
Qed.

Example limit_keeps_offset :
  read_unsigned 8 Big lim_state = RErr ELimit None lim_state /\
  h_offset (heap lim_state) = Some 3%Z.
Proof. split; [vm_compute; reflexivity|reflexivity]. Qed.

(* all parsing words, open-bitstr / close-bitstr included, on the full invariant *)
Theorem cursor_table_frame : forall fo,
  Forall (fun nw => forall s k p s', cur_inv s -> snd nw s = RErr k p s' -> fail_frame 1 s s')
         (cursor_table fo).
Proof.
  intro fo. unfold cursor_table. constructor; [|constructor].
  - cbn [snd]. intros s k p s' ((inp & off & Hcur) & (v & Hv & _) & _) Hrun.
    pose proof (open_word s inp off Hcur v Hv) as H. unfold wp in H. rewrite Hrun in H. exact H.
  - cbn [snd]. intros s k p s' ((inp & off & Hcur) & (v & Hv & _) & _) Hrun.
    pose proof (close_word s inp off Hcur v Hv) as H. unfold wp in H. rewrite Hrun in H.
    destruct H as (_ & H). eapply fail_frame_mono; [|exact H]. lia.
  - pose proof (plain_table_frame fo) as H. eapply Forall_impl; [|exact H].
    intros nw Hf s k p s' ((inp & off & Hcur) & _) Hrun. exact (Hf s inp off k p s' Hcur Hrun).
Qed.

(* why open-bitstr is stated on [cur_inv] and not on [cursor] alone: if the stash cell did not
   hold a vector (no word and no named variable can make it so: heap cell 3 has no dictionary
   name), open-bitstr would fail with a type error AFTER replacing input and offset *)
Example open_needs_stash_vector :
  let s := mkstate [] [CInt 0; CBits (mkcbs 0 8 [255]%N); CInt 2; CNil; CNil; CInt 0]
                   [] [] [] [] [CBits (mkcbs 0 16 [1; 2]%N)] [] [] [] [] ctx0 [] 0%Z None None None None
                   EmptyString None false in
  cursor s (mkcbs 0 8 [255]%N) 2 /\ ~ cur_inv s /\
  exists s', w_open_bitstr s = RErr EType (Some CNil) s' /\ h_offset (heap s') = Some 0%Z /\
             h_input (heap s') = Some (mkcbs 0 16 [1; 2]%N).
Proof.
  cbv zeta. split; [|split].
  - split; [reflexivity|]. unfold hcursor. cbn [heap].
    split; [cbn; lia|]. split; [reflexivity|]. split; [reflexivity|]. split.
    + split; [cbn; lia|]. split; [cbn; lia|]. repeat constructor.
    + split; [reflexivity|]. cbn. lia.
  - intros (_ & (v & Hv & _) & _). discriminate Hv.
  - eexists. split; [vm_compute; reflexivity|]. split; reflexivity.
Qed.
