(* CompileLoop.v: facts about the structural evaluator alone:
   - a tree without a pending `break` never returns [SBroke];
   - begin ... repeat without a `break` of its own never returns [SDone];
   - the loop stack: whatever a tree does, the records below the top one are untouched and
     the depth is restored; a finished do ... loop leaves the loop stack exactly as it was. *)
From Xeh Require Import Model.Prelude Model.Bits Model.Codec Model.Cell Model.Lexer Model.Fmt
                        Model.Vm Model.Words Model.Struct
                        Proofs.VmFrame Proofs.CompileSim Proofs.CompileLayout Proofs.CompileStep
                        Proofs.CompileEval Proofs.CompileProg.
Local Notation length := List.length.

#[local] Arguments Z.add : simpl never.
#[local] Arguments Z.sub : simpl never.
#[local] Arguments Z.mul : simpl never.
#[local] Arguments Z.ltb : simpl never.
#[local] Arguments Z.leb : simpl never.
#[local] Arguments Z.eqb : simpl never.
#[local] Arguments Z.of_nat : simpl never.
#[local] Arguments Z.to_nat : simpl never.

(* ---------- the loop stack under the shared programs ---------- *)
Definition lrel (a b : list loopr) : Prop := length a = length b /\ tl a = tl b.

Lemma lrel_refl : forall a, lrel a a.
Proof. intro a. split; reflexivity. Qed.
Lemma lrel_trans : forall a b c, lrel a b -> lrel b c -> lrel a c.
Proof. intros a b c [H1 H2] [H3 H4]. split; congruence. Qed.
Lemma lrel_cons : forall a x L, lrel a (x :: L) -> exists y, a = y :: L.
Proof. intros a x L [H1 H2]. destruct a as [|y a']; [discriminate|]. cbn in H2. subst a'. eauto. Qed.

Definition lk {A} (m : M A) : Prop :=
  forall s a s', m s = ROk a s' -> lrel (loops s') (loops s).

Lemma lk_ret : forall A (a : A), lk (ret a).
Proof. intros A a s b s' H. injection H as _ <-. apply lrel_refl. Qed.
Lemma lk_fail : forall A k p, lk (@fail A k p).
Proof. intros A k p s b s' H. discriminate. Qed.
Lemma lk_unsup : forall A, lk (@unsup A).
Proof. intros A s b s' H. discriminate. Qed.
Lemma lk_panic : forall A, lk (@panic A).
Proof. intros A s b s' H. discriminate. Qed.
Lemma lk_bind : forall A B (m : M A) (f : A -> M B), lk m -> (forall a, lk (f a)) -> lk (bind m f).
Proof.
  intros A B m f Hm Hf s b s' H. unfold bind in H.
  destruct (m s) as [a s1|? ? ?| |] eqn:E; try discriminate.
  eapply lrel_trans; [eapply Hf; exact H|eapply Hm; exact E].
Qed.
Lemma lk_get_bind : forall B (k : state -> M B), (forall s0, lk (k s0)) -> lk (bind get k).
Proof. intros B k Hk s b s' H. unfold bind, get in H. eapply Hk. exact H. Qed.

Ltac lk_prim_tac :=
  let s := fresh "s" in let H := fresh "H" in
  intros s; dstate s;
  cbv [push_data pop_data top_data swap_data rot_data over_data push_return pop_return top_frame
       loop_set_items push_special pop_special get_var set_var init_local
       print modify ret fail unsup panic
       add_rstep limit_reached data_depth ip set_ip_raw
       set_ds set_rs set_loops set_special set_heap set_cx set_rlog set_out set_stopping set_meter
       dict heap code dbg sources input ds rs flows loops special cx nested meter insn_limit
       heap_limit stack_limit rlog out last_tok stopping
       ds_len cs_len rs_len fs_len ls_len ss_ptr di_len cip cmode];
  break_matches; intros ? ? H;
  try discriminate; injection H; intros; subst; split; reflexivity.

Lemma lk_set_stopping : forall b, lk (modify (fun s => set_stopping s b)).
Proof. intro b. lk_prim_tac. Qed.
Lemma lk_push_data : forall c, lk (push_data c).
Proof. intro c. lk_prim_tac. Qed.
Lemma lk_pop_data : lk pop_data.
Proof. lk_prim_tac. Qed.
Lemma lk_top_data : lk top_data.
Proof. lk_prim_tac. Qed.
Lemma lk_swap_data : lk swap_data.
Proof. lk_prim_tac. Qed.
Lemma lk_rot_data : lk rot_data.
Proof. lk_prim_tac. Qed.
Lemma lk_over_data : lk over_data.
Proof. lk_prim_tac. Qed.
Lemma lk_push_return : forall f, lk (push_return f).
Proof. intro f. lk_prim_tac. Qed.
Lemma lk_pop_return : lk pop_return.
Proof. lk_prim_tac. Qed.
Lemma lk_top_frame : lk top_frame.
Proof. lk_prim_tac. Qed.
Lemma lk_loop_set_items : forall c, lk (loop_set_items c).
Proof. intro c. lk_prim_tac. Qed.
Lemma lk_push_special : forall p, lk (push_special p).
Proof. intro p. lk_prim_tac. Qed.
Lemma lk_pop_special : lk pop_special.
Proof. lk_prim_tac. Qed.
Lemma lk_get_var : forall a, lk (get_var a).
Proof. intro a. lk_prim_tac. Qed.
Lemma lk_set_var : forall a v, lk (set_var a v).
Proof. intros a v. lk_prim_tac. Qed.
Lemma lk_init_local : forall i v, lk (init_local i v).
Proof. intros i v. lk_prim_tac. Qed.
Lemma lk_print : forall msg, lk (print msg).
Proof. intro msg. lk_prim_tac. Qed.

Ltac lk_prim :=
  lazymatch goal with
  | |- lk (ret _) => apply lk_ret
  | |- lk (fail _ _) => apply lk_fail
  | |- lk unsup => apply lk_unsup
  | |- lk panic => apply lk_panic
  | |- lk (modify (fun s => set_stopping s _)) => apply lk_set_stopping
  | |- lk (push_data _) => apply lk_push_data
  | |- lk pop_data => apply lk_pop_data
  | |- lk top_data => apply lk_top_data
  | |- lk swap_data => apply lk_swap_data
  | |- lk rot_data => apply lk_rot_data
  | |- lk over_data => apply lk_over_data
  | |- lk (push_return _) => apply lk_push_return
  | |- lk pop_return => apply lk_pop_return
  | |- lk top_frame => apply lk_top_frame
  | |- lk (loop_set_items _) => apply lk_loop_set_items
  | |- lk (push_special _) => apply lk_push_special
  | |- lk pop_special => apply lk_pop_special
  | |- lk (get_var _) => apply lk_get_var
  | |- lk (set_var _ _) => apply lk_set_var
  | |- lk (init_local _ _) => apply lk_init_local
  | |- lk (print _) => apply lk_print
  end.

Create HintDb lkdb.

Ltac lk_step :=
  cbv beta zeta;
  first
    [ lk_prim
    | solve [ auto 2 with lkdb nocore ]
    | lazymatch goal with
      | |- lk (bind get _) => apply lk_get_bind; intro
      | |- lk (bind _ _) => apply lk_bind; [ | intro ]
      | |- lk (match ?x with _ => _ end) => destruct x
      | |- lk ?m => let h := head_of m in unfold h
      end ].

Ltac lk_solve := repeat lk_step.

Lemma lk_pop_n : forall n, lk (pop_n n).
Proof. induction n; cbn [pop_n]; lk_solve. Qed.
#[export] Hint Resolve lk_pop_n : lkdb.
Lemma lk_push_all : forall l, lk (push_all l).
Proof. induction l; cbn [push_all]; lk_solve. Qed.
#[export] Hint Resolve lk_push_all : lkdb.

Lemma lk_word_table : forall fo, Forall (fun nw => lk (snd nw)) (word_table fo).
Proof.
  intro fo. unfold word_table.
  repeat (apply Forall_cons; [ cbn [snd]; lk_solve | ]).
  apply Forall_nil.
Qed.

Lemma lk_sized_word : forall fo name w, sized_word fo name = Some w -> lk w.
Proof.
  intros fo name w H. unfold sized_word in H. cbv beta zeta in H.
  repeat match type of H with
         | context [if ?b then _ else _] =>
           destruct b; cbv beta iota in H;
           [ injection H as <-; lk_solve | ]
         end.
  discriminate.
Qed.

(* no native word pushes or pops a loop record or touches one below the top *)
Theorem native_lk : forall fo w f, native_fn fo w = Some f -> lk f.
Proof.
  intros fo w f H. unfold native_fn in H.
  destruct (table_find (word_table fo) w) eqn:E.
  - injection H as <-. eapply table_find_Forall with (P := fun m => lk m); [ apply lk_word_table | exact E ].
  - eapply lk_sized_word; eauto.
Qed.

Lemma lk_m_test : lk m_test.
Proof. lk_solve. Qed.
Lemma lk_m_caseof : lk m_caseof.
Proof. lk_solve. Qed.
Lemma lk_m_loadlocal : forall i, lk (m_loadlocal i).
Proof. intro i. lk_solve. Qed.
Lemma lk_load : forall a, lk (let* v := get_var a in push_data v).
Proof. intro a. lk_solve. Qed.
Lemma lk_store : forall a, lk (let* v := pop_data in set_var a v).
Proof. intro a. lk_solve. Qed.
Lemma lk_initlocal : forall i, lk (let* v := pop_data in init_local i v).
Proof. intro i. lk_solve. Qed.

(* do_init only pops: the loop stack is unchanged *)
Lemma pop_data_loops : forall s c s', pop_data s = ROk c s' -> loops s' = loops s.
Proof.
  intros s c s' H. unfold pop_data in H. destruct (ds s); [discriminate|].
  destruct (ds_len (cx s) <? length (c0 :: l)); [|discriminate]. injection H as _ <-.
  unfold add_rstep. cbn [rlog set_ds]. destruct (rlog s); reflexivity.
Qed.

Lemma do_init_loops : forall s l s', do_init s = ROk l s' -> loops s' = loops s.
Proof.
  intros s l s' H. unfold do_init, bind in H.
  destruct (pop_data s) as [a s1|? ? ?| |] eqn:E1; try discriminate.
  destruct (pop_data s1) as [b s2|? ? ?| |] eqn:E2; try discriminate.
  apply pop_data_loops in E1. apply pop_data_loops in E2.
  unfold m_isize in H.
  destruct (value a); try discriminate. destruct (in_isize z); try discriminate.
  cbn [ret fail] in H.
  destruct (value b); try discriminate. destruct (in_isize z0); try discriminate.
  cbn [ret fail] in H. injection H as _ <-. congruence.
Qed.

Section Loop.
  Variable fo : fops.
  Variable funs : list (nat * list stmt).

  Definition fin (r : sres) (t' : state) : Prop := r = SDone t' \/ r = SBroke t'.

  Lemma run_m_fin : forall A (m : M A) p t (ke : A -> state -> sres) t',
    lk m -> fin (run_m m p t ke) t' ->
    exists a t1, m t = ROk a t1 /\ lrel (loops t1) (loops t) /\ fin (ke a t1) t'.
  Proof.
    intros A m p t ke t' Hm H. unfold run_m in H.
    destruct (m t) as [a t1|? ? ?| |] eqn:E; try (destruct H; discriminate).
    exists a, t1. split; [reflexivity|]. split; [eapply Hm; exact E|exact H].
  Qed.

  Definition Lb (f : nat) : Prop :=
    forall b t t', fin (sblock fo funs f b t) t' -> lrel (loops t') (loops t).
  Definition Ls (f : nat) : Prop :=
    forall x t t', fin (sstmt fo funs f x t) t' -> lrel (loops t') (loops t).

  Lemma fin_done : forall t t', fin (SDone t) t' -> t' = t.
  Proof. intros t t' [H|H]; congruence. Qed.
  Lemma fin_broke : forall t t', fin (SBroke t) t' -> t' = t.
  Proof. intros t t' [H|H]; congruence. Qed.

  Lemma simple_fin : forall (m : M unit) p t t',
    lk m -> fin (run_m m p t (fun _ s' => SDone s')) t' -> lrel (loops t') (loops t).
  Proof.
    intros m p t t' Hm H. destruct (run_m_fin _ m p t _ t' Hm H) as (a & t1 & E & L & F).
    apply fin_done in F. subst. exact L.
  Qed.

  (* the loop of do: entered with its record on top, it leaves the stack below it *)
  Lemma do_iter_loops : forall f b pl, Lb f ->
    forall k t t' x L, loops t = x :: L -> fin (do_iter fo funs f b pl k t) t' -> loops t' = L.
  Proof.
    intros f b pl HB. induction k as [|k IH]; intros t t' x L Ht H; [destruct H; discriminate|].
    cbn [do_iter] in H.
    destruct (sblock fo funs f b t) as [t3|t3|? ? ? ?| |] eqn:Eb; try (destruct H; discriminate).
    - assert (L3 : lrel (loops t3) (loops t)) by (apply (HB b t t3); left; exact Eb).
      rewrite Ht in L3. destruct (lrel_cons _ _ _ L3) as [y Hy].
      unfold run_m in H. destruct (loop_next t3) as [more t4|? ? ?| |] eqn:En; try (destruct H; discriminate).
      assert (H4 : exists z, loops t4 = z :: L).
      { unfold loop_next in En. rewrite Hy in En.
        destruct (ls_len (cx t3) <? length (y :: L)); [|discriminate]. injection En as _ <-.
        unfold add_rstep. cbn [rlog set_loops]. destruct (rlog t3); cbn [loops set_loops set_rlog]; eauto. }
      destruct H4 as [z Hz]. destruct more.
      + eapply IH; eauto.
      + destruct (pop_loop t4) as [l5 t5|? ? ?| |] eqn:Ep; try (destruct H; discriminate).
        apply fin_done in H. subst t'.
        unfold pop_loop in Ep. rewrite Hz in Ep.
        destruct (ls_len (cx t4) <? length (z :: L)); [|discriminate]. injection Ep as _ <-.
        unfold add_rstep. cbn [rlog set_loops]. destruct (rlog t4); reflexivity.
    - assert (L3 : lrel (loops t3) (loops t)) by (apply (HB b t t3); right; exact Eb).
      rewrite Ht in L3. destruct (lrel_cons _ _ _ L3) as [y Hy].
      unfold run_m in H. destruct (pop_loop t3) as [l5 t5|? ? ?| |] eqn:Ep; try (destruct H; discriminate).
      apply fin_done in H. subst t'.
      unfold pop_loop in Ep. rewrite Hy in Ep.
      destruct (ls_len (cx t3) <? length (y :: L)); [|discriminate]. injection Ep as _ <-.
      unfold add_rstep. cbn [rlog set_loops]. destruct (rlog t3); reflexivity.
  Qed.

  Lemma do_loops_eq : forall f p b pl t t', Lb f ->
    fin (sstmt fo funs (S f) (SDo p b pl) t) t' -> loops t' = loops t.
  Proof.
    intros f p b pl t t' HB H. rewrite sstmt_Do in H.
    unfold run_m at 1 in H. destruct (do_init t) as [l t1|? ? ?| |] eqn:Ei; try (destruct H; discriminate).
    apply do_init_loops in Ei.
    destruct (l_end l <=? l_start l)%Z.
    - apply fin_done in H. congruence.
    - unfold run_m in H. unfold push_loop in H.
      rewrite <- Ei. eapply do_iter_loops; [exact HB| |exact H].
      unfold add_rstep. cbn [rlog set_loops]. destruct (rlog t1); reflexivity.
  Qed.

  Lemma case_go_loops : forall f d, Lb f ->
    forall arms t t', fin (case_go fo funs f d arms t) t' -> lrel (loops t') (loops t).
  Proof.
    intros f d HB. induction arms as [|[[pre pof] body] r IH]; intros t t' H; cbn [case_go] in H.
    - eapply HB; exact H.
    - destruct (sblock fo funs f pre t) as [t1|t1|? ? ? ?| |] eqn:Eb; try (destruct H; discriminate).
      + assert (L1 : lrel (loops t1) (loops t)) by (apply (HB pre t t1); left; exact Eb).
        destruct (run_m_fin _ m_caseof pof t1 _ t' lk_m_caseof H) as (eq & t2 & E2 & L2 & F2).
        destruct eq.
        * destruct (run_m_fin _ pop_data pof t2 _ t' lk_pop_data F2) as (v & t3 & E3 & L3 & F3).
          eapply lrel_trans; [eapply HB; exact F3|]. eauto using lrel_trans.
        * eapply lrel_trans; [eapply IH; exact F2|]. eauto using lrel_trans.
      + apply fin_broke in H. subst. apply (HB pre t t1). right. exact Eb.
  Qed.

  Lemma loops_step_b : forall f, Ls f -> Lb f -> Lb (S f).
  Proof.
    intros f HS HB b t t' H. destruct b as [|x r].
    - rewrite sblock_nil in H. apply fin_done in H. subst. apply lrel_refl.
    - rewrite sblock_cons in H.
      destruct (sstmt fo funs f x t) as [t1|t1|? ? ? ?| |] eqn:Ex; try (destruct H; discriminate).
      + eapply lrel_trans; [eapply HB; exact H|]. apply (HS x t t1). left. exact Ex.
      + apply fin_broke in H. subst. apply (HS x t t1). right. exact Ex.
  Qed.

  Lemma loops_step_s : forall f, Ls f -> Lb f -> Ls (S f).
  Proof.
    intros f HS HB x t t' H. destruct x.
    - rewrite sstmt_Lit in H. eapply simple_fin; [|exact H]. apply lk_push_data.
    - rewrite sstmt_Prim in H. destruct (native_fn fo w) eqn:E; [|destruct H; discriminate].
      eapply simple_fin; [|exact H]. eapply native_lk; eauto.
    - rewrite sstmt_Call in H. destruct (fun_body funs f0) as [body|]; [|destruct H; discriminate].
      destruct (run_m_fin _ _ p t _ t' (lk_push_return _) H) as (u & t1 & E1 & L1 & F1).
      destruct (sblock fo funs f body t1) as [t2|t2|? ? ? ?| |] eqn:Eb; try (destruct F1; discriminate).
      + assert (L2 : lrel (loops t2) (loops t1)) by (apply (HB body t1 t2); left; exact Eb).
        destruct (run_m_fin _ _ p t2 _ t' lk_pop_return F1) as (fr & t3 & E3 & L3 & F3).
        apply fin_done in F3. subst. eauto using lrel_trans.
      + apply fin_broke in F1. subst.
        eapply lrel_trans; [|exact L1]. apply (HB body t1 t2). right. exact Eb.
    - rewrite sstmt_Get in H. eapply simple_fin; [|exact H]. apply lk_load.
    - rewrite sstmt_Set in H. eapply simple_fin; [|exact H]. apply lk_store.
    - rewrite sstmt_LocGet in H. eapply simple_fin; [|exact H]. apply lk_m_loadlocal.
    - rewrite sstmt_LocSet in H. eapply simple_fin; [|exact H]. apply lk_initlocal.
    - rewrite sstmt_If in H.
      destruct (run_m_fin _ m_test p t _ t' lk_m_test H) as (b & t1 & E1 & L1 & F1).
      destruct b.
      + eapply lrel_trans; [eapply HB; exact F1|exact L1].
      + apply fin_done in F1. subst. exact L1.
    - rewrite sstmt_IfE in H.
      destruct (run_m_fin _ m_test p t _ t' lk_m_test H) as (b & t1 & E1 & L1 & F1).
      destruct b; (eapply lrel_trans; [eapply HB; exact F1|exact L1]).
    - rewrite sstmt_Case in H. eapply case_go_loops; eauto.
    - rewrite sstmt_Until in H.
      destruct (sblock fo funs f b t) as [t1|t1|? ? ? ?| |] eqn:Eb; try (destruct H; discriminate).
      + assert (L1 : lrel (loops t1) (loops t)) by (apply (HB b t t1); left; exact Eb).
        destruct (run_m_fin _ m_test p t1 _ t' lk_m_test H) as (cnd & t2 & E2 & L2 & F2).
        destruct cnd.
        * apply fin_done in F2. subst. eauto using lrel_trans.
        * eapply lrel_trans; [eapply HS; exact F2|]. eauto using lrel_trans.
      + apply fin_broke in H. subst. apply (HB b t t1). right. exact Eb.
    - rewrite sstmt_Repeat in H.
      destruct (sblock fo funs f b t) as [t1|t1|? ? ? ?| |] eqn:Eb; try (destruct H; discriminate).
      + eapply lrel_trans; [eapply HS; exact H|]. apply (HB b t t1). left. exact Eb.
      + apply fin_done in H. subst. apply (HB b t t1). right. exact Eb.
    - rewrite sstmt_While in H.
      destruct (sblock fo funs f c t) as [t1|t1|? ? ? ?| |] eqn:Ec; try (destruct H; discriminate).
      + assert (L1 : lrel (loops t1) (loops t)) by (apply (HB c t t1); left; exact Ec).
        destruct (run_m_fin _ m_test p t1 _ t' lk_m_test H) as (go & t2 & E2 & L2 & F2).
        destruct go.
        * destruct (sblock fo funs f b t2) as [t3|t3|? ? ? ?| |] eqn:Eb; try (destruct F2; discriminate).
          -- eapply lrel_trans; [eapply HS; exact F2|].
             eapply lrel_trans; [apply (HB b t2 t3); left; exact Eb|]. eauto using lrel_trans.
          -- apply fin_done in F2. subst.
             eapply lrel_trans; [apply (HB b t2 t3); right; exact Eb|]. eauto using lrel_trans.
        * apply fin_done in F2. subst. eauto using lrel_trans.
      + apply fin_done in H. subst. apply (HB c t t1). right. exact Ec.
    - rewrite (do_loops_eq f p b pl t t' HB H). apply lrel_refl.
    - rewrite sstmt_Break in H. apply fin_broke in H. subst. apply lrel_refl.
    - rewrite sstmt_Def in H. apply fin_done in H. subst. apply lrel_refl.
  Qed.

  Theorem loops_all : forall f, Lb f /\ Ls f.
  Proof.
    induction f as [|f [HB HS]].
    - split; intros ? ? ? [H|H]; discriminate.
    - split; [apply loops_step_b|apply loops_step_s]; assumption.
  Qed.

  (* a finished counted loop leaves the loop stack exactly as it found it: its index is not
     visible (through I / J / K) to the code that follows *)
  Theorem do_leaves_no_index : forall fuel p b pl t t',
    sstmt fo funs fuel (SDo p b pl) t = SDone t' -> loops t' = loops t.
  Proof.
    intros fuel p b pl t t' H. destruct fuel as [|f]; [discriminate|].
    eapply do_loops_eq; [apply loops_all|]. left. exact H.
  Qed.

  (* ---------- a tree without pending break never returns SBroke ---------- *)
  Definition funs_nb : Prop := forall g body, fun_body funs g = Some body -> nb_b body.
  Hypothesis Hnb : funs_nb.

  Definition Nb (f : nat) : Prop := forall b t t', nb_b b -> sblock fo funs f b t <> SBroke t'.
  Definition Ns (f : nat) : Prop := forall x t t', nb_s x -> sstmt fo funs f x t <> SBroke t'.

  Lemma run_m_done_nb : forall A (m : M A) p t t', run_m m p t (fun _ s' => SDone s') <> SBroke t'.
  Proof. intros. unfold run_m. destruct (m t); discriminate. Qed.

  Lemma case_go_nb : forall f d, Nb f -> nb_b d ->
    forall arms t t', nb_a arms -> case_go fo funs f d arms t <> SBroke t'.
  Proof.
    intros f d HB Nd. induction arms as [|[[pre pof] body] r IH]; intros t t' Na; cbn [case_go].
    - apply HB. exact Nd.
    - inversion Na; subst.
      destruct (sblock fo funs f pre t) as [t1|t1|? ? ? ?| |] eqn:Eb; try discriminate.
      + unfold run_m. destruct (m_caseof t1) as [eq t2|? ? ?| |]; try discriminate.
        destruct eq; [|apply IH; assumption].
        destruct (pop_data t2); try discriminate. apply HB. assumption.
      + exfalso. eapply HB; [|exact Eb]. assumption.
  Qed.

  Lemma nb_step_b : forall f, Ns f -> Nb f -> Nb (S f).
  Proof.
    intros f HS HB b t t' N. destruct b as [|x r]; [discriminate|].
    rewrite sblock_cons. inversion N; subst.
    destruct (sstmt fo funs f x t) as [t1|t1|? ? ? ?| |] eqn:Ex; try discriminate.
    - apply HB. assumption.
    - exfalso. eapply HS; [|exact Ex]. assumption.
  Qed.

  Lemma nb_step_s : forall f, Ns f -> Nb f -> Ns (S f).
  Proof.
    intros f HS HB x t t' N. destruct x; inversion N; subst.
    - rewrite sstmt_Lit. apply run_m_done_nb.
    - rewrite sstmt_Prim. destruct (native_fn fo w); [apply run_m_done_nb|discriminate].
    - rewrite sstmt_Call. destruct (fun_body funs f0) as [body|] eqn:Eg; [|discriminate].
      unfold run_m at 1. destruct (push_return (mkframe 0 0 []) t) as [u t1|? ? ?| |]; try discriminate.
      destruct (sblock fo funs f body t1) as [t2|t2|? ? ? ?| |] eqn:Eb; try discriminate.
      + apply run_m_done_nb.
      + exfalso. eapply HB; [|exact Eb]. eapply Hnb; eauto.
    - rewrite sstmt_Get. apply run_m_done_nb.
    - rewrite sstmt_Set. apply run_m_done_nb.
    - rewrite sstmt_LocGet. apply run_m_done_nb.
    - rewrite sstmt_LocSet. apply run_m_done_nb.
    - rewrite sstmt_If. unfold run_m. destruct (m_test t) as [b t1|? ? ?| |]; try discriminate.
      destruct b; [apply HB; assumption|discriminate].
    - rewrite sstmt_IfE. unfold run_m. destruct (m_test t) as [b t1|? ? ?| |]; try discriminate.
      destruct b; apply HB; assumption.
    - rewrite sstmt_Case. apply case_go_nb; assumption.
    - rewrite sstmt_Until.
      destruct (sblock fo funs f b t) as [t1|t1|? ? ? ?| |] eqn:Eb; try discriminate.
      + unfold run_m. destruct (m_test t1) as [cnd t2|? ? ?| |]; try discriminate.
        destruct cnd; [discriminate|]. apply HS. exact N.
      + exfalso. eapply HB; [|exact Eb]. assumption.
    - apply loops_no_broke. right. left. eauto.
    - apply loops_no_broke. right. right. eauto.
    - apply loops_no_broke. left. eauto.
    - rewrite sstmt_Def. discriminate.
  Qed.

  Theorem nb_all : forall f, Nb f /\ Ns f.
  Proof.
    induction f as [|f [HB HS]].
    - split; intros; discriminate.
    - split; [apply nb_step_b|apply nb_step_s]; assumption.
  Qed.

  (* begin ... repeat whose body has no break of its own never finishes *)
  Theorem repeat_never_done : forall fuel b t t',
    nb_b b -> sstmt fo funs fuel (SRepeat b) t <> SDone t'.
  Proof.
    induction fuel as [|f IH]; intros b t t' N; [discriminate|].
    rewrite sstmt_Repeat.
    destruct (sblock fo funs f b t) as [t1|t1|? ? ? ?| |] eqn:Eb; try discriminate.
    - apply IH. exact N.
    - exfalso. eapply (proj1 (nb_all f)); [exact N|exact Eb].
  Qed.
End Loop.
