(* BitsDetach.v (C04): the representation of the result of detach / append / insert / invert
   does not depend on the ownership flag [u] (= Rc::strong_count == 1).

   [detach u c] keeps [c] as it is only when [u] holds AND [c] starts at bit 0; otherwise it
   copies and rebases to bit 0.  Hence the start offset of a detached value is ALWAYS 0, its
   end is ALWAYS [clen c], and the bits are those of [c]; only the backing bytes beyond the
   value (stale bits after the end, slack bytes) may differ between the two paths.
   [append_bits_mut] cuts the buffer back to the value and clears the stale bits before it
   appends, so for [append] and [insert] even the backing bytes are the same: these two are
   functions of their value arguments alone. *)
From Xeh Require Import Model.Prelude Model.Bits Proofs.BitsBasic.
From Xeh Require Import Proofs.BitsKernel Proofs.BitsLists Proofs.BitsMirror Proofs.BitsProofs.
From Coq Require Import ZifyBool ZifyNat ZifyN.
Local Ltac Zify.zify_post_hook ::= Z.div_mod_to_equations.

(* ---------- detach ---------- *)

Lemma detach_cstart : forall u c, cstart (detach u c) = 0.
Proof.
  intros u c. unfold detach. destruct (u && (cstart c =? 0)) eqn:E; [lia|].
  destruct (clen c =? 0); reflexivity.
Qed.

Lemma detach_cend : forall u c, cend (detach u c) = clen c.
Proof.
  intros u c. unfold detach, clen. destruct (u && (cstart c =? 0)) eqn:E; [lia|].
  destruct (cend c - cstart c =? 0) eqn:E2; cbn [cend]; lia.
Qed.

Lemma detach_kept : forall c, cstart c = 0 -> detach true c = c.
Proof. intros c H. unfold detach. rewrite H. reflexivity. Qed.

Lemma detach_copied : forall u c, u = false \/ cstart c <> 0 -> detach u c = detach false c.
Proof.
  intros u c [->|H]; [reflexivity|]. unfold detach.
  replace (cstart c =? 0) with false by lia. rewrite Bool.andb_false_r. reflexivity.
Qed.

(* the two cases of the definition, and what they have in common *)
Lemma detach_start : forall u c,
  cstart (detach u c) = 0 /\
  ((u = true /\ cstart c = 0 /\ detach u c = c) \/
   (~ (u = true /\ cstart c = 0) /\ detach u c = detach false c)).
Proof.
  intros u c. split; [apply detach_cstart|].
  destruct u; [destruct (Nat.eq_dec (cstart c) 0) as [H|H]|].
  - left. split; [reflexivity|]. split; [exact H|]. apply detach_kept. exact H.
  - right. split; [lia|]. apply detach_copied. right. exact H.
  - right. split; [intros [H _]; discriminate|reflexivity].
Qed.

Lemma detach_repr : forall u c, wf c ->
  cstart (detach u c) = 0 /\ cend (detach u c) = clen c /\ abs (detach u c) = abs c.
Proof.
  intros u c Hc. split; [apply detach_cstart|]. split; [apply detach_cend|].
  exact (proj2 (detach_spec u c Hc)).
Qed.

Lemma detach_indep : forall u u' c, wf c ->
  cstart (detach u c) = cstart (detach u' c) /\
  cend (detach u c) = cend (detach u' c) /\
  abs (detach u c) = abs (detach u' c).
Proof.
  intros u u' c Hc.
  destruct (detach_repr u c Hc) as (A1 & A2 & A3). destruct (detach_repr u' c Hc) as (B1 & B2 & B3).
  rewrite A1, A2, A3, B1, B2, B3. repeat split; reflexivity.
Qed.

(* ---------- byte lists are determined by their bits ---------- *)

Lemma byte_ext x y : (x < 256)%N -> (y < 256)%N -> (forall k, k < 8 -> tb x k = tb y k) -> x = y.
Proof.
  intros Hx Hy H. rewrite <- (byte_bits x Hx), <- (byte_bits y Hy). f_equal.
  apply map_ext_in. intros k Hk. apply in_seq in Hk. apply H. lia.
Qed.

Lemma bytes_ext d1 d2 : bytes_ok d1 -> bytes_ok d2 -> length d1 = length d2 ->
  (forall i, i < 8 * length d1 -> getbit d1 i = getbit d2 i) -> d1 = d2.
Proof.
  intros H1 H2 HL H. apply (nth_ext _ _ 0%N 0%N HL). intros j Hj.
  apply byte_ext.
  - exact (nthb_lt d1 j H1).
  - exact (nthb_lt d2 j H2).
  - intros k Hk. assert (Hi : 8 * j + k < 8 * length d1) by lia.
    specialize (H (8 * j + k) Hi). rewrite !getbit_tb in H.
    replace ((8 * j + k) / 8) with j in H by lia.
    replace ((8 * j + k) mod 8) with k in H by lia. exact H.
Qed.

Lemma nth_abs_start0 c i : cstart c = 0 -> i < cend c ->
  nth i (abs c) false = getbit (cdata c) i.
Proof.
  intros Sc Hi. rewrite abs_unfold, Sc, Nat.sub_0_r.
  rewrite (nth_indep _ false (getbit (cdata c) 0)) by (rewrite map_length, seq_length; exact Hi).
  rewrite map_nth, seq_nth by exact Hi. reflexivity.
Qed.

(* ---------- append_bits_mut only looks at the range and the trimmed buffer ---------- *)

Lemma trim_tail_ext a b : wf a -> wf b -> cstart a = 0 -> cstart b = 0 -> abs a = abs b ->
  cend a = cend b /\ trim_tail a = trim_tail b.
Proof.
  intros Ha Hb Sa Sb E.
  assert (EL : cend a = cend b).
  { pose proof (f_equal (@length bool) E) as L. rewrite !abs_length in L. unfold clen in L. lia. }
  split; [exact EL|].
  destruct (trim_tail_spec a Ha) as (A1 & A2 & A3). destruct (trim_tail_spec b Hb) as (B1 & B2 & B3).
  apply bytes_ext; [exact A2|exact B2|rewrite A1, B1, EL; reflexivity|].
  intros i _. rewrite A3, B3, EL. destruct (i <? cend b) eqn:Ei; [|reflexivity].
  rewrite <- (nth_abs_start0 a i Sa) by lia. rewrite <- (nth_abs_start0 b i Sb) by lia.
  rewrite E. reflexivity.
Qed.

Lemma append_bits_mut_cong a b t :
  cstart a = cstart b -> cend a = cend b -> trim_tail a = trim_tail b ->
  append_bits_mut a t = append_bits_mut b t.
Proof.
  intros S E T. unfold append_bits_mut, is_u8_slice, is_bytestr, clen. cbv zeta.
  rewrite S, E, T. reflexivity.
Qed.

Lemma append_bits_mut_abs_cong a b t :
  wf a -> wf b -> cstart a = 0 -> cstart b = 0 -> abs a = abs b ->
  append_bits_mut a t = append_bits_mut b t.
Proof.
  intros Ha Hb Sa Sb E. destruct (trim_tail_ext a b Ha Hb Sa Sb E) as [EL T].
  apply append_bits_mut_cong; [rewrite Sa, Sb; reflexivity|exact EL|exact T].
Qed.

Lemma append_bits_mut_range c t :
  cstart (append_bits_mut c t) = cstart c /\ cend (append_bits_mut c t) = cend c + clen t.
Proof.
  unfold append_bits_mut. cbv zeta.
  destruct (is_u8_slice c && is_u8_slice t); cbn [cstart cend]; split; reflexivity.
Qed.

(* ---------- append ---------- *)

Lemma append_range : forall u c t,
  cstart (append u c t) = 0 /\ cend (append u c t) = clen c + clen t.
Proof.
  intros u c t. unfold append. destruct (append_bits_mut_range (detach u c) t) as [-> ->].
  rewrite detach_cstart, detach_cend. split; reflexivity.
Qed.

(* the whole result, backing bytes included, is the same on both ownership paths *)
Lemma append_indep : forall u u' c t, wf c -> append u c t = append u' c t.
Proof.
  intros u u' c t Hc. unfold append.
  destruct (detach_spec u c Hc) as [W1 A1]. destruct (detach_spec u' c Hc) as [W2 A2].
  apply append_bits_mut_abs_cong; [exact W1|exact W2|apply detach_cstart|apply detach_cstart|].
  rewrite A1, A2. reflexivity.
Qed.

(* ---------- insert ---------- *)

Lemma insert_range : forall u c i s, cstart c <= cend c ->
  match insert u c i s with
  | Some r => i <= clen c /\ cstart r = 0 /\ cend r = clen c + clen s
  | None => clen c < i
  end.
Proof.
  intros u c i s Hse. unfold insert, split_at. cbv zeta.
  destruct (cend c <? cstart c + i) eqn:E; [unfold clen; lia|].
  destruct (append_bits_mut_range
              (append_bits_mut (detach u (mkcbs (cstart c) (cstart c + i) (cdata c))) s)
              (mkcbs (cstart c + i) (cend c) (cdata c))) as [-> ->].
  destruct (append_bits_mut_range (detach u (mkcbs (cstart c) (cstart c + i) (cdata c))) s) as [-> ->].
  rewrite detach_cstart, detach_cend. unfold clen. cbn [cstart cend]. lia.
Qed.

Lemma insert_indep : forall u u' c i s, wf c -> insert u c i s = insert u' c i s.
Proof.
  intros u u' c i s Hc. unfold insert. pose proof (split_at_spec c i Hc) as HS.
  destruct (split_at c i) as [[l r]|]; [|reflexivity].
  destruct HS as (_ & Hl & _).
  destruct (detach_spec u l Hl) as [W1 A1]. destruct (detach_spec u' l Hl) as [W2 A2].
  rewrite (append_bits_mut_abs_cong (detach u l) (detach u' l) s W1 W2
             (detach_cstart u l) (detach_cstart u' l)) by (rewrite A1, A2; reflexivity).
  reflexivity.
Qed.

(* ---------- invert ---------- *)

Lemma invert_range : forall u c, cstart (invert u c) = 0 /\ cend (invert u c) = clen c.
Proof.
  intros u c. unfold invert. cbv zeta. cbn [cstart cend].
  rewrite detach_cstart, detach_cend. split; reflexivity.
Qed.

Lemma invert_indep : forall u u' c, wf c ->
  cstart (invert u c) = cstart (invert u' c) /\
  cend (invert u c) = cend (invert u' c) /\
  abs (invert u c) = abs (invert u' c).
Proof.
  intros u u' c Hc.
  destruct (invert_range u c) as [-> ->]. destruct (invert_range u' c) as [-> ->].
  rewrite (proj2 (invert_spec u c Hc)), (proj2 (invert_spec u' c Hc)). repeat split; reflexivity.
Qed.

(* ---------- what may still differ: the backing bytes of detach / invert ---------- *)

(* a 4-bit value starting at bit 0 of the byte ff: kept as it is when uniquely owned (stale
   bits stay), copied and left-aligned otherwise *)
Lemma detach_bytes_differ :
  let c := mkcbs 0 4 [255%N] in
  wfb c = true /\ cdata (detach true c) = [255%N] /\ cdata (detach false c) = [240%N] /\
  cdata (invert true c) = [15%N] /\ cdata (invert false c) = [0%N].
Proof. vm_compute. repeat split; reflexivity. Qed.

(* the uniquely owned path keeps slack bytes, the copy has none *)
Lemma detach_slack_differs :
  let c := mkcbs 0 4 [255; 52]%N in
  wfb c = true /\ cdata (detach true c) = [255; 52]%N /\ cdata (detach false c) = [240%N].
Proof. vm_compute. repeat split; reflexivity. Qed.

(* the case the repair is about: a uniquely owned slice with a non-zero start is rebased *)
Lemma detach_unique_slice_rebased :
  let c := mkcbs 4 12 [171; 205]%N in
  wfb c = true /\ detach true c = mkcbs 0 8 [188%N] /\ detach true c = detach false c.
Proof. vm_compute. repeat split; reflexivity. Qed.
