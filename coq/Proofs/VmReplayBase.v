(* VmReplayBase.v: forward execution respects [eq_rev] (C02, replay half).
   [rel_ok m]: [eq_rev]-related inputs give related results.  It is proved for every
   primitive of Vm.v, closed under [bind] and under reading the state with [get] as long
   as the continuation looks at neither the instruction meter nor the captured output. *)
From Xeh Require Import Model.Prelude Model.Bits Model.Codec Model.Cell Model.Lexer Model.Fmt Model.Vm Model.Words.
From Xeh Require Import Proofs.VmFrame Proofs.VmRevBase Proofs.VmRevWords Proofs.VmRev.
Local Notation length := List.length.

#[local] Arguments Z.add : simpl never.
#[local] Arguments Z.sub : simpl never.
#[local] Arguments Z.mul : simpl never.
#[local] Arguments Z.ltb : simpl never.
#[local] Arguments Z.leb : simpl never.
#[local] Arguments Z.eqb : simpl never.
#[local] Arguments Z.of_nat : simpl never.
#[local] Arguments Z.to_nat : simpl never.

(* ---------- what [eq_rev] hides: exactly the meter and the captured output ---------- *)
Definition same_machine (a b : state) : Prop :=
  ip a = ip b /\ ds a = ds b /\ rs a = rs b /\ loops a = loops b /\ special a = special b /\
  heap a = heap b /\ code a = code b /\ dict a = dict b /\ cx a = cx b /\ nested a = nested b /\
  flows a = flows b /\ rlog a = rlog b /\ input a = input b /\ sources a = sources b /\
  dbg a = dbg b /\ last_tok a = last_tok b /\ stopping a = stopping b /\
  insn_limit a = insn_limit b /\ heap_limit a = heap_limit b /\ stack_limit a = stack_limit b.

Lemma eq_rev_same_machine a b : eq_rev a b <-> same_machine a b.
Proof.
  unfold eq_rev, same_machine. split.
  - intro H.
    repeat match goal with |- _ /\ _ => split end.
    + exact (f_equal ip H).
    + exact (f_equal ds H).
    + exact (f_equal rs H).
    + exact (f_equal loops H).
    + exact (f_equal special H).
    + exact (f_equal heap H).
    + exact (f_equal code H).
    + exact (f_equal dict H).
    + exact (f_equal cx H).
    + exact (f_equal nested H).
    + exact (f_equal flows H).
    + exact (f_equal rlog H).
    + exact (f_equal input H).
    + exact (f_equal sources H).
    + exact (f_equal dbg H).
    + exact (f_equal last_tok H).
    + exact (f_equal stopping H).
    + exact (f_equal insn_limit H).
    + exact (f_equal heap_limit H).
    + exact (f_equal stack_limit H).
  - destruct a, b. unfold ip, erase_mo. cbn.
    intros (H1 & H2 & H3 & H4 & H5 & H6 & H7 & H8 & H9 & H10 & H11 & H12 & H13 & H14 & H15 & H16 & H17 & H18 & H19 & H20).
    subst. reflexivity.
Qed.

Lemma eq_rev_mo a b : eq_rev a b -> b = mo (meter b) (out b) a.
Proof.
  unfold eq_rev, erase_mo, mo. destruct a, b; cbn. intro H. injection H; intros; subst. reflexivity.
Qed.

Lemma eq_rev_mo_l z o s : eq_rev (mo z o s) s.
Proof. reflexivity. Qed.

(* the invariants of reverse stepping do not look at the hidden fields *)
Lemma eq_rev_recording a b : eq_rev a b -> recording a = recording b.
Proof. intro H. unfold recording. rewrite (f_equal rlog H : rlog a = rlog b). reflexivity. Qed.
Lemma eq_rev_log_ok a b : eq_rev a b -> log_ok a -> log_ok b.
Proof. intro H. unfold log_ok. rewrite (f_equal rlog H : rlog a = rlog b). auto. Qed.
Lemma eq_rev_wf_marks a b : eq_rev a b -> wf_marks a -> wf_marks b.
Proof.
  intro H. unfold wf_marks.
  rewrite (f_equal cx H : cx a = cx b), (f_equal ds H : ds a = ds b), (f_equal rs H : rs a = rs b),
          (f_equal loops H : loops a = loops b), (f_equal special H : special a = special b). auto.
Qed.
Lemma eq_rev_not_resolve a b : eq_rev a b -> not_resolve a -> not_resolve b.
Proof.
  intro H. unfold not_resolve.
  rewrite (f_equal code H : code a = code b), (f_equal ip H : ip a = ip b). auto.
Qed.

(* ---------- related results ---------- *)
Definition res_rel {A} (r1 r2 : res A) : Prop := res_map erase_mo r1 = res_map erase_mo r2.

(* the explicit reading of [res_rel] *)
Definition res_rel_cases {A} (r1 r2 : res A) : Prop :=
  match r1, r2 with
  | ROk x s, ROk y t => x = y /\ eq_rev s t
  | RErr k p s, RErr k' p' t => k = k' /\ p = p' /\ eq_rev s t
  | RPanic, RPanic => True
  | RUnsup, RUnsup => True
  | _, _ => False
  end.

Lemma res_rel_iff {A} (r1 r2 : res A) : res_rel r1 r2 <-> res_rel_cases r1 r2.
Proof.
  unfold res_rel, res_rel_cases, eq_rev.
  destruct r1, r2; cbn [res_map]; split; intro H; try discriminate H; try contradiction; try exact I;
    try reflexivity.
  - split; congruence.
  - destruct H as [H1 H2]; congruence.
  - repeat split; congruence.
  - destruct H as (H1 & H2 & H3); congruence.
Qed.

Lemma res_rel_refl {A} (r : res A) : res_rel r r.
Proof. reflexivity. Qed.
Lemma res_rel_sym {A} (r1 r2 : res A) : res_rel r1 r2 -> res_rel r2 r1.
Proof. unfold res_rel; auto. Qed.
Lemma res_rel_trans {A} (r1 r2 r3 : res A) : res_rel r1 r2 -> res_rel r2 r3 -> res_rel r1 r3.
Proof. unfold res_rel; congruence. Qed.

Definition rel_ok {A} (m : M A) : Prop := forall a b, eq_rev a b -> res_rel (m a) (m b).

(* a program that commutes with setting the meter and the output *)
Definition mo_comm {A} (p : M A) : Prop := forall z o s, p (mo z o s) = res_map (mo z o) (p s).

Lemma rel_of_comm {A} (p : M A) : mo_comm p -> rel_ok p.
Proof.
  intros H a b E. rewrite (eq_rev_mo _ _ E). rewrite H. unfold res_rel.
  destruct (p a); reflexivity.
Qed.

Lemma rel_bind {A B} (m : M A) (f : A -> M B) :
  rel_ok m -> (forall x, rel_ok (f x)) -> rel_ok (bind m f).
Proof.
  intros Hm Hf a b E. unfold bind. specialize (Hm a b E). unfold res_rel in Hm.
  destruct (m a) as [x s1|k p s1| |], (m b) as [y s2|k' p' s2| |]; cbn [res_map] in Hm; try discriminate.
  - assert (Hx : x = y) by congruence. assert (Hs : erase_mo s1 = erase_mo s2) by congruence.
    subst y. apply Hf. exact Hs.
  - unfold res_rel. cbn [res_map]. congruence.
  - reflexivity.
  - reflexivity.
Qed.

(* reading the state: the continuation may use any field except the meter and the output *)
Lemma rel_get_bind {B} (k : state -> M B) :
  (forall s0, rel_ok (k s0)) ->
  (forall s0 z o s, k (mo z o s0) s = k s0 s) ->
  rel_ok (bind get k).
Proof.
  intros H1 H2 a b E. unfold bind, get.
  replace (k b b) with (k a b).
  - apply H1; auto.
  - rewrite <- (H2 a (meter b) (out b) b), <- (eq_rev_mo _ _ E). reflexivity.
Qed.

Lemma rel_ret {A} (x : A) : rel_ok (ret x).
Proof. intros a b E. unfold res_rel, ret. cbn. f_equal. exact E. Qed.
Lemma rel_fail {A} k p : rel_ok (@fail A k p).
Proof. intros a b E. unfold res_rel, fail. cbn. f_equal. exact E. Qed.
Lemma rel_unsup {A} : rel_ok (@unsup A).
Proof. intros a b E. reflexivity. Qed.
Lemma rel_panic {A} : rel_ok (@panic A).
Proof. intros a b E. reflexivity. Qed.

(* ---------- the primitives ---------- *)
Ltac destruct_state s :=
  destruct s as [d0 h0 c0 g0 so0 in0 st0 rs0 fl0 lo0 sp0 cx0 ne0 me0 il0 hl0 sl0 rl0 ou0 lt0 sg0].

Ltac break_matches :=
  repeat (match goal with
          | |- context [match ?x with _ => _ end] => is_var x; destruct x
          end; cbv beta iota);
  repeat (match goal with
          | |- context [match ?x with _ => _ end] =>
            lazymatch x with context [match _ with _ => _ end] => fail | _ => idtac end;
            destruct x eqn:?
          end; cbv beta iota).

Ltac comm_prim :=
  let z := fresh "z" in let o := fresh "o" in let s := fresh "s" in
  apply rel_of_comm; intros z o s; destruct_state s;
  cbv [push_data pop_data top_data swap_data rot_data over_data push_return pop_return top_frame
       push_loop pop_loop loop_next loop_set_items push_special pop_special get_var set_var
       init_local set_ip next_ip modify ret fail unsup panic
       add_rstep limit_reached data_depth ip set_ip_raw mo res_map
       set_ds set_rs set_loops set_special set_heap set_cx set_rlog set_out set_meter set_stopping
       dict heap code dbg sources input ds rs flows loops special cx nested meter insn_limit
       heap_limit stack_limit rlog out last_tok stopping];
  break_matches; reflexivity.

Lemma rel_set_stopping b : rel_ok (modify (fun s => set_stopping s b)). Proof. comm_prim. Qed.
Lemma rel_push_data c : rel_ok (push_data c). Proof. comm_prim. Qed.
Lemma rel_pop_data : rel_ok pop_data. Proof. comm_prim. Qed.
Lemma rel_top_data : rel_ok top_data. Proof. comm_prim. Qed.
Lemma rel_swap_data : rel_ok swap_data. Proof. comm_prim. Qed.
Lemma rel_rot_data : rel_ok rot_data. Proof. comm_prim. Qed.
Lemma rel_over_data : rel_ok over_data. Proof. comm_prim. Qed.
Lemma rel_push_return f : rel_ok (push_return f). Proof. comm_prim. Qed.
Lemma rel_pop_return : rel_ok pop_return. Proof. comm_prim. Qed.
Lemma rel_top_frame : rel_ok top_frame. Proof. comm_prim. Qed.
Lemma rel_push_loop l : rel_ok (push_loop l). Proof. comm_prim. Qed.
Lemma rel_pop_loop : rel_ok pop_loop. Proof. comm_prim. Qed.
Lemma rel_loop_next : rel_ok loop_next. Proof. comm_prim. Qed.
Lemma rel_loop_set_items c : rel_ok (loop_set_items c). Proof. comm_prim. Qed.
Lemma rel_push_special p : rel_ok (push_special p). Proof. comm_prim. Qed.
Lemma rel_pop_special : rel_ok pop_special. Proof. comm_prim. Qed.
Lemma rel_get_var a : rel_ok (get_var a). Proof. comm_prim. Qed.
Lemma rel_set_var a v : rel_ok (set_var a v). Proof. comm_prim. Qed.
Lemma rel_init_local i v : rel_ok (init_local i v). Proof. comm_prim. Qed.
Lemma rel_set_ip n : rel_ok (set_ip n). Proof. comm_prim. Qed.
Lemma rel_next_ip : rel_ok next_ip. Proof. comm_prim. Qed.

(* [print] changes the output, which the relation ignores *)
Lemma rel_print msg : rel_ok (print msg).
Proof.
  intros a b E. unfold res_rel, print. cbn [res_map]. f_equal.
  change (erase_mo (set_out a (out a ++ msg))) with (erase_mo a).
  change (erase_mo (set_out b (out b ++ msg))) with (erase_mo b). exact E.
Qed.

(* ---------- the tactic that recognises a [rel_ok] program ---------- *)
Ltac rl_prim :=
  lazymatch goal with
  | |- rel_ok (ret _) => apply rel_ret
  | |- rel_ok (fail _ _) => apply rel_fail
  | |- rel_ok unsup => apply rel_unsup
  | |- rel_ok panic => apply rel_panic
  | |- rel_ok (modify (fun s => set_stopping s _)) => apply rel_set_stopping
  | |- rel_ok (push_data _) => apply rel_push_data
  | |- rel_ok pop_data => apply rel_pop_data
  | |- rel_ok top_data => apply rel_top_data
  | |- rel_ok swap_data => apply rel_swap_data
  | |- rel_ok rot_data => apply rel_rot_data
  | |- rel_ok over_data => apply rel_over_data
  | |- rel_ok (push_return _) => apply rel_push_return
  | |- rel_ok pop_return => apply rel_pop_return
  | |- rel_ok top_frame => apply rel_top_frame
  | |- rel_ok (push_loop _) => apply rel_push_loop
  | |- rel_ok pop_loop => apply rel_pop_loop
  | |- rel_ok loop_next => apply rel_loop_next
  | |- rel_ok (loop_set_items _) => apply rel_loop_set_items
  | |- rel_ok (push_special _) => apply rel_push_special
  | |- rel_ok pop_special => apply rel_pop_special
  | |- rel_ok (get_var _) => apply rel_get_var
  | |- rel_ok (set_var _ _) => apply rel_set_var
  | |- rel_ok (init_local _ _) => apply rel_init_local
  | |- rel_ok (set_ip _) => apply rel_set_ip
  | |- rel_ok next_ip => apply rel_next_ip
  | |- rel_ok (print _) => apply rel_print
  end.

Create HintDb rldb.

Ltac rl_step :=
  cbv beta zeta;
  first
    [ rl_prim
    | solve [ auto 2 with rldb nocore ]
    | lazymatch goal with
      | |- rel_ok (bind get _) => apply rel_get_bind; [ intro | intros; reflexivity ]
      | |- rel_ok (bind _ _) => apply rel_bind; [ | intro ]
      | |- rel_ok (match ?x with _ => _ end) => destruct x
      | |- rel_ok ?m => let h := head_of m in unfold h
      end ].

Ltac rl_solve := repeat rl_step.

Lemma rel_pop_n : forall n, rel_ok (pop_n n).
Proof. induction n; cbn [pop_n]; rl_solve. Qed.
#[export] Hint Resolve rel_pop_n : rldb.

Lemma rel_push_all : forall l, rel_ok (push_all l).
Proof. induction l; cbn [push_all]; rl_solve. Qed.
#[export] Hint Resolve rel_push_all : rldb.
