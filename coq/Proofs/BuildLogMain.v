(* BuildLogMain.v (C15): recording is transparent for the whole API.
   The run used inside the builder (meta blocks, user immediate words, closing an eval context),
   context_close, the table of immediate words, build_word, the build loop, the unwinding of a
   failed build, eval and compile; then the statements about single stepping and the six ways of
   driving a source. *)
From Xeh Require Import Model.Prelude Model.Bits Model.Codec Model.Cell Model.Lexer Model.Fmt
                        Model.Vm Model.Words Model.Build.
From Xeh Require Import Proofs.VmFrame Proofs.VmDrive Proofs.NoPanicBuild Proofs.BuildLog.
Local Notation length := List.length.

#[local] Arguments Z.add : simpl never.
#[local] Arguments Z.sub : simpl never.
#[local] Arguments Z.mul : simpl never.
#[local] Arguments Z.ltb : simpl never.
#[local] Arguments Z.leb : simpl never.
#[local] Arguments Z.eqb : simpl never.
#[local] Arguments Z.of_nat : simpl never.
#[local] Arguments Z.to_nat : simpl never.

#[export] Hint Resolve R_i_if R_i_else R_i_then R_i_case R_i_of R_i_endof R_i_endcase R_i_begin
  R_i_while R_i_until R_i_break R_i_repeat R_i_open R_i_close R_i_def_begin R_i_def_end R_i_late
  R_i_immediate R_i_local R_i_var R_i_setvar R_code_emit R_i_nested_begin R_i_const R_i_do
  R_i_loop R_i_foreach R_i_defined R_build_let_in R_i_set_fmt_base R_emit_native : rldb.

(* projections of [erase_log s], and [erase_log] pushed out of the setters *)
Ltac erase_full :=
  repeat match goal with
         | |- context [?f (erase_log ?s)] => progress change (f (erase_log s)) with (f s)
         | |- context [?f (erase_log ?s) ?v] =>
           progress change (f (erase_log s) v) with (erase_log (f s v))
         end.

Lemma R_emit_results : forall fuel, R_log (emit_results fuel) (emit_results fuel).
Proof.
  induction fuel as [|f IH]; intro s; cbn [emit_results]; [reflexivity|].
  change (ds_len (cx (erase_log s))) with (ds_len (cx s)).
  change (ds (erase_log s)) with (ds s).
  destruct (ds_len (cx s) <? length (ds s))%nat; [|reflexivity].
  rewrite <- (R_pop_data s).
  destruct (pop_data s) as [v s1|k p s1| |]; cbn [res_map]; try reflexivity.
  rewrite <- (R_code_emit_value v s1).
  destruct (code_emit_value v s1) as [u s2|k p s2| |]; cbn [res_map]; try reflexivity.
  apply IH.
Qed.

(* what context_close does after the run of a meta block, in named pieces *)
Definition trunc_code (s1 : state) : state :=
  set_dbg (set_code s1 (firstn (cs_len (cx s1)) (code s1))) (firstn (cs_len (cx s1)) (dbg s1)).
Definition purge_from (s2 : state) (i : nat) : state :=
  set_dict s2 (purge_dict (S (length (dict s2))) (dict s2) i).
Definition meta_tail (prev : ctx) (s1 : state) : res unit :=
  let s3 := purge_from (trunc_code s1) (di_len (cx s1)) in
  let after :=
      if negb (mode_eqb (cmode prev) MMeta) ||
         match firstn (length (flows s3) - fs_len prev) (flows s3) with
         | FFun _ _ _ :: _ => true
         | _ => false
         end
      then emit_results (S (length (ds s3))) s3 else ROk tt s3 in
  match after with
  | ROk _ s4 => ROk tt (set_cx s4 prev)
  | e => e
  end.

Lemma meta_tail_erase prev s1 :
  res_map erase_log (meta_tail prev s1) = meta_tail prev (erase_log s1).
Proof.
  unfold meta_tail. cbv zeta.
  change (purge_from (trunc_code (erase_log s1)) (di_len (cx (erase_log s1))))
    with (erase_log (purge_from (trunc_code s1) (di_len (cx s1)))).
  set (s3 := purge_from (trunc_code s1) (di_len (cx s1))). clearbody s3.
  change (flows (erase_log s3)) with (flows s3).
  change (ds (erase_log s3)) with (ds s3).
  rewrite <- (R_emit_results (S (length (ds s3))) s3).
  destruct (negb (mode_eqb (cmode prev) MMeta) || _); [|reflexivity].
  destruct (emit_results (S (length (ds s3))) s3); reflexivity.
Qed.

Lemma leave_contexts_erase : forall fuel depth s,
  erase_log (leave_contexts fuel depth s) = leave_contexts fuel depth (erase_log s).
Proof.
  induction fuel as [|f IH]; intros depth s; cbn [leave_contexts]; [reflexivity|].
  change (nested (erase_log s)) with (nested s).
  destruct (S depth <? length (nested s))%nat; [|reflexivity].
  destruct (nested s) as [|prev rest]; [reflexivity|].
  apply (IH depth (set_cx (set_nested s rest) prev)).
Qed.

Lemma build_unwind_erase : forall depth inputs dsl heapl s,
  erase_log (build_unwind depth inputs dsl heapl s) = build_unwind depth inputs dsl heapl (erase_log s).
Proof.
  intros depth inputs dsl heapl s. unfold build_unwind. cbv zeta.
  change (input (erase_log s)) with (input s).
  change (set_input (erase_log s) (lastn inputs (input s)))
    with (erase_log (set_input s (lastn inputs (input s)))).
  set (s0 := set_input s (lastn inputs (input s))).
  change (nested (erase_log s0)) with (nested s0).
  rewrite <- leave_contexts_erase.
  set (s1 := leave_contexts (S (length (nested s0))) depth s0). clearbody s1. clear s0.
  erase_full.
  break_matches; reflexivity.
Qed.

Section Run.
  Variable fo : fops.
  Variable pr : string -> option Z.
  Variable rf : nat.

  Lemma R_run_m : R_log (run_m fo rf) (run_m fo rf).
  Proof.
    intro s. unfold run_m, nf. rewrite <- (recording_transparent_run fo rf s).
    destruct (run (native_fn fo) rf s) as [r|]; reflexivity.
  Qed.

  Lemma R_context_close : R_log (context_close fo rf) (context_close fo rf).
  Proof.
    intro s. unfold context_close. cbv zeta.
    change (nested (erase_log s)) with (nested s).
    destruct (nested s) as [|prev rest]; [reflexivity|].
    change (set_nested (erase_log s) rest) with (erase_log (set_nested s rest)).
    set (s0 := set_nested s rest). clearbody s0.
    change (cx (erase_log s0)) with (cx s0).
    destruct (cmode (cx s0)).
    - reflexivity.
    - rewrite <- (R_run_m s0).
      destruct (run_m fo rf s0) as [u s1|k p s1| |]; cbn [res_map]; reflexivity.
    - rewrite <- (R_run_m s0).
      destruct (run_m fo rf s0) as [u s1|k p s1| |]; cbn [res_map]; try reflexivity.
      exact (meta_tail_erase prev s1).
  Qed.

  Lemma R_i_nested_end : R_log (i_nested_end fo rf) (i_nested_end fo rf).
  Proof. pose proof R_context_close. rl_solve. Qed.
  Lemma R_i_nested_inject : R_log (i_nested_inject fo rf) (i_nested_inject fo rf).
  Proof. pose proof R_context_close. rl_solve. Qed.

  (* enum: the words that close a context *)
  Lemma R_i_enum_field : R_log (i_enum_field fo pr rf) (i_enum_field fo pr rf).
  Proof. pose proof R_i_nested_end. pose proof R_enum_add_field. rl_solve. Qed.
  Lemma R_i_enum_field_set : R_log (i_enum_field_set fo pr rf) (i_enum_field_set fo pr rf).
  Proof. pose proof R_i_nested_end. pose proof R_enum_add_field. pose proof R_m_xint. rl_solve. Qed.
  Lemma R_i_endenum : R_log (i_endenum fo rf) (i_endenum fo rf).
  Proof. pose proof R_i_nested_end. rl_solve. Qed.

  Lemma R_immediate_fn fuel name w :
    immediate_fn fo pr rf fuel name = Some w -> R_log w w.
  Proof.
    unfold immediate_fn. cbv zeta.
    apply (table_find_Forall (fun m => R_log m m)).
    pose proof R_i_nested_end. pose proof R_i_nested_inject.
    pose proof (R_i_enum pr). pose proof R_i_enum_field. pose proof R_i_enum_field_set. pose proof R_i_endenum.
    repeat (apply Forall_cons; [ cbn [snd]; solve [ auto 1 with rldb nocore ] | ]).
    apply Forall_nil.
  Qed.

  Lemma R_run_immediate fuel f :
    R_log (run_immediate fo pr rf fuel f) (run_immediate fo pr rf fuel f).
  Proof.
    unfold run_immediate. destruct f as [x|name].
    - pose proof R_run_m. rl_solve.
    - destruct (immediate_fn fo pr rf fuel name) as [w|] eqn:E.
      + eapply R_immediate_fn; eauto.
      + apply R_unsup.
  Qed.

  Lemma R_build_word fuel name :
    R_log (build_word fo pr rf fuel name) (build_word fo pr rf fuel name).
  Proof. pose proof R_run_immediate. rl_solve. Qed.

  Lemma R_build1 : forall fuel depth, R_log (build1 fo pr rf fuel depth) (build1 fo pr rf fuel depth).
  Proof.
    induction fuel as [|f IH]; intros depth; cbn [build1]; [apply R_unsup|].
    pose proof R_run_m. pose proof R_build_word.
    rl_solve.
  Qed.

  Lemma R_build_from_source fuel src m :
    R_log (build_from_source fo pr rf fuel src m) (build_from_source fo pr rf fuel src m).
  Proof.
    intro s. unfold build_from_source. cbv zeta.
    change (nested (erase_log s)) with (nested s).
    change (input (erase_log s)) with (input s).
    change (ds (erase_log s)) with (ds s).
    change (heap (erase_log s)) with (heap s).
    assert (Ho : R_log (context_open m;; intern_source src) (context_open m;; intern_source src))
      by rl_solve.
    rewrite <- (Ho s).
    destruct ((context_open m;; intern_source src) s) as [u s1|k p s1| |]; cbn [res_map]; try reflexivity.
    change (nested (erase_log s1)) with (nested s1).
    rewrite <- (R_build1 fuel (length (nested s1)) s1).
    destruct (build1 fo pr rf fuel (length (nested s1)) s1) as [u2 s2|k p s2| |];
      cbn [res_map]; try reflexivity.
    - apply R_context_close.
    - rewrite build_unwind_erase. reflexivity.
  Qed.

  Theorem recording_transparent_eval : forall fuel src s,
    res_map erase_log (eval fo pr rf fuel src s) = eval fo pr rf fuel src (erase_log s).
  Proof. intros. apply R_build_from_source. Qed.

  Theorem recording_transparent_compile : forall fuel src s,
    res_map erase_log (compile fo pr rf fuel src s) = compile fo pr rf fuel src (erase_log s).
  Proof. intros. apply R_build_from_source. Qed.

  Theorem recording_transparent_compile_run : forall fuel src s,
    res_map erase_log ((compile fo pr rf fuel src ;; run_m fo rf) s) =
    (compile fo pr rf fuel src ;; run_m fo rf) (erase_log s).
  Proof.
    intros fuel src.
    apply (R_bind _ _ _ _ _ _ (R_build_from_source fuel src MCompile) (fun _ => R_run_m)).
  Qed.
End Run.

(* ---------- the other API calls ---------- *)
Lemma recording_transparent_next : forall fo s,
  res_map erase_log (next (native_fn fo) s) = next (native_fn fo) (erase_log s).
Proof.
  intros fo s. unfold next. change (is_running (erase_log s)) with (is_running s).
  destruct (is_running s); [apply recording_transparent|reflexivity].
Qed.

Lemma recording_transparent_set_limits : forall s i h k,
  erase_log (set_limits s i h k) = set_limits (erase_log s) i h k.
Proof. reflexivity. Qed.

(* switching recording on, off, or replacing the log is invisible after erasing *)
Lemma recording_transparent_set_rlog : forall s l, erase_log (set_rlog s l) = erase_log s.
Proof. reflexivity. Qed.

(* ---------- single stepping ---------- *)
Lemma steps_erase : forall fo n s,
  steps (native_fn fo) n (erase_log s) = option_map erase_log (steps (native_fn fo) n s).
Proof.
  intros fo. induction n as [|n IH]; intro s; cbn [steps]; [reflexivity|].
  rewrite <- (recording_transparent fo s).
  destruct (fetch_and_run (native_fn fo) s) as [u s1|k p s1| |]; cbn [res_map option_map]; try reflexivity.
  apply IH.
Qed.

(* the outcome of single stepping to the end: [n] successful steps, then either the machine has
   stopped (result: that state) or the next step does not succeed (result: what that step
   returned - an error with its state, or a panic) *)
Definition stepped (nf : natives) (n : nat) (s : state) (r : res unit) : Prop :=
  exists sn, steps nf n s = Some sn /\
    ((is_running sn = false /\ r = ROk tt sn) \/
     (is_running sn = true /\ r = fetch_and_run nf sn /\ forall u s', r <> ROk u s')).

Lemma run_failing_step : forall nf fuel s,
  is_running s = true -> (forall u s', fetch_and_run nf s <> ROk u s') ->
  run nf (S fuel) s = Some (fetch_and_run nf s).
Proof.
  intros nf fuel s Hr Hf. cbn [run]. rewrite Hr.
  destruct (fetch_and_run nf s) as [u s1|k p s1| |]; try reflexivity.
  exfalso. eapply Hf. reflexivity.
Qed.

Theorem stepping_is_run : forall nf n s r fuel,
  stepped nf n s r -> n < fuel -> run nf fuel s = Some r.
Proof.
  intros nf n s r fuel (sn & Hs & H) Hlt.
  rewrite (run_is_stepping nf n s sn fuel Hs Hlt).
  destruct H as [(Hr & ->)|(Hr & -> & Hf)]; rewrite Hr; [reflexivity|].
  destruct (fuel - n) as [|g] eqn:E; [lia|].
  apply run_failing_step; assumption.
Qed.

Theorem run_is_stepped : forall nf fuel s r,
  run nf fuel s = Some r -> exists n, n < fuel /\ stepped nf n s r.
Proof.
  intros nf. induction fuel as [|f IH]; intros s r H; cbn [run] in H; [discriminate|].
  destruct (is_running s) eqn:Hr.
  - destruct (fetch_and_run nf s) as [u s1|k p s1| |] eqn:E.
    + destruct (IH s1 r H) as (n & Hn & sn & Hs & Hd).
      exists (S n). split; [lia|]. exists sn. split; [|exact Hd].
      cbn [steps]. rewrite E. exact Hs.
    + injection H as <-. exists 0. split; [lia|]. exists s. split; [reflexivity|].
      right. rewrite E. repeat split; [exact Hr|discriminate].
    + injection H as <-. exists 0. split; [lia|]. exists s. split; [reflexivity|].
      right. rewrite E. repeat split; [exact Hr|discriminate].
    + injection H as <-. exists 0. split; [lia|]. exists s. split; [reflexivity|].
      right. rewrite E. repeat split; [exact Hr|discriminate].
  - injection H as <-. exists 0. split; [lia|]. exists s. split; [reflexivity|].
    left. split; [exact Hr|reflexivity].
Qed.

Lemma stepped_erase : forall fo n s r,
  stepped (native_fn fo) n s r -> stepped (native_fn fo) n (erase_log s) (res_map erase_log r).
Proof.
  intros fo n s r (sn & Hs & H). exists (erase_log sn). split.
  - rewrite steps_erase, Hs. reflexivity.
  - change (is_running (erase_log sn)) with (is_running sn).
    destruct H as [(Hr & ->)|(Hr & -> & Hf)]; [left; split; [exact Hr|reflexivity]|right].
    split; [exact Hr|]. split; [apply recording_transparent|].
    intros u s' E. destruct (fetch_and_run (native_fn fo) sn) as [u1 s1|k p s1| |]; cbn [res_map] in E;
      try discriminate. eapply Hf. reflexivity.
Qed.

(* compile, then single-step to the end: a rejected source gives the build error, otherwise
   the outcome of stepping the compiled state (at most [rf] steps are allowed, as for run) *)
Definition compile_stepped (fo : fops) (pr : string -> option Z) (rf fuel : nat) (src : string)
           (s : state) (r : res unit) : Prop :=
  match compile fo pr rf fuel src s with
  | ROk _ sc => exists n, n < rf /\ stepped (native_fn fo) n sc r
  | e => r = e
  end.

Theorem compile_step_is_compile_run : forall fo pr rf fuel src s r,
  compile_stepped fo pr rf fuel src s r -> (compile fo pr rf fuel src ;; run_m fo rf) s = r.
Proof.
  intros fo pr rf fuel src s r H. unfold compile_stepped in H. unfold bind.
  destruct (compile fo pr rf fuel src s) as [u sc|k p sc| |]; try (symmetry; exact H).
  destruct H as (n & Hn & Hs). unfold run_m, nf. rewrite (stepping_is_run _ _ _ _ _ Hs Hn). reflexivity.
Qed.

(* the converse: unless the run is out of fuel, stepping reaches the result of compile ;; run *)
Theorem compile_run_is_compile_step : forall fo pr rf fuel src s,
  (forall sc, compile fo pr rf fuel src s = ROk tt sc -> run (native_fn fo) rf sc <> None) ->
  compile_stepped fo pr rf fuel src s ((compile fo pr rf fuel src ;; run_m fo rf) s).
Proof.
  intros fo pr rf fuel src s H. unfold compile_stepped, bind.
  destruct (compile fo pr rf fuel src s) as [u sc|k p sc| |]; try reflexivity.
  destruct u. specialize (H sc eq_refl). unfold run_m, nf.
  destruct (run (native_fn fo) rf sc) as [r|] eqn:E; [|contradiction].
  apply run_is_stepped. exact E.
Qed.

Theorem compile_stepped_erase : forall fo pr rf fuel src s r,
  compile_stepped fo pr rf fuel src s r ->
  compile_stepped fo pr rf fuel src (erase_log s) (res_map erase_log r).
Proof.
  intros fo pr rf fuel src s r H. unfold compile_stepped in *.
  rewrite <- recording_transparent_compile.
  destruct (compile fo pr rf fuel src s) as [u sc|k p sc| |]; cbn [res_map]; try (rewrite H; reflexivity).
  destruct H as (n & Hn & Hs). exists n. split; [exact Hn|]. apply stepped_erase. exact Hs.
Qed.

(* the definitions, unfolded (pinned in Props/C15_sixway.v) *)
Lemma stepped_iff : forall nf n s r,
  stepped nf n s r <->
  exists sn, steps nf n s = Some sn /\
    ((is_running sn = false /\ r = ROk tt sn) \/
     (is_running sn = true /\ r = fetch_and_run nf sn /\ forall u s', r <> ROk u s')).
Proof. intros. reflexivity. Qed.

Lemma compile_stepped_iff : forall fo pr rf fuel src s r,
  compile_stepped fo pr rf fuel src s r <->
  match compile fo pr rf fuel src s with
  | ROk _ sc => exists n, n < rf /\ stepped (native_fn fo) n sc r
  | e => r = e
  end.
Proof. intros. reflexivity. Qed.

(* the same in the vocabulary of [steps] alone *)
Theorem compile_step_stops : forall fo pr rf fuel src s sc n sn,
  compile fo pr rf fuel src s = ROk tt sc ->
  steps (native_fn fo) n sc = Some sn -> is_running sn = false -> n < rf ->
  (compile fo pr rf fuel src ;; run_m fo rf) s = ROk tt sn.
Proof.
  intros fo pr rf fuel src s sc n sn Hc Hs Hr Hn. apply compile_step_is_compile_run.
  unfold compile_stepped. rewrite Hc. exists n. split; [exact Hn|].
  exists sn. split; [exact Hs|]. left. split; [exact Hr|reflexivity].
Qed.

Theorem compile_step_fails : forall fo pr rf fuel src s sc n sn,
  compile fo pr rf fuel src s = ROk tt sc ->
  steps (native_fn fo) n sc = Some sn -> is_running sn = true ->
  (forall u s', fetch_and_run (native_fn fo) sn <> ROk u s') -> n < rf ->
  (compile fo pr rf fuel src ;; run_m fo rf) s = fetch_and_run (native_fn fo) sn.
Proof.
  intros fo pr rf fuel src s sc n sn Hc Hs Hr Hf Hn. apply compile_step_is_compile_run.
  unfold compile_stepped. rewrite Hc. exists n. split; [exact Hn|].
  exists sn. split; [exact Hs|]. right. split; [exact Hr|]. split; [reflexivity|exact Hf].
Qed.

Theorem compile_rejected : forall fo pr rf fuel src s k p se,
  compile fo pr rf fuel src s = RErr k p se ->
  (compile fo pr rf fuel src ;; run_m fo rf) s = RErr k p se.
Proof. intros fo pr rf fuel src s k p se H. unfold bind. rewrite H. reflexivity. Qed.

(* building the premise of the six-way statement from explicit steps *)
Lemma compile_stepped_stops : forall fo pr rf fuel src s sc n sn,
  compile fo pr rf fuel src s = ROk tt sc ->
  steps (native_fn fo) n sc = Some sn -> is_running sn = false -> n < rf ->
  compile_stepped fo pr rf fuel src s (ROk tt sn).
Proof.
  intros fo pr rf fuel src s sc n sn Hc Hs Hr Hn. unfold compile_stepped. rewrite Hc.
  exists n. split; [exact Hn|]. exists sn. split; [exact Hs|]. left. split; [exact Hr|reflexivity].
Qed.
