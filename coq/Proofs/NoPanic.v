(* NoPanic.v (C08): the mirror never returns the panic outcome.

   (a) every native word; (b) fetch_and_run / next / run; (c) rnext / reverse_changes.
   The lexer, the bit-string library and the builder are in NoPanicLex.v, NoPanicBits.v,
   NoPanicBuild.v (debug-map invariant) and NoPanicFlow.v (flow-stack invariant, API theorem).

   [wl] of VmFrame.v has a constructor for [panic] (it describes what a program may touch,
   not what it returns), so the words are walked once more with the semantic predicate
   [np m := forall s, m s <> RPanic]; the tactic mirrors [wl_solve] and has no rule for
   [panic]: a word containing it would get stuck. *)
From Xeh Require Import Model.Prelude Model.Bits Model.Codec Model.Cell Model.Lexer Model.Fmt
                        Model.Vm Model.Words.
From Xeh Require Import Proofs.VmFrame.
Local Notation length := List.length.

#[local] Arguments Z.add : simpl never.
#[local] Arguments Z.sub : simpl never.
#[local] Arguments Z.mul : simpl never.
#[local] Arguments Z.ltb : simpl never.
#[local] Arguments Z.leb : simpl never.
#[local] Arguments Z.eqb : simpl never.
#[local] Arguments Z.of_nat : simpl never.
#[local] Arguments Z.to_nat : simpl never.

Definition np {A} (m : M A) : Prop := forall s, m s <> RPanic.

(* ---------- the monad ---------- *)
Lemma np_ret A (a : A) : np (ret a).
Proof. intros s. discriminate. Qed.
Lemma np_fail A k p : np (@fail A k p).
Proof. intros s. discriminate. Qed.
Lemma np_unsup A : np (@unsup A).
Proof. intros s. discriminate. Qed.
Lemma np_get : np get.
Proof. intros s. discriminate. Qed.
Lemma np_put s' : np (put s').
Proof. intros s. discriminate. Qed.
Lemma np_modify f : np (modify f).
Proof. intros s. discriminate. Qed.

Lemma np_bind A B (m : M A) (f : A -> M B) : np m -> (forall a, np (f a)) -> np (bind m f).
Proof.
  intros Hm Hf s. unfold bind. specialize (Hm s).
  destruct (m s) as [a s1|k p s1| |]; try discriminate; [apply Hf|contradiction].
Qed.

(* ---------- the primitives ---------- *)
Ltac np_cases :=
  repeat match goal with
         | |- context [match ?x with _ => _ end] => destruct x
         end;
  discriminate.

Lemma np_push_data c : np (push_data c).
Proof. intros s. unfold push_data. np_cases. Qed.
Lemma np_pop_data : np pop_data.
Proof. intros s. unfold pop_data. np_cases. Qed.
Lemma np_top_data : np top_data.
Proof. intros s. unfold top_data. np_cases. Qed.
Lemma np_swap_data : np swap_data.
Proof. intros s. unfold swap_data. np_cases. Qed.
Lemma np_rot_data : np rot_data.
Proof. intros s. unfold rot_data. np_cases. Qed.
Lemma np_over_data : np over_data.
Proof. intros s. unfold over_data, push_data. np_cases. Qed.
Lemma np_push_return f : np (push_return f).
Proof. intros s. discriminate. Qed.
Lemma np_pop_return : np pop_return.
Proof. intros s. unfold pop_return. np_cases. Qed.
Lemma np_top_frame : np top_frame.
Proof. intros s. unfold top_frame. np_cases. Qed.
Lemma np_push_loop l : np (push_loop l).
Proof. intros s. discriminate. Qed.
Lemma np_pop_loop : np pop_loop.
Proof. intros s. unfold pop_loop. np_cases. Qed.
Lemma np_loop_next : np loop_next.
Proof. intros s. unfold loop_next. np_cases. Qed.
Lemma np_loop_set_items c : np (loop_set_items c).
Proof. intros s. unfold loop_set_items. np_cases. Qed.
Lemma np_push_special p : np (push_special p).
Proof. intros s. discriminate. Qed.
Lemma np_pop_special : np pop_special.
Proof. intros s. unfold pop_special. np_cases. Qed.
Lemma np_get_var a : np (get_var a).
Proof. intros s. unfold get_var. np_cases. Qed.
Lemma np_set_var a v : np (set_var a v).
Proof. intros s. unfold set_var. np_cases. Qed.
Lemma np_alloc_heap v : np (alloc_heap v).
Proof. intros s. unfold alloc_heap. np_cases. Qed.
Lemma np_init_local i v : np (init_local i v).
Proof. intros s. unfold init_local. np_cases. Qed.
Lemma np_set_ip n : np (set_ip n).
Proof. intros s. discriminate. Qed.
Lemma np_next_ip : np next_ip.
Proof. intros s. discriminate. Qed.
Lemma np_print msg : np (print msg).
Proof. intros s. discriminate. Qed.
Lemma np_meter_increase : np meter_increase.
Proof. intros s. unfold meter_increase. np_cases. Qed.

(* ---------- the tactic that walks a word ---------- *)
Ltac np_prim :=
  lazymatch goal with
  | |- np (ret _) => apply np_ret
  | |- np (fail _ _) => apply np_fail
  | |- np unsup => apply np_unsup
  | |- np get => apply np_get
  | |- np (put _) => apply np_put
  | |- np (modify _) => apply np_modify
  | |- np (push_data _) => apply np_push_data
  | |- np pop_data => apply np_pop_data
  | |- np top_data => apply np_top_data
  | |- np swap_data => apply np_swap_data
  | |- np rot_data => apply np_rot_data
  | |- np over_data => apply np_over_data
  | |- np (push_return _) => apply np_push_return
  | |- np pop_return => apply np_pop_return
  | |- np top_frame => apply np_top_frame
  | |- np (push_loop _) => apply np_push_loop
  | |- np pop_loop => apply np_pop_loop
  | |- np loop_next => apply np_loop_next
  | |- np (loop_set_items _) => apply np_loop_set_items
  | |- np (push_special _) => apply np_push_special
  | |- np pop_special => apply np_pop_special
  | |- np (get_var _) => apply np_get_var
  | |- np (set_var _ _) => apply np_set_var
  | |- np (alloc_heap _) => apply np_alloc_heap
  | |- np (init_local _ _) => apply np_init_local
  | |- np (set_ip _) => apply np_set_ip
  | |- np next_ip => apply np_next_ip
  | |- np (print _) => apply np_print
  end.

Create HintDb npdb.

Ltac np_step :=
  cbv beta zeta;
  first
    [ np_prim
    | solve [ auto 2 with npdb nocore ]
    | lazymatch goal with
      | |- np (bind _ _) => apply np_bind; [ | intro ]
      | |- np (match ?x with _ => _ end) => destruct x
      | |- np ?m => let h := head_of m in unfold h
      end ].

Ltac np_solve := repeat np_step.

Lemma np_pop_n : forall n, np (pop_n n).
Proof. induction n; cbn [pop_n]; np_solve. Qed.
#[export] Hint Resolve np_pop_n : npdb.

Lemma np_push_all : forall l, np (push_all l).
Proof. induction l; cbn [push_all]; np_solve. Qed.
#[export] Hint Resolve np_push_all : npdb.

(* ---------- (a) the native words ---------- *)
Lemma np_word_table : forall fo, Forall (fun nw => np (snd nw)) (word_table fo).
Proof.
  intro fo. unfold word_table.
  repeat (apply Forall_cons; [ cbn [snd]; np_solve | ]).
  apply Forall_nil.
Qed.

Lemma np_sized_word : forall fo name w, sized_word fo name = Some w -> np w.
Proof.
  intros fo name w H. unfold sized_word in H. cbv beta zeta in H.
  repeat match type of H with
         | context [if ?b then _ else _] =>
           destruct b; cbv beta iota in H;
           [ injection H as <-; np_solve | ]
         end.
  discriminate.
Qed.

Theorem native_np : forall fo w f, native_fn fo w = Some f -> np f.
Proof.
  intros fo w f H. unfold native_fn in H.
  destruct (table_find (word_table fo) w) eqn:E.
  - injection H as <-.
    eapply table_find_Forall with (P := fun m => np m); [ apply np_word_table | exact E ].
  - eapply np_sized_word; eauto.
Qed.

Theorem native_no_panic : forall fo w f s, native_fn fo w = Some f -> f s <> RPanic.
Proof. intros fo w f s H. exact (native_np fo w f H s). Qed.

(* ---------- (b) one instruction, next, run ---------- *)
Lemma np_exec_op : forall (nf : natives),
  (forall w f, nf w = Some f -> np f) ->
  forall ip0 op, np (exec_op nf ip0 op).
Proof.
  intros nf Hnf ip0 op. destruct op; cbn [exec_op];
    try (np_solve; fail).
  destruct (nf w) eqn:E; np_solve. eapply Hnf; eauto.
Qed.

Section WithTable.
  Variable nf : natives.
  Hypothesis Hnf : forall w f, nf w = Some f -> np f.

  Lemma nth_error_running : forall s, is_running s = true -> nth_error (code s) (ip s) <> None.
  Proof.
    intros s H. unfold is_running in H. apply Nat.ltb_lt in H.
    apply nth_error_Some. exact H.
  Qed.

  (* the panic outcome of fetch_and_run is exactly the out-of-range fetch *)
  Lemma far_panic_iff_gen : forall s,
    fetch_and_run nf s = RPanic <-> (is_running s = false /\ mlim s (meter s) = false).
  Proof.
    intros s. split.
    - intros E. pose proof (far_spec_holds nf s) as FS. rewrite E in FS.
      inversion FS as [ | Hm Hn | op Hm Hn Hr Hx | | | name e Hm Hn Hd Hm2 Hx ].
      + split; [|exact Hm]. unfold is_running. apply Nat.ltb_ge.
        apply nth_error_None. exact Hn.
      + exfalso. exact (np_exec_op nf Hnf _ _ _ Hx).
      + exfalso. exact (np_exec_op nf Hnf _ _ _ Hx).
    - intros [Hr Hm]. unfold fetch_and_run. rewrite meter_increase_eq, Hm.
      change (code (set_meter s (meter s + 1)%Z)) with (code s).
      unfold is_running in Hr. apply Nat.ltb_ge in Hr.
      apply nth_error_None in Hr. rewrite Hr. reflexivity.
  Qed.

  Lemma far_no_panic_gen : forall s, is_running s = true -> fetch_and_run nf s <> RPanic.
  Proof.
    intros s Hr E. apply far_panic_iff_gen in E. destruct E as [E _]. congruence.
  Qed.

  Lemma next_no_panic_gen : forall s, next nf s <> RPanic.
  Proof.
    intros s. unfold next. destruct (is_running s) eqn:E; [|discriminate].
    apply far_no_panic_gen. exact E.
  Qed.

  Lemma run_no_panic_gen : forall fuel s, run nf fuel s <> Some RPanic.
  Proof.
    induction fuel as [|f IH]; intros s; cbn [run]; [discriminate|].
    destruct (is_running s) eqn:E; [|discriminate].
    pose proof (far_no_panic_gen s E) as H.
    destruct (fetch_and_run nf s) as [u s1|k p s1| |]; try discriminate.
    - apply IH.
    - contradiction.
  Qed.
End WithTable.

Theorem far_panic_iff : forall fo s,
  fetch_and_run (native_fn fo) s = RPanic <-> (is_running s = false /\ mlim s (meter s) = false).
Proof. intros fo. apply far_panic_iff_gen. apply native_np. Qed.

Theorem far_no_panic : forall fo s, is_running s = true -> fetch_and_run (native_fn fo) s <> RPanic.
Proof. intros fo. apply far_no_panic_gen. apply native_np. Qed.

Theorem next_no_panic : forall fo s, next (native_fn fo) s <> RPanic.
Proof. intros fo. apply next_no_panic_gen. apply native_np. Qed.

Theorem run_no_panic : forall fo fuel s, run (native_fn fo) fuel s <> Some RPanic.
Proof. intros fo. apply run_no_panic_gen. apply native_np. Qed.

(* ---------- (c) reverse stepping ---------- *)
Theorem reverse_changes_no_panic : forall r s, reverse_changes r s <> RPanic.
Proof.
  intros r s. destruct r; unfold reverse_changes; try np_cases.
  pose proof (np_pop_data s) as H. destruct (pop_data s); try discriminate. contradiction.
Qed.

Lemma rnext_loop_no_panic : forall fuel s, rnext_loop fuel s <> RPanic.
Proof.
  induction fuel as [|f IH]; intros s; cbn [rnext_loop]; [discriminate|].
  destruct (log_pop s) as [[r s']|]; [|discriminate].
  destruct r; try discriminate;
    match goal with
    | |- context [reverse_changes ?r s'] =>
      pose proof (reverse_changes_no_panic r s') as H;
      destruct (reverse_changes r s'); try discriminate; [apply IH|contradiction]
    end.
Qed.

Theorem rnext_no_panic : forall s, rnext s <> RPanic.
Proof.
  intros s. unfold rnext. destruct (log_pop s) as [[r s']|]; [|apply rnext_loop_no_panic].
  pose proof (reverse_changes_no_panic r s') as H.
  destruct (reverse_changes r s'); try discriminate; [apply rnext_loop_no_panic|contradiction].
Qed.
