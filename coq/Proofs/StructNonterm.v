(* StructNonterm.v: loops that structurally never terminate never fall through, and how a
   `break` travels: unchanged through if / else / case / the rest of a block up to the nearest
   enclosing loop, which ends normally in the state of the break (a counted loop pops its
   record first). *)
From Xeh Require Import Model.Prelude Model.Bits Model.Codec Model.Cell Model.Lexer Model.Fmt
                        Model.Vm Model.Words Model.Struct
                        Proofs.VmFrame Proofs.StructBase Proofs.StructNat Proofs.StructInv
                        Proofs.StructLoops Proofs.StructRs Proofs.StructDo.
Local Notation length := List.length.

Lemma done_on_res : forall r kd kb s',
  on_res r kd kb = SDone s' ->
  (exists s1, r = SDone s1 /\ kd s1 = SDone s') \/ (exists s1, r = SBroke s1 /\ kb s1 = SDone s').
Proof. intros r kd kb s' H. destruct r; cbn in H; try discriminate; eauto. Qed.

(* the result of a diverging computation: out of fuel, an error, or outside the model *)
Definition no_result (r : sres) : Prop :=
  match r with
  | SDone _ | SBroke _ => False
  | _ => True
  end.

Section Nonterm.
  Variable fo : fops.
  Variable funs : list (nat * list stmt).
  Notation sblock := (sblock fo funs).
  Notation sstmt := (sstmt fo funs).

  (* ---------- begin ... repeat ---------- *)
  Lemma repeat_not_broke : forall b f s s', sstmt f (SRepeat b) s <> SBroke s'.
  Proof.
    intros b. induction f as [| f IH]; intros s s' H; [ discriminate | ].
    rewrite sstmt_SRepeat in H. apply broke_on_res in H as [(s1 & _ & H) | (s1 & _ & H)].
    - eapply IH; eauto.
    - discriminate.
  Qed.

  (* semantic condition: the body never stops at a break *)
  Theorem repeat_never_done : forall b,
    (forall f s s', sblock f b s <> SBroke s') ->
    forall f s s', sstmt f (SRepeat b) s <> SDone s'.
  Proof.
    intros b Hb. induction f as [| f IH]; intros s s' H; [ discriminate | ].
    rewrite sstmt_SRepeat in H. apply done_on_res in H as [(s1 & _ & H) | (s1 & E & _)].
    - eapply IH; eauto.
    - eapply Hb; eauto.
  Qed.

  Corollary repeat_no_result : forall b,
    (forall f s s', sblock f b s <> SBroke s') ->
    forall f s, no_result (sstmt f (SRepeat b) s).
  Proof.
    intros b Hb f s. destruct (sstmt f (SRepeat b) s) eqn:E; cbn; auto.
    - eapply repeat_never_done; eauto.
    - eapply repeat_not_broke; eauto.
  Qed.

  (* syntactic sufficient condition: no break at the loop's own level *)
  Corollary repeat_no_break_never_done : forall b,
    funs_nobreak funs -> has_own_break_block b = false ->
    forall f s, no_result (sstmt f (SRepeat b) s).
  Proof.
    intros b Hf Hb. apply repeat_no_result. intros f s s'. apply nobreak_block; assumption.
  Qed.

  (* if moreover the body always runs to its end (from the states of an invariant set),
     the loop is out of fuel for every fuel *)
  Theorem repeat_diverges : forall b (Inv : state -> Prop),
    (forall f s, Inv s -> sblock f b s = SOut \/ exists s', sblock f b s = SDone s' /\ Inv s') ->
    forall f s, Inv s -> sstmt f (SRepeat b) s = SOut.
  Proof.
    intros b Inv Hb. induction f as [| f IH]; intros s Hs; [ reflexivity | ].
    rewrite sstmt_SRepeat. destruct (Hb f s Hs) as [E | (s1 & E & H1)]; rewrite E; cbn [on_res].
    - reflexivity.
    - apply IH. exact H1.
  Qed.

  (* ---------- begin ... until ---------- *)
  (* the condition is never true *)
  Theorem until_never_done : forall b p,
    (forall f s s1 s2, sblock f b s = SDone s1 -> m_test s1 <> ROk true s2) ->
    forall f s s', sstmt f (SUntil b p) s <> SDone s'.
  Proof.
    intros b p Hc. induction f as [| f IH]; intros s s' H; [ discriminate | ].
    rewrite sstmt_SUntil in H. apply done_on_res in H as [(s1 & E & H) | (s1 & _ & H)]; [ | discriminate ].
    apply run_m_done_inv in H as (c & s2 & Et & H). destruct c.
    - eapply Hc; eauto.
    - eapply IH; eauto.
  Qed.

  (* until does not catch a break; with a body that has none the loop has no result at all *)
  Corollary until_no_result : forall b p,
    funs_nobreak funs -> has_own_break_block b = false ->
    (forall f s s1 s2, sblock f b s = SDone s1 -> m_test s1 <> ROk true s2) ->
    forall f s, no_result (sstmt f (SUntil b p) s).
  Proof.
    intros b p Hf Hb Hc f s. destruct (sstmt f (SUntil b p) s) eqn:E; cbn; auto.
    - eapply until_never_done; eauto.
    - eapply (nobreak_stmt fo funs Hf); [ | exact E ]. rewrite has_own_break_SUntil. exact Hb.
  Qed.

  Theorem until_diverges : forall b p (Inv : state -> Prop),
    (forall f s, Inv s ->
       sblock f b s = SOut \/
       exists s1 s2, sblock f b s = SDone s1 /\ m_test s1 = ROk false s2 /\ Inv s2) ->
    forall f s, Inv s -> sstmt f (SUntil b p) s = SOut.
  Proof.
    intros b p Inv Hb. induction f as [| f IH]; intros s Hs; [ reflexivity | ].
    rewrite sstmt_SUntil. destruct (Hb f s Hs) as [E | (s1 & s2 & E & Et & H2)]; rewrite E; cbn [on_res].
    - reflexivity.
    - rewrite (run_m_ok _ _ _ _ _ _ _ Et). apply IH. exact H2.
  Qed.

  (* ---------- begin ... while ... repeat ---------- *)
  Lemma while_not_broke : forall c p b f s s', sstmt f (SWhile c p b) s <> SBroke s'.
  Proof.
    intros c p b. induction f as [| f IH]; intros s s' H; [ discriminate | ].
    rewrite sstmt_SWhile in H. apply broke_on_res in H as [(s1 & _ & H) | (s1 & _ & H)]; [ | discriminate ].
    apply run_m_broke_inv in H as (go & s2 & _ & H). destruct go; [ | discriminate ].
    apply broke_on_res in H as [(s3 & _ & H) | (s3 & _ & H)]; [ | discriminate ].
    eapply IH; eauto.
  Qed.

  (* the condition is never false, and neither part stops at a break *)
  Theorem while_never_done : forall c p b,
    (forall f s s', sblock f c s <> SBroke s') ->
    (forall f s s', sblock f b s <> SBroke s') ->
    (forall f s s1 s2, sblock f c s = SDone s1 -> m_test s1 <> ROk false s2) ->
    forall f s s', sstmt f (SWhile c p b) s <> SDone s'.
  Proof.
    intros c p b Hcb Hbb Hc. induction f as [| f IH]; intros s s' H; [ discriminate | ].
    rewrite sstmt_SWhile in H. apply done_on_res in H as [(s1 & E & H) | (s1 & E & _)].
    - apply run_m_done_inv in H as (go & s2 & Et & H). destruct go.
      + apply done_on_res in H as [(s3 & E3 & H) | (s3 & E3 & _)].
        * eapply IH; eauto.
        * eapply Hbb; eauto.
      + eapply Hc; eauto.
    - eapply Hcb; eauto.
  Qed.

  Corollary while_no_result : forall c p b,
    funs_nobreak funs -> has_own_break_block c = false -> has_own_break_block b = false ->
    (forall f s s1 s2, sblock f c s = SDone s1 -> m_test s1 <> ROk false s2) ->
    forall f s, no_result (sstmt f (SWhile c p b) s).
  Proof.
    intros c p b Hf Hc Hb Ht f s. destruct (sstmt f (SWhile c p b) s) eqn:E; cbn; auto.
    - eapply while_never_done; eauto; intros; apply nobreak_block; assumption.
    - eapply while_not_broke; eauto.
  Qed.

  Theorem while_diverges : forall c p b (Inv : state -> Prop),
    (forall f s, Inv s ->
       sblock f c s = SOut \/
       exists s1 s2, sblock f c s = SDone s1 /\ m_test s1 = ROk true s2 /\
                     (sblock f b s2 = SOut \/ exists s3, sblock f b s2 = SDone s3 /\ Inv s3)) ->
    forall f s, Inv s -> sstmt f (SWhile c p b) s = SOut.
  Proof.
    intros c p b Inv Hb. induction f as [| f IH]; intros s Hs; [ reflexivity | ].
    rewrite sstmt_SWhile. destruct (Hb f s Hs) as [E | (s1 & s2 & E & Et & Hbody)]; rewrite E; cbn [on_res].
    - reflexivity.
    - rewrite (run_m_ok _ _ _ _ _ _ _ Et). destruct Hbody as [E3 | (s3 & E3 & H3)]; rewrite E3; cbn [on_res].
      + reflexivity.
      + apply IH. exact H3.
  Qed.

  (* ---------- a loop that never ends never falls through ---------- *)
  (* the statements after it are not evaluated: the block's result is the loop's result *)
  Theorem block_stops_at_no_result : forall f x r s,
    no_result (sstmt f x s) -> sblock (S f) (x :: r) s = sstmt f x s.
  Proof.
    intros f x r s H. rewrite sblock_cons. destruct (sstmt f x s); cbn in *; try contradiction; reflexivity.
  Qed.

  (* ---------- break ---------- *)
  (* through the rest of a block *)
  Theorem break_skips_rest : forall f x r s s1,
    sstmt f x s = SBroke s1 -> sblock (S f) (x :: r) s = SBroke s1.
  Proof. intros f x r s s1 H. rewrite sblock_cons, H. reflexivity. Qed.

  Theorem break_stmt : forall f s, sstmt (S f) SBreak s = SBroke s.
  Proof. reflexivity. Qed.

  (* through if / else *)
  Theorem break_through_if : forall f p t s s1 s2,
    m_test s = ROk true s1 -> sblock f t s1 = SBroke s2 -> sstmt (S f) (SIf p t) s = SBroke s2.
  Proof. intros f p t s s1 s2 Et H. rewrite sstmt_SIf, (run_m_ok _ _ _ _ _ _ _ Et). exact H. Qed.

  Theorem break_through_ife : forall f p t e s c s1 s2,
    m_test s = ROk c s1 -> sblock f (if c then t else e) s1 = SBroke s2 ->
    sstmt (S f) (SIfE p t e) s = SBroke s2.
  Proof.
    intros f p t e s c s1 s2 Et H. rewrite sstmt_SIfE, (run_m_ok _ _ _ _ _ _ _ Et).
    destruct c; exact H.
  Qed.

  (* through case: the selector part of an arm, the body of the selected arm, the default part *)
  Theorem case_arm_selected : forall f pre pof body rest d s s1 s2 c s3,
    sblock f pre s = SDone s1 -> m_of s1 = ROk true s2 -> pop_data s2 = ROk c s3 ->
    sstmt (S f) (SCase ((pre, pof, body) :: rest) d) s = sblock f body s3.
  Proof.
    intros f pre pof body rest d s s1 s2 c s3 E1 E2 E3.
    rewrite sstmt_SCase, case_go_cons, E1. cbn [on_res].
    rewrite (run_m_ok _ _ _ _ _ _ _ E2), (run_m_ok _ _ _ _ _ _ _ E3). reflexivity.
  Qed.

  Theorem case_arm_skipped : forall f pre pof body rest d s s1 s2,
    sblock f pre s = SDone s1 -> m_of s1 = ROk false s2 ->
    sstmt (S f) (SCase ((pre, pof, body) :: rest) d) s = sstmt (S f) (SCase rest d) s2.
  Proof.
    intros f pre pof body rest d s s1 s2 E1 E2.
    rewrite !sstmt_SCase, case_go_cons, E1. cbn [on_res].
    rewrite (run_m_ok _ _ _ _ _ _ _ E2). reflexivity.
  Qed.

  Theorem case_default : forall f d s, sstmt (S f) (SCase [] d) s = sblock f d s.
  Proof. reflexivity. Qed.

  Theorem break_in_case_selector : forall f pre pof body rest d s s1,
    sblock f pre s = SBroke s1 -> sstmt (S f) (SCase ((pre, pof, body) :: rest) d) s = SBroke s1.
  Proof. intros. rewrite sstmt_SCase, case_go_cons, H. reflexivity. Qed.

  (* ---------- the nearest enclosing loop catches it ---------- *)
  Theorem repeat_catches_break : forall f b s s1,
    sblock f b s = SBroke s1 -> sstmt (S f) (SRepeat b) s = SDone s1.
  Proof. intros f b s s1 H. rewrite sstmt_SRepeat, H. reflexivity. Qed.

  Theorem while_catches_break_in_body : forall f c p b s s1 s2 s3,
    sblock f c s = SDone s1 -> m_test s1 = ROk true s2 -> sblock f b s2 = SBroke s3 ->
    sstmt (S f) (SWhile c p b) s = SDone s3.
  Proof.
    intros f c p b s s1 s2 s3 E1 E2 E3. rewrite sstmt_SWhile, E1. cbn [on_res].
    rewrite (run_m_ok _ _ _ _ _ _ _ E2), E3. reflexivity.
  Qed.

  Theorem while_catches_break_in_condition : forall f c p b s s1,
    sblock f c s = SBroke s1 -> sstmt (S f) (SWhile c p b) s = SDone s1.
  Proof. intros f c p b s s1 H. rewrite sstmt_SWhile, H. reflexivity. Qed.

  (* until does NOT catch it (the compiler refuses a break directly under until) *)
  Theorem until_passes_break : forall f b p s s1,
    sblock f b s = SBroke s1 -> sstmt (S f) (SUntil b p) s = SBroke s1.
  Proof. intros f b p s s1 H. rewrite sstmt_SUntil, H. reflexivity. Qed.

  (* a later trip of repeat / while: the loop goes round while the body runs to its end *)
  Theorem repeat_next_trip : forall f b s s1,
    sblock f b s = SDone s1 -> sstmt (S f) (SRepeat b) s = sstmt f (SRepeat b) s1.
  Proof. intros f b s s1 H. rewrite sstmt_SRepeat, H. reflexivity. Qed.

  Theorem while_next_trip : forall f c p b s s1 s2 s3,
    sblock f c s = SDone s1 -> m_test s1 = ROk true s2 -> sblock f b s2 = SDone s3 ->
    sstmt (S f) (SWhile c p b) s = sstmt f (SWhile c p b) s3.
  Proof.
    intros f c p b s s1 s2 s3 E1 E2 E3. rewrite sstmt_SWhile, E1. cbn [on_res].
    rewrite (run_m_ok _ _ _ _ _ _ _ E2), E3. reflexivity.
  Qed.

  Theorem while_exit : forall f c p b s s1 s2,
    sblock f c s = SDone s1 -> m_test s1 = ROk false s2 -> sstmt (S f) (SWhile c p b) s = SDone s2.
  Proof.
    intros f c p b s s1 s2 E1 E2. rewrite sstmt_SWhile, E1. cbn [on_res].
    rewrite (run_m_ok _ _ _ _ _ _ _ E2). reflexivity.
  Qed.

  Theorem until_exit : forall f b p s s1 s2,
    sblock f b s = SDone s1 -> m_test s1 = ROk true s2 -> sstmt (S f) (SUntil b p) s = SDone s2.
  Proof.
    intros f b p s s1 s2 E1 E2. rewrite sstmt_SUntil, E1. cbn [on_res].
    rewrite (run_m_ok _ _ _ _ _ _ _ E2). reflexivity.
  Qed.

  Theorem until_next_trip : forall f b p s s1 s2,
    sblock f b s = SDone s1 -> m_test s1 = ROk false s2 ->
    sstmt (S f) (SUntil b p) s = sstmt f (SUntil b p) s2.
  Proof.
    intros f b p s s1 s2 E1 E2. rewrite sstmt_SUntil, E1. cbn [on_res].
    rewrite (run_m_ok _ _ _ _ _ _ _ E2). reflexivity.
  Qed.
End Nonterm.

(* ---------- break in a counted loop ---------- *)
Section DoBreak.
  Variable body : state -> sres.
  Variable pl : pos.
  Hypothesis Hbody : forall s s', body s = SDone s' ->
    cx s' = cx s /\ map lkey (loops s') = map lkey (loops s).

  (* after i complete trips (i < limit - start) the body stops at a break: the loop pops its record *)
  Lemma do_iter_break : forall i k s l r si s3,
    loops s = l :: r -> (Z.of_nat i < l_end l - l_start l)%Z -> i < k ->
    trips body i s = Some si -> body si = SBroke s3 ->
    do_iter body pl k s = run_m pop_loop pl s3 (fun _ s4 => SDone s4).
  Proof.
    induction i as [| i IH]; intros k s l r si s3 El Hi Hk Ht Hb.
    - cbn [trips] in Ht. injection Ht as <-. destruct k as [| k]; [ lia | ].
      rewrite do_iter_S, Hb. reflexivity.
    - destruct k as [| k]; [ lia | ].
      cbn [trips] in Ht. destruct (body s) as [s3' | | | |] eqn:Eb; try discriminate.
      destruct (loop_next s3') as [m s4 | | |] eqn:En; try discriminate.
      destruct (trip_step body Hbody s l r s3' m s4 El Eb En) as (l4 & r4 & E4 & S4 & L4 & M4 & Em & _).
      assert (N : next_start l = (l_start l + 1)%Z).
      { unfold next_start. destruct (Z.ltb_spec (l_start l) (l_end l)); lia. }
      assert (Hm : (next_start l <? l_end l)%Z = true) by (apply Z.ltb_lt; lia).
      rewrite do_iter_S, Eb. cbn [on_res]. rewrite (run_m_ok _ _ _ _ _ _ _ En). subst m. rewrite Hm.
      eapply IH; eauto; lia.
  Qed.
End DoBreak.

Section DoBreak2.
  Variable fo : fops.
  Variable funs : list (nat * list stmt).
  Notation sblock := (sblock fo funs).
  Notation sstmt := (sstmt fo funs).

  (* a break in the (i+1)-th trip of a counted loop: the loop's own record is popped and
     the loop ends normally; the loop stack is the one from before the loop (up to items) *)
  Theorem do_catches_break : forall f p b pl s l s1 s2 i si s3,
    do_init s = ROk l s1 -> push_loop l s1 = ROk tt s2 ->
    (Z.of_nat i < l_end l - l_start l)%Z -> i < f ->
    trips (sblock f b) i s2 = Some si -> sblock f b si = SBroke s3 ->
    sstmt (S f) (SDo p b pl) s = run_m pop_loop pl s3 (fun _ s4 => SDone s4).
  Proof.
    intros f p b pl s l s1 s2 i si s3 Ei Ep Hi Hf Ht Hb.
    pose proof Ep as Ep0. apply push_loop_ok in Ep0 as (L2 & _ & _).
    assert (HB : forall s0 s0', sblock f b s0 = SDone s0' ->
                 cx s0' = cx s0 /\ map lkey (loops s0') = map lkey (loops s0)).
    { intros s0 s0' E. eapply loop_keys_block. left. exact E. }
    rewrite sstmt_SDo, (run_m_ok _ _ _ _ _ _ _ Ei).
    assert (Hnle : (l_end l <=? l_start l)%Z = false) by (apply Z.leb_gt; lia).
    rewrite Hnle, (run_m_ok _ _ _ _ _ _ _ Ep).
    eapply do_iter_break; eauto.
  Qed.

  (* with the loop-stack mark of the context below the stack, the pop succeeds *)
  Theorem do_catches_break_done : forall f p b pl s l s1 s2 i si s3,
    ls_len (cx s) <= length (loops s) ->
    do_init s = ROk l s1 -> push_loop l s1 = ROk tt s2 ->
    (Z.of_nat i < l_end l - l_start l)%Z -> i < f ->
    trips (sblock f b) i s2 = Some si -> sblock f b si = SBroke s3 ->
    exists l4 s4, pop_loop s3 = ROk l4 s4 /\ sstmt (S f) (SDo p b pl) s = SDone s4 /\
                  map lkey (loops s4) = map lkey (loops s) /\ cx s4 = cx s.
  Proof.
    intros f p b pl s l s1 s2 i si s3 Hwf Ei Ep Hi Hf Ht Hb.
    pose proof (do_catches_break f p b pl s l s1 s2 i si s3 Ei Ep Hi Hf Ht Hb) as Hd.
    destruct (do_init_ok _ _ _ Ei) as [(_ & C1 & M1 & _) _].
    pose proof Ep as Ep0. apply push_loop_ok in Ep0 as (L2 & C2 & _).
    assert (HB : forall s0 s0', sblock f b s0 = SDone s0' ->
                 cx s0' = cx s0 /\ map lkey (loops s0') = map lkey (loops s0)).
    { intros s0 s0' E. eapply loop_keys_block. left. exact E. }
    (* the state before the breaking trip *)
    assert (Hi' : (Z.of_nat i <= l_end l - l_start l)%Z) by lia.
    destruct (trips_index (sblock f b) HB i s2 l (loops s1) si L2 Hi' Ht) as (li & ri & Eli & _ & _ & Mi).
    assert (Ci : cx si = cx s2).
    { clear - Ht HB. revert s2 Ht. induction i as [| i IH]; intros s2 Ht.
      - cbn in Ht. injection Ht as <-. reflexivity.
      - cbn [trips] in Ht. destruct (sblock f b s2) as [s3' | | | |] eqn:Eb; try discriminate.
        destruct (loop_next s3') as [m s4 | | |] eqn:En; try discriminate.
        apply loop_next_ok in En as (C4 & _). destruct (HB _ _ Eb) as [C3 _].
        rewrite (IH s4 Ht). congruence. }
    destruct (loop_keys_block fo funs f b si s3 (or_intror Hb)) as [C3 M3].
    rewrite Eli in M3. apply map_lkey_cons_inv in M3 as (l3 & r3 & E3 & _ & M3).
    assert (G : (ls_len (cx s3) <? length (loops s3)) = true).
    { apply Nat.ltb_lt. rewrite C3, Ci, C2, C1, E3. cbn [length].
      assert (length r3 = length (loops s)).
      { rewrite <- (map_length lkey r3), M3, Mi, M1. apply map_length. }
      lia. }
    destruct (pop_loop_succeeds s3 l3 r3 E3 G) as (s4 & E4).
    exists l3, s4. split; [ exact E4 | ].
    split; [ rewrite Hd, (run_m_ok _ _ _ _ _ _ _ E4); reflexivity | ].
    apply pop_loop_ok in E4 as (E4 & C4 & _). rewrite E3 in E4. injection E4 as E4.
    split; [ rewrite <- E4; congruence | congruence ].
  Qed.
End DoBreak2.
