(* CompileStep.v: one machine step seen through the relation of CompileSim.v, and the
   predicate [ok] that says what the machine does when the structural evaluator returns
   a given result. *)
From Xeh Require Import Model.Prelude Model.Bits Model.Codec Model.Cell Model.Lexer Model.Fmt
                        Model.Vm Model.Words Model.Struct
                        Proofs.VmFrame Proofs.CompileSim Proofs.CompileLayout.
Local Notation length := List.length.

#[local] Arguments Z.add : simpl never.
#[local] Arguments Z.sub : simpl never.
#[local] Arguments Z.mul : simpl never.
#[local] Arguments Z.ltb : simpl never.
#[local] Arguments Z.leb : simpl never.
#[local] Arguments Z.eqb : simpl never.
#[local] Arguments Z.of_nat : simpl never.
#[local] Arguments Z.to_nat : simpl never.

(* ---------- jump targets ---------- *)
Lemma jt_fwd : forall p k, jump_target p (Z.of_nat k) = p + k.
Proof. intros. unfold jump_target. lia. Qed.
Lemma jt_back : forall p k, k <= p -> jump_target p (- Z.of_nat k)%Z = p - k.
Proof. intros. unfold jump_target. lia. Qed.
Lemma jt_rel : forall p t, jump_target p (rel p t) = t.
Proof. intros. unfold jump_target, rel. lia. Qed.

(* ---------- the machine side: fixed code, recording off, no instruction limit ---------- *)
Record mach (c : list opcode) (s : state) : Prop := mkmach {
  m_code : code s = c;
  m_rlog : rlog s = None;
  m_lim : insn_limit s = None
}.

Definition rskeys (s : state) : list (nat * nat) := map fkey (rs s).

Lemma mach_set_ip : forall c s n, mach c s -> mach c (set_ip_raw s n).
Proof. intros c s n [H1 H2 H3]. split; assumption. Qed.
Lemma mach_set_meter : forall c s n, mach c s -> mach c (set_meter s n).
Proof. intros c s n [H1 H2 H3]. split; assumption. Qed.
Lemma ip_set_ip : forall s n, ip (set_ip_raw s n) = n.
Proof. reflexivity. Qed.

Lemma mach_keep : forall c s s', mach c s -> keep s s' -> mach c s'.
Proof. intros c s s' [H1 H2 H3] (_&_&K3&K4&K5&_). split; congruence. Qed.

Lemma set_ip_off : forall n s, rlog s = None -> set_ip n s = ROk tt (set_ip_raw s n).
Proof. intros n s H. unfold set_ip. rewrite add_rstep_off by exact H. reflexivity. Qed.
Lemma next_ip_off : forall s, rlog s = None -> next_ip s = ROk tt (set_ip_raw s (S (ip s))).
Proof. intros s H. unfold next_ip. rewrite add_rstep_off by exact H. reflexivity. Qed.

Lemma bind_assoc : forall A B C (m : M A) (f : A -> M B) (g : B -> M C) s,
  bind (bind m f) g s = bind m (fun a => bind (f a) g) s.
Proof. intros. unfold bind. destruct (m s); reflexivity. Qed.

Lemma fetch_plain : forall nf s op,
  insn_limit s = None -> nth_error (code s) (ip s) = Some op -> (forall n, op <> OResolve n) ->
  fetch_and_run nf s = exec_op nf (ip s) op (set_meter s (meter s + 1)%Z).
Proof.
  intros nf s op Hl Hn Hr. unfold fetch_and_run, meter_increase. rewrite Hl.
  change (code (set_meter s (meter s + 1)%Z)) with (code s). rewrite Hn.
  destruct op; try reflexivity. exfalso. eapply Hr. reflexivity.
Qed.

Section Run.
  Variable nf : natives.
  Variable c : list opcode.

  Definition reaches (s s' : state) : Prop := exists n, steps nf n s = Some s'.

  Lemma reaches_refl : forall s, reaches s s.
  Proof. intro s. exists 0. reflexivity. Qed.

  Lemma reaches_step : forall s s1 s', fetch_and_run nf s = ROk tt s1 -> reaches s1 s' -> reaches s s'.
  Proof. intros s s1 s' H [n Hn]. exists (S n). cbn [steps]. rewrite H. exact Hn. Qed.

  Lemma steps_app : forall n m s s1 s2, steps nf n s = Some s1 -> steps nf m s1 = Some s2 -> steps nf (n + m) s = Some s2.
  Proof.
    induction n as [|n IH]; intros m s s1 s2 H1 H2.
    - cbn in H1. injection H1 as <-. exact H2.
    - cbn [steps Nat.add] in *. destruct (fetch_and_run nf s) as [u s'| | |]; try discriminate.
      eapply IH; eauto.
  Qed.

  Lemma reaches_trans : forall a b d, reaches a b -> reaches b d -> reaches a d.
  Proof. intros a b d [n Hn] [m Hm]. exists (n + m). eapply steps_app; eauto. Qed.

  (* the machine fails like the evaluator: after some steps the next instruction returns the
     same kind of error with the same payload, leaving a related state *)
  Definition fails_with (s : state) (k : ekind) (pl : option cell) (t' : state) : Prop :=
    exists sN s', reaches s sN /\ mach c sN /\ fetch_and_run nf sN = RErr k pl s' /\ sim t' s'.

  (* what the machine does, started in [s], when the evaluator's result is [r]:
     [endp] is the address behind the code of the tree, [bc] the context of `break` *)
  Definition ok (s : state) (endp : nat) (bc : brk_ctx) (r : sres) : Prop :=
    match r with
    | SDone t' =>
      exists s', reaches s s' /\ mach c s' /\ ip s' = endp /\ sim t' s' /\ rskeys s' = rskeys s
    | SBroke t' =>
      exists s', reaches s s' /\ mach c s' /\ nth_error c (ip s') = Some (brk_op (ip s') bc) /\
                 bc <> BNone /\ sim t' s' /\ rskeys s' = rskeys s
    | SFail k pl _ t' => fails_with s k pl t'
    | SOut => True
    | SUnsup => True
    end.

  Lemma ok_reach : forall s s1 endp bc r,
    reaches s s1 -> rskeys s1 = rskeys s -> ok s1 endp bc r -> ok s endp bc r.
  Proof.
    intros s s1 endp bc r Hr Hk H. destruct r as [t'|t'|k pl p t'| |]; cbn [ok] in *; auto.
    - destruct H as (s' & R & M & I & S & K). exists s'.
      split; [eapply reaches_trans; eauto|]. repeat (split; [assumption|]). congruence.
    - destruct H as (s' & R & M & I & B & S & K). exists s'.
      split; [eapply reaches_trans; eauto|]. repeat (split; [assumption|]). congruence.
    - destruct H as (sN & s' & R & MN & F & S). exists sN, s'. eauto using reaches_trans.
  Qed.

  Lemma ok_step : forall s s1 endp bc r,
    fetch_and_run nf s = ROk tt s1 -> rskeys s1 = rskeys s -> ok s1 endp bc r -> ok s endp bc r.
  Proof. intros. eapply ok_reach; eauto. eapply reaches_step; eauto using reaches_refl. Qed.

  Lemma ok_done_here : forall s t bc, mach c s -> sim t s -> ok s (ip s) bc (SDone t).
  Proof. intros s t bc M S. exists s. split; [apply reaches_refl|]. repeat (split; [assumption || reflexivity|]). reflexivity. Qed.

  (* a result obtained in a context whose `break` the construct does not catch *)
  Lemma ok_endp : forall s e e' bc r, e = e' -> ok s e bc r -> ok s e' bc r.
  Proof. intros; subst; assumption. Qed.

  (* ---------- one instruction whose action is a shared program [m] ---------- *)
  (* the state after [m] on the machine side *)
  Definition after (s s1 : state) : Prop :=
    mach c s1 /\ ip s1 = ip s /\ rskeys s1 = rskeys s.

  Lemma step_par : forall A (m : M A) (km : A -> M unit) t s op,
    par m -> sim t s -> mach c s ->
    nth_error c (ip s) = Some op -> (forall n, op <> OResolve n) ->
    (forall s1, exec_op nf (ip s) op s1 = bind m km s1) ->
    match m t with
    | ROk a t' => exists s1, fetch_and_run nf s = km a s1 /\ sim t' s1 /\ after s s1
    | RErr k pl t' => exists s', fetch_and_run nf s = RErr k pl s' /\ sim t' s'
    | RPanic => True
    | RUnsup => True
    end.
  Proof.
    intros A m km t s op Hp Hs M Hn Hr He.
    destruct M as [Mc Ml Mi].
    rewrite (fetch_plain nf s op Mi) by (rewrite ?Mc; assumption). rewrite He. unfold bind.
    assert (Hs' : sim t (set_meter s (meter s + 1)%Z)) by (apply sim_set_meter_r; exact Hs).
    specialize (Hp t _ Hs' Ml).
    destruct (m t) as [a t1|k p t1| |], (m (set_meter s (meter s + 1)%Z)) as [b s1|k' p' s1| |];
      cbn [rrel] in Hp; try contradiction; auto.
    - destruct Hp as (<- & S1 & K1). exists s1. split; [reflexivity|]. split; [exact S1|].
      destruct K1 as (K1&K2&K3&K4&K5&K6). split; [|split].
      + split; [ rewrite K3; exact Mc | rewrite K5; exact Ml | rewrite K4; exact Mi ].
      + exact K1.
      + exact K6.
    - destruct Hp as (<- & <- & S1 & K1). exists s1. split; [reflexivity|exact S1].
  Qed.

  (* the evaluator's [run_m m p t ke] against an instruction [m ;; km] *)
  Lemma step_run_m : forall A (m : M A) (km : A -> M unit) (ke : A -> state -> sres) p t s op endp bc,
    par m -> sim t s -> mach c s ->
    nth_error c (ip s) = Some op -> (forall n, op <> OResolve n) ->
    (forall s1, exec_op nf (ip s) op s1 = bind m km s1) ->
    (forall a t' s1, m t = ROk a t' -> sim t' s1 -> after s s1 ->
                     fetch_and_run nf s = km a s1 -> ok s endp bc (ke a t')) ->
    ok s endp bc (@run_m A m p t ke).
  Proof.
    intros A m km ke p t s op endp bc Hp Hs M Hn Hr He Hk.
    pose proof (step_par A m km t s op Hp Hs M Hn Hr He) as H.
    unfold run_m. destruct (m t) as [a t1|k pl t1| |] eqn:E; cbn [ok]; auto.
    - destruct H as (s1 & F & S1 & A1). eapply Hk; eauto.
    - destruct H as (s' & F & S1). exists s, s'. split; [apply reaches_refl|]. split; [exact M|]. split; assumption.
  Qed.

  (* after the action the instruction moves to a known address *)
  Lemma after_goto : forall s s1 n, after s s1 ->
    set_ip n s1 = ROk tt (set_ip_raw s1 n) /\ mach c (set_ip_raw s1 n) /\ rskeys (set_ip_raw s1 n) = rskeys s.
  Proof.
    intros s s1 n (M & I & K). split; [apply set_ip_off; apply M|]. split; [apply mach_set_ip; exact M|exact K].
  Qed.

  Lemma after_next : forall s s1, after s s1 ->
    next_ip s1 = ROk tt (set_ip_raw s1 (S (ip s))) /\ mach c (set_ip_raw s1 (S (ip s))) /\
    rskeys (set_ip_raw s1 (S (ip s))) = rskeys s.
  Proof.
    intros s s1 (M & I & K). rewrite <- I. split; [apply next_ip_off; apply M|]. split; [apply mach_set_ip; exact M|exact K].
  Qed.

  (* a one-cell statement: the instruction is [m ;; next_ip] *)
  Lemma simple_stmt : forall (m : M unit) p t s op bc,
    par m -> sim t s -> mach c s ->
    nth_error c (ip s) = Some op -> (forall n, op <> OResolve n) ->
    (forall s1, exec_op nf (ip s) op s1 = bind m (fun _ => next_ip) s1) ->
    ok s (ip s + 1) bc (@run_m unit m p t (fun _ t' => SDone t')).
  Proof.
    intros m p t s op bc Hp Hs M Hn Hr He.
    eapply step_run_m; eauto.
    intros [] t' s1 Em S1 A1 F. cbn beta in F.
    destruct (after_next _ _ A1) as (E & M2 & K2). rewrite E in F.
    exists (set_ip_raw s1 (S (ip s))). split; [|split; [exact M2|split; [|split]]].
    - eapply reaches_step; eauto using reaches_refl.
    - rewrite ip_set_ip. lia.
    - apply sim_set_ip_r. exact S1.
    - exact K2.
  Qed.
End Run.
