(* VmLimitsRunBuild.v (C14): the limits at build time.
   [brel s s']: the limits are the same, the meter did not go back and did not pass the
   instruction limit, the heap is within the heap limit (or did not grow), the data stack is
   within the stack limit (or did not grow).  Every program of the builder keeps [brel]:
   token reading, code emission, the immediate words (control structures, definitions, [var],
   [let], [const], meta blocks), code run at build time ([run_m]), closing a context, the
   unwinding of a failed build; hence [build1], [eval] and [compile] for every source. *)
From Xeh Require Import Model.Prelude Model.Bits Model.Codec Model.Cell Model.Lexer Model.Fmt
                        Model.Vm Model.Words Model.Build.
From Xeh Require Import Proofs.VmFrame Proofs.VmLimits Proofs.NoPanic Proofs.NoPanicBuild Proofs.NoPanicFlow
                        Proofs.MetaBase Proofs.UnwindLists Proofs.UnwindFrame
                        Proofs.VmLimitsRunBase Proofs.VmLimitsRunStep Proofs.VmLimitsRunRun.
Local Notation length := List.length.
Local Open Scope list_scope.
Local Open Scope string_scope.

#[local] Arguments Z.add : simpl never.
#[local] Arguments Z.sub : simpl never.
#[local] Arguments Z.mul : simpl never.
#[local] Arguments Z.ltb : simpl never.
#[local] Arguments Z.leb : simpl never.
#[local] Arguments Z.eqb : simpl never.
#[local] Arguments Z.of_nat : simpl never.
#[local] Arguments Z.to_nat : simpl never.

Definition brel (s s' : state) : Prop :=
  insn_limit s' = insn_limit s /\ heap_limit s' = heap_limit s /\ stack_limit s' = stack_limit s /\
  (meter s <= meter s')%Z /\
  (forall N, insn_limit s = Some N -> (meter s <= N)%Z -> (meter s' <= N)%Z) /\
  (forall H, heap_limit s = Some H -> length (heap s') <= Nat.max (Z.to_nat H) (length (heap s))) /\
  (forall S, stack_limit s = Some S -> length (ds s') <= Nat.max (Z.to_nat S) (length (ds s))).

Lemma brel_refl s : brel s s.
Proof. unfold brel. repeat split; try reflexivity; try lia; auto; intros; apply Nat.le_max_r. Qed.

Lemma brel_trans a b c : brel a b -> brel b c -> brel a c.
Proof.
  intros (A1 & A2 & A3 & A4 & A5 & A6 & A7) (B1 & B2 & B3 & B4 & B5 & B6 & B7).
  unfold brel. repeat split; try congruence; try lia.
  - intros N EN Hle. apply B5; [congruence|]. apply A5; assumption.
  - intros H EH. specialize (A6 H EH). rewrite <- A2 in EH. specialize (B6 H EH). lia.
  - intros S ES. specialize (A7 S ES). rewrite <- A3 in ES. specialize (B7 S ES). lia.
Qed.

Lemma bounded_brel s s' : bounded s s' -> brel s s'.
Proof.
  intros (A1 & A2 & A3 & A4 & A5 & A6 & A7). unfold brel. repeat split; try assumption.
  intros H _. rewrite A4. apply Nat.le_max_r.
Qed.

(* the fields the limits talk about *)
Definition lcore (s : state) := (insn_limit s, heap_limit s, stack_limit s, meter s, heap s, ds s).

Lemma brel_lcore s s' : lcore s' = lcore s -> brel s s'.
Proof.
  unfold lcore. intros E. injection E as E1 E2 E3 E4 E5 E6. unfold brel.
  rewrite E1, E2, E3, E4, E5, E6. apply brel_refl.
Qed.

Lemma brel_lcore_l s s1 s' : lcore s1 = lcore s -> brel s1 s' -> brel s s'.
Proof. intros E H. eapply brel_trans; [apply brel_lcore; exact E|exact H]. Qed.
Lemma brel_lcore_r s s1 s' : brel s s1 -> lcore s' = lcore s1 -> brel s s'.
Proof. intros H E. eapply brel_trans; [exact H|apply brel_lcore; exact E]. Qed.

Definition BF : frame :=
  mkFrame (fun _ => True) brel (fun s _ => brel_refl s) brel_trans (fun _ _ _ _ => I).

Definition lcorep {A} (m : M A) : Prop := forall s, res_all (fun s' => lcore s' = lcore s) (m s).

Lemma fp_lcorep A (m : M A) : lcorep m -> fp BF m.
Proof.
  intros H s _. specialize (H s). cbn [BF fr_rel].
  destruct (m s); cbn [res_all] in *; auto; apply brel_lcore; assumption.
Qed.

Lemma lcorep_code_emit op : lcorep (code_emit op).
Proof.
  intros s. unfold code_emit. cbv zeta.
  destruct (_ <? _)%nat; [reflexivity|]. destruct (_ =? _)%nat; [reflexivity|exact I].
Qed.
Lemma lcorep_backpatch pos op : lcorep (backpatch pos op).
Proof. intros s. unfold backpatch. destruct (_ <? _)%nat; [reflexivity|exact I]. Qed.
Lemma lcorep_backpatch_jump pos offs : lcorep (backpatch_jump pos offs).
Proof.
  intros s. unfold backpatch_jump. destruct (nth_error (code s) pos) as [op|]; [|reflexivity].
  destruct op; try exact I; apply lcorep_backpatch.
Qed.
Lemma lcorep_dict_insert name e : lcorep (dict_insert name e).
Proof. intros s. reflexivity. Qed.
Lemma lcorep_intern_source buf : lcorep (intern_source buf).
Proof. intros s. reflexivity. Qed.
Lemma lcorep_context_open m : lcorep (context_open m).
Proof. intros s. reflexivity. Qed.
Lemma lcorep_join_str_vec sep v : lcorep (join_str_vec sep v).
Proof. intros s. unfold join_str_vec. destruct (join_cells 40 sep v); [reflexivity|exact I]. Qed.
Lemma lcorep_push_flow f : lcorep (push_flow f).
Proof. intros s. reflexivity. Qed.
Lemma lcorep_pop_flow : lcorep pop_flow.
Proof.
  intros s. unfold pop_flow. destruct (flows s); [reflexivity|]. destruct (_ <? _)%nat; reflexivity.
Qed.
Lemma lcorep_take : lcorep take_first_cond_flow.
Proof.
  intros s. unfold take_first_cond_flow. cbv zeta.
  destruct (take_cond (pending s)) as [[f act']|]; reflexivity.
Qed.

Section Tokens.
  Variable pr : string -> option Z.

  Lemma lcorep_next_token : forall fuel, lcorep (next_token pr fuel).
  Proof.
    induction fuel as [|f IH]; intros s; cbn [next_token]; [exact I|].
    destruct (input s) as [|il rest]; [reflexivity|]. cbv zeta.
    destruct (lex_next_nonws _ _) as [t l'].
    destruct t; try exact I; try reflexivity.
    - specialize (IH (set_input (set_last_tok (set_input s (mkinlex (in_src il) l' :: rest))
                                              (Some (in_src il, lstart l', lpos l'))) rest)).
      destruct (next_token pr f _); cbn [res_all] in *; auto.
    - destruct (pr text); reflexivity.
  Qed.

  Lemma lcorep_get_token : lcorep (get_token pr).
  Proof. intros s. unfold get_token. apply lcorep_next_token. Qed.

  Lemma lcorep_next_name : lcorep (next_name pr).
  Proof.
    intros s. unfold next_name. cbv zeta. pose proof (lcorep_get_token s) as H.
    destruct (get_token pr s) as [t s1|k p s1| |]; cbn [res_all] in *; auto.
    destruct t; cbn [res_all]; try exact H; destruct (last_tok s); exact H.
  Qed.
End Tokens.

(* ---------- machine programs ---------- *)
Lemma lim_rel_brel s s' : lim_rel s s' -> brel s s'.
Proof.
  intros (L1 & L2 & L3 & L4 & L5 & _ & _ & L8). unfold brel.
  split; [exact L2|]. split; [exact L3|]. split; [exact L4|]. split; [lia|].
  split; [intros N _ Hle; lia|]. split.
  - intros H _. rewrite L5. apply Nat.le_max_r.
  - intros S ES. specialize (L8 S ES). lia.
Qed.

Lemma fpb_wl A (m : M A) : wl m -> fp BF m.
Proof.
  intros W s _. pose proof (wl_lim _ _ W s) as L. cbn [BF fr_rel].
  destruct (m s); cbn [res_all] in *; auto; apply lim_rel_brel; exact L.
Qed.

Lemma fpb_alloc_heap v : fp BF (alloc_heap v).
Proof.
  intros s _. cbn [BF fr_rel]. unfold alloc_heap.
  destruct (mode_eqb _ _); [apply brel_refl|].
  destruct (limit_reached (heap_limit s) (length (heap s))) eqn:E; [apply brel_refl|].
  cbn [res_all]. unfold brel. cbn [set_heap insn_limit heap_limit stack_limit meter heap ds].
  split; [reflexivity|]. split; [reflexivity|]. split; [reflexivity|]. split; [lia|].
  split; [intros N _ Hle; exact Hle|]. split.
  - intros H EH. unfold limit_reached in E. rewrite EH in E. apply Z.leb_gt in E.
    rewrite app_length. cbn [length]. lia.
  - intros S _. apply Nat.le_max_r.
Qed.

Section Machine.
  Variable fo : fops.
  Variable rf : nat.

  Lemma fpb_run_m : fp BF (run_m fo rf).
  Proof.
    intros s _. cbn [BF fr_rel]. unfold run_m, nf.
    destruct (run (native_fn fo) rf s) as [r|] eqn:E; [|exact I].
    destruct r as [u s'|k p s'| |]; cbn [res_all]; try exact I; apply bounded_brel;
      eapply (run_bounded (native_fn fo) (native_wlx fo)); [exact E|reflexivity|exact E|reflexivity].
  Qed.

  Lemma fpb_emit_results : forall fuel, fp BF (emit_results fuel).
  Proof.
    induction fuel as [|f IH]; intros s _; cbn [emit_results BF fr_rel]; [apply brel_refl|].
    destruct (_ <? _)%nat; [|apply brel_refl].
    pose proof (fpb_wl _ _ wl_pop_data s I) as H1. cbn [BF fr_rel] in H1.
    destruct (pop_data s) as [v s1|k p s1| |]; cbn [res_all] in *; auto.
    pose proof (lcorep_code_emit (load_value_opcode v) s1) as H2. unfold code_emit_value.
    destruct (code_emit (load_value_opcode v) s1) as [u s2|k p s2| |]; cbn [res_all] in *; auto.
    - pose proof (IH s2 I) as H3. cbn [BF fr_rel] in H3.
      destruct (emit_results f s2); cbn [res_all] in *; auto;
        (eapply brel_trans; [eapply brel_lcore_r; [exact H1|exact H2]|exact H3]).
    - eapply brel_lcore_r; [exact H1|exact H2].
  Qed.

  Lemma fpb_context_close : fp BF (context_close fo rf).
  Proof.
    intros s _. cbn [BF fr_rel]. unfold context_close.
    destruct (nested s) as [|prev rest]; [apply brel_refl|]. cbv zeta.
    set (s0 := set_nested s rest).
    assert (E0 : lcore s0 = lcore s) by reflexivity.
    pose proof (fpb_run_m s0 I) as HR. cbn [BF fr_rel] in HR.
    destruct (cmode (cx s0)).
    - cbn [res_all]. apply brel_lcore. reflexivity.
    - destruct (run_m fo rf s0) as [u s1|k p s1| |]; cbn [res_all] in *; try exact I;
        (eapply brel_lcore_l; [exact E0|]; eapply brel_lcore_r; [exact HR|reflexivity]).
    - destruct (run_m fo rf s0) as [u s1|k p s1| |]; cbn [res_all] in *; try exact I;
        [|eapply brel_lcore_l; [exact E0|exact HR]].
      set (s2 := set_dbg (set_code s1 _) _).
      set (s3 := set_dict s2 _).
      assert (E3 : lcore s3 = lcore s1) by reflexivity.
      match goal with |- context [if ?b then _ else _] => destruct b end.
      + pose proof (fpb_emit_results (S (length (ds s3))) s3 I) as H4. cbn [BF fr_rel] in H4.
        destruct (emit_results (S (length (ds s3))) s3) as [u4 s4|k p s4| |]; cbn [res_all] in *; try exact I;
          (eapply brel_lcore_l; [exact E0|]; eapply brel_trans; [exact HR|];
           eapply brel_lcore_l; [symmetry; exact E3|]).
        * eapply brel_lcore_r; [exact H4|reflexivity].
        * exact H4.
      + cbn [res_all]. eapply brel_lcore_l; [exact E0|]. eapply brel_lcore_r; [exact HR|reflexivity].
  Qed.
End Machine.

(* ---------- the stepwise tactic ---------- *)
Ltac fpb_prim :=
  lazymatch goal with
  | |- fpa _ _ (ret _) => apply fpa_ret
  | |- fpa _ _ (fail _ _) => apply fpa_fail
  | |- fpa _ _ unsup => apply fpa_unsup
  | |- fpa _ _ panic => apply fpa_panic
  | |- fpa _ _ (code_emit _) => apply (fp_lcorep _ _ (lcorep_code_emit _))
  | |- fpa _ _ (backpatch _ _) => apply (fp_lcorep _ _ (lcorep_backpatch _ _))
  | |- fpa _ _ (backpatch_jump _ _) => apply (fp_lcorep _ _ (lcorep_backpatch_jump _ _))
  | |- fpa _ _ (dict_insert _ _) => apply (fp_lcorep _ _ (lcorep_dict_insert _ _))
  | |- fpa _ _ (intern_source _) => apply (fp_lcorep _ _ (lcorep_intern_source _))
  | |- fpa _ _ (context_open _) => apply (fp_lcorep _ _ (lcorep_context_open _))
  | |- fpa _ _ (join_str_vec _ _) => apply (fp_lcorep _ _ (lcorep_join_str_vec _ _))
  | |- fpa _ _ (get_token _) => apply (fp_lcorep _ _ (lcorep_get_token _))
  | |- fpa _ _ (next_name _) => apply (fp_lcorep _ _ (lcorep_next_name _))
  | |- fpa _ _ (push_flow _) => apply (fp_lcorep _ _ (lcorep_push_flow _))
  | |- fpa _ _ pop_flow => apply (fp_lcorep _ _ lcorep_pop_flow)
  | |- fpa _ _ take_first_cond_flow => apply (fp_lcorep _ _ lcorep_take)
  | |- fpa _ _ (alloc_heap _) => apply fpb_alloc_heap
  | |- fpa _ _ (run_m _ _) => apply fpb_run_m
  | |- fpa _ _ (context_close _ _) => apply fpb_context_close
  | |- fpa _ _ pop_data => apply (fpb_wl _ _ wl_pop_data)
  | |- fpa _ _ (push_data _) => apply (fpb_wl _ _ (wl_push_data _))
  | |- fpa _ _ (push_return _) => apply (fpb_wl _ _ (wl_push_return _))
  | |- fpa _ _ (set_ip _) => apply (fpb_wl _ _ (wl_set_ip _))
  end.

Create HintDb fpbdb.

Ltac fpb_step :=
  cbv beta zeta;
  first
    [ fpb_prim
    | solve [ auto 2 with fpbdb nocore ]
    | match goal with H : _ |- fpa _ _ _ => solve [ apply H ] end
    | lazymatch goal with
      | |- fp _ _ => intro
      | |- fpa _ _ (bind get _) => apply fpa_get_bind
      | |- fpa _ _ (bind _ _) => apply fpa_bind; [ | intro ]
      | |- fpa _ _ (match ?x with _ => _ end) => destruct x eqn:?
      | |- fpa _ _ (put _) => apply fpa_put; intros _; apply brel_lcore; reflexivity
      | |- fpa _ _ ?m => let h := head_of m in unfold h
      end ].

Ltac fpb_solve := repeat fpb_step.

Lemma fpb_endcase_loop : forall fuel org s, fpa BF s (endcase_loop fuel org).
Proof. induction fuel as [|f IH]; intros org; change (fp BF (endcase_loop (S f) org)) || change (fp BF (endcase_loop 0 org)); cbn [endcase_loop]; fpb_solve. Qed.
#[export] Hint Resolve fpb_endcase_loop : fpbdb.

Lemma fpb_repeat_loop : forall fuel s, fpa BF s (repeat_loop fuel).
Proof. induction fuel as [|f IH]; change (fp BF (repeat_loop (S f))) || change (fp BF (repeat_loop 0)); cbn [repeat_loop]; fpb_solve. Qed.
#[export] Hint Resolve fpb_repeat_loop : fpbdb.

Lemma fpb_loop_loop : forall fuel a b s, fpa BF s (loop_loop fuel a b).
Proof. induction fuel as [|f IH]; intros a b; change (fp BF (loop_loop (S f) a b)) || change (fp BF (loop_loop 0 a b)); cbn [loop_loop]; fpb_solve. Qed.
#[export] Hint Resolve fpb_loop_loop : fpbdb.

Lemma fpb_vec_collect p : fp BF (vec_collect_till_ptr p).
Proof. apply fpb_wl. wl_solve. Qed.
Lemma fpb_vec_collect_a p s : fpa BF s (vec_collect_till_ptr p).
Proof. apply fpb_vec_collect. Qed.
#[export] Hint Resolve fpb_vec_collect_a : fpbdb.

Lemma fpb_build_local_variable name s : fpa BF s (build_local_variable name).
Proof. unfold build_local_variable. fpb_solve. Qed.
#[export] Hint Resolve fpb_build_local_variable : fpbdb.

Lemma fpb_build_global_variable name s : fpa BF s (build_global_variable name).
Proof. unfold build_global_variable. fpb_solve. Qed.
#[export] Hint Resolve fpb_build_global_variable : fpbdb.

Lemma fpb_emit_native w s : fpa BF s (emit_native w).
Proof. fpb_solve. Qed.
Lemma fpb_code_emit_value v s : fpa BF s (code_emit_value v).
Proof. fpb_solve. Qed.
#[export] Hint Resolve fpb_emit_native fpb_code_emit_value : fpbdb.

Lemma fpb_build_let_named w s : fpa BF s (build_let_named w).
Proof. fpb_solve. Qed.
Lemma fpb_build_let_match v s : fpa BF s (build_let_match v).
Proof. fpb_solve. Qed.
Lemma fpb_let_vec_next i s : fpa BF s (let_vec_next i).
Proof. fpb_solve. Qed.
#[export] Hint Resolve fpb_build_let_named fpb_build_let_match fpb_let_vec_next : fpbdb.

Section Let4.
  Variable pr : string -> option Z.

  Lemma fpb_build_let : forall f,
    fp BF (build_let_in pr f) /\ fp BF (build_let_tags pr f) /\ fp BF (build_let_map pr f) /\
    (forall i, fp BF (build_let_vec pr f i)).
  Proof.
    induction f as [|f (IHin & IHtags & IHmap & IHvec)].
    - repeat split; intros; apply fp_unsup.
    - assert (Hmap : fp BF (build_let_map pr (S f))).
      { rewrite build_let_map_S. apply fp_bind; [exact (fpb_emit_native _)|intros _].
        generalize (S f) as k. induction k as [|k IHk]; cbn [let_map_go]; [apply fp_unsup|].
        fold (let_map_go pr f) in *. fpb_solve. }
      assert (Hvec : forall i, fp BF (build_let_vec pr (S f) i)).
      { intros i. rewrite build_let_vec_S. revert i.
        generalize (S f) as k. induction k as [|k IHk]; intros i; cbn [let_vec_go]; [apply fp_unsup|].
        fold (let_vec_go pr f) in *. fpb_solve. }
      assert (Htags : fp BF (build_let_tags pr (S f))) by (cbn [build_let_tags]; fpb_solve).
      assert (Hin : fp BF (build_let_in pr (S f))) by (cbn [build_let_in]; fpb_solve).
      repeat split; assumption.
  Qed.

  Lemma fpb_build_let_in f : fp BF (build_let_in pr f).
  Proof. exact (proj1 (fpb_build_let f)). Qed.
End Let4.

Section Top4.
  Variable fo : fops.
  Variable pr : string -> option Z.
  Variable rf : nat.

  Lemma fpb_immediate_fn : forall fuel name w,
    immediate_fn fo pr rf fuel name = Some w -> fp BF w.
  Proof.
    intros fuel name w H. unfold immediate_fn in H. cbv zeta in H.
    eapply table_find_Forall with (P := fun m => fp BF m); [|exact H].
    pose proof (fpb_build_let_in pr fuel) as HL.
    repeat (apply Forall_cons; [ cbn [snd]; fpb_solve | ]).
    apply Forall_nil.
  Qed.

  Lemma fpb_run_immediate fuel f : fp BF (run_immediate fo pr rf fuel f).
  Proof.
    unfold run_immediate. destruct f as [x|name].
    - fpb_solve.
    - destruct (immediate_fn fo pr rf fuel name) as [w|] eqn:E; [|apply fp_unsup].
      eapply fpb_immediate_fn. exact E.
  Qed.

  Lemma fpb_build_word fuel name : fp BF (build_word fo pr rf fuel name).
  Proof. pose proof (fpb_run_immediate fuel) as HR. unfold build_word. fpb_solve. Qed.

  Lemma fpb_build1 : forall fuel depth, fp BF (build1 fo pr rf fuel depth).
  Proof.
    induction fuel as [|f IH]; intros depth; cbn [build1]; [apply fp_unsup|].
    pose proof (fpb_build_word f) as HW. fpb_solve.
  Qed.

  (* ---------- the unwinding of a failed build ---------- *)
  Lemma leave_contexts_lcore : forall fuel depth s, lcore (leave_contexts fuel depth s) = lcore s.
  Proof.
    induction fuel as [|f IH]; intros depth s; cbn [leave_contexts]; [reflexivity|].
    destruct (_ <? _)%nat; [|reflexivity]. destruct (nested s) as [|prev rest]; [reflexivity|].
    rewrite IH. reflexivity.
  Qed.

  Lemma trunc_brel : forall t x y, brel t (set_heap (set_ds t (lastn x (ds t))) (firstn y (heap t))).
  Proof.
    intros t x y. unfold brel. cbn [set_heap set_ds insn_limit heap_limit stack_limit meter heap ds].
    split; [reflexivity|]. split; [reflexivity|]. split; [reflexivity|]. split; [lia|].
    split; [intros N _ Hle; exact Hle|]. split.
    - intros H _. rewrite firstn_length. lia.
    - intros S _. rewrite lastn_length. lia.
  Qed.

  Lemma pop_ctx_lcore : forall t rest prev, lcore (set_cx (set_nested t rest) prev) = lcore t.
  Proof. reflexivity. Qed.

  (* the part of [build_unwind] after the contexts have been left *)
  Definition unwind_rest (depth dsl heapl : nat) (s1 : state) : state :=
    let c := cx s1 in
    let s2 := set_dbg (set_code s1 (firstn (cs_len c) (code s1))) (firstn (cs_len c) (dbg s1)) in
    let s3 := set_dict (set_flows s2 (lastn (fs_len c) (flows s2))) (firstn (di_len c) (dict s2)) in
    let s4 := set_special (set_loops (set_rs s3 (lastn (rs_len c) (rs s3))) (lastn (ls_len c) (loops s3)))
                          (lastn (ss_ptr c) (special s3)) in
    let s5 := set_heap (set_ds s4 (lastn dsl (ds s4))) (firstn heapl (heap s4)) in
    match nested s5 with
    | prev :: rest => if (depth <? length (nested s5))%nat then set_cx (set_nested s5 rest) prev else s5
    | [] => s5
    end.

  Lemma unwind_rest_brel : forall depth dsl heapl s1, brel s1 (unwind_rest depth dsl heapl s1).
  Proof.
    intros depth dsl heapl s1. unfold unwind_rest. cbv zeta.
    set (s4 := set_special _ _).
    assert (E4 : lcore s4 = lcore s1) by reflexivity.
    clearbody s4.
    pose proof (trunc_brel s4 dsl heapl) as B45.
    set (s5 := set_heap _ _) in *. clearbody s5.
    assert (B5 : brel s1 s5) by (eapply brel_trans; [apply brel_lcore; exact E4|exact B45]).
    destruct (nested s5) as [|prev rest]; [exact B5|].
    destruct (_ <? _)%nat; [|exact B5].
    eapply brel_lcore_r; [exact B5|apply pop_ctx_lcore].
  Qed.

  Lemma build_unwind_rest : forall depth inputs dsl heapl s,
    build_unwind depth inputs dsl heapl s =
    unwind_rest depth dsl heapl
      (leave_contexts (S (length (nested (set_input s (lastn inputs (input s)))))) depth
                      (set_input s (lastn inputs (input s)))).
  Proof. intros. unfold build_unwind, unwind_rest. cbv zeta. reflexivity. Qed.

  Lemma build_unwind_brel : forall depth inputs dsl heapl s, brel s (build_unwind depth inputs dsl heapl s).
  Proof.
    intros depth inputs dsl heapl s. rewrite build_unwind_rest.
    eapply brel_trans; [|apply unwind_rest_brel].
    apply brel_lcore. rewrite leave_contexts_lcore. reflexivity.
  Qed.

  Theorem fpb_build_from_source : forall fuel src m, fp BF (build_from_source fo pr rf fuel src m).
  Proof.
    intros fuel src m s _. cbn [BF fr_rel]. unfold build_from_source. cbv zeta.
    assert (H1 : fp BF (context_open m ;; intern_source src)) by fpb_solve.
    specialize (H1 s I). cbn [BF fr_rel] in H1.
    destruct ((context_open m ;; intern_source src) s) as [u s1|k p s1| |]; cbn [res_all] in *; auto.
    pose proof (fpb_build1 fuel (length (nested s1)) s1 I) as H2. cbn [BF fr_rel] in H2.
    destruct (build1 fo pr rf fuel (length (nested s1)) s1) as [u2 s2|k p s2| |]; cbn [res_all] in *; auto.
    - pose proof (fpb_context_close fo rf s2 I) as H3. cbn [BF fr_rel] in H3.
      destruct (context_close fo rf s2); cbn [res_all] in *; auto;
        (eapply brel_trans; [exact H1|]; eapply brel_trans; [exact H2|exact H3]).
    - eapply brel_trans; [exact H1|]. eapply brel_trans; [exact H2|]. apply build_unwind_brel.
  Qed.
End Top4.

(* ---------- the statements ---------- *)
Theorem build1_limits : forall fo pr rf fuel depth s r s',
  build1 fo pr rf fuel depth s = r -> res_state r = Some s' -> brel s s'.
Proof.
  intros fo pr rf fuel depth s r s' H Hr. pose proof (fpb_build1 fo pr rf fuel depth s I) as B.
  rewrite H in B. cbn [BF fr_rel] in B.
  destruct r; cbn [res_state res_all] in *; try discriminate; injection Hr as <-; exact B.
Qed.

Theorem eval_limits : forall fo pr rf fuel src s r s',
  eval fo pr rf fuel src s = r -> res_state r = Some s' -> brel s s'.
Proof.
  intros fo pr rf fuel src s r s' H Hr. pose proof (fpb_build_from_source fo pr rf fuel src MEval s I) as B.
  unfold eval in H. rewrite H in B. cbn [BF fr_rel] in B.
  destruct r; cbn [res_state res_all] in *; try discriminate; injection Hr as <-; exact B.
Qed.

Theorem compile_limits : forall fo pr rf fuel src s r s',
  compile fo pr rf fuel src s = r -> res_state r = Some s' -> brel s s'.
Proof.
  intros fo pr rf fuel src s r s' H Hr. pose proof (fpb_build_from_source fo pr rf fuel src MCompile s I) as B.
  unfold compile in H. rewrite H in B. cbn [BF fr_rel] in B.
  destruct r; cbn [res_state res_all] in *; try discriminate; injection Hr as <-; exact B.
Qed.

(* the stack limit is on the absolute size of the data stack: code running above [k] hidden
   cells (a meta block opened on a non-empty stack) sees a limit of S - k *)
Theorem push_visible_room : forall c s S,
  stack_limit s = Some S -> ds_len (cx s) <= length (ds s) ->
  (exists s', push_data c s = ROk tt s') <->
  (Z.of_nat (data_depth s) < S - Z.of_nat (ds_len (cx s)))%Z.
Proof.
  intros c s S ES Hk. unfold push_data, limit_reached, data_depth. rewrite ES.
  destruct (S <=? Z.of_nat (length (ds s)))%Z eqn:E.
  - apply Z.leb_le in E. split; [intros [s' H]; discriminate H|intros H; lia].
  - apply Z.leb_gt in E. split; [intros _; lia|intros _; eexists; reflexivity].
Qed.

Theorem run_visible_bound : forall fo fuel s r s' S,
  run (native_fn fo) fuel s = Some r -> res_state r = Some s' ->
  stack_limit s = Some S ->
  ds_len (cx s') = ds_len (cx s) /\
  data_depth s' <= Nat.max (Z.to_nat S - ds_len (cx s)) (data_depth s).
Proof.
  intros fo fuel s r s' S H Hr ES.
  pose proof (run_frame_native fo fuel s) as FR. rewrite H in FR.
  assert (FR' : frame_rel s s') by (destruct r; cbn [res_state res_all] in *; try discriminate; injection Hr as <-; exact FR).
  destruct FR' as (_ & _ & _ & _ & _ & _ & _ & _ & _ & _ & A11 & _).
  destruct (run_bounded (native_fn fo) (native_wlx fo) fuel s r s' H Hr) as (_ & _ & _ & _ & _ & _ & B7).
  specialize (B7 S ES).
  assert (E : ds_len (cx s') = ds_len (cx s)) by (rewrite A11; reflexivity).
  split; [exact E|]. unfold data_depth. rewrite E. lia.
Qed.
