(* UnwindBuild.v (C10): every program of the builder keeps the invariant [binv] of
   UnwindInv.v: token reading, emission, the immediate words, meta blocks. *)
From Xeh Require Import Model.Prelude Model.Bits Model.Codec Model.Cell Model.Lexer Model.Fmt
                        Model.Vm Model.Words Model.Build.
From Xeh Require Import Proofs.VmFrame Proofs.VmLimits Proofs.NoPanic Proofs.NoPanicBuild
                        Proofs.UnwindLists Proofs.UnwindFrame Proofs.UnwindInv.
Local Notation length := List.length.

#[local] Arguments Z.add : simpl never.
#[local] Arguments Z.sub : simpl never.
#[local] Arguments Z.mul : simpl never.
#[local] Arguments Z.ltb : simpl never.
#[local] Arguments Z.leb : simpl never.
#[local] Arguments Z.eqb : simpl never.
#[local] Arguments Z.of_nat : simpl never.
#[local] Arguments Z.to_nat : simpl never.

Create HintDb bpdb.

(* a meta context with no open structure has run all its code *)
Definition quiet (t : state) : Prop :=
  cmode (cx t) = MMeta -> has_pending_flow t = false -> is_running t = false.

Lemma add_rstep_fields r s :
  dict (add_rstep r s) = dict s /\ heap (add_rstep r s) = heap s /\ code (add_rstep r s) = code s /\
  dbg (add_rstep r s) = dbg s /\ ds (add_rstep r s) = ds s /\ rs (add_rstep r s) = rs s /\
  flows (add_rstep r s) = flows s /\ loops (add_rstep r s) = loops s /\
  special (add_rstep r s) = special s /\ cx (add_rstep r s) = cx s /\ nested (add_rstep r s) = nested s.
Proof. unfold add_rstep. destruct (rlog s); repeat split; reflexivity. Qed.

Section Builder.
  Variable fo : fops.
  Variable pr : string -> option Z.
  Variable rf : nat.
  Variable b : state.
  Variable m : mode.
  Hypothesis Hm : m <> MMeta.
  Hypothesis Hdl : length (dbg b) = length (code b).

  Local Notation binv := (binv b m).
  Local Notation binv0 := (binv0 b).
  Local Notation bp := (bp b m).

  (* ---------- tokens ---------- *)
  Lemma bp_next_token : forall fuel, bp (next_token pr fuel).
  Proof.
    induction fuel as [|f IH]; intros s Hs; cbn [next_token]; [exact I|].
    destruct (input s) as [|il rest]; [exact Hs|]. cbv zeta.
    destruct (lex_next_nonws _ _) as [t l'].
    match goal with |- context [set_last_tok (set_input s ?i) ?l] =>
      assert (H1 : binv (set_last_tok (set_input s i) l))
        by (eapply binv_same; [..|exact Hs]; reflexivity) end.
    destruct t; try exact I; try exact H1.
    - apply IH. eapply binv_same; [..|exact H1]; reflexivity.
    - destruct (pr text); exact H1.
  Qed.

  Lemma bp_get_token : bp (get_token pr).
  Proof. intros s Hs. unfold get_token. apply bp_next_token. exact Hs. Qed.

  Lemma bp_next_name : bp (next_name pr).
  Proof.
    intros s Hs. unfold next_name. cbv zeta. pose proof (bp_get_token s Hs) as H.
    destruct (get_token pr s) as [t s1|k p s1| |]; cbn [res_all] in *; auto.
    destruct t; cbn [res_all]; try exact H; destruct (last_tok s); try exact H;
      (eapply binv_same; [..|exact H]; reflexivity).
  Qed.

  (* ---------- running at build time ---------- *)
  Lemma run_m_frame s : res_all (frame_rel s) (run_m fo rf s).
  Proof.
    unfold run_m. pose proof (run_frame_native fo rf s) as H. unfold nf.
    destruct (run (native_fn fo) rf s); [exact H|exact I].
  Qed.

  Lemma bpm_run_m : bpm b m (run_m fo rf).
  Proof.
    intros t H Hmode. pose proof (run_m_frame t) as FR.
    destruct (run_m fo rf t); cbn [res_all] in *; auto; eapply binv_frame; eauto.
  Qed.

  Lemma run_m_stopped s : is_running s = false ->
    run_m fo rf s = ROk tt s \/ run_m fo rf s = RUnsup.
  Proof.
    intros H. unfold run_m. destruct rf as [|f]; cbn [run]; [right; reflexivity|].
    rewrite H. left. reflexivity.
  Qed.

  Lemma run_ok_stopped : forall fuel s s', run (nf fo) fuel s = Some (ROk tt s') -> is_running s' = false.
  Proof.
    induction fuel as [|f IH]; intros s s' H; cbn [run] in H; [discriminate|].
    destruct (is_running s) eqn:E.
    - destruct (fetch_and_run (nf fo) s) as [u s1|k p s1| |]; try discriminate. eapply IH; eauto.
    - injection H as <-. exact E.
  Qed.

  Lemma run_m_ok_stopped s s' : run_m fo rf s = ROk tt s' -> is_running s' = false.
  Proof.
    unfold run_m. destruct (run (nf fo) rf s) as [r|] eqn:E; [|discriminate].
    intros ->. eapply run_ok_stopped; eauto.
  Qed.

  (* ---------- emission below the chain level ---------- *)
  Lemma code_emit_inv0 op t : binv0 t ->
    exists t', code_emit op t = ROk tt t' /\ binv0 t' /\ cx t' = cx t /\ nested t' = nested t.
  Proof.
    intros B. unfold code_emit. cbv zeta.
    rewrite <- (bi_dbglen b t B). rewrite Nat.ltb_irrefl, Nat.eqb_refl.
    eexists. split; [reflexivity|]. split; [|split; reflexivity].
    destruct B as [H1 H2 H3 H4 H5 H6 H7 H8 H9 H10 H11 H12].
    constructor; st_simpl; try assumption.
    - apply kprefix_app. exact H1.
    - apply prefix_app. exact H2.
    - rewrite !app_length. cbn [length]. lia.
  Qed.

  Lemma emit_results_inv : forall fuel t, binv0 t -> meta_ok b (cx t) ->
    match emit_results fuel t with
    | ROk _ t' => binv0 t' /\ cx t' = cx t /\ nested t' = nested t
    | RErr _ _ _ => False
    | _ => True
    end.
  Proof.
    induction fuel as [|f IH]; intros t B MO; cbn [emit_results]; [split; [assumption|split; reflexivity]|].
    destruct (ds_len (cx t) <? length (ds t))%nat eqn:E; [|split; [assumption|split; reflexivity]].
    pose proof (wl_frame _ _ wl_pop_data t) as FR.
    unfold pop_data in *. destruct (ds t) as [|c r] eqn:Ed; [cbn [length] in E; apply Nat.ltb_lt in E; lia|].
    rewrite E in *. cbn [res_all] in FR.
    pose proof (binv0_frame b _ _ B MO FR) as B1.
    destruct (add_rstep_fields (RPushData c) (set_ds t r)) as (_ & _ & _ & _ & _ & _ & _ & _ & _ & Ec & En).
    st_simpl_in Ec. st_simpl_in En.
    destruct (code_emit_inv0 (load_value_opcode c) _ B1) as (t2 & E2 & B2 & C2 & N2).
    unfold code_emit_value. rewrite E2.
    assert (MO2 : meta_ok b (cx t2)) by (rewrite C2, Ec; exact MO).
    specialize (IH t2 B2 MO2). destruct (emit_results f t2); auto.
    destruct IH as (I1 & I2 & I3). split; [exact I1|split; congruence].
  Qed.

  (* ---------- leaving a meta block ---------- *)
  Lemma frame_rel_nested t n s1 : frame_rel (set_nested t n) s1 -> frame_rel t (set_nested s1 (nested t)).
  Proof.
    unfold frame_rel. st_simpl.
    intros (A1 & A2 & A3 & A4 & A5 & A6 & A7 & A8 & A9 & A10 & A11 & A12 & A13 & A14 & A15 & A16 & A17 & A18 & A19).
    repeat split; try assumption; try apply A18; apply A19.
  Qed.

  Lemma close_meta_inv t : binv t -> cmode (cx t) = MMeta -> is_running t = false ->
    res_all binv (context_close fo rf t).
  Proof.
    intros [C B] Hmode Hrun. destruct (chain_meta b m Hm t C Hmode) as (MO & prev & rest & En & ms & Ems & Fms).
    unfold context_close. rewrite En. cbv zeta. st_simpl. rewrite Hmode.
    destruct (run_m_stopped (set_nested t rest)) as [Er|Er]; [exact Hrun| |]; rewrite Er; [|exact I].
    set (s1 := set_nested t rest).
    assert (B1 : binv0 s1) by (eapply binv0_same; [..|exact B]; reflexivity).
    set (s2 := set_dbg (set_code s1 _) _).
    destruct MO as (Mm & Md & Mc & Mr & Mf & Ml & Ms & Mi).
    assert (B2 : binv0 s2).
    { destruct B1 as [H1 H2 H3 H4 H5 H6 H7 H8 H9 H10 H11 H12]. subst s2. constructor; st_simpl; try assumption.
      - apply kprefix_firstn; assumption.
      - apply prefix_firstn; [assumption|]. rewrite Hdl. exact Mc.
      - rewrite !firstn_length. st_simpl_in H3. lia. }
    set (s3 := set_dict s2 _).
    assert (B3 : binv0 s3).
    { destruct B2 as [H1 H2 H3 H4 H5 H6 H7 H8 H9 H10 H11 H12]. subst s3. constructor; st_simpl; try assumption.
      apply purge_dict_prefix; assumption. }
    assert (MO3 : meta_ok b (cx s3)) by (repeat split; assumption).
    assert (K : forall s4, binv0 s4 -> nested s4 = rest -> binv (set_cx s4 prev)).
    { intros s4 B4 N4. split.
      - exists ms. st_simpl. rewrite N4. split; assumption.
      - eapply binv0_same; [..|exact B4]; reflexivity. }
    match goal with |- context [if ?c then _ else _] => destruct c end.
    - match goal with |- context [emit_results ?n s3] =>
        pose proof (emit_results_inv n s3 B3 MO3) as X;
        destruct (emit_results n s3) as [u s4|k p s4| |] end;
        cbv beta iota; cbn [res_all]; try exact I; [|contradiction].
      destruct X as (X1 & X2 & X3). apply K; [exact X1|]. rewrite X3. reflexivity.
    - cbn [res_all]. apply K; [exact B3|reflexivity].
  Qed.

  (* the same without the hypothesis that the block has run all its code: the close runs it; a
     failing run puts the popped context back *)
  Lemma close_meta_inv_gen t : binv t -> cmode (cx t) = MMeta -> res_all binv (context_close fo rf t).
  Proof.
    intros HB Hmode. pose proof HB as [C B].
    destruct (chain_meta b m Hm t C Hmode) as (MO0 & prev & rest & En & ms & Ems & Fms).
    unfold context_close. rewrite En. cbv zeta. st_simpl. rewrite Hmode.
    pose proof (run_m_frame (set_nested t rest)) as FR.
    destruct (run_m fo rf (set_nested t rest)) as [u s1|k p s1| |]; cbn [res_all] in FR; try exact I.
    - assert (N1 : nested s1 = rest) by (destruct FR as (_ & _ & _ & A4 & _); exact A4).
      apply frame_rel_nested in FR.
      destruct (binv_frame b m Hm t _ HB Hmode FR) as [[C1 B1'] M1].
      assert (B1 : binv0 s1) by (eapply binv0_same; [..|exact B1']; reflexivity).
      destruct (chain_meta b m Hm _ C1 M1) as (MO & _).
      change (cx (set_nested s1 (nested t))) with (cx s1) in MO, M1.
      set (s2 := set_dbg (set_code s1 _) _).
      destruct MO as (Mm & Md & Mc & Mr & Mf & Ml & Ms & Mi).
      assert (B2 : binv0 s2).
      { destruct B1 as [H1 H2 H3 H4 H5 H6 H7 H8 H9 H10 H11 H12]. subst s2. constructor; st_simpl; try assumption.
        - apply kprefix_firstn; assumption.
        - apply prefix_firstn; [assumption|]. rewrite Hdl. exact Mc.
        - rewrite !firstn_length. st_simpl_in H3. lia. }
      set (s3 := set_dict s2 _).
      assert (B3 : binv0 s3).
      { destruct B2 as [H1 H2 H3 H4 H5 H6 H7 H8 H9 H10 H11 H12]. subst s3. constructor; st_simpl; try assumption.
        apply purge_dict_prefix; assumption. }
      assert (MO3 : meta_ok b (cx s3)) by (repeat split; assumption).
      assert (K : forall s4, binv0 s4 -> nested s4 = rest -> binv (set_cx s4 prev)).
      { intros s4 B4 N4. split.
        - exists ms. st_simpl. rewrite N4. split; assumption.
        - eapply binv0_same; [..|exact B4]; reflexivity. }
      match goal with |- context [if ?c then _ else _] => destruct c end.
      + match goal with |- context [emit_results ?n s3] =>
          pose proof (emit_results_inv n s3 B3 MO3) as X;
          destruct (emit_results n s3) as [u4 s4|k p s4| |] end;
          cbv beta iota; cbn [res_all]; try exact I; [|contradiction].
        destruct X as (X1 & X2 & X3). apply K; [exact X1|]. rewrite X3. exact N1.
      + cbn [res_all]. apply K; [exact B3|exact N1].
    - assert (N1 : nested s1 = rest) by (destruct FR as (_ & _ & _ & A4 & _); exact A4).
      apply frame_rel_nested in FR.
      destruct (binv_frame b m Hm t _ HB Hmode FR) as [HB1 _].
      rewrite N1, <- En. exact HB1.
  Qed.

  (* ---------- the tactic ---------- *)
  Ltac lens_of H :=
    let L := fresh "L" in
    pose proof (binv0_lens b _ (proj2 H)) as L; destruct L as (? & ? & ? & ? & ? & ? & ? & ?).

  Ltac bp_side :=
    cbn [flow_ok oflow_ok] in *; unfold code_origin in *;
    repeat match goal with H : _ /\ _ |- _ => destruct H end;
    repeat split; try exact I; try lia.

  Ltac bp_prim :=
    lazymatch goal with
    | |- bp (ret _) => apply bp_ret
    | |- bp (fail _ _) => apply bp_fail
    | |- bp unsup => apply bp_unsup
    | |- bp panic => apply bp_panic
    | |- bp (code_emit _) => apply bp_code_emit
    | |- bp (backpatch _ _) => apply bp_backpatch; bp_side
    | |- bp (backpatch_jump _ _) => apply bp_backpatch_jump; bp_side
    | |- bp (push_flow _) => apply bp_push_flow; bp_side
    | |- bp (alloc_heap _) => apply bp_alloc_heap
    | |- bp (context_open MMeta) => apply bp_context_open_meta; exact Hm
    | |- bp (intern_source _) => apply bp_intern_source
    | |- bp (get_token _) => apply bp_get_token
    | |- bp (next_name _) => apply bp_next_name
    end.

  Ltac bp_step :=
    cbv beta zeta;
    first
      [ bp_prim
      | solve [ auto 2 with bpdb nocore ]
      | lazymatch goal with
        | |- bp (bind get _) =>
          apply bp_get_bind; let s0 := fresh "s0" in let Hs := fresh "Hs" in intros s0 Hs; lens_of Hs
        | |- bp (bind pop_flow _) => apply bp_bind_pop_flow; intros ? ?
        | |- bp (bind take_first_cond_flow _) => apply bp_bind_tfc; intros ? ?
        | |- bp (bind (dict_insert _ _) _) => eapply bp_bindq; [apply bpq_dict_insert | intros ? ?]
        | |- bp (bind _ _) => apply bp_bind; [ | intro ]
        | |- bp (match ?x with _ => _ end) => destruct x
        | |- bp ?w => let h := head_of w in unfold h
        end ].

  Ltac bp_solve := repeat bp_step.

  (* ---------- the immediate words ---------- *)
  Lemma bp_emit_native w : bp (emit_native w).
  Proof. bp_solve. Qed.
  Lemma bp_code_emit_value v : bp (code_emit_value v).
  Proof. bp_solve. Qed.

  Lemma bp_i_if : bp (i_if). Proof. bp_solve. Qed.
  Lemma bp_i_else : bp (i_else). Proof. bp_solve. Qed.
  Lemma bp_i_then : bp (i_then). Proof. bp_solve. Qed.
  Lemma bp_i_case : bp (i_case). Proof. bp_solve. Qed.
  Lemma bp_endcase_loop : forall fuel org, bp (endcase_loop fuel org).
  Proof. induction fuel as [|f IH]; intros org; cbn [endcase_loop]; bp_solve. Qed.
  Lemma bp_i_endcase : bp (i_endcase).
  Proof. pose proof bp_endcase_loop. bp_solve. Qed.
  Lemma bp_i_of : bp (i_of). Proof. bp_solve. Qed.
  Lemma bp_i_endof : bp (i_endof). Proof. bp_solve. Qed.
  Lemma bp_i_begin : bp (i_begin). Proof. bp_solve. Qed.
  Lemma bp_i_until : bp (i_until). Proof. bp_solve. Qed.
  Lemma bp_i_while : bp (i_while). Proof. bp_solve. Qed.
  Lemma bp_repeat_loop : forall fuel, bp (repeat_loop fuel).
  Proof. induction fuel as [|f IH]; cbn [repeat_loop]; bp_solve. Qed.
  Lemma bp_i_repeat : bp (i_repeat).
  Proof. pose proof bp_repeat_loop. bp_solve. Qed.
  Lemma bp_i_break : bp (i_break). Proof. bp_solve. Qed.
  Lemma bp_i_open f w : flow_ok b f -> bp (i_open f w).
  Proof. intros H. bp_solve. Qed.
  Lemma bp_i_close g w : bp (i_close g w). Proof. bp_solve. Qed.
  Lemma bp_i_def_begin : bp (i_def_begin pr). Proof. bp_solve. Qed.
  Lemma bp_i_late : bp (i_late pr). Proof. bp_solve. Qed.

  Lemma set_dict_len_prefix d i n d' (p : list dentry) :
    set_dict_len d i n = Some d' -> prefix_of p d -> length p <= i -> prefix_of p d'.
  Proof.
    unfold set_dict_len. destruct (nth_error d i) as [e|]; [|discriminate].
    destruct (dent e); try discriminate. intros E. injection E as <-.
    intros; apply prefix_list_set; assumption.
  Qed.

  Lemma bp_i_def_end : bp (i_def_end).
  Proof.
    unfold i_def_end. apply bp_bind_pop_flow. intros r Hr.
    destruct r as [f|]; [|bp_solve]. destruct f; try (bp_solve; fail).
    apply bp_bind; [apply bp_code_emit|intros _].
    apply bp_get_bind. intros s0 Hs. lens_of Hs. cbv zeta.
    destruct (nth_error (dict s0) dict_idx); [|bp_solve].
    destruct (set_dict_len (dict s0) dict_idx (code_origin s0 - start - 1)) as [d'|] eqn:E; [|bp_solve].
    apply bp_bind; [|intros _; bp_solve].
    apply bp_put, bp_set_dict; [exact Hs|].
    eapply set_dict_len_prefix; [exact E|exact (bi_dict b _ (proj2 Hs))|bp_side].
  Qed.

  Lemma binv_top_fun t idx st ls : binv t -> top_function_flow t = Some (idx, st, ls) ->
    length (dict b) <= idx /\ length (code b) <= st.
  Proof.
    intros H E. unfold top_function_flow in E.
    exact (find_fun_Forall (flow_ok b) _ _ _ _ E (binv_pending b m t H)).
  Qed.

  Lemma bp_i_immediate : bp (i_immediate).
  Proof.
    unfold i_immediate. apply bp_get_bind. intros s0 Hs.
    destruct (top_function_flow s0) as [[[idx st] ls]|] eqn:E; [|bp_solve].
    destruct (binv_top_fun _ _ _ _ Hs E) as [Hi _].
    destruct (nth_error (dict s0) idx) as [e|]; [|bp_solve].
    destruct (dent e); try (bp_solve; fail).
    apply bp_put, bp_set_dict; [exact Hs|].
    apply prefix_list_set; [exact (bi_dict b _ (proj2 Hs))|exact Hi].
  Qed.

  Lemma bp_build_local_variable name : bp (build_local_variable name).
  Proof.
    unfold build_local_variable. apply bp_get_bind. intros s0 Hs.
    destruct (top_function_flow s0) as [[[idx st] ls]|] eqn:E; [|bp_solve].
    cbv zeta. apply bp_bind; [|intros _; bp_solve].
    apply bp_put. apply binv_set_pending; [exact Hs|].
    apply set_fun_locals_Forall; [|apply (binv_pending b m); exact Hs].
    intros d st0 l0 X. exact X.
  Qed.

  Lemma bp_i_local : bp (i_local pr).
  Proof. pose proof bp_build_local_variable. bp_solve. Qed.

  Lemma bp_build_global_variable name : bp (build_global_variable name).
  Proof. bp_solve. Qed.

  Lemma bp_i_var : bp (i_var pr).
  Proof. pose proof bp_build_global_variable. bp_solve. Qed.

  Lemma bp_i_setvar : bp (i_setvar pr).
  Proof. bp_solve. Qed.

  Lemma bp_i_nested_begin : bp (i_nested_begin).
  Proof. bp_solve. Qed.

  Lemma mode_eqb_meta c : mode_eqb c MMeta = true -> c = MMeta.
  Proof. destruct c; cbn; congruence. Qed.

  Lemma i_nested_end_inv t : binv t -> quiet t -> res_all binv (i_nested_end fo rf t).
  Proof.
    intros H Q. unfold i_nested_end, bind, get.
    destruct (mode_eqb (cmode (cx t)) MMeta) eqn:E; cbn [negb]; [|exact H].
    apply mode_eqb_meta in E.
    destruct (has_pending_flow t) eqn:P; [exact H|].
    apply close_meta_inv; auto.
  Qed.

  Lemma pop_n_keeps : forall n t, res_all (fun t1 => cx t1 = cx t /\ code t1 = code t) (pop_n n t).
  Proof.
    induction n as [|n IH]; intros t; cbn [pop_n]; [split; reflexivity|].
    unfold bind. unfold pop_data at 1. destruct (ds t) as [|c r]; [split; reflexivity|].
    destruct (ds_len (cx t) <? length (c :: r))%nat; [|split; reflexivity].
    match goal with |- context [pop_n n ?x] => specialize (IH x); destruct (pop_n n x) end;
      cbn [res_all] in *; auto;
      destruct (add_rstep_fields (RPushData c) (set_ds t r)) as (_ & _ & Ec & _ & _ & _ & _ & _ & _ & Ex & _);
      rewrite Ec, Ex in IH; exact IH.
  Qed.

  Lemma vec_collect_keeps p t :
    res_all (fun t1 => cx t1 = cx t /\ code t1 = code t) (vec_collect_till_ptr p t).
  Proof.
    unfold vec_collect_till_ptr, bind, get. cbv zeta.
    destruct (length (ds t) <? p)%nat; [split; reflexivity|].
    pose proof (pop_n_keeps (length (ds t) - p) t) as H.
    destruct (pop_n (length (ds t) - p) t); cbn [res_all] in *; auto.
  Qed.

  Lemma wl_vec_collect p : wl (vec_collect_till_ptr p).
  Proof. wl_solve. Qed.

  Lemma i_nested_inject_inv t : binv t -> quiet t -> res_all binv (i_nested_inject fo rf t).
  Proof.
    intros H Q. unfold i_nested_inject. unfold bind at 1. unfold get.
    destruct (mode_eqb (cmode (cx t)) MMeta) eqn:E; cbn [negb]; [|exact H].
    apply mode_eqb_meta in E.
    destruct (has_pending_flow t) eqn:P; [exact H|].
    specialize (Q E P). unfold bind at 1.
    pose proof (bpm_wl b m Hm _ _ (wl_vec_collect (ds_len (cx t))) t H E) as X.
    pose proof (vec_collect_keeps (ds_len (cx t)) t) as Y.
    destruct (vec_collect_till_ptr (ds_len (cx t)) t) as [v t1|k p t1| |]; cbn [res_all] in *; try exact I;
      [|apply X].
    destruct X as [X1 X2]. destruct Y as [Y1 Y2].
    unfold bind at 1. unfold join_str_vec. destruct (join_cells 40 (Some " "%string) v); [|exact I].
    unfold ret. unfold bind.
    assert (R1 : is_running t1 = false).
    { unfold is_running, ip in *. rewrite Y1, Y2. exact Q. }
    pose proof (close_meta_inv t1 X1 X2 R1) as Z.
    destruct (context_close fo rf t1); cbn [res_all] in *; auto.
    apply bp_intern_source. exact Z.
  Qed.

  (* [const] naming a constant that existed before the source was submitted *)
  Definition const_clobbers (dl : nat) (s : state) : bool :=
    match next_name pr s with
    | ROk n s' => match dict_pos s' n with Some pos => (pos <? dl)%nat | None => false end
    | _ => false
    end.

  Lemma i_const_inv t : binv t -> const_clobbers (length (dict b)) t = false ->
    res_all binv (i_const pr t).
  Proof.
    intros H CC. unfold i_const. unfold bind at 1. unfold const_clobbers in CC.
    pose proof (bp_next_name t H) as H1.
    destruct (next_name pr t) as [n t1|k p t1| |]; cbn [res_all] in *; auto.
    unfold bind at 1. unfold get.
    destruct (mode_eqb (cmode (cx t1)) MMeta) eqn:E; cbn [negb]; [|exact H1].
    apply mode_eqb_meta in E. unfold bind at 1.
    pose proof (wl_frame _ _ wl_pop_data t1) as FR.
    destruct (pop_data t1) as [v t2|k p t2| |]; cbn [res_all] in *; try exact I;
      [|exact (proj1 (binv_frame b m Hm _ _ H1 E FR))].
    pose proof (proj1 (binv_frame b m Hm _ _ H1 E FR)) as H2.
    assert (Ed : dict t2 = dict t1) by (apply FR).
    unfold bind at 1. unfold get. unfold dict_pos in *. rewrite Ed.
    destruct (dict_rpos (dict t1) n 0 None) as [pos|].
    - destruct (nth_error (dict t1) pos) as [e|]; [|exact H2].
      destruct (dent e); try exact H2.
      unfold put. cbn [res_all]. apply bp_set_dict; [exact H2|].
      rewrite <- Ed. apply prefix_list_set; [exact (bi_dict b _ (proj2 H2))|].
      apply Nat.ltb_ge. exact CC.
    - assert (X : bp (let* _ := dict_insert n (DConst v) in ret tt)) by bp_solve.
      apply X. exact H2.
  Qed.

  Lemma bp_i_do : bp (i_do). Proof. bp_solve. Qed.
  Lemma bp_loop_loop : forall fuel lo st, length (code b) <= lo -> bp (loop_loop fuel lo st).
  Proof. induction fuel as [|f IH]; intros lo st Hlo; cbn [loop_loop]; bp_solve. Qed.
  Lemma bp_i_loop : bp (i_loop).
  Proof. pose proof bp_loop_loop. bp_solve. Qed.
  Lemma bp_i_foreach : bp (i_foreach).
  Proof. pose proof bp_i_do. pose proof bp_emit_native. bp_solve. Qed.
  Lemma bp_i_defined : bp (i_defined pr).
  Proof. pose proof bp_code_emit_value. bp_solve. Qed.
  Lemma bp_i_set_fmt_base n : bp (i_set_fmt_base n).
  Proof. pose proof bp_code_emit_value. pose proof bp_emit_native. bp_solve. Qed.

  (* ---------- let ---------- *)
  Lemma bp_build_let_named w : bp (build_let_named w).
  Proof. pose proof bp_build_local_variable. pose proof bp_build_global_variable. bp_solve. Qed.
  Lemma bp_build_let_match v : bp (build_let_match v).
  Proof. pose proof bp_code_emit_value. pose proof bp_emit_native. bp_solve. Qed.
  Lemma bp_let_vec_next i : bp (let_vec_next i).
  Proof. pose proof bp_code_emit_value. pose proof bp_emit_native. bp_solve. Qed.

  Lemma bp_build_let : forall f,
    bp (build_let_in pr f) /\ bp (build_let_tags pr f) /\ bp (build_let_map pr f) /\
    (forall i, bp (build_let_vec pr f i)).
  Proof.
    induction f as [|f (IHin & IHtags & IHmap & IHvec)].
    - repeat split; intros; apply bp_unsup.
    - assert (Hmap : bp (build_let_map pr (S f))).
      { rewrite build_let_map_S. apply bp_bind; [apply bp_emit_native|intros _].
        generalize (S f) as k. induction k as [|k IHk]; cbn [let_map_go]; [apply bp_unsup|].
        fold (let_map_go pr f) in *.
        pose proof bp_emit_native. pose proof bp_code_emit_value.
        bp_solve. }
      assert (Hvec : forall i, bp (build_let_vec pr (S f) i)).
      { intros i. rewrite build_let_vec_S. revert i.
        generalize (S f) as k. induction k as [|k IHk]; intros i; cbn [let_vec_go]; [apply bp_unsup|].
        fold (let_vec_go pr f) in *.
        pose proof bp_emit_native. pose proof bp_code_emit_value. pose proof bp_let_vec_next.
        pose proof bp_build_let_named. pose proof bp_build_let_match.
        bp_solve. }
      assert (Htags : bp (build_let_tags pr (S f))).
      { cbn [build_let_tags]. pose proof bp_emit_native. pose proof bp_build_let_named. bp_solve. }
      assert (Hin : bp (build_let_in pr (S f))).
      { cbn [build_let_in]. pose proof bp_emit_native. pose proof bp_build_let_named.
        pose proof bp_build_let_match. bp_solve. }
      repeat split; assumption.
  Qed.

  Lemma bp_build_let_in f : bp (build_let_in pr f).
  Proof. exact (proj1 (bp_build_let f)). Qed.

  (* ---------- enum ---------- *)
  Lemma bp_i_enum : bp (i_enum pr).
  Proof. unfold i_enum, def_immediate, i_nested_begin. bp_solve. Qed.

  (* the field words act on the enum entry on top of the flow stack and, for `=`, on the data
     stack of the context the closed inner block returns to: harmless when that entry is
     pending in a meta context (it is whenever the enum was opened by the same source) *)
  Definition enum_field_bad (t : state) : bool :=
    match i_nested_end fo rf t with
    | ROk _ t1 => negb (has_pending_flow t1 && mode_eqb (cmode (cx t1)) MMeta)
    | _ => false
    end.

  (* `endenum` first closes the block it is in and then looks at the data stack of the context
     it returned to.  When that is not a meta context (an `endenum` without `enum`, inside a
     meta block) its data-stack mark, hence the outcome of the check, depends on the drive mode
     (finding E3): the watch reports it.  (The second close of `endenum` may run code that the
     enum's outer context still holds; since the repair of D37 a failure of that run puts the
     popped context back, so this is no longer a situation the watch has to report.) *)
  Definition enum_close_bad (t : state) : bool :=
    match i_nested_end fo rf t with
    | ROk _ t1 => negb (mode_eqb (cmode (cx t1)) MMeta)
    | _ => false
    end.

  Lemma next_name_keeps t :
    res_all (fun t1 => cx t1 = cx t /\ flows t1 = flows t) (next_name pr t).
  Proof.
    assert (K : forall fuel t, res_all (fun t1 => cx t1 = cx t /\ flows t1 = flows t) (next_token pr fuel t)).
    { induction fuel as [|f IH]; intros t0; cbn [next_token]; [exact I|].
      destruct (input t0) as [|il rest]; [split; reflexivity|]. cbv zeta.
      destruct (lex_next_nonws _ _) as [tk l'].
      destruct tk; try exact I; try (split; reflexivity).
      - match goal with |- context [next_token pr f ?x] => specialize (IH x); destruct (next_token pr f x) end;
          cbn [res_all] in *; auto.
      - destruct (pr text); split; reflexivity. }
    unfold next_name. cbv zeta. specialize (K (tok_fuel t) t). fold (get_token pr t) in K.
    destruct (get_token pr t) as [tk t1|k p t1| |]; cbn [res_all] in *; auto.
    destruct tk; cbn [res_all]; try exact K; destruct (last_tok t); exact K.
  Qed.

  Lemma enum_add_field_inv nm val t : binv t -> has_pending_flow t = true ->
    res_all binv (enum_add_field nm val t).
  Proof.
    intros H P. unfold enum_add_field. unfold bind at 1. unfold get.
    destruct (flows t) as [|f r] eqn:Ef; [exact H|]. destruct f; try exact H.
    destruct (val fields) as [v|]; [|exact H].
    cbv zeta. unfold bind at 1. unfold put.
    assert (X : bp (let* _ := dict_insert nm (DConst (CInt v)) in i_nested_begin))
      by (unfold i_nested_begin; bp_solve).
    apply X.
    unfold has_pending_flow in P. apply Nat.ltb_lt in P.
    pose proof (binv_set_pending b m t (FEnum name (fields ++ [(nm, v)]) :: tl (pending t)) H) as Y.
    assert (Ep : pending t = FEnum name fields :: tl (pending t)).
    { unfold pending. rewrite Ef in *. cbn [length] in *.
      destruct (S (length r) - fs_len (cx t)) as [|k] eqn:Ek; [lia|]. reflexivity. }
    assert (F : Forall (flow_ok b) (FEnum name (fields ++ [(nm, v)]) :: tl (pending t))).
    { pose proof (binv_pending b m t H) as F0. rewrite Ep in F0. inversion F0; subst.
      constructor; [exact I|assumption]. }
    specialize (Y F).
    assert (E2 : flows t = pending t ++ skipn (length (pending t)) (flows t)).
    { unfold pending. rewrite firstn_length, Nat.min_l by lia. symmetry. apply firstn_skipn. }
    set (rest := skipn (length (pending t)) (flows t)) in *.
    rewrite Ef, Ep in E2. cbn [app] in E2. injection E2 as E2.
    rewrite E2. exact Y.
  Qed.

  Lemma pending_keeps t t1 : cx t1 = cx t -> flows t1 = flows t -> has_pending_flow t1 = has_pending_flow t.
  Proof. unfold has_pending_flow. intros -> ->. reflexivity. Qed.

  Lemma i_enum_field_inv t : binv t -> quiet t -> enum_field_bad t = false ->
    res_all binv (i_enum_field fo pr rf t).
  Proof.
    intros H Q EB. unfold i_enum_field. unfold bind at 1. unfold enum_field_bad in EB.
    pose proof (i_nested_end_inv t H Q) as X.
    destruct (i_nested_end fo rf t) as [u t1|k p t1| |]; cbn [res_all] in *; auto.
    apply negb_false_iff, andb_true_iff in EB. destruct EB as [P1 _].
    unfold bind at 1. pose proof (bp_next_name t1 X) as Y. pose proof (next_name_keeps t1) as K.
    destruct (next_name pr t1) as [nm t2|k p t2| |]; cbn [res_all] in *; auto.
    apply enum_add_field_inv; [exact Y|]. destruct K as [K1 K2]. rewrite (pending_keeps _ _ K1 K2). exact P1.
  Qed.

  Lemma i_enum_field_set_inv t : binv t -> quiet t -> enum_field_bad t = false ->
    res_all binv (i_enum_field_set fo pr rf t).
  Proof.
    intros H Q EB. unfold i_enum_field_set. unfold bind at 1. unfold enum_field_bad in EB.
    pose proof (i_nested_end_inv t H Q) as X.
    destruct (i_nested_end fo rf t) as [u t1|k p t1| |]; cbn [res_all] in *; auto.
    apply negb_false_iff, andb_true_iff in EB. destruct EB as [P1 E]. apply mode_eqb_meta in E.
    unfold bind at 1. pose proof (wl_frame _ _ wl_pop_data t1) as FR.
    destruct (pop_data t1) as [c t2|k p t2| |]; cbn [res_all] in *; try exact I;
      [|exact (proj1 (binv_frame b m Hm _ _ X E FR))].
    pose proof (proj1 (binv_frame b m Hm _ _ X E FR)) as H2.
    assert (P2 : has_pending_flow t2 = true).
    { unfold has_pending_flow in *. destruct FR as (_ & _ & F3 & _ & _ & _ & _ & _ & _ & _ & F11 & _).
      rewrite F3, F11. destruct (cx t1); exact P1. }
    unfold bind at 1. unfold m_xint. destruct (value c); try exact H2. unfold ret.
    unfold bind at 1. pose proof (bp_next_name t2 H2) as Y. pose proof (next_name_keeps t2) as K.
    destruct (next_name pr t2) as [nm t3|k p t3| |]; cbn [res_all] in *; auto.
    apply enum_add_field_inv; [exact Y|]. destruct K as [K1 K2]. rewrite (pending_keeps _ _ K1 K2). exact P2.
  Qed.

  Lemma i_nested_end_inv_gen t : binv t -> res_all binv (i_nested_end fo rf t).
  Proof.
    intros H. unfold i_nested_end, bind, get.
    destruct (mode_eqb (cmode (cx t)) MMeta) eqn:E; cbn [negb]; [|exact H].
    apply mode_eqb_meta in E.
    destruct (has_pending_flow t) eqn:P; [exact H|].
    apply close_meta_inv_gen; auto.
  Qed.

  Lemma i_endenum_inv t : binv t -> quiet t -> res_all binv (i_endenum fo rf t).
  Proof.
    intros H Q. unfold i_endenum. unfold bind at 1.
    pose proof (i_nested_end_inv t H Q) as X.
    destruct (i_nested_end fo rf t) as [u t1|k p t1| |]; cbn [res_all] in *; auto.
    unfold bind at 1. unfold get.
    destruct (0 <? data_depth t1)%nat; [exact X|].
    unfold bind at 1. pose proof (bpq_pop_flow b m t1 X) as Y.
    destruct (pop_flow t1) as [fl t2|k p t2| |]; cbn [res_all] in *; auto.
    destruct Y as [Y _]. destruct fl as [f|]; [|exact Y]. destruct f; try exact Y.
    apply i_nested_end_inv_gen. exact Y.
  Qed.

  (* ---------- the table of immediate words ---------- *)
  (* the situations in which a native immediate word does not keep the invariant *)
  Definition native_bad (dl : nat) (name : string) (t : state) : bool :=
    (String.eqb name "const" && const_clobbers dl t) ||
    (String.eqb name "endenum" && enum_close_bad t) ||
    ((String.eqb name "%enum-field" || String.eqb name "%enum-field-set") && enum_field_bad t).

  (* what a word needs to keep the invariant: nothing; a quiet state (the words that
     leave a meta block); or that it is not in one of the situations above *)
  Definition bp_word (name : string) (w : M unit) : Prop :=
    forall t, binv t -> quiet t -> native_bad (length (dict b)) name t = false -> res_all binv (w t).

  Lemma bp_word_of name w : bp w -> bp_word name w.
  Proof. intros H t Ht _ _. apply H. exact Ht. Qed.

  Lemma table_find_Forall2 (P : string -> M unit -> Prop) : forall t name w,
    Forall (fun nw => P (fst nw) (snd nw)) t -> table_find t name = Some w -> P name w.
  Proof.
    induction t as [| [n x] r IH]; intros name w HF H; cbn [table_find] in H.
    - discriminate.
    - inversion HF; subst. destruct (String.eqb n name) eqn:E.
      + injection H as <-. apply String.eqb_eq in E. subst. assumption.
      + eapply IH; eauto.
  Qed.

  Lemma bp_immediate_fn : forall fuel name w, immediate_fn fo pr rf fuel name = Some w -> bp_word name w.
  Proof.
    intros fuel name w H. unfold immediate_fn in H. cbv zeta in H.
    eapply table_find_Forall2 with (P := bp_word); [|exact H].
    pose proof (bp_build_let_in fuel) as HL.
    pose proof bp_emit_native as HE.
    pose proof bp_i_set_fmt_base as HB.
    repeat (apply Forall_cons;
            [ cbn [fst snd];
              first [ apply bp_word_of;
                      first [ assumption | apply HE | apply HB | apply bp_code_emit
                            | apply bp_i_if | apply bp_i_else | apply bp_i_then | apply bp_i_case
                            | apply bp_i_of | apply bp_i_endof | apply bp_i_endcase | apply bp_i_begin
                            | apply bp_i_while | apply bp_i_until | apply bp_i_break | apply bp_i_repeat
                            | apply bp_i_open; exact I | apply bp_i_close
                            | apply bp_i_def_begin | apply bp_i_def_end | apply bp_i_late
                            | apply bp_i_immediate | apply bp_i_local | apply bp_i_var | apply bp_i_setvar
                            | apply bp_i_nested_begin | apply bp_i_do | apply bp_i_loop
                            | apply bp_i_foreach | apply bp_i_defined | apply bp_i_enum ]
                    | (intros t Ht Q _; apply i_nested_end_inv; assumption)
                    | (intros t Ht Q _; apply i_nested_inject_inv; assumption)
                    | (intros t Ht _ C; apply i_const_inv; [assumption | exact (proj1 (orb_false_elim _ _ (proj1 (orb_false_elim _ _ C))))])
                    | (intros t Ht Q _; apply i_endenum_inv; assumption)
                    | (intros t Ht Q C; apply i_enum_field_inv; [assumption | assumption | exact (proj2 (orb_false_elim _ _ C))])
                    | (intros t Ht Q C; apply i_enum_field_set_inv; [assumption | assumption | exact (proj2 (orb_false_elim _ _ C))]) ]
            | ]).
    apply Forall_nil.
  Qed.
End Builder.
