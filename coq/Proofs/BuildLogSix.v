(* BuildLogSix.v (C15): the six ways of driving a source agree.
   eval / compile ;; run / compile then single steps, each from the state with recording on (any
   log content) and from the same state with recording off.  Also: the hypothesis of
   eval_is_compile_run ([calls_bad], idle) does not see the reverse log. *)
From Xeh Require Import Model.Prelude Model.Bits Model.Codec Model.Cell Model.Lexer Model.Fmt
                        Model.Vm Model.Words Model.Build.
From Xeh Require Import Proofs.VmFrame Proofs.VmDrive Proofs.NoPanicBuild Proofs.UnwindBuild
                        Proofs.UnwindMain Proofs.UnwindSimMain Proofs.BuildLog Proofs.BuildLogMain.
Local Notation length := List.length.

(* ---------- the hypotheses do not see the log ---------- *)
Lemma idle_top_erase s : idle_top (erase_log s) <-> idle_top s.
Proof. reflexivity. Qed.

Section Watch.
  Variable fo : fops.
  Variable pr : string -> option Z.
  Variable rf : nat.
  Variable dl : nat.

  Lemma const_clobbers_erase s : const_clobbers pr dl (erase_log s) = const_clobbers pr dl s.
  Proof.
    unfold const_clobbers. rewrite <- (R_next_name pr s).
    destruct (next_name pr s) as [n s'|k p s'| |]; reflexivity.
  Qed.

  Lemma enum_field_bad_erase s : enum_field_bad fo rf (erase_log s) = enum_field_bad fo rf s.
  Proof.
    unfold enum_field_bad. rewrite <- (R_i_nested_end fo rf s).
    destruct (i_nested_end fo rf s) as [u t1|k p t1| |]; reflexivity.
  Qed.

  Lemma enum_close_bad_erase s : enum_close_bad fo rf (erase_log s) = enum_close_bad fo rf s.
  Proof.
    unfold enum_close_bad. rewrite <- (R_i_nested_end fo rf s).
    destruct (i_nested_end fo rf s) as [u t1|k p t1| |]; reflexivity.
  Qed.

  Lemma native_bad_erase w s : native_bad fo pr rf dl w (erase_log s) = native_bad fo pr rf dl w s.
  Proof.
    unfold native_bad. rewrite const_clobbers_erase, enum_close_bad_erase, enum_field_bad_erase. reflexivity.
  Qed.

  Lemma bad_word_erase s name : bad_word fo pr rf dl (erase_log s) name = bad_word fo pr rf dl s name.
  Proof.
    unfold bad_word. change (dict_entry (erase_log s) name) with (dict_entry s name).
    destruct (dict_entry s name) as [[c|a|[|] [x|w] len]|]; try reflexivity. apply native_bad_erase.
  Qed.

  Lemma calls_bad_erase : forall fuel depth s,
    calls_bad fo pr rf dl fuel depth (erase_log s) = calls_bad fo pr rf dl fuel depth s.
  Proof.
    induction fuel as [|f IH]; intros depth s; cbn [calls_bad]; [reflexivity|].
    change (cx (erase_log s)) with (cx s).
    change (has_pending_flow (erase_log s)) with (has_pending_flow s).
    assert (H0 : R_log (if mode_eqb (cmode (cx s)) MMeta && negb (has_pending_flow s)
                        then run_m fo rf else ret tt)
                       (if mode_eqb (cmode (cx s)) MMeta && negb (has_pending_flow s)
                        then run_m fo rf else ret tt)).
    { destruct (mode_eqb (cmode (cx s)) MMeta && negb (has_pending_flow s)); [apply R_run_m|apply R_ret]. }
    rewrite <- (H0 s).
    destruct ((if mode_eqb (cmode (cx s)) MMeta && negb (has_pending_flow s) then run_m fo rf else ret tt) s)
      as [u s0|k p s0| |]; cbn [res_map]; try reflexivity.
    rewrite <- (R_get_token pr s0).
    destruct (get_token pr s0) as [tk s1|k p s1| |]; cbn [res_map]; try reflexivity.
    destruct tk as [|name|v]; try reflexivity.
    - rewrite bad_word_erase.
      rewrite <- (R_build_word fo pr rf f name s1).
      change (top_function_flow (erase_log s1)) with (top_function_flow s1).
      assert (Hw : match res_map erase_log (build_word fo pr rf f name s1) with
                   | ROk _ s2 => calls_bad fo pr rf dl f depth s2 | _ => false end =
                   match build_word fo pr rf f name s1 with
                   | ROk _ s2 => calls_bad fo pr rf dl f depth s2 | _ => false end).
      { destruct (build_word fo pr rf f name s1); cbn [res_map]; try reflexivity. apply IH. }
      rewrite Hw.
      destruct (top_function_flow s1) as [[[a b] ls]|]; [|reflexivity].
      destruct (rposition ls name 0 None) as [i|]; [|reflexivity].
      rewrite <- (R_code_emit (OLoadLocal i) s1).
      destruct (code_emit (OLoadLocal i) s1); cbn [res_map]; try reflexivity. apply IH.
    - rewrite <- (R_code_emit_value v s1).
      destruct (code_emit_value v s1); cbn [res_map]; try reflexivity. apply IH.
  Qed.
End Watch.

(* ---------- the six ways ---------- *)
Theorem six_way : forall fo pr rf fuel src s s1,
  idle_top s ->
  (context_open MEval ;; intern_source src) s = ROk tt s1 ->
  calls_bad fo pr rf 0 fuel (length (nested s1)) s1 = false ->
  forall r r',
    compile_stepped fo pr rf fuel src s r ->
    compile_stepped fo pr rf fuel src (erase_log s) r' ->
    let E := eval fo pr rf fuel src s in
    (compile fo pr rf fuel src ;; run_m fo rf) s = E /\
    r = E /\
    eval fo pr rf fuel src (erase_log s) = res_map erase_log E /\
    (compile fo pr rf fuel src ;; run_m fo rf) (erase_log s) = res_map erase_log E /\
    r' = res_map erase_log E.
Proof.
  intros fo pr rf fuel src s s1 Hi Ho Hc r r' Hr Hr' E.
  assert (E1 : (compile fo pr rf fuel src ;; run_m fo rf) s = E)
    by (symmetry; exact (eval_is_compile_run fo pr rf fuel src s s1 Hi Ho Hc)).
  assert (E2 : (compile fo pr rf fuel src ;; run_m fo rf) (erase_log s) = res_map erase_log E)
    by (rewrite <- recording_transparent_compile_run, E1; reflexivity).
  split; [exact E1|]. split.
  - rewrite <- E1. symmetry. apply compile_step_is_compile_run. exact Hr.
  - split; [symmetry; apply recording_transparent_eval|]. split; [exact E2|].
    rewrite <- E2. symmetry. apply compile_step_is_compile_run. exact Hr'.
Qed.

(* the hypotheses hold of the recording-off state exactly when they hold of the recording one *)
Theorem six_way_hyps_erase : forall fo pr rf fuel src s s1,
  (context_open MEval ;; intern_source src) s = ROk tt s1 ->
  (context_open MEval ;; intern_source src) (erase_log s) = ROk tt (erase_log s1) /\
  (idle_top (erase_log s) <-> idle_top s) /\
  calls_bad fo pr rf 0 fuel (length (nested (erase_log s1))) (erase_log s1) =
  calls_bad fo pr rf 0 fuel (length (nested s1)) s1.
Proof.
  intros fo pr rf fuel src s s1 Ho. split; [|split].
  - assert (H : R_log (context_open MEval;; intern_source src) (context_open MEval;; intern_source src))
      by rl_solve.
    rewrite <- (H s), Ho. reflexivity.
  - reflexivity.
  - change (nested (erase_log s1)) with (nested s1). apply calls_bad_erase.
Qed.
