(* EnumGenMain.v (C11): what `enum Name : f1 ... : fn endenum` does, for every list of field
   names, at the level described in EnumGen.v. *)
From Xeh Require Import Model.Prelude Model.Bits Model.Codec Model.Cell Model.Lexer Model.Fmt
                        Model.Vm Model.Words Model.Build Model.Boot.
From Xeh Require Import Proofs.VmFrame Proofs.NoPanicBuild Proofs.MetaPurge Proofs.EnumGen.
Local Notation length := List.length.
Local Open Scope string_scope.
Local Open Scope list_scope.

#[local] Arguments Z.add : simpl never.
#[local] Arguments Z.of_nat : simpl never.

(* ---------- the hypotheses on the state in which `enum` is met ---------- *)
(* top level of a source (the current context is not a meta context) and the debug map is as
   long as the code (true in every API-reachable state: C17 alignment) *)
Definition enum_pre (s : state) : Prop :=
  cmode (cx s) <> MMeta /\ length (dbg s) = length (code s).
Definition enum_pre_b (s : state) : bool :=
  negb (mode_eqb (cmode (cx s)) MMeta) && (length (dbg s) =? length (code s))%nat.
Lemma enum_pre_b_sound s : enum_pre_b s = true -> enum_pre s.
Proof.
  unfold enum_pre_b, enum_pre. intros H. apply andb_true_iff in H. destruct H as [H1 H2].
  split; [|apply Nat.eqb_eq; exact H2]. intros E. rewrite E in H1. discriminate.
Qed.

(* ---------- the states while the enum is open ---------- *)
(* the outer meta context (holds the two field words and the enum entry) *)
Definition ectx1 (s : state) : ctx :=
  mkctx (length (ds s)) (length (code s)) (length (rs s)) (length (flows s)) (length (loops s))
        (length (special s)) (length (dict s)) (length (code s)) MMeta.
(* the inner one, opened after k constants *)
Definition ectx2 (s : state) (k : nat) : ctx :=
  mkctx (length (ds s)) (length (code s)) (length (rs s)) (S (length (flows s))) (length (loops s))
        (length (special s)) (length (dict s) + 2 + k) (length (code s)) MMeta.

Definition edict (s : state) (fields : list (string * Z)) : list dentry :=
  dict s ++ enum_imms ++ map const_of fields.

(* inside the inner context, between two field words *)
Definition estate (s : state) (E : string) (fields : list (string * Z)) (i : list inlex) (l : option tokref) : state :=
  mkstate (edict s fields) (heap s) (code s) (dbg s) (sources s) i (ds s) (rs s)
          (FEnum E fields :: flows s) (loops s) (special s) (ectx2 s (length fields))
          (ectx1 s :: cx s :: nested s) (meter s) (insn_limit s) (heap_limit s) (stack_limit s)
          (rlog s) (out s) l (stopping s).
(* back in the outer context (after the inner one was closed) *)
Definition estate1 (s : state) (E : string) (fields : list (string * Z)) (i : list inlex) (l : option tokref) : state :=
  mkstate (edict s fields) (heap s) (code s) (dbg s) (sources s) i (ds s) (rs s)
          (FEnum E fields :: flows s) (loops s) (special s) (ectx1 s)
          (cx s :: nested s) (meter s) (insn_limit s) (heap_limit s) (stack_limit s)
          (rlog s) (out s) l (stopping s).
(* after endenum *)
Definition efinal (s : state) (fields : list (string * Z)) (i : list inlex) (l : option tokref) : state :=
  mkstate (dict s ++ enum_order (map const_of fields)) (heap s) (code s) (dbg s) (sources s) i (ds s) (rs s)
          (flows s) (loops s) (special s) (cx s) (nested s) (meter s) (insn_limit s) (heap_limit s)
          (stack_limit s) (rlog s) (out s) l (stopping s).

Lemma edict_length s fields : length (edict s fields) = length (dict s) + 2 + length fields.
Proof. unfold edict, enum_imms. rewrite !app_length, map_length. cbn [length]. lia. Qed.

Lemma not_meta_eqb c : c <> MMeta -> mode_eqb c MMeta = false.
Proof. destruct c; intros H; try reflexivity. contradiction H. reflexivity. Qed.

Ltac st :=
  cbn [set_code set_dbg set_dict set_flows set_cx set_nested set_input set_last_tok set_sources
       set_heap set_ds set_rs set_loops set_special set_meter set_rlog set_out set_stopping
       dict heap code dbg sources input ds rs flows loops special cx nested meter insn_limit
       heap_limit stack_limit rlog out last_tok stopping
       ds_len cs_len rs_len fs_len ls_len ss_ptr di_len cip cmode ectx1 ectx2 mode_eqb negb orb andb].

Section Gen.
  Variable fo : fops.
  Variable pr : string -> option Z.
  Variable rf : nat.      (* the builder runs the machine with fuel S rf *)

  (* ---------- closing the inner context: nothing has been compiled or defined in it ---------- *)
  Lemma close_inner s E fields i l : length (dbg s) = length (code s) ->
    i_nested_end fo (S rf) (estate s E fields i l) = ROk tt (estate1 s E fields i l).
  Proof.
    intros Hd. unfold estate, estate1. unfold i_nested_end, bind, get. st.
    unfold has_pending_flow. st. cbn [length]. rewrite Nat.ltb_irrefl.
    unfold context_close. st. cbv zeta. st.
    unfold run_m. cbn [run]. unfold is_running, ip. st. rewrite Nat.ltb_irrefl. st.
    rewrite firstn_all. rewrite <- Hd at 2. rewrite firstn_all.
    rewrite purge_dict_past by (rewrite edict_length; lia).
    cbn [length].
    replace (S (length (flows s)) - length (flows s)) with 1 by lia. cbn [firstn].
    reflexivity.
  Qed.

  (* ---------- enum ---------- *)
  Lemma enum_opens s E i1 l1 : enum_pre s -> reads pr (input s) (last_tok s) E i1 l1 ->
    i_enum pr s = ROk tt (estate s E [] i1 l1).
  Proof.
    intros [Hm Hd] R. unfold i_enum. unfold bind at 1. rewrite (R s eq_refl eq_refl).
    unfold i_nested_begin, def_immediate, bind, context_open, dict_insert, push_flow, modify, ret, code_origin.
    cbv zeta. st. rewrite (not_meta_eqb _ Hm). st.
    unfold estate, edict, enum_imms, field_imm, ectx1, ectx2. cbn [map length app].
    rewrite <- !app_assoc. cbn [app]. rewrite !app_length. cbn [length].
    rewrite ?Nat.add_0_r. reflexivity.
  Qed.

  (* ---------- a field without value ---------- *)
  Lemma field_adds s E fields i l f v i1 l1 : length (dbg s) = length (code s) ->
    reads pr i l f i1 l1 -> enum_next_value fields = Some v ->
    i_enum_field fo pr (S rf) (estate s E fields i l) = ROk tt (estate s E (fields ++ [(f, v)]) i1 l1).
  Proof.
    intros Hd R Ev. unfold i_enum_field. unfold bind at 1. rewrite (close_inner s E fields i l Hd).
    unfold bind at 1. rewrite (R (estate1 s E fields i l) eq_refl eq_refl).
    unfold enum_add_field, bind, get. unfold estate1 at 1. st. rewrite Ev.
    unfold put, dict_insert, i_nested_begin, context_open, code_origin. cbv zeta. unfold estate1. st.
    unfold estate, ectx2, ectx1. cbn [length].
    assert (E1 : edict s fields ++ [mkdent f (DConst (CInt v))] = edict s (fields ++ [(f, v)])).
    { unfold edict. rewrite map_app. cbn [map const_of fst snd]. rewrite <- !app_assoc. reflexivity. }
    assert (E2 : length (edict s fields ++ [mkdent f (DConst (CInt v))]) = length (dict s) + 2 + length (fields ++ [(f, v)])).
    { rewrite E1. apply edict_length. }
    rewrite E2, E1. reflexivity.
  Qed.

  (* the field after i128::MAX is refused before anything is defined: the state is the one after
     the close of the inner context and the read of the name *)
  Lemma field_overflow s E fields i l f i1 l1 : length (dbg s) = length (code s) ->
    reads pr i l f i1 l1 -> enum_next_value fields = None ->
    i_enum_field fo pr (S rf) (estate s E fields i l) = RErr EOverflow None (estate1 s E fields i1 l1).
  Proof.
    intros Hd R Ev. unfold i_enum_field. unfold bind at 1. rewrite (close_inner s E fields i l Hd).
    unfold bind at 1. rewrite (R (estate1 s E fields i l) eq_refl eq_refl).
    unfold enum_add_field, bind, get. unfold estate1 at 1. st. rewrite Ev. reflexivity.
  Qed.

  (* ---------- endenum ---------- *)
  Lemma endenum_closes s E fields i l : enum_pre s ->
    i_endenum fo (S rf) (estate s E fields i l) = ROk tt (efinal s fields i l).
  Proof.
    intros [Hm Hd]. unfold i_endenum. unfold bind at 1. rewrite (close_inner s E fields i l Hd).
    unfold bind at 1. unfold get at 1. unfold estate1.
    unfold data_depth. st. rewrite Nat.sub_diag. cbn [Nat.ltb Nat.leb].
    unfold bind at 1. unfold pop_flow. st. cbn [length].
    rewrite (proj2 (Nat.ltb_lt _ _) (Nat.lt_succ_diag_r (length (flows s)))). st.
    unfold i_nested_end, bind, get. st.
    unfold has_pending_flow. st. rewrite Nat.ltb_irrefl.
    unfold context_close. st. cbv zeta. st.
    unfold run_m. cbn [run]. unfold is_running, ip. st. rewrite Nat.ltb_irrefl. st.
    rewrite firstn_all.
    replace (firstn (length (code s)) (dbg s)) with (dbg s) by (rewrite <- Hd; symmetry; apply firstn_all).
    rewrite purge_dict_full by (rewrite edict_length; lia).
    unfold edict. rewrite firstn_app, firstn_all, Nat.sub_diag. cbn [firstn]. rewrite app_nil_r.
    rewrite skipn_app, skipn_all, Nat.sub_diag. cbn [skipn app].
    rewrite purge_enum by (apply Forall_forall; intros e He; apply in_map_iff in He; destruct He as (x & <- & _); reflexivity).
    rewrite (not_meta_eqb _ Hm). st.
    cbn [emit_results]. st. rewrite Nat.ltb_irrefl.
    reflexivity.
  Qed.

  (* ---------- the whole builder ---------- *)
  Fixpoint repeat_m (n : nat) (m : M unit) : M unit :=
    match n with O => ret tt | S k => m ;; repeat_m k m end.

  (* reading the keyword token that makes build1 invoke the next immediate word *)
  Definition rd_tok : M unit := let* _ := get_token pr in ret tt.

  (* what build1 does for `enum Name : f1 : f2 ... : fn endenum` once it has read `enum`: the
     immediate words in this order, each field word and `endenum` after reading its own token *)
  Definition enum_seq (n : nat) : M unit :=
    i_enum pr ;; repeat_m n (rd_tok ;; i_enum_field fo pr (S rf)) ;; rd_tok ;; i_endenum fo (S rf).

  Lemma rd_tok_estate s E fields i l kw i0 l0 : tokreads pr i l kw i0 l0 ->
    rd_tok (estate s E fields i l) = ROk tt (estate s E fields i0 l0).
  Proof. intros T. unfold rd_tok, bind. rewrite (T (estate s E fields i l) eq_refl eq_refl). reflexivity. Qed.

  (* the fields numbered from k *)
  Fixpoint numbered (k : Z) (fs : list string) : list (string * Z) :=
    match fs with [] => [] | f :: r => (f, k) :: numbered (k + 1)%Z r end.

  (* the accumulated fields end with value k - 1 (or there are none and k = 0) *)
  Definition ends_before (acc : list (string * Z)) (k : Z) : Prop :=
    match rev acc with [] => k = 0%Z | (_, v) :: _ => k = (v + 1)%Z end.

  Lemma next_value_ends acc k : ends_before acc k -> in_i128 k = true -> enum_next_value acc = Some k.
  Proof.
    unfold ends_before, enum_next_value. destruct (rev acc) as [|[f v] r]; intros -> H; [reflexivity|].
    rewrite H. reflexivity.
  Qed.

  Lemma ends_before_snoc acc f k : ends_before (acc ++ [(f, k)]) (k + 1)%Z.
  Proof. unfold ends_before. rewrite rev_app_distr. reflexivity. Qed.

  Lemma fields_run s E : enum_pre s ->
    forall fs acc k i l i2 l2,
      feeds_fields pr i l fs i2 l2 -> ends_before acc k ->
      (forall j, (0 <= j < Z.of_nat (length fs))%Z -> in_i128 (k + j)%Z = true) ->
      (repeat_m (length fs) (rd_tok ;; i_enum_field fo pr (S rf)) ;; rd_tok ;; i_endenum fo (S rf))
        (estate s E acc i l) =
      ROk tt (efinal s (acc ++ numbered k fs) i2 l2).
  Proof.
    intros P. induction fs as [|f fs IH]; intros acc k i l i2 l2 Fd He Hr.
    - inversion Fd as [? ? ? ? T|]; subst. cbn [length repeat_m numbered]. rewrite app_nil_r.
      unfold bind at 1. unfold ret at 1. unfold bind at 1. rewrite (rd_tok_estate _ _ _ _ _ _ _ _ T).
      apply endenum_closes. exact P.
    - inversion Fd as [|? ? ? ? i0 l0 i1 l1 ? ? T R Fd']; subst. cbn [length repeat_m numbered].
      unfold bind at 1. unfold bind at 1. unfold bind at 1. rewrite (rd_tok_estate _ _ _ _ _ _ _ _ T).
      assert (Hk : in_i128 k = true).
      { replace k with (k + 0)%Z by lia. apply Hr. cbn [length]. lia. }
      rewrite (field_adds s E acc i0 l0 f k i1 l1 (proj2 P) R (next_value_ends acc k He Hk)).
      specialize (IH (acc ++ [(f, k)]) (k + 1)%Z i1 l1 i2 l2 Fd' (ends_before_snoc acc f k)).
      unfold bind at 1 in IH. rewrite IH.
      + rewrite <- app_assoc. reflexivity.
      + intros j Hj. replace (k + 1 + j)%Z with (k + (j + 1))%Z by lia. apply Hr. cbn [length]. lia.
  Qed.

  (* MAIN: all field lists.  s is the state in which build1 has just read the token `enum` *)
  Theorem enum_seq_spec s E fs i1 l1 i2 l2 :
    enum_pre s -> reads pr (input s) (last_tok s) E i1 l1 -> feeds_fields pr i1 l1 fs i2 l2 ->
    (Z.of_nat (length fs) <= two127)%Z ->
    enum_seq (length fs) s = ROk tt (efinal s (numbered 0 fs) i2 l2).
  Proof.
    intros P R Fd Hn.
    unfold enum_seq. unfold bind at 1. rewrite (enum_opens s E i1 l1 P R).
    apply (fields_run s E P fs [] 0%Z i1 l1 i2 l2 Fd eq_refl).
    intros j Hj. unfold in_i128, i128_min, i128_max. apply andb_true_iff. split; apply Z.leb_le.
    - assert (0 <= two127)%Z by (unfold two127; apply Z.pow_nonneg; lia). lia.
    - lia.
  Qed.

  (* the final state, field by field *)
  Theorem efinal_fields s fields i l :
    let s' := efinal s fields i l in
    dict s' = dict s ++ enum_order (map const_of fields) /\
    heap s' = heap s /\ code s' = code s /\ dbg s' = dbg s /\ sources s' = sources s /\
    ds s' = ds s /\ rs s' = rs s /\ flows s' = flows s /\ loops s' = loops s /\ special s' = special s /\
    cx s' = cx s /\ nested s' = nested s /\ meter s' = meter s /\
    insn_limit s' = insn_limit s /\ heap_limit s' = heap_limit s /\ stack_limit s' = stack_limit s /\
    rlog s' = rlog s /\ out s' = out s /\ stopping s' = stopping s /\
    input s' = i /\ last_tok s' = l.
  Proof. cbv zeta. repeat split. Qed.
End Gen.
