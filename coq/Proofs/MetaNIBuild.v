(* MetaNIBuild.v (C11): the builder's own actions do not look at the hidden part of the data
   stack: every immediate word of the table except #( #) ~) commutes with the replacement of
   the hidden cells ([comm], MetaNI.v).  (Executed code - pending code of a meta block, user
   immediate words, the run at `#)` - is covered by the machine-step theorem of MetaNIWords.v.) *)
From Xeh Require Import Model.Prelude Model.Bits Model.Codec Model.Cell Model.Lexer Model.Fmt
                        Model.Vm Model.Words Model.Build.
From Xeh Require Import Proofs.VmFrame Proofs.VmLimits Proofs.NoPanic Proofs.NoPanicBuild Proofs.NoPanicFlow
                        Proofs.MetaBase Proofs.MetaBuild Proofs.MetaNI Proofs.MetaNIWords.
Local Notation length := List.length.
Local Open Scope string_scope.
Local Open Scope list_scope.

(* programs that neither read nor write the data stack *)
Definition obl {A} (m : M A) : Prop :=
  forall s l, m (set_ds s l) = res_map (fun t => set_ds t l) (m s) /\
              res_all (fun s' => ds s' = ds s /\ ds_len (cx s') = ds_len (cx s)) (m s).

Lemma obl_comm h' A (m : M A) : obl m -> comm h' m.
Proof.
  intros H s W. destruct (H s (firstn (length (ds s) - length h') (ds s) ++ h')) as [E R].
  unfold sw at 1. rewrite E. destruct (m s) as [a s1|k p s1| |]; cbn [res_map res_all] in *;
    try (split; [reflexivity|exact I]); destruct R as [Rd Rc].
  - split; [unfold sw; rewrite Rd; reflexivity|]. destruct W as [W1 W2]. split; congruence.
  - split; [unfold sw; rewrite Rd; reflexivity|]. destruct W as [W1 W2]. split; congruence.
Qed.

Lemma obl_code_emit op : obl (code_emit op).
Proof.
  intros s l. unfold code_emit. cbv zeta. cbn [set_ds code dbg last_tok].
  destruct (_ <? _)%nat; [split; [reflexivity|split; reflexivity]|].
  destruct (_ =? _)%nat; [split; [reflexivity|split; reflexivity]|split; [reflexivity|exact I]].
Qed.

Lemma obl_backpatch pos op : obl (backpatch pos op).
Proof.
  intros s l. unfold backpatch. cbn [set_ds code].
  destruct (_ <? _)%nat; [split; [reflexivity|split; reflexivity]|split; [reflexivity|exact I]].
Qed.

Lemma obl_backpatch_jump pos offs : obl (backpatch_jump pos offs).
Proof.
  intros s l. unfold backpatch_jump. cbn [set_ds code].
  destruct (nth_error (code s) pos) as [op|]; [|split; [reflexivity|split; reflexivity]].
  destruct op; try (split; [reflexivity|exact I]); apply obl_backpatch.
Qed.

Lemma obl_push_flow f : obl (push_flow f).
Proof. intros s l. split; [reflexivity|split; reflexivity]. Qed.

Lemma obl_pop_flow : obl pop_flow.
Proof.
  intros s l. unfold pop_flow. cbn [set_ds flows cx].
  destruct (flows s); [split; [reflexivity|split; reflexivity]|].
  destruct (_ <? _)%nat; split; try reflexivity; split; reflexivity.
Qed.

Lemma obl_take : obl take_first_cond_flow.
Proof.
  intros s l. unfold take_first_cond_flow. cbv zeta.
  change (pending (set_ds s l)) with (pending s). cbn [set_ds flows].
  destruct (take_cond (pending s)) as [[f a]|]; split; try reflexivity; split; reflexivity.
Qed.

Lemma obl_dict_insert name e : obl (dict_insert name e).
Proof. intros s l. split; [reflexivity|split; reflexivity]. Qed.

Lemma obl_intern_source buf : obl (intern_source buf).
Proof. intros s l. split; [reflexivity|split; reflexivity]. Qed.

Lemma obl_alloc_heap v : obl (alloc_heap v).
Proof.
  intros s l. unfold alloc_heap. cbn [set_ds cx heap_limit heap].
  destruct (mode_eqb _ _); [split; [reflexivity|split; reflexivity]|].
  destruct (limit_reached _ _); split; try reflexivity; split; reflexivity.
Qed.

Section Tok.
  Variable pr : string -> option Z.

  Lemma obl_next_token : forall fuel, obl (next_token pr fuel).
  Proof.
    induction fuel as [|f IH]; intros s l; cbn [next_token]; [split; [reflexivity|exact I]|].
    cbn [set_ds input]. destruct (input s) as [|il rest]; [split; [reflexivity|split; reflexivity]|].
    cbv zeta. destruct (lex_next_nonws _ _) as [t l'].
    destruct t; try (split; [reflexivity|first [exact I|split; reflexivity]]).
    - exact (IH (set_input (set_last_tok (set_input s (mkinlex (in_src il) l' :: rest))
                                         (Some (in_src il, lstart l', lpos l'))) rest) l).
    - destruct (pr text); split; try reflexivity; split; reflexivity.
  Qed.

  Lemma obl_get_token : obl (get_token pr).
  Proof. intros s l. unfold get_token. exact (obl_next_token (tok_fuel s) s l). Qed.

  Lemma obl_next_name : obl (next_name pr).
  Proof.
    intros s l. unfold next_name. cbv zeta. cbn [set_ds last_tok].
    destruct (obl_get_token s l) as [E R]. rewrite E.
    destruct (get_token pr s) as [t s1|k p s1| |]; cbn [res_map res_all] in *;
      try (split; [reflexivity|first [exact I|exact R]]).
    destruct t; cbn [res_map res_all]; try (split; [reflexivity|exact R]);
      destruct (last_tok s); split; try reflexivity; exact R.
  Qed.
End Tok.

Section NIB.
  Variable h' : list cell.

  Definition comm2 {A} (m m' : M A) : Prop :=
    forall s, wfd h' s -> m' (sw h' s) = res_map (sw h') (m s) /\ res_all (wfd h') (m s).

  Lemma comm2_same A (m : M A) : comm h' m -> comm2 m m.
  Proof. intros H. exact H. Qed.

  Lemma comm2_bind A B (m m' : M A) (f f' : A -> M B) :
    comm2 m m' -> (forall a, comm2 (f a) (f' a)) -> comm2 (bind m f) (bind m' f').
  Proof.
    intros Hm Hf s W. destruct (Hm s W) as [E1 W1]. unfold bind. rewrite E1.
    destruct (m s) as [a s1|k p s1| |]; cbn [res_map res_all] in *; try (split; [reflexivity|auto]).
    apply Hf. exact W1.
  Qed.

  Lemma comm2_get_bind B (k k' : state -> M B) :
    (forall s0, wfd h' s0 -> comm2 (k s0) (k' (sw h' s0))) -> comm2 (bind get k) (bind get k').
  Proof. intros H s W. unfold bind, get. apply H; exact W. Qed.

  Lemma comm2_put s1 : wfd h' s1 -> comm2 (put s1) (put (sw h' s1)).
  Proof. intros W1 s W. split; [reflexivity|exact W1]. Qed.
End NIB.

Ltac c2_norm :=
  unfold sw, top_function_flow, dict_entry, dict_pos, has_pending_flow, code_origin, pending;
  cbn [set_ds dict heap code dbg sources input rs flows loops special cx nested meter insn_limit
       heap_limit stack_limit rlog out last_tok stopping].

Ltac c2_leaf :=
  lazymatch goal with
  | |- comm2 _ (ret _) _ => apply comm2_same, comm_ret
  | |- comm2 _ (fail _ _) _ => apply comm2_same, comm_fail
  | |- comm2 _ unsup _ => apply comm2_same, comm_unsup
  | |- comm2 _ panic _ => apply comm2_same, comm_panic
  | |- comm2 _ (code_emit _) _ => apply comm2_same, obl_comm, obl_code_emit
  | |- comm2 _ (backpatch _ _) _ => apply comm2_same, obl_comm, obl_backpatch
  | |- comm2 _ (backpatch_jump _ _) _ => apply comm2_same, obl_comm, obl_backpatch_jump
  | |- comm2 _ (push_flow _) _ => apply comm2_same, obl_comm, obl_push_flow
  | |- comm2 _ pop_flow _ => apply comm2_same, obl_comm, obl_pop_flow
  | |- comm2 _ take_first_cond_flow _ => apply comm2_same, obl_comm, obl_take
  | |- comm2 _ (dict_insert _ _) _ => apply comm2_same, obl_comm, obl_dict_insert
  | |- comm2 _ (intern_source _) _ => apply comm2_same, obl_comm, obl_intern_source
  | |- comm2 _ (alloc_heap _) _ => apply comm2_same, obl_comm, obl_alloc_heap
  | |- comm2 _ (get_token _) _ => apply comm2_same, obl_comm, obl_get_token
  | |- comm2 _ (next_name _) _ => apply comm2_same, obl_comm, obl_next_name
  | |- comm2 _ pop_data _ => apply comm2_same, comm_pop_data
  end.

Create HintDb c2db.

Ltac c2_step :=
  cbv beta zeta;
  first
    [ c2_leaf
    | apply comm2_same; solve [ auto 2 with c2db nocore ]
    | apply comm2_same; match goal with H : _ |- comm _ _ => solve [ apply H ] end
    | lazymatch goal with
      | |- comm ?h ?m => change (comm2 h m m)
      | |- comm2 _ (bind get _) (bind get _) => apply comm2_get_bind; intros ? ?; c2_norm
      | |- comm2 _ (bind _ _) (bind _ _) => apply comm2_bind; [ | intro ]
      | |- comm2 _ (match ?x with _ => _ end) (match ?x with _ => _ end) => destruct x eqn:?
      | |- comm2 _ (put _) (put _) => apply comm2_put; assumption
      | |- comm2 _ ?m _ => let h := head_of m in unfold h
      end ].

Ltac c2_solve := repeat c2_step.

Section WordsNI.
  Variable h' : list cell.

  Lemma c2_endcase_loop : forall fuel org, comm h' (endcase_loop fuel org).
  Proof. induction fuel as [|f IH]; intros org; cbn [endcase_loop]; c2_solve. Qed.
  Lemma c2_repeat_loop : forall fuel, comm h' (repeat_loop fuel).
  Proof. induction fuel as [|f IH]; cbn [repeat_loop]; c2_solve. Qed.
  Lemma c2_loop_loop : forall fuel a b, comm h' (loop_loop fuel a b).
  Proof. induction fuel as [|f IH]; intros a b; cbn [loop_loop]; c2_solve. Qed.
End WordsNI.
#[export] Hint Resolve c2_endcase_loop c2_repeat_loop c2_loop_loop : c2db.

Section WordsNI2.
  Variable h' : list cell.

  Lemma c2_emit_native w : comm h' (emit_native w).
  Proof. c2_solve. Qed.
  Lemma c2_code_emit_value v : comm h' (code_emit_value v).
  Proof. c2_solve. Qed.
  Lemma c2_build_local_variable name : comm h' (build_local_variable name).
  Proof. c2_solve. Qed.
  Lemma c2_build_global_variable name : comm h' (build_global_variable name).
  Proof. c2_solve. Qed.
End WordsNI2.
#[export] Hint Resolve c2_emit_native c2_code_emit_value c2_build_local_variable c2_build_global_variable : c2db.

Section WordsNI3.
  Variable h' : list cell.
  Lemma c2_build_let_named w : comm h' (build_let_named w).
  Proof. c2_solve. Qed.
  Lemma c2_build_let_match v : comm h' (build_let_match v).
  Proof. c2_solve. Qed.
  Lemma c2_let_vec_next i : comm h' (let_vec_next i).
  Proof. c2_solve. Qed.
End WordsNI3.
#[export] Hint Resolve c2_build_let_named c2_build_let_match c2_let_vec_next : c2db.

Section LetNI.
  Variable h' : list cell.
  Variable pr : string -> option Z.

  Lemma c2_build_let : forall f,
    comm h' (build_let_in pr f) /\ comm h' (build_let_tags pr f) /\ comm h' (build_let_map pr f) /\
    (forall i, comm h' (build_let_vec pr f i)).
  Proof.
    induction f as [|f (IHin & IHtags & IHmap & IHvec)].
    - split; [apply comm_unsup|split; [apply comm_unsup|split; [apply comm_unsup|intros i; apply comm_unsup]]].
    - assert (Hmap : comm h' (build_let_map pr (S f))).
      { rewrite build_let_map_S. apply comm_bind; [apply c2_emit_native|intros _].
        generalize (S f) as k. induction k as [|k IHk]; cbn [let_map_go]; [apply comm_unsup|].
        fold (let_map_go pr f) in *. c2_solve. }
      assert (Hvec : forall i, comm h' (build_let_vec pr (S f) i)).
      { intros i. rewrite build_let_vec_S. revert i.
        generalize (S f) as k. induction k as [|k IHk]; intros i; cbn [let_vec_go]; [apply comm_unsup|].
        fold (let_vec_go pr f) in *. c2_solve. }
      assert (Htags : comm h' (build_let_tags pr (S f))) by (cbn [build_let_tags]; c2_solve).
      assert (Hin : comm h' (build_let_in pr (S f))) by (cbn [build_let_in]; c2_solve).
      split; [exact Hin|split; [exact Htags|split; [exact Hmap|exact Hvec]]].
  Qed.
End LetNI.

Section TopNI.
  Variable h' : list cell.
  Variable fo : fops.
  Variable pr : string -> option Z.
  Variable rf : nat.

  Theorem immediate_comm : forall fuel name w,
    immediate_fn fo pr rf fuel name = Some w -> ctx_word name = false -> comm h' w.
  Proof.
    intros fuel name w H Hc. unfold immediate_fn in H. cbv zeta in H.
    eapply table_find_filter with (P := fun m => comm h' m); [|exact H|exact Hc].
    pose proof (proj1 (c2_build_let h' pr fuel)) as HL.
    repeat (apply Forall_cons;
            [ cbn [fst snd]; intros Hcw;
              first [ discriminate Hcw | c2_solve ] | ]).
    apply Forall_nil.
  Qed.
End TopNI.
