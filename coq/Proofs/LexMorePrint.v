(* Printing an integer in base 2, 8 or 16 with the radix prefix and reading the text back; the
   printer's form that does not read back (no prefix). *)
From Xeh Require Import Model.Prelude Model.Bits Model.Cell Model.Lexer Model.Fmt.
From Xeh Require Import Proofs.LexLoc Proofs.LexBasic Proofs.LexNext Proofs.LexNum Proofs.LexAll Proofs.LexPrintInt
  Proofs.LexStr Proofs.LexMoreNum.
From Coq Require Import ZifyBool ZifyNat ZifyN.
Local Open Scope string_scope.

Lemma nitems_text_app a b : nitems_text (a ++ b) = nitems_text a ++ nitems_text b.
Proof. induction a as [|i a IH]; [reflexivity|]. cbn [app nitems_text append]. rewrite IH. reflexivity. Qed.

Lemma digits_value_app radix : forall a b acc,
  digits_value radix (a ++ b) acc = digits_value radix b (digits_value radix a acc).
Proof. induction a as [|d a IH]; intros b acc; [reflexivity|]. cbn [app digits_value]. apply IH. Qed.

(* the digits the printer produces, most significant first *)
Lemma digits_go_base base up : (2 <= base <= 36)%Z -> forall fuel z acc,
  (0 <= z < base ^ Z.of_nat fuel)%Z -> 0 < fuel ->
  exists ds, digits_go fuel base up z acc = nitems_text (map (NDig up) ds) ++ acc /\
             Forall (fun d => (d < Z.to_N base)%N) ds /\ ds <> [] /\
             (forall a, digits_value base ds a = (a * base ^ Z.of_nat (List.length ds) + z)%Z).
Proof.
  intros Hb. induction fuel as [|f IH]; intros z acc Hz Hf; [lia|].
  cbn [digits_go]. cbv zeta.
  assert (Hm : (0 <= z mod base < base)%Z) by (apply Z.mod_pos_bound; lia).
  destruct (z / base =? 0)%Z eqn:Eq.
  - exists [Z.to_N (z mod base)]. cbn [map nitems_text nitem_char append List.length digits_value].
    split; [reflexivity|]. split; [constructor; [lia|constructor]|]. split; [discriminate|].
    intros a. rewrite Z2N.id by lia. change (Z.of_nat 1) with 1%Z. rewrite Z.pow_1_r.
    pose proof (Z.div_mod z base ltac:(lia)). lia.
  - assert (Hq : (0 <= z / base < base ^ Z.of_nat f)%Z).
    { rewrite Nat2Z.inj_succ, Z.pow_succ_r in Hz by lia. split; [apply Z.div_pos; lia|].
      apply Z.div_lt_upper_bound; lia. }
    assert (Hf' : 0 < f).
    { destruct f; [|lia]. change (base ^ Z.of_nat 0)%Z with 1%Z in Hq. lia. }
    destruct (IH (z / base)%Z (String (digit_char up (Z.to_N (z mod base))) acc) Hq Hf')
      as (ds & E1 & E2 & E3 & E4).
    exists (ds ++ [Z.to_N (z mod base)])%list. rewrite E1. rewrite map_app, nitems_text_app, app_assoc_s.
    cbn [map nitems_text nitem_char append].
    split; [reflexivity|]. split; [|split].
    + apply Forall_app. split; [exact E2|]. constructor; [lia|constructor].
    + destruct ds; discriminate.
    + intros a. rewrite digits_value_app, E4. cbn [digits_value]. rewrite Z2N.id by lia.
      rewrite app_length. cbn [List.length]. rewrite Nat2Z.inj_add. change (Z.of_nat 1) with 1%Z.
      rewrite Z.pow_add_r by lia. rewrite Z.pow_1_r.
      pose proof (Z.div_mod z base ltac:(lia)). lia.
Qed.

Lemma nitems_digits_map up ds : nitems_digits (map (NDig up) ds) = ds.
Proof. induction ds as [|d ds IH]; [reflexivity|]. cbn [map nitems_digits]. rewrite IH. reflexivity. Qed.

Lemma nitems_ok_map up radix ds : Forall (fun d => (d < radix)%N) ds ->
  forallb (nitem_ok radix) (map (NDig up) ds) = true.
Proof.
  induction 1 as [|d ds Hd _ IH]; [reflexivity|]. cbn [map forallb nitem_ok]. rewrite IH.
  replace (d <? radix)%N with true by lia. reflexivity.
Qed.

Lemma pow2_130 : (two127 < 2 ^ Z.of_nat 130)%Z.
Proof. vm_compute. reflexivity. Qed.

(* the marker, base and digit case the printer uses for a flags word *)
Definition fmt_mark (f : Z) : option rmark :=
  if (fl_base f =? 2)%Z then Some RBin
  else if (fl_base f =? 8)%Z then Some ROct
  else if (fl_base f =? 16)%Z then Some RHex else None.

Lemma fmt_int_marked f z m : fmt_mark f = Some m -> fl_prefix f = true ->
  fmt_int f z = "0" ++ rmark_text m ++
                digits (Z.of_N (rmark_radix m)) (match m with RHex => fl_upcase f | _ => false end) (z mod two128).
Proof.
  unfold fmt_mark, fmt_int. intros Hm Hp. rewrite Hp.
  destruct (fl_base f =? 2)%Z; [injection Hm as <-; reflexivity|].
  destruct (fl_base f =? 8)%Z; [injection Hm as <-; reflexivity|].
  destruct (fl_base f =? 16)%Z; [injection Hm as <-; reflexivity|discriminate].
Qed.

(* a non-negative integer printed in base 2, 8 or 16 (either case) with the prefix reads back:
   any lexer state, any continuation that starts with whitespace or is empty *)
Lemma print_read_int_radix_next : forall l f z rest,
  (fl_base f = 2 \/ fl_base f = 8 \/ fl_base f = 16)%Z -> fl_prefix f = true -> (0 <= z)%Z -> in_i128 z = true ->
  next_is_ws_or_end rest = true ->
  lrest l = fmt_int f z ++ rest ->
  let p' := lpos l + String.length (fmt_int f z) in
  lex_next l = (TLit (CInt z), mklex rest p' (lpos l) (llen l)).
Proof.
  intros l f z rest Hbase Hp Hz Hi Hr Hl p'. pose proof (in_i128_bounds z Hi) as Hb.
  assert (P128 : (two128 = 2 * two127)%Z) by (vm_compute; reflexivity).
  assert (Hmod : (z mod two128 = z)%Z) by (apply Z.mod_small; lia).
  pose proof pow2_130 as P2.
  assert (Hm : exists m, fmt_mark f = Some m).
  { unfold fmt_mark. destruct Hbase as [E|[E|E]]; rewrite E; eexists; reflexivity. }
  destruct Hm as [m Hm].
  set (base := Z.of_N (rmark_radix m)).
  set (up := match m with RHex => fl_upcase f | _ => false end).
  assert (Et : fmt_int f z = "0" ++ rmark_text m ++ digits base up z).
  { rewrite (fmt_int_marked f z m Hm Hp), Hmod. reflexivity. }
  assert (Hbr : (2 <= base <= 36)%Z) by (subst base; destruct m; cbn [rmark_radix]; lia).
  assert (Hpow : (2 ^ Z.of_nat 130 <= base ^ Z.of_nat 130)%Z).
  { apply Z.pow_le_mono_l. lia. }
  assert (Hzr : (0 <= z < base ^ Z.of_nat 130)%Z) by lia.
  destruct (digits_go_base base up Hbr 130 z "" Hzr ltac:(lia)) as (ds & E1 & E2 & E3 & E4).
  fold (digits base up z) in E1. rewrite app_nil_r_s in E1.
  set (items := map (NDig up) ds) in *.
  set (radix := rmark_radix m).
  assert (Er : Z.to_N base = radix) by (subst base radix; apply N2Z.id).
  assert (Hok : forallb (nitem_ok radix) items = true) by (apply nitems_ok_map; rewrite <- Er; exact E2).
  assert (Hl' : lrest l = sgn_text SNone ++ "0" ++ rmark_text m ++ nitems_text items ++ rest).
  { rewrite Hl, Et, E1. cbn [sgn_text append]. rewrite app_assoc_s. reflexivity. }
  pose proof (lex_next_int_marked l SNone m items rest Hok Hr Hl') as Hn.
  cbv zeta in Hn. fold radix in Hn.
  assert (Elen : String.length (fmt_int f z) = 2 + List.length items).
  { rewrite Et, E1. rewrite !app_length_s, nitems_text_length. destruct m; reflexivity. }
  assert (Etok : forall a b, int_tok SNone radix items a b = TLit (CInt z)).
  { intros a b. unfold int_tok. subst items. rewrite nitems_digits_map.
    destruct ds as [|d0 ds']; [congruence|]. cbv zeta. cbn [sgn_apply].
    assert (Ev : digits_value (Z.of_N radix) (d0 :: ds') 0 = z).
    { fold base. rewrite E4. lia. }
    rewrite Ev, Hi. reflexivity. }
  rewrite Hn, Etok. subst p'. rewrite Elen. cbn [sgn_text String.length].
  replace (lpos l + 0 + 2 + List.length items) with (lpos l + (2 + List.length items)) by lia. reflexivity.
Qed.

(* the whole-text form *)
Lemma print_read_int_radix : forall f z,
  (fl_base f = 2 \/ fl_base f = 8 \/ fl_base f = 16)%Z -> fl_prefix f = true -> (0 <= z)%Z -> in_i128 z = true ->
  let txt := fmt_int f z in
  lex_string txt = [(TLit (CInt z), 0, String.length txt); (TEnd, String.length txt, String.length txt)].
Proof.
  intros f z Hbase Hp Hz Hi txt.
  assert (Hl : lrest (lex_new txt) = fmt_int f z ++ "") by (cbn [lex_new lrest]; rewrite app_nil_r_s; reflexivity).
  pose proof (print_read_int_radix_next (lex_new txt) f z "" Hbase Hp Hz Hi eq_refl Hl) as Hn. cbv zeta in Hn.
  apply lex_string_one_literal.
  - intros E. subst txt. rewrite E in Hn. vm_compute in Hn. discriminate Hn.
  - rewrite Hn. reflexivity.
Qed.

(* the octal prefix reads (it did not before the lexer learned 0o) *)
Lemma print_octal_reads :
  fmt_int (fl_set_base fmt_default 8) 8 = "0o10" /\
  lex_string "0o10" = [(TLit (CInt 8), 0, 4); (TEnd, 4, 4)] /\
  lex_string "-0o1_7" = [(TLit (CInt (-15)), 0, 6); (TEnd, 6, 6)] /\
  lex_string "0O17" = [(TErr PInt 0 4, 0, 4)] /\
  lex_string "0o8" = [(TErr PInt 0 3, 0, 3)].
Proof. vm_compute. repeat split; reflexivity. Qed.

(* without the prefix a hexadecimal or binary text reads as a different number, or not at all *)
Lemma print_noprefix_refuted :
  let f := fl_set_bit (fl_set_base fmt_default 16) 8 false in
  fl_base f = 16%Z /\ fl_prefix f = false /\
  fmt_int f 16 = "10" /\ lex_string "10" = [(TLit (CInt 10), 0, 2); (TEnd, 2, 2)] /\
  fmt_int f 31 = "1f" /\ lex_string "1f" = [(TErr PInt 0 2, 0, 2)].
Proof. vm_compute. repeat split; reflexivity. Qed.
