(* Printing an integer in base 16 or 2 with the radix prefix and reading the text back; the
   printer's forms that do not read back (octal, no prefix). *)
From Xeh Require Import Model.Prelude Model.Bits Model.Cell Model.Lexer Model.Fmt.
From Xeh Require Import Proofs.LexLoc Proofs.LexBasic Proofs.LexNext Proofs.LexNum Proofs.LexAll Proofs.LexPrintInt
  Proofs.LexStr Proofs.LexMoreNum.
From Coq Require Import ZifyBool ZifyNat ZifyN.
Local Open Scope string_scope.

Lemma nitems_text_app a b : nitems_text (a ++ b) = nitems_text a ++ nitems_text b.
Proof. induction a as [|i a IH]; [reflexivity|]. cbn [app nitems_text append]. rewrite IH. reflexivity. Qed.

Lemma digits_value_app radix : forall a b acc,
  digits_value radix (a ++ b) acc = digits_value radix b (digits_value radix a acc).
Proof. induction a as [|d a IH]; intros b acc; [reflexivity|]. cbn [app digits_value]. apply IH. Qed.

(* the digits the printer produces, most significant first *)
Lemma digits_go_base base up : (2 <= base <= 36)%Z -> forall fuel z acc,
  (0 <= z < base ^ Z.of_nat fuel)%Z -> 0 < fuel ->
  exists ds, digits_go fuel base up z acc = nitems_text (map (NDig up) ds) ++ acc /\
             Forall (fun d => (d < Z.to_N base)%N) ds /\ ds <> [] /\
             (forall a, digits_value base ds a = (a * base ^ Z.of_nat (List.length ds) + z)%Z).
Proof.
  intros Hb. induction fuel as [|f IH]; intros z acc Hz Hf; [lia|].
  cbn [digits_go]. cbv zeta.
  assert (Hm : (0 <= z mod base < base)%Z) by (apply Z.mod_pos_bound; lia).
  destruct (z / base =? 0)%Z eqn:Eq.
  - exists [Z.to_N (z mod base)]. cbn [map nitems_text nitem_char append List.length digits_value].
    split; [reflexivity|]. split; [constructor; [lia|constructor]|]. split; [discriminate|].
    intros a. rewrite Z2N.id by lia. change (Z.of_nat 1) with 1%Z. rewrite Z.pow_1_r.
    pose proof (Z.div_mod z base ltac:(lia)). lia.
  - assert (Hq : (0 <= z / base < base ^ Z.of_nat f)%Z).
    { rewrite Nat2Z.inj_succ, Z.pow_succ_r in Hz by lia. split; [apply Z.div_pos; lia|].
      apply Z.div_lt_upper_bound; lia. }
    assert (Hf' : 0 < f).
    { destruct f; [|lia]. change (base ^ Z.of_nat 0)%Z with 1%Z in Hq. lia. }
    destruct (IH (z / base)%Z (String (digit_char up (Z.to_N (z mod base))) acc) Hq Hf')
      as (ds & E1 & E2 & E3 & E4).
    exists (ds ++ [Z.to_N (z mod base)])%list. rewrite E1. rewrite map_app, nitems_text_app, app_assoc_s.
    cbn [map nitems_text nitem_char append].
    split; [reflexivity|]. split; [|split].
    + apply Forall_app. split; [exact E2|]. constructor; [lia|constructor].
    + destruct ds; discriminate.
    + intros a. rewrite digits_value_app, E4. cbn [digits_value]. rewrite Z2N.id by lia.
      rewrite app_length. cbn [List.length]. rewrite Nat2Z.inj_add. change (Z.of_nat 1) with 1%Z.
      rewrite Z.pow_add_r by lia. rewrite Z.pow_1_r.
      pose proof (Z.div_mod z base ltac:(lia)). lia.
Qed.

Lemma nitems_digits_map up ds : nitems_digits (map (NDig up) ds) = ds.
Proof. induction ds as [|d ds IH]; [reflexivity|]. cbn [map nitems_digits]. rewrite IH. reflexivity. Qed.

Lemma nitems_ok_map up radix ds : Forall (fun d => (d < radix)%N) ds ->
  forallb (nitem_ok radix) (map (NDig up) ds) = true.
Proof.
  induction 1 as [|d ds Hd _ IH]; [reflexivity|]. cbn [map forallb nitem_ok]. rewrite IH.
  replace (d <? radix)%N with true by lia. reflexivity.
Qed.

Lemma pow2_130 : (two127 < 2 ^ Z.of_nat 130)%Z.
Proof. vm_compute. reflexivity. Qed.
Lemma pow16_130 : (two127 < 16 ^ Z.of_nat 130)%Z.
Proof. vm_compute. reflexivity. Qed.

(* a non-negative integer printed in base 16 (either case) or 2 with the prefix reads back *)
Lemma print_read_int_radix : forall f z,
  (fl_base f = 16 \/ fl_base f = 2)%Z -> fl_prefix f = true -> (0 <= z)%Z -> in_i128 z = true ->
  let txt := fmt_int f z in
  lex_string txt = [(TLit (CInt z), 0, String.length txt); (TEnd, String.length txt, String.length txt)].
Proof.
  intros f z Hbase Hp Hz Hi txt. pose proof (in_i128_bounds z Hi) as Hb.
  assert (P128 : (two128 = 2 * two127)%Z) by (vm_compute; reflexivity).
  assert (Hmod : (z mod two128 = z)%Z) by (apply Z.mod_small; lia).
  pose proof pow2_130. pose proof pow16_130.
  set (hex := (fl_base f =? 16)%Z).
  set (base := if hex then 16%Z else 2%Z).
  set (up := if hex then fl_upcase f else false).
  assert (Et : txt = "0" ++ (if hex then "x" else "b") ++ digits base up z).
  { subst txt hex base up. unfold fmt_int. rewrite Hp, Hmod. destruct Hbase as [E|E]; rewrite E; reflexivity. }
  assert (Hbr : (2 <= base <= 36)%Z) by (subst base; destruct hex; lia).
  assert (Hzr : (0 <= z < base ^ Z.of_nat 130)%Z) by (subst base; destruct hex; lia).
  destruct (digits_go_base base up Hbr 130 z "" Hzr ltac:(lia)) as (ds & E1 & E2 & E3 & E4).
  fold (digits base up z) in E1. rewrite app_nil_r_s in E1.
  set (items := map (NDig up) ds) in *.
  set (radix := if hex then 16%N else 2%N).
  assert (Er : Z.to_N base = radix) by (subst base radix; destruct hex; reflexivity).
  assert (Hok : forallb (nitem_ok radix) items = true) by (apply nitems_ok_map; rewrite <- Er; exact E2).
  assert (Hl : lrest (lex_new txt) = sgn_text SNone ++ "0" ++ (if hex then "x" else "b") ++ nitems_text items ++ "").
  { cbn [lex_new lrest sgn_text append]. rewrite app_nil_r_s, <- E1. exact Et. }
  pose proof (lex_next_int_marked (lex_new txt) SNone hex items "" Hok eq_refl Hl) as Hn.
  cbv zeta in Hn. fold radix in Hn.
  assert (Elen : String.length txt = 2 + List.length items).
  { rewrite Et, E1. rewrite !app_length_s, nitems_text_length. destruct hex; reflexivity. }
  assert (Etok : int_tok SNone radix items 0 (String.length txt) = TLit (CInt z)).
  { unfold int_tok. subst items. rewrite nitems_digits_map.
    destruct ds as [|d0 ds']; [congruence|]. cbv zeta. cbn [sgn_apply].
    assert (Ev : digits_value (Z.of_N radix) (d0 :: ds') 0 = z).
    { replace (Z.of_N radix) with base by (subst base radix; destruct hex; reflexivity). rewrite E4. lia. }
    rewrite Ev, Hi. reflexivity. }
  apply lex_string_one_literal.
  - rewrite Et. discriminate.
  - rewrite Hn.
    change (lpos (lex_new txt) + String.length (sgn_text SNone) + 2 + List.length items) with (2 + List.length items).
    rewrite <- Elen. change (lpos (lex_new txt)) with 0. change (llen (lex_new txt)) with (String.length txt).
    rewrite Etok. reflexivity.
Qed.

(* FINDINGS: printer forms that do not read back *)

(* base 8 prints the prefix 0o, which the lexer does not know *)
Lemma print_octal_refuted :
  exists z, in_i128 z = true /\ (0 <= z)%Z /\
    let txt := fmt_int (fl_set_base fmt_default 8) z in
    txt = "0o10" /\ lex_string txt = [(TErr PInt 0 4, 0, 4)].
Proof. exists 8%Z. vm_compute. repeat split; reflexivity || discriminate. Qed.

(* without the prefix a hexadecimal or binary text reads as a different number, or not at all *)
Lemma print_noprefix_refuted :
  let f := fl_set_bit (fl_set_base fmt_default 16) 8 false in
  fl_base f = 16%Z /\ fl_prefix f = false /\
  fmt_int f 16 = "10" /\ lex_string "10" = [(TLit (CInt 10), 0, 2); (TEnd, 2, 2)] /\
  fmt_int f 31 = "1f" /\ lex_string "1f" = [(TErr PInt 0 2, 0, 2)].
Proof. vm_compute. repeat split; reflexivity. Qed.
