(* Characterisation of the mirror-level building blocks (iter8, bytes_of, detach
   data, builders, trim_tail, append_bits_mut) in terms of [getbit]/[abs]. *)
From Xeh Require Import Model.Prelude Model.Bits Proofs.BitsBasic Proofs.BitsKernel Proofs.BitsLists.
From Coq Require Import ZifyBool ZifyNat ZifyN.
Local Ltac Zify.zify_post_hook ::= Z.div_mod_to_equations.

Lemma wf_mk s e d : s <= e -> e <= 8 * length d -> bytes_ok d -> wf (mkcbs s e d).
Proof. intros H1 H2 H3. unfold wf. cbn [cstart cend cdata]. auto. Qed.

Lemma wf_inv c : wf c ->
  cstart c <= cend c /\ cend c <= 8 * length (cdata c) /\ bytes_ok (cdata c).
Proof. intros H. exact H. Qed.

Lemma abs_mk s e d : abs (mkcbs s e d) = map (getbit d) (seq s (e - s)).
Proof. reflexivity. Qed.

Lemma abs_unfold c : abs c = map (getbit (cdata c)) (seq (cstart c) (cend c - cstart c)).
Proof. reflexivity. Qed.

(* ---------- bits ---------- *)

Lemma bit_at_getbit d pos : bytes_ok d -> bit_at d pos = b2n (getbit d pos).
Proof.
  intros Hd. unfold bit_at. rewrite getbit_tb.
  apply bitat_kernel; [apply nthb_lt; assumption|lia].
Qed.

Lemma bits_spec_aux c : wf c -> bits c = map b2n (abs c).
Proof.
  intros (H1 & H2 & H3). unfold bits, abs. rewrite map_map.
  apply map_ext. intros i. apply bit_at_getbit. assumption.
Qed.

(* ---------- cut_bits on a buffer ---------- *)

Lemma tb_seq_getbit d pos k : pos mod 8 + k <= 8 ->
  map (tb (nthb d (pos / 8))) (seq (pos mod 8) k) = map (getbit d) (seq pos k).
Proof.
  intros H. apply map_seq_ext. intros j Hj. rewrite getbit_tb.
  replace ((pos + j) / 8) with (pos / 8) by lia.
  replace ((pos + j) mod 8) with (pos mod 8 + j) by lia. reflexivity.
Qed.

Lemma cut_bits_buf d pos e : bytes_ok d ->
  cut_bits (nthb d (pos / 8)) pos e =
  (bits_to_N (map (getbit d) (seq pos (Nat.min (e - pos) (8 - pos mod 8)))),
   Nat.min (e - pos) (8 - pos mod 8)).
Proof.
  intros Hd. rewrite cut_bits_spec by (apply nthb_lt; assumption).
  rewrite tb_seq_getbit by lia. reflexivity.
Qed.

(* ---------- iter8 ---------- *)

Definition step_val (d : list N) (e pos : nat) : N :=
  let len := Nat.min (e - pos) 8 in
  let idx := pos / 8 in
  let '(v, n) := cut_bits (nthb d idx) pos (pos + len) in
  if n <? len
  then let '(v2, n2) := cut_bits (nthb d (idx + 1)) (pos + n) (pos + len) in
       N.lor (N.shiftl v (N.of_nat n2)) v2
  else v.

Lemma iter8_go_S d e f pos :
  iter8_go d e (S f) pos =
  if e <=? pos then []
  else (step_val d e pos, Nat.min (e - pos) 8) :: iter8_go d e f (pos + Nat.min (e - pos) 8).
Proof. reflexivity. Qed.

Lemma step_val_spec d e pos : bytes_ok d -> pos < e ->
  step_val d e pos = bits_to_N (map (getbit d) (seq pos (Nat.min (e - pos) 8))).
Proof.
  intros Hd Hlt. unfold step_val. cbv zeta.
  set (len := Nat.min (e - pos) 8).
  rewrite cut_bits_buf by assumption. cbv beta iota.
  set (n := Nat.min (pos + len - pos) (8 - pos mod 8)).
  destruct (n <? len) eqn:E.
  - assert (Hn : n = 8 - pos mod 8) by lia.
    replace (pos / 8 + 1) with ((pos + n) / 8) by lia.
    rewrite cut_bits_buf by assumption. cbv beta iota.
    set (n2 := Nat.min (pos + len - (pos + n)) (8 - (pos + n) mod 8)).
    assert (Hn2 : len = n + n2) by lia.
    rewrite lor_shiftl_add.
    + rewrite Hn2, seq_app, map_app, bits_to_N_app.
      rewrite map_length, seq_length. reflexivity.
    + pose proof (bits_to_N_lt (map (getbit d) (seq (pos + n) n2))) as Hb.
      rewrite map_length, seq_length in Hb. exact Hb.
  - replace n with len by lia. reflexivity.
Qed.

Lemma iter8_go_spec d e : bytes_ok d -> forall fuel pos,
  e - pos <= fuel ->
  iter8_go d e fuel pos = map grp (chunks8 fuel (map (getbit d) (seq pos (e - pos)))).
Proof.
  intros Hd. induction fuel as [|fuel IH]; intros pos Hf.
  - reflexivity.
  - rewrite iter8_go_S. destruct (e <=? pos) eqn:E.
    + replace (e - pos) with 0 by lia. reflexivity.
    + assert (Hne : map (getbit d) (seq pos (e - pos)) <> []).
      { destruct (e - pos) eqn:E2; [lia|]. cbn [seq map]. discriminate. }
      rewrite chunks8_cons by assumption. cbn [map]. f_equal.
      * unfold grp. rewrite step_val_spec by (assumption || lia).
        rewrite firstn_map_seq. rewrite (Nat.min_comm 8).
        rewrite map_length, seq_length. reflexivity.
      * rewrite IH by lia. rewrite skipn_map_seq. f_equal. f_equal.
        destruct (le_lt_dec (e - pos) 8) as [Hs|Hs].
        -- replace (e - pos - 8) with 0 by lia.
           replace (e - (pos + Nat.min (e - pos) 8)) with 0 by lia. reflexivity.
        -- replace (Nat.min (e - pos) 8) with 8 by lia. f_equal. f_equal. lia.
Qed.

Lemma iter8_abs c : wf c -> iter8 c = map grp (chunk8 (abs c)).
Proof.
  intros (H1 & H2 & H3). unfold iter8, chunk8. rewrite abs_length.
  rewrite iter8_go_spec by (assumption || (unfold clen; lia)).
  reflexivity.
Qed.

(* ---------- aligned byte ranges ---------- *)

Lemma byte_at d a : bytes_ok d ->
  bits_to_N (map (getbit d) (seq (8 * a) 8)) = nthb d a.
Proof.
  intros Hd. rewrite <- (byte_bits (nthb d a)) at 1 by (apply nthb_lt; assumption).
  f_equal. apply map_seq_ext. intros j Hj. rewrite getbit_tb.
  replace ((8 * a + j) / 8) with a by lia.
  replace ((8 * a + j) mod 8) with j by lia. reflexivity.
Qed.

Lemma bytes_chunks d : bytes_ok d -> forall n a fuel,
  a + n <= length d -> n <= fuel ->
  map bits_to_N (chunks8 fuel (map (getbit d) (seq (8 * a) (8 * n))))
  = firstn n (skipn a d).
Proof.
  intros Hd. induction n as [|n IH]; intros a fuel Ha Hf.
  - replace (8 * 0) with 0 by lia. cbn [seq map]. rewrite chunks8_nil. reflexivity.
  - destruct fuel as [|fuel]; [lia|].
    rewrite chunks8_cons.
    + rewrite firstn_map_seq, skipn_map_seq.
      replace (Nat.min 8 (8 * S n)) with 8 by lia.
      rewrite (firstn_skipn_S 0%N) by lia. cbn [map]. f_equal.
      * apply byte_at. assumption.
      * replace (8 * a + 8) with (8 * S a) by lia.
        replace (8 * S n - 8) with (8 * n) by lia.
        apply IH; lia.
    + replace (8 * S n) with (S (8 * n + 7)) by lia. cbn [seq map]. discriminate.
Qed.

Lemma bytes_chunks' d s len fuel : bytes_ok d ->
  s mod 8 = 0 -> len mod 8 = 0 -> s / 8 + len / 8 <= length d -> len / 8 <= fuel ->
  map bits_to_N (chunks8 fuel (map (getbit d) (seq s len)))
  = firstn (len / 8) (skipn (s / 8) d).
Proof.
  intros Hd Hs Hl Hb Hf.
  pose proof (bytes_chunks d Hd (len / 8) (s / 8) fuel Hb Hf) as H.
  replace (8 * (s / 8)) with s in H by lia.
  replace (8 * (len / 8)) with len in H by lia. exact H.
Qed.

Lemma slice_inv c : is_u8_slice c = true -> cstart c mod 8 = 0 /\ clen c mod 8 = 0.
Proof.
  unfold is_u8_slice, is_bytestr. intros H. apply andb_prop in H.
  destruct H as [H1 H2]. apply Nat.eqb_eq in H1, H2. auto.
Qed.

Lemma bytes_of_spec c : wf c -> is_u8_slice c = true ->
  bytes_of c = map bits_to_N (chunk8 (abs c)).
Proof.
  intros (H1 & H2 & H3) Hs. apply slice_inv in Hs. destruct Hs as [Hs1 Hs2].
  unfold clen in Hs2. unfold bytes_of, chunk8. rewrite abs_length. unfold clen.
  rewrite abs_unfold.
  assert (Hu : ubi (cend c) = cend c / 8).
  { destruct (ubi_spec (cend c)) as [(? & _ & ->)|(? & _ & _)]; lia. }
  rewrite Hu.
  replace (cend c / 8 - cstart c / 8) with ((cend c - cstart c) / 8) by lia.
  symmetry. apply bytes_chunks'; [assumption|lia|lia|lia|lia].
Qed.

Lemma bytes_of_length c : wf c -> is_u8_slice c = true ->
  8 * length (bytes_of c) = clen c.
Proof.
  intros (H1 & H2 & H3) Hs. apply slice_inv in Hs. destruct Hs as [Hs1 Hs2].
  unfold clen in *. unfold bytes_of.
  assert (Hu : ubi (cend c) = cend c / 8).
  { destruct (ubi_spec (cend c)) as [(? & _ & ->)|(? & _ & _)]; lia. }
  rewrite Hu. rewrite firstn_length_le.
  - lia.
  - rewrite skipn_length. lia.
Qed.

Lemma getbit_bytes_of c i : wf c -> is_u8_slice c = true -> i < clen c ->
  getbit (bytes_of c) i = getbit (cdata c) (cstart c + i).
Proof.
  intros (H1 & H2 & H3) Hs Hi. apply slice_inv in Hs. destruct Hs as [Hs1 Hs2].
  unfold clen in *. unfold bytes_of.
  assert (Hu : ubi (cend c) = cend c / 8).
  { destruct (ubi_spec (cend c)) as [(? & _ & ->)|(? & _ & _)]; lia. }
  rewrite Hu. rewrite getbit_firstn.
  replace (i <? 8 * (cend c / 8 - cstart c / 8)) with true by lia.
  rewrite getbit_skipn. f_equal. lia.
Qed.

Lemma bytes_ok_bytes_of c : bytes_ok (cdata c) -> bytes_ok (bytes_of c).
Proof. intros H. unfold bytes_of. apply bytes_ok_firstn, bytes_ok_skipn, H. Qed.

(* ---------- detach ---------- *)

Lemma getbit_pack_chunks : forall fuel l i, length l <= fuel ->
  getbit (map pack (chunks8 fuel l)) i = nth i l false.
Proof.
  induction fuel as [|fuel IH]; intros l i Hl.
  - destruct l; [|cbn [length] in Hl; lia]. cbn [chunks8 map].
    rewrite getbit_nil. destruct i; reflexivity.
  - destruct l as [|x l].
    + cbn [chunks8 map]. rewrite getbit_nil. destruct i; reflexivity.
    + rewrite chunks8_cons by discriminate. cbn [map]. rewrite getbit_cons.
      destruct (i <? 8) eqn:E.
      * rewrite pack_kernel by (try apply firstn_le_length; lia).
        rewrite nth_firstn'. rewrite E. reflexivity.
      * rewrite IH.
        -- rewrite nth_skipn'. f_equal. lia.
        -- rewrite skipn_length. cbn [length] in *. lia.
Qed.

Lemma detach_data c : wf c ->
  map (fun '(v, n) => N.land (N.shiftl v (N.of_nat (8 - n))) 255) (iter8 c)
  = map pack (chunk8 (abs c)).
Proof.
  intros H. rewrite iter8_abs by assumption. rewrite map_map.
  apply map_ext. intros g. reflexivity.
Qed.

(* ---------- BitvecBuilder ---------- *)

Definition binv (b : bvb) (l : list bool) : Prop :=
  blen b = length l /\ length (bdata b) = ubi (length l) /\ bytes_ok (bdata b) /\
  forall i, getbit (bdata b) i = nth i l false.

Lemma binv_empty : binv bvb_empty [].
Proof.
  unfold binv, bvb_empty. cbn [blen bdata length]. repeat split.
  - constructor.
  - intros i. rewrite getbit_nil. destruct i; reflexivity.
Qed.

Lemma append_bit_inv b l x : binv b l -> binv (append_bit b (b2n x)) (l ++ [x]).
Proof.
  intros (H1 & H2 & H3 & H4). unfold append_bit. rewrite H1.
  destruct (ubi_spec (length l)) as [(U1 & _ & U2)|(U1 & _ & U2)]; rewrite U2 in H2.
  - replace (length (bdata b) =? length l / 8) with true by lia.
    unfold binv. cbn [blen bdata]. rewrite !app_length. cbn [length]. repeat split.
    + lia.
    + destruct (ubi_spec (length l + 1)) as [(V1 & _ & ->)|(V1 & _ & ->)]; lia.
    + apply bytes_ok_app; [assumption|]. constructor; [apply land_255_lt|constructor].
    + intros i. rewrite getbit_app.
      destruct (i <? 8 * length (bdata b)) eqn:E.
      * rewrite app_nth1 by lia. apply H4.
      * rewrite app_nth2 by lia. rewrite getbit_cons.
        replace (8 * length (bdata b)) with (length l) by lia.
        destruct (i - length l <? 8) eqn:E2.
        -- rewrite push_kernel by lia.
           destruct (i - length l) as [|k]; cbn [nth Nat.eqb].
           ++ apply andb_true_r.
           ++ rewrite andb_false_r. destruct k; reflexivity.
        -- rewrite getbit_nil. destruct (i - length l) as [|k]; [lia|].
           cbn [nth]. destruct k; reflexivity.
  - replace (length (bdata b) =? length l / 8) with false by lia.
    unfold binv. cbn [blen bdata]. rewrite !app_length. cbn [length]. repeat split.
    + lia.
    + rewrite upd_length.
      destruct (ubi_spec (length l + 1)) as [(V1 & _ & ->)|(V1 & _ & ->)]; lia.
    + apply bytes_ok_or1; [assumption|lia].
    + intros i. rewrite getbit_or1 by (assumption || lia). rewrite H4.
      destruct (lt_eq_lt_dec i (length l)) as [[Hi|Hi]|Hi].
      * rewrite app_nth1 by lia. replace (i =? length l) with false by lia.
        rewrite andb_false_r, orb_false_r. reflexivity.
      * subst i. rewrite Nat.eqb_refl, andb_true_r.
        rewrite nth_overflow by lia. rewrite app_nth2 by lia.
        rewrite Nat.sub_diag. reflexivity.
      * replace (i =? length l) with false by lia.
        rewrite andb_false_r, orb_false_r.
        rewrite !nth_overflow; [reflexivity| |lia].
        rewrite app_length. cbn [length]. lia.
Qed.

Lemma fold_append_inv : forall bs b l, binv b l ->
  binv (fold_left append_bit (map b2n bs) b) (l ++ bs).
Proof.
  induction bs as [|x bs IH]; intros b l H; cbn [map fold_left].
  - rewrite app_nil_r. exact H.
  - replace (l ++ x :: bs) with ((l ++ [x]) ++ bs) by (rewrite <- app_assoc; reflexivity).
    apply IH. apply append_bit_inv. exact H.
Qed.

(* ---------- from_hex ---------- *)

Definition hinv (n : nat) (buf : list N) (l : list bool) : Prop :=
  n = length l /\ n mod 4 = 0 /\ length buf = ubi n /\ bytes_ok buf /\
  forall i, getbit buf i = nth i l false.

Lemma nibble_bits_length v : length (nibble_bits v) = 4.
Proof. reflexivity. Qed.

Lemma hex_step_inv n buf l v : (v < 16)%N -> hinv n buf l ->
  hinv (n + 4)
       (if length buf =? n / 8 then buf ++ [N.land (N.shiftl v 4) 255]
        else upd buf (n / 8) (fun y => N.lor y v))
       (l ++ nibble_bits v).
Proof.
  intros Hv (H1 & H2 & H3 & H4 & H5).
  destruct (ubi_spec n) as [(U1 & _ & U2)|(U1 & _ & U2)]; rewrite U2 in H3.
  - replace (length buf =? n / 8) with true by lia.
    unfold hinv. rewrite !app_length, nibble_bits_length. repeat split.
    + lia.
    + lia.
    + cbn [length]. destruct (ubi_spec (n + 4)) as [(V1 & _ & ->)|(V1 & _ & ->)]; lia.
    + apply bytes_ok_app; [assumption|]. constructor; [apply land_255_lt|constructor].
    + intros i. rewrite getbit_app.
      destruct (i <? 8 * length buf) eqn:E.
      * rewrite app_nth1 by lia. apply H5.
      * rewrite app_nth2 by lia. rewrite getbit_cons.
        replace (8 * length buf) with (length l) by lia.
        destruct (i - length l <? 8) eqn:E2.
        -- rewrite hexhi_kernel by (assumption || lia).
           destruct (i - length l <? 4) eqn:E3; [reflexivity|].
           rewrite nth_overflow by (rewrite nibble_bits_length; lia). reflexivity.
        -- rewrite getbit_nil.
           rewrite nth_overflow by (rewrite nibble_bits_length; lia). reflexivity.
  - replace (length buf =? n / 8) with false by lia.
    assert (Hm : n mod 8 = 4) by lia.
    unfold hinv. rewrite !app_length, nibble_bits_length. repeat split.
    + lia.
    + lia.
    + rewrite upd_length.
      destruct (ubi_spec (n + 4)) as [(V1 & _ & ->)|(V1 & _ & ->)]; lia.
    + apply bytes_ok_upd; [assumption|]. intros y Hy. apply (hexlo_kernel y v Hy Hv).
    + intros i. rewrite getbit_upd by lia.
      destruct (hexlo_kernel (nthb buf (n / 8)) v (nthb_lt _ _ H4) Hv) as [_ Hk].
      destruct (i / 8 =? n / 8) eqn:E.
      * rewrite Hk by lia.
        replace (tb (nthb buf (n / 8)) (i mod 8)) with (getbit buf i)
          by (rewrite getbit_tb; f_equal; f_equal; lia).
        rewrite H5.
        destruct (i <? n) eqn:E2.
        -- replace (4 <=? i mod 8) with false by lia.
           rewrite andb_false_l, orb_false_r. rewrite app_nth1 by lia. reflexivity.
        -- replace (4 <=? i mod 8) with true by lia.
           rewrite nth_overflow by lia. rewrite app_nth2 by lia.
           cbn [orb andb]. f_equal. lia.
      * rewrite H5. destruct (i <? n) eqn:E2.
        -- rewrite app_nth1 by lia. reflexivity.
        -- rewrite !nth_overflow; [reflexivity| |lia].
           rewrite app_length, nibble_bits_length. lia.
Qed.

Lemma from_hex_go_inv : forall ds n buf l,
  Forall (fun d => (d < 16)%N) ds -> hinv n buf l ->
  hinv (fst (from_hex_go ds n buf)) (snd (from_hex_go ds n buf))
       (l ++ flat_map nibble_bits ds).
Proof.
  induction ds as [|v ds IH]; intros n buf l Hds H; cbn [from_hex_go flat_map].
  - rewrite app_nil_r. exact H.
  - inversion Hds as [|? ? Hv Hds']; subst.
    rewrite app_assoc. apply IH; [assumption|].
    apply hex_step_inv; assumption.
Qed.

(* ---------- trim_tail ---------- *)

Lemma trim_tail_spec c : wf c ->
  length (trim_tail c) = ubi (cend c) /\ bytes_ok (trim_tail c) /\
  forall i, getbit (trim_tail c) i = if i <? cend c then getbit (cdata c) i else false.
Proof.
  intros (H1 & H2 & H3). unfold trim_tail. cbv zeta.
  destruct (ubi_spec (cend c)) as [(U1 & U0 & U2)|(U1 & U0 & U2)]; rewrite U0, U2.
  - repeat split.
    + apply firstn_length_le. lia.
    + apply bytes_ok_firstn. assumption.
    + intros i. rewrite getbit_firstn.
      replace (i <? 8 * (cend c / 8)) with (i <? cend c) by lia. reflexivity.
  - replace (cend c / 8 + 1 - 1) with (cend c / 8) by lia.
    assert (Hlen : length (firstn (cend c / 8 + 1) (cdata c)) = cend c / 8 + 1).
    { apply firstn_length_le. lia. }
    repeat split.
    + rewrite upd_length. exact Hlen.
    + apply bytes_ok_upd; [apply bytes_ok_firstn; assumption|].
      intros y Hy. apply (trim_kernel y (cend c mod 8) Hy). lia.
    + intros i. rewrite getbit_upd by lia.
      set (d0 := firstn (cend c / 8 + 1) (cdata c)).
      assert (Hd0 : bytes_ok d0) by (apply bytes_ok_firstn; assumption).
      destruct (trim_kernel (nthb d0 (cend c / 8)) (cend c mod 8)
                  (nthb_lt _ _ Hd0) ltac:(lia)) as [_ Hk].
      destruct (i / 8 =? cend c / 8) eqn:E.
      * rewrite Hk by lia.
        replace (tb (nthb d0 (cend c / 8)) (i mod 8)) with (getbit d0 i)
          by (rewrite getbit_tb; f_equal; f_equal; lia).
        unfold d0. rewrite getbit_firstn.
        replace (i <? 8 * (cend c / 8 + 1)) with true by lia.
        destruct (i <? cend c) eqn:E2.
        -- replace (i mod 8 <? cend c mod 8) with true by lia. apply andb_true_r.
        -- replace (i mod 8 <? cend c mod 8) with false by lia. apply andb_false_r.
      * unfold d0. rewrite getbit_firstn.
        destruct (i <? cend c) eqn:E2.
        -- replace (i <? 8 * (cend c / 8 + 1)) with true by lia. reflexivity.
        -- replace (i <? 8 * (cend c / 8 + 1)) with false by lia. reflexivity.
Qed.

(* ---------- append_bits_mut ---------- *)

Lemma append_bits_mut_spec c t : wf c -> wf t ->
  wf (append_bits_mut c t) /\ abs (append_bits_mut c t) = abs c ++ abs t.
Proof.
  intros Hc Ht.
  destruct (trim_tail_spec c Hc) as (T1 & T2 & T3).
  pose proof Hc as (C1 & C2 & C3). pose proof Ht as (D1 & D2 & D3).
  unfold append_bits_mut. cbv zeta.
  destruct (is_u8_slice c && is_u8_slice t) eqn:E.
  - apply andb_prop in E. destruct E as [Ec Et].
    pose proof (slice_inv c Ec) as [Sc1 Sc2]. unfold clen in Sc2.
    assert (Hu : ubi (cend c) = cend c / 8).
    { destruct (ubi_spec (cend c)) as [(? & _ & ->)|(? & _ & _)]; lia. }
    rewrite Hu in T1.
    pose proof (bytes_of_length t Ht Et) as Hbl.
    split.
    + apply wf_mk.
      * lia.
      * rewrite app_length. lia.
      * apply bytes_ok_app; [assumption|]. apply bytes_ok_bytes_of. assumption.
    + rewrite abs_mk.
      replace (cend c + clen t - cstart c) with ((cend c - cstart c) + clen t) by lia.
      rewrite seq_app, map_app. f_equal.
      * rewrite (abs_unfold c). apply map_ext_in. intros i Hi. apply in_seq in Hi.
        rewrite getbit_app. replace (i <? 8 * length (trim_tail c)) with true by lia.
        rewrite T3. replace (i <? cend c) with true by lia. reflexivity.
      * replace (cstart c + (cend c - cstart c)) with (cend c) by lia.
        rewrite (abs_unfold t). fold (clen t).
        apply map_seq_ext. intros j Hj. rewrite getbit_app.
        replace (cend c + j <? 8 * length (trim_tail c)) with false by lia.
        replace (cend c + j - 8 * length (trim_tail c)) with j by lia.
        apply getbit_bytes_of; assumption.
  - set (L := ubi (cend c + clen t)).
    set (d1 := resize (trim_tail c) L).
    assert (Hd1 : bytes_ok d1) by (apply bytes_ok_resize; assumption).
    assert (Hl1 : length d1 = L) by apply resize_length.
    pose proof (ubi_ge (cend c + clen t)) as HL. fold L in HL.
    rewrite (bits_spec_aux t) by assumption.
    split.
    + apply wf_mk.
      * lia.
      * rewrite or_bits_length. lia.
      * apply bytes_ok_or_bits. assumption.
    + rewrite abs_mk.
      replace (cend c + clen t - cstart c) with ((cend c - cstart c) + clen t) by lia.
      rewrite seq_app, map_app. f_equal.
      * rewrite (abs_unfold c). apply map_ext_in. intros i Hi. apply in_seq in Hi.
        rewrite getbit_or_bits by (assumption || (rewrite abs_length; lia)).
        replace ((cend c <=? i) && (i <? cend c + length (abs t))) with false by lia.
        unfold d1. rewrite getbit_resize. replace (i <? 8 * L) with true by lia.
        rewrite T3. replace (i <? cend c) with true by lia. reflexivity.
      * replace (cstart c + (cend c - cstart c)) with (cend c) by lia.
        rewrite <- (map_nth_seq false (abs t) (cend c)) at 2.
        rewrite abs_length. apply map_ext_in. intros i Hi. apply in_seq in Hi.
        rewrite getbit_or_bits by (assumption || (rewrite abs_length; lia)).
        rewrite abs_length.
        replace ((cend c <=? i) && (i <? cend c + clen t)) with true by lia.
        unfold d1. rewrite getbit_resize. replace (i <? 8 * L) with true by lia.
        rewrite T3. replace (i <? cend c) with false by lia. reflexivity.
Qed.
