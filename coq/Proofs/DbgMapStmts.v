(* DbgMapStmts.v (C17): the alignment and run-time-error lemmas in the form in which
   Props/C17.v states them. *)
From Xeh Require Import Model.Prelude Model.Bits Model.Codec Model.Cell Model.Lexer Model.Fmt
                        Model.Vm Model.Words Model.Build Model.Boot.
From Xeh Require Import Proofs.VmFrame Proofs.VmLimits Proofs.DbgMapVm Proofs.DbgMapGen
                        Proofs.DbgMapAlign Proofs.DbgMapRun.

(* backpatching replaces an instruction and nothing else *)
Lemma backpatch_keeps : forall pos op s,
  match backpatch pos op s with
  | ROk _ s' => dbg s' = dbg s /\ code s' = list_set (code s) pos op /\
                length (code s') = length (code s) /\ sources s' = sources s /\ last_tok s' = last_tok s
  | RErr _ _ _ => False
  | _ => True
  end.
Proof.
  intros pos op s. unfold backpatch. destruct (pos <? length (code s))%nat; [|exact I].
  cbn [set_code code dbg sources last_tok]. rewrite list_set_length. repeat split.
Qed.

Lemma backpatch_jump_keeps : forall pos offs s,
  res_all (fun s' => dbg s' = dbg s /\ length (code s') = length (code s) /\
                     sources s' = sources s /\ last_tok s' = last_tok s)
          (backpatch_jump pos offs s).
Proof.
  intros pos offs s. unfold backpatch_jump.
  destruct (nth_error (code s) pos) as [op|]; [|cbn [res_all]; repeat split].
  destruct op; try exact I;
    match goal with |- res_all _ (backpatch ?p ?o s) =>
      pose proof (backpatch_keeps p o s) as H; destruct (backpatch p o s); cbn [res_all]; try exact I;
      [destruct H as (A & _ & B & C & D); auto|contradiction]
    end.
Qed.

Section S.
  Variable fo : fops.
  Variable pr : string -> option Z.
  Variable rf : nat.

  Lemma al_immediate_fn_res : forall fuel name w, immediate_fn fo pr rf fuel name = Some w ->
    forall s, al s -> res_all al (w s).
  Proof.
    intros fuel name w H s Hs. pose proof (al_immediate_fn fo pr rf fuel name w H s Hs) as X.
    destruct (w s); exact X.
  Qed.

  Lemma al_build_word_res : forall fuel name s, al s -> res_all al (build_word fo pr rf fuel name s).
  Proof.
    intros fuel name s Hs. pose proof (al_build_word fo pr rf fuel name s Hs) as X.
    destruct (build_word fo pr rf fuel name s); exact X.
  Qed.

  Lemma al_build1_res : forall fuel depth s, al s -> res_all al (build1 fo pr rf fuel depth s).
  Proof.
    intros fuel depth s Hs. pose proof (al_build1 fo pr rf fuel depth s Hs) as X.
    destruct (build1 fo pr rf fuel depth s); exact X.
  Qed.

  Lemma al_contexts_res : forall s, al s ->
    (forall m, res_all al (context_open m s)) /\
    res_all al (context_close fo rf s) /\
    (forall src, res_all al (intern_source src s)) /\
    (forall depth inputs dsl heapl, al (build_unwind depth inputs dsl heapl s)).
  Proof.
    intros s Hs. split; [intros m; exact Hs|]. split.
    - pose proof (al_close fo rf s Hs) as X. destruct (context_close fo rf s); exact X.
    - split; [intros src; exact Hs|]. intros. apply al_build_unwind. exact Hs.
  Qed.

  Lemma al_eval_compile_res : forall fuel src s, al s ->
    res_all al (eval fo pr rf fuel src s) /\ res_all al (compile fo pr rf fuel src s).
  Proof. intros fuel src s Hs. split; [apply al_eval|apply al_compile]; exact Hs. Qed.
End S.

Lemma al_machine_res : forall fo s, al s ->
  res_all al (fetch_and_run (native_fn fo) s) /\
  res_all al (next (native_fn fo) s) /\
  (forall fuel, match run (native_fn fo) fuel s with Some r => res_all al r | None => True end) /\
  res_all al (rnext s).
Proof.
  intros fo s Hs. split; [apply al_far; exact Hs|]. split; [apply al_next; exact Hs|].
  split; [intros fuel; apply al_run; exact Hs|apply al_rnext; exact Hs].
Qed.

(* the machine never touches the debug map or the sources, and keeps the length of the code
   (its only write to the code is the in-place patch of a Resolve cell) *)
Definition keeps_map (s s' : state) : Prop :=
  dbg s' = dbg s /\ sources s' = sources s /\ length (code s') = length (code s) /\
  last_tok s' = last_tok s.

Lemma vmrel_keeps_map s s' : vmrel s s' -> keeps_map s s'.
Proof. intros H. destruct (vmrel_keeps _ _ H) as (A1 & A2 & A3 & A4 & A5 & _). repeat split; assumption. Qed.

Lemma machine_keeps_map : forall fo s,
  res_all (keeps_map s) (fetch_and_run (native_fn fo) s) /\
  res_all (keeps_map s) (next (native_fn fo) s) /\
  (forall fuel, match run (native_fn fo) fuel s with Some r => res_all (keeps_map s) r | None => True end) /\
  res_all (keeps_map s) (rnext s).
Proof.
  intros fo s. split; [|split; [|split]].
  - eapply res_all_vm; [|apply far_vmrel, native_wl]. apply vmrel_keeps_map.
  - eapply res_all_vm; [|apply next_vmrel, native_wl]. apply vmrel_keeps_map.
  - intros fuel. pose proof (run_vmrel (native_fn fo) (native_wl fo) fuel s) as H.
    destruct (run (native_fn fo) fuel s); [|exact I].
    eapply res_all_vm; [|exact H]. apply vmrel_keeps_map.
  - pose proof (rnext_frm s) as H.
    destruct (rnext s); cbn [res_all] in *; auto; apply vmrel_keeps_map, vmrel_frm; exact H.
Qed.
