(* UnwindWf.v (C10): the state hypotheses of the restoration theorem hold in every state an
   embedding program can reach through the API, except for the absence of unresolved [late]
   stubs: the debug map is exactly as long as the code ([ce_inv], the equality version of
   [cd_inv] of NoPanicBuild.v, same proof structure) and no input is pending. *)
From Xeh Require Import Model.Prelude Model.Bits Model.Codec Model.Cell Model.Lexer Model.Fmt
                        Model.Vm Model.Words Model.Build.
From Xeh Require Import Proofs.VmFrame Proofs.VmLimits Proofs.NoPanic Proofs.NoPanicBuild.
Local Notation length := List.length.

#[local] Arguments Z.add : simpl never.
#[local] Arguments Z.sub : simpl never.
#[local] Arguments Z.mul : simpl never.
#[local] Arguments Z.ltb : simpl never.
#[local] Arguments Z.leb : simpl never.
#[local] Arguments Z.eqb : simpl never.
#[local] Arguments Z.of_nat : simpl never.
#[local] Arguments Z.to_nat : simpl never.

Create HintDb cepdb.

Definition ce_inv (s : state) : Prop := length (code s) = length (dbg s).

Lemma code_emit_ce : forall op s, ce_inv s -> res_all ce_inv (code_emit op s).
Proof.
  intros op s H. unfold ce_inv in *. unfold code_emit. cbv zeta.
  destruct (length (code s) <? length (dbg s))%nat eqn:E1.
  - cbn [res_all]. unfold ce_inv. cbn [set_code set_dbg code dbg].
    rewrite app_length, list_set_length. cbn [length]. apply Nat.ltb_lt in E1. lia.
  - destruct (length (code s) =? length (dbg s))%nat eqn:E2; [|exact I].
    cbn [res_all]. unfold ce_inv. cbn [set_code set_dbg code dbg].
    rewrite !app_length. cbn [length]. apply Nat.eqb_eq in E2. lia.
Qed.

(* ---------- the truncations ---------- *)
Lemma trunc_ce : forall s n, ce_inv s ->
  ce_inv (set_dbg (set_code s (firstn n (code s))) (firstn n (dbg s))).
Proof.
  intros s n H. unfold ce_inv in *. cbn [set_code set_dbg code dbg].
  rewrite !firstn_length. lia.
Qed.

Lemma ce_inv_eq : forall s s', code s' = code s -> dbg s' = dbg s -> ce_inv s -> ce_inv s'.
Proof. unfold ce_inv. intros s s' -> ->. auto. Qed.

(* ---------- programs built from the logging primitives keep code and debug map ---------- *)
Lemma wl_ce : forall A (m : M A), wl m -> forall s, ce_inv s -> res_all ce_inv (m s).
Proof.
  intros A m Hw s Hs. pose proof (wl_lim A m Hw s) as H1. pose proof (wl_dbg A m Hw s) as H2.
  destruct (m s); cbn [res_all] in *; auto.
  - destruct H1 as (_ & _ & _ & _ & _ & Hc & _). eapply ce_inv_eq; eauto.
  - destruct H1 as (_ & _ & _ & _ & _ & Hc & _). eapply ce_inv_eq; eauto.
Qed.

(* ---------- running code ---------- *)
Section WithTable.
  Variable nf : natives.
  Hypothesis Hnf : forall w f, nf w = Some f -> wl f.

  Lemma far_ce : forall s, ce_inv s -> res_all ce_inv (fetch_and_run nf s).
  Proof.
    intros s Hs. pose proof (far_spec_holds nf s) as FS.
    assert (X : forall i o s1, ce_inv s1 -> res_all ce_inv (exec_op nf i o s1)).
    { intros i o s1 H1. apply wl_ce; [apply wl_exec_op; exact Hnf|exact H1]. }
    inversion FS; cbn [res_all]; try exact I; try exact Hs.
    - apply X. exact Hs.
    - unfold ce_inv in *. cbn [set_code set_meter code dbg]. rewrite list_set_length. exact Hs.
    - apply X. unfold ce_inv in *. cbn [set_code set_meter code dbg]. rewrite list_set_length. exact Hs.
  Qed.

  Lemma run_ce : forall fuel s, ce_inv s ->
    match run nf fuel s with Some r => res_all ce_inv r | None => True end.
  Proof.
    induction fuel as [|f IH]; intros s Hs; cbn [run]; [exact I|].
    destruct (is_running s); [|exact Hs].
    pose proof (far_ce s Hs) as H.
    destruct (fetch_and_run nf s) as [u s1|k p s1| |]; cbn [res_all] in *;
      [apply IH; exact H|exact H|exact I|exact I].
  Qed.
End WithTable.

Theorem far_ce_native : forall fo s,
  ce_inv s -> res_all ce_inv (fetch_and_run (native_fn fo) s).
Proof. intros fo. apply far_ce. apply native_wl. Qed.

(* ---------- context_close and build_unwind ---------- *)
Section Close.
  Variable fo : fops.
  Variable run_fuel : nat.

  Lemma run_m_ce : forall s, ce_inv s -> res_all ce_inv (run_m fo run_fuel s).
  Proof.
    intros s Hs. unfold run_m.
    pose proof (run_ce (nf fo) (native_wl fo) run_fuel s Hs) as H.
    destruct (run (nf fo) run_fuel s); [exact H|exact I].
  Qed.

  Lemma emit_results_ce : forall fuel s, ce_inv s -> res_all ce_inv (emit_results fuel s).
  Proof.
    induction fuel as [|f IH]; intros s Hs; cbn [emit_results]; [exact Hs|].
    destruct (ds_len (cx s) <? length (ds s))%nat; [|exact Hs].
    pose proof (wl_ce _ _ wl_pop_data s Hs) as H1.
    destruct (pop_data s) as [v s1|k p s1| |]; cbn [res_all] in *; auto.
    pose proof (code_emit_ce (load_value_opcode v) s1 H1) as H2. unfold code_emit_value.
    destruct (code_emit (load_value_opcode v) s1) as [u s2|k p s2| |]; cbn [res_all] in *; auto.
  Qed.

  Lemma set_cx_ce : forall s c, ce_inv s -> ce_inv (set_cx s c).
  Proof. intros s c H. exact H. Qed.

  Theorem context_close_ce : forall s, ce_inv s -> res_all ce_inv (context_close fo run_fuel s).
  Proof.
    intros s Hs. unfold context_close.
    destruct (nested s) as [|prev rest]; [exact Hs|]. cbv zeta.
    assert (H0 : ce_inv (set_nested s rest)) by exact Hs.
    destruct (cmode (cx (set_nested s rest))).
    - exact H0.
    - pose proof (run_m_ce _ H0) as H.
      destruct (run_m fo run_fuel (set_nested s rest)) as [u s1|k p s1| |]; cbn [res_all] in *; auto.
    - pose proof (run_m_ce _ H0) as H.
      destruct (run_m fo run_fuel (set_nested s rest)) as [u s1|k p s1| |]; cbn [res_all] in *; auto.
      set (s2 := set_dbg (set_code s1 (firstn (cs_len (cx s1)) (code s1))) (firstn (cs_len (cx s1)) (dbg s1))).
      assert (H2 : ce_inv s2) by (apply trunc_ce; exact H).
      set (s3 := set_dict s2 _).
      assert (H3 : ce_inv s3) by exact H2.
      match goal with |- context [if ?b then _ else _] => destruct b end.
      + pose proof (emit_results_ce (S (length (ds s3))) s3 H3) as H4.
        destruct (emit_results (S (length (ds s3))) s3) as [u4 s4|k p s4| |]; cbn [res_all] in *; auto.
      + exact H3.
  Qed.

  Lemma leave_contexts_code : forall fuel depth s,
    code (leave_contexts fuel depth s) = code s /\ dbg (leave_contexts fuel depth s) = dbg s.
  Proof.
    induction fuel as [|f IH]; intros depth s; cbn [leave_contexts]; [split; reflexivity|].
    destruct (S depth <? length (nested s))%nat; [|split; reflexivity].
    destruct (nested s) as [|prev rest]; [split; reflexivity|].
    destruct (IH depth (set_cx (set_nested s rest) prev)) as [A B]. rewrite A, B. split; reflexivity.
  Qed.

  Theorem build_unwind_ce : forall depth inputs dsl heapl s,
    ce_inv s -> ce_inv (build_unwind depth inputs dsl heapl s).
  Proof.
    intros depth inputs dsl heapl s Hs. unfold build_unwind. cbv zeta.
    set (s0 := set_input s _).
    set (s1 := leave_contexts _ depth s0).
    assert (H1 : ce_inv s1).
    { destruct (leave_contexts_code (S (length (nested s0))) depth s0) as [A B].
      eapply ce_inv_eq; [exact A|exact B|exact Hs]. }
    set (s2 := set_dbg (set_code s1 _) _).
    assert (H2 : ce_inv s2) by (apply trunc_ce; exact H1).
    set (s5 := set_heap _ _).
    assert (H5 : ce_inv s5) by exact H2.
    destruct (nested s5) as [|prev rest]; [exact H5|].
    destruct (depth <? length (prev :: rest))%nat; exact H5.
  Qed.
End Close.

(* ---------- every program of the builder keeps the invariant ---------- *)
Definition cep {A} (m : M A) : Prop := forall s, ce_inv s -> res_all ce_inv (m s).

Lemma cep_ret A (a : A) : cep (ret a).
Proof. intros s H. exact H. Qed.
Lemma cep_fail A k p : cep (@fail A k p).
Proof. intros s H. exact H. Qed.
Lemma cep_unsup A : cep (@unsup A).
Proof. intros s H. exact I. Qed.
Lemma cep_panic A : cep (@panic A).
Proof. intros s H. exact I. Qed.
Lemma cep_bind A B (m : M A) (f : A -> M B) : cep m -> (forall a, cep (f a)) -> cep (bind m f).
Proof.
  intros Hm Hf s Hs. unfold bind. specialize (Hm s Hs).
  destruct (m s) as [a s1|k p s1| |]; cbn [res_all] in *; auto. apply Hf. exact Hm.
Qed.
Lemma cep_get_bind B (k : state -> M B) :
  (forall s0, ce_inv s0 -> cep (k s0)) -> cep (bind get k).
Proof. intros H s Hs. unfold bind, get. apply H; exact Hs. Qed.
Lemma cep_put s' : ce_inv s' -> cep (put s').
Proof. intros H s _. exact H. Qed.
Lemma cep_modify f : (forall s, ce_inv s -> ce_inv (f s)) -> cep (modify f).
Proof. intros H s Hs. apply H. exact Hs. Qed.
Lemma cep_wl A (m : M A) : wl m -> cep m.
Proof. intros H s Hs. apply wl_ce; assumption. Qed.

Lemma cep_code_emit op : cep (code_emit op).
Proof. intros s Hs. apply code_emit_ce. exact Hs. Qed.

Lemma cep_backpatch pos op : cep (backpatch pos op).
Proof.
  intros s Hs. unfold backpatch. destruct (pos <? length (code s))%nat; [|exact I].
  cbn [res_all]. unfold ce_inv in *. cbn [set_code code dbg]. rewrite list_set_length. exact Hs.
Qed.

Lemma cep_backpatch_jump pos offs : cep (backpatch_jump pos offs).
Proof.
  intros s Hs. unfold backpatch_jump.
  destruct (nth_error (code s) pos) as [op|]; [|exact Hs].
  destruct op; try exact I; apply cep_backpatch; exact Hs.
Qed.

Lemma cep_pop_flow : cep pop_flow.
Proof.
  intros s Hs. unfold pop_flow. destruct (flows s); [exact Hs|].
  destruct (_ <? _)%nat; exact Hs.
Qed.

Lemma cep_take_first_cond_flow : cep take_first_cond_flow.
Proof.
  intros s Hs. unfold take_first_cond_flow. cbv zeta.
  destruct (take_cond (pending s)) as [[f act']|]; exact Hs.
Qed.

Lemma cep_dict_insert name e : cep (dict_insert name e).
Proof. intros s Hs. exact Hs. Qed.

Lemma cep_context_open m : cep (context_open m).
Proof. intros s Hs. exact Hs. Qed.

Lemma cep_intern_source buf : cep (intern_source buf).
Proof. intros s Hs. exact Hs. Qed.

Lemma cep_alloc_heap v : cep (alloc_heap v).
Proof.
  intros s Hs. unfold alloc_heap. destruct (mode_eqb _ _); [exact Hs|].
  destruct (limit_reached _ _); exact Hs.
Qed.

Section Builder.
  Variable fo : fops.
  Variable pr : string -> option Z.
  Variable rf : nat.

  Lemma cep_next_token : forall fuel, cep (next_token pr fuel).
  Proof.
    induction fuel as [|f IH]; intros s Hs; cbn [next_token]; [exact I|].
    destruct (input s) as [|il rest]; [exact Hs|]. cbv zeta.
    destruct (lex_next_nonws _ _) as [t l'].
    destruct t; try exact I; try exact Hs.
    - apply IH. exact Hs.
    - destruct (pr text); exact Hs.
  Qed.

  Lemma cep_get_token : cep (get_token pr).
  Proof. intros s Hs. unfold get_token. apply cep_next_token. exact Hs. Qed.

  Lemma cep_next_name : cep (next_name pr).
  Proof.
    intros s Hs. unfold next_name. cbv zeta. pose proof (cep_get_token s Hs) as H.
    destruct (get_token pr s) as [t s1|k p s1| |]; cbn [res_all] in *; auto.
    destruct t; cbn [res_all]; try exact H; destruct (last_tok s); exact H.
  Qed.

  Lemma cep_run_m : cep (run_m fo rf).
  Proof. intros s Hs. apply run_m_ce. exact Hs. Qed.

  Lemma cep_context_close : cep (context_close fo rf).
  Proof. intros s Hs. apply context_close_ce. exact Hs. Qed.

  Lemma cep_vec_collect p : cep (vec_collect_till_ptr p).
  Proof. apply cep_wl. wl_solve. Qed.

  Lemma cep_join_str_vec sep v : cep (join_str_vec sep v).
  Proof. apply cep_wl. wl_solve. Qed.
End Builder.

Ltac ce_fin :=
  lazymatch goal with
  | H : ce_inv ?s |- ce_inv _ => exact H
  end.

Ltac cep_prim :=
  lazymatch goal with
  | |- cep (ret _) => apply cep_ret
  | |- cep (fail _ _) => apply cep_fail
  | |- cep unsup => apply cep_unsup
  | |- cep panic => apply cep_panic
  | |- cep (put _) => apply cep_put; ce_fin
  | |- cep (modify _) => apply cep_modify; intros; ce_fin
  | |- cep (code_emit _) => apply cep_code_emit
  | |- cep (backpatch _ _) => apply cep_backpatch
  | |- cep (backpatch_jump _ _) => apply cep_backpatch_jump
  | |- cep pop_flow => apply cep_pop_flow
  | |- cep take_first_cond_flow => apply cep_take_first_cond_flow
  | |- cep (dict_insert _ _) => apply cep_dict_insert
  | |- cep (context_open _) => apply cep_context_open
  | |- cep (intern_source _) => apply cep_intern_source
  | |- cep (alloc_heap _) => apply cep_alloc_heap
  | |- cep (get_token _) => apply cep_get_token
  | |- cep (next_name _) => apply cep_next_name
  | |- cep (run_m _ _) => apply cep_run_m
  | |- cep (context_close _ _) => apply cep_context_close
  | |- cep (vec_collect_till_ptr _) => apply cep_vec_collect
  | |- cep (join_str_vec _ _) => apply cep_join_str_vec
  | |- cep pop_data => apply cep_wl, wl_pop_data
  | |- cep (push_data _) => apply cep_wl, wl_push_data
  | |- cep (push_return _) => apply cep_wl, wl_push_return
  | |- cep (set_ip _) => apply cep_wl, wl_set_ip
  end.


Ltac cep_step :=
  cbv beta zeta;
  first
    [ cep_prim
    | solve [ auto 2 with cepdb nocore ]
    | lazymatch goal with
      | |- cep (bind get _) => apply cep_get_bind; intros ? ?
      | |- cep (bind _ _) => apply cep_bind; [ | intro ]
      | |- cep (match ?x with _ => _ end) => destruct x
      | |- cep ?m => let h := head_of m in unfold h
      end ].

Ltac cep_solve := repeat cep_step.

Lemma cep_endcase_loop : forall fuel org, cep (endcase_loop fuel org).
Proof. induction fuel as [|f IH]; intros org; cbn [endcase_loop]; cep_solve. Qed.
#[export] Hint Resolve cep_endcase_loop : cepdb.

Lemma cep_repeat_loop : forall fuel, cep (repeat_loop fuel).
Proof. induction fuel as [|f IH]; cbn [repeat_loop]; cep_solve. Qed.
#[export] Hint Resolve cep_repeat_loop : cepdb.

Lemma cep_loop_loop : forall fuel a b, cep (loop_loop fuel a b).
Proof. induction fuel as [|f IH]; intros a b; cbn [loop_loop]; cep_solve. Qed.
#[export] Hint Resolve cep_loop_loop : cepdb.

(* ---------- let: the mutually recursive pattern builders ---------- *)
Section Let.
  Variable pr : string -> option Z.
  Local Open Scope string_scope.

  Lemma cep_build_let_named w : cep (build_let_named w).
  Proof. cep_solve. Qed.
  Lemma cep_build_let_match v : cep (build_let_match v).
  Proof. cep_solve. Qed.
  Lemma cep_let_vec_next i : cep (let_vec_next i).
  Proof. cep_solve. Qed.
  Lemma cep_emit_native w : cep (emit_native w).
  Proof. cep_solve. Qed.
  Lemma cep_code_emit_value v : cep (code_emit_value v).
  Proof. cep_solve. Qed.

  Lemma cep_build_let : forall f,
    cep (build_let_in pr f) /\ cep (build_let_tags pr f) /\ cep (build_let_map pr f) /\
    (forall i, cep (build_let_vec pr f i)).
  Proof.
    induction f as [|f (IHin & IHtags & IHmap & IHvec)].
    - repeat split; intros; apply cep_unsup.
    - assert (Hmap : cep (build_let_map pr (S f))).
      { rewrite build_let_map_S. apply cep_bind; [apply cep_emit_native|intros _].
        generalize (S f) as k. induction k as [|k IHk]; cbn [let_map_go]; [apply cep_unsup|].
        fold (let_map_go pr f) in *.
        pose proof cep_emit_native. pose proof cep_code_emit_value.
        cep_solve. }
      assert (Hvec : forall i, cep (build_let_vec pr (S f) i)).
      { intros i. rewrite build_let_vec_S. revert i.
        generalize (S f) as k. induction k as [|k IHk]; intros i; cbn [let_vec_go]; [apply cep_unsup|].
        fold (let_vec_go pr f) in *.
        pose proof cep_emit_native. pose proof cep_code_emit_value. pose proof cep_let_vec_next.
        pose proof cep_build_let_named. pose proof cep_build_let_match.
        cep_solve. }
      assert (Htags : cep (build_let_tags pr (S f))).
      { cbn [build_let_tags]. pose proof cep_emit_native. pose proof cep_build_let_named. cep_solve. }
      assert (Hin : cep (build_let_in pr (S f))).
      { cbn [build_let_in]. pose proof cep_emit_native. pose proof cep_build_let_named.
        pose proof cep_build_let_match. cep_solve. }
      repeat split; assumption.
  Qed.

  Lemma cep_build_let_in f : cep (build_let_in pr f).
  Proof. exact (proj1 (cep_build_let f)). Qed.
End Let.

(* ---------- the immediate words, build1, eval / compile ---------- *)
Section Top.
  Variable fo : fops.
  Variable pr : string -> option Z.
  Variable rf : nat.

  Lemma cep_immediate_fn : forall fuel name w, immediate_fn fo pr rf fuel name = Some w -> cep w.
  Proof.
    intros fuel name w H. unfold immediate_fn in H. cbv zeta in H.
    eapply table_find_Forall with (P := fun m => cep m); [|exact H].
    pose proof (cep_build_let_in pr fuel) as HL.
    pose proof cep_emit_native as HE. pose proof cep_code_emit_value as HV.
    repeat (apply Forall_cons; [ cbn [snd]; cep_solve | ]).
    apply Forall_nil.
  Qed.

  Lemma cep_run_immediate fuel f : cep (run_immediate fo pr rf fuel f).
  Proof.
    unfold run_immediate. destruct f as [x|name].
    - cep_solve.
    - destruct (immediate_fn fo pr rf fuel name) as [w|] eqn:E; [|apply cep_unsup].
      eapply cep_immediate_fn. exact E.
  Qed.

  Lemma cep_build_word fuel name : cep (build_word fo pr rf fuel name).
  Proof. pose proof (cep_run_immediate fuel). cep_solve. Qed.

  Lemma cep_build1 : forall fuel depth, cep (build1 fo pr rf fuel depth).
  Proof.
    induction fuel as [|f IH]; intros depth; cbn [build1]; [apply cep_unsup|].
    pose proof (cep_build_word f). pose proof cep_code_emit_value. cep_solve.
  Qed.

  Theorem cep_build_from_source : forall fuel src m, cep (build_from_source fo pr rf fuel src m).
  Proof.
    intros fuel src m s Hs. unfold build_from_source. cbv zeta.
    assert (H1 : cep (context_open m ;; intern_source src)) by cep_solve.
    specialize (H1 s Hs).
    destruct ((context_open m ;; intern_source src) s) as [u s1|k p s1| |]; cbn [res_all] in *; auto.
    pose proof (cep_build1 fuel (length (nested s1)) s1 H1) as H2.
    destruct (build1 fo pr rf fuel (length (nested s1)) s1) as [u2 s2|k p s2| |]; cbn [res_all] in *; auto.
    - apply cep_context_close. exact H2.
    - apply build_unwind_ce. exact H2.
  Qed.

  Theorem eval_ce : forall fuel src s, ce_inv s -> res_all ce_inv (eval fo pr rf fuel src s).
  Proof. intros fuel src. apply cep_build_from_source. Qed.

  Theorem compile_ce : forall fuel src s, ce_inv s -> res_all ce_inv (compile fo pr rf fuel src s).
  Proof. intros fuel src. apply cep_build_from_source. Qed.
End Top.

(* ---------- reverse stepping keeps the invariant ---------- *)
Lemma add_rstep_ce r s : ce_inv s -> ce_inv (add_rstep r s).
Proof. intros H. unfold add_rstep. destruct (rlog s); exact H. Qed.

Lemma reverse_changes_ce : forall r s, ce_inv s -> res_all ce_inv (reverse_changes r s).
Proof.
  intros r s H. destruct r; unfold reverse_changes;
    try (repeat match goal with
                | |- context [match ?x with _ => _ end] => destruct x
                end; cbn [res_all]; try exact I; exact H).
  pose proof (wl_ce _ _ wl_pop_data s H) as H1.
  destruct (pop_data s); cbn [res_all] in *; auto.
Qed.

Lemma log_pop_ce s r s' : log_pop s = Some (r, s') -> ce_inv s -> ce_inv s'.
Proof.
  unfold log_pop. destruct (rlog s) as [[|r0 l]|]; try discriminate.
  intros E H. injection E as <- <-. exact H.
Qed.

Lemma rnext_loop_ce : forall fuel s, ce_inv s -> res_all ce_inv (rnext_loop fuel s).
Proof.
  induction fuel as [|f IH]; intros s H; cbn [rnext_loop]; [exact H|].
  destruct (log_pop s) as [[r s']|] eqn:E; [|exact H].
  pose proof (log_pop_ce _ _ _ E H) as H'.
  destruct r; try (cbn [res_all]; apply add_rstep_ce; exact H');
    match goal with
    | |- context [reverse_changes ?r s'] =>
      pose proof (reverse_changes_ce r s' H') as H1;
      destruct (reverse_changes r s'); cbn [res_all] in *; auto
    end.
Qed.

Theorem rnext_ce : forall s, ce_inv s -> res_all ce_inv (rnext s).
Proof.
  intros s H. unfold rnext. destruct (log_pop s) as [[r s']|] eqn:E; [|apply rnext_loop_ce; exact H].
  pose proof (reverse_changes_ce r s' (log_pop_ce _ _ _ E H)) as H1.
  destruct (reverse_changes r s'); cbn [res_all] in *; auto. apply rnext_loop_ce. exact H1.
Qed.

Theorem next_ce : forall fo s, ce_inv s -> res_all ce_inv (next (native_fn fo) s).
Proof.
  intros fo s H. unfold next. destruct (is_running s); [|exact H]. apply far_ce_native. exact H.
Qed.

Theorem run_ce_native : forall fo fuel s, ce_inv s ->
  match run (native_fn fo) fuel s with Some r => res_all ce_inv r | None => True end.
Proof. intros fo. apply run_ce. apply native_wl. Qed.


(* ---------- no pending input between API calls ---------- *)
From Xeh Require Import Proofs.UnwindLists Proofs.UnwindFrame Proofs.UnwindInv Proofs.UnwindBuild
                        Proofs.UnwindMain Proofs.UnwindAfter Proofs.UnwindAuxMain.
From Xeh Require Import Model.Boot.

Definition no_input (s : state) : Prop := input s = [].

Section Input.
  Variable fo : fops.
  Variable pr : string -> option Z.
  Variable rf : nat.

  Lemma emit_results_input : forall fuel s, res_all (fun s' => input s' = input s) (emit_results fuel s).
  Proof.
    induction fuel as [|f IH]; intros s; cbn [emit_results]; [reflexivity|].
    destruct (ds_len (cx s) <? length (ds s))%nat; [|reflexivity].
    pose proof (wl_frame _ _ wl_pop_data s) as FR.
    destruct (pop_data s) as [v s1|k p s1| |]; cbn [res_all] in *; try exact I; [|apply FR].
    destruct FR as (_ & _ & _ & _ & A5 & _).
    unfold code_emit_value, code_emit. cbv zeta.
    match goal with |- context [if ?b then _ else _] => destruct b end.
    - match goal with |- context [emit_results f ?x] => specialize (IH x); destruct (emit_results f x) end;
        cbn [res_all] in *; auto; cbn [set_code set_dbg input] in IH; congruence.
    - match goal with |- context [if ?b then _ else _] => destruct b end; [|exact I].
      match goal with |- context [emit_results f ?x] => specialize (IH x); destruct (emit_results f x) end;
        cbn [res_all] in *; auto; cbn [set_code set_dbg input] in IH; congruence.
  Qed.

  Lemma context_close_input s : res_all (fun s' => input s' = input s) (context_close fo rf s).
  Proof.
    unfold context_close. destruct (nested s) as [|prev rest]; [reflexivity|]. cbv zeta.
    pose proof (run_m_frame fo rf (set_nested s rest)) as FR.
    destruct (cmode (cx (set_nested s rest))).
    - reflexivity.
    - destruct (run_m fo rf (set_nested s rest)) as [u s1|k p s1| |]; cbn [res_all] in *; auto;
        destruct FR as (_ & _ & _ & _ & A5 & _); exact A5.
    - destruct (run_m fo rf (set_nested s rest)) as [u s1|k p s1| |]; cbn [res_all] in *; auto;
        destruct FR as (_ & _ & _ & _ & A5 & _); [|exact A5].
      match goal with |- context [if ?c then _ else _] => destruct c end.
      + match goal with |- context [emit_results ?n ?x] =>
          pose proof (emit_results_input n x) as Y; destruct (emit_results n x) end;
          cbv beta iota; cbn [res_all] in *; auto; cbn [set_cx set_dict set_dbg set_code set_nested input] in *; congruence.
      + cbn [res_all set_cx set_dict set_dbg set_code input]. exact A5.
  Qed.

  Theorem build_from_source_no_input fuel src m s : no_input s ->
    res_all no_input (build_from_source fo pr rf fuel src m s).
  Proof.
    unfold no_input. intros Hin. unfold build_from_source. cbv zeta.
    destruct ((context_open m ;; intern_source src) s) as [u s1|k p s1| |] eqn:E1; cbn [res_all]; auto.
    - destruct (build1 fo pr rf fuel (length (nested s1)) s1) as [u2 s2|k p s2| |] eqn:E2; cbn [res_all]; auto.
      + destruct u2. destruct (build1_ok_exit fo pr rf _ _ _ _ E2) as (_ & _ & Ei).
        pose proof (context_close_input s2) as X.
        destruct (context_close fo rf s2); cbn [res_all] in *; auto; congruence.
      + rewrite Hin. cbn [length]. unfold build_unwind. cbv zeta. rewrite lastn_0.
        set (s0 := set_input s2 []).
        destruct (leave_contexts_aux (S (length (nested s0))) (length (nested s)) s0) as (_ & E & _).
        set (s5 := set_heap _ _).
        assert (E5 : input s5 = []) by exact E.
        destruct (nested s5) as [|prev rest]; [exact E5|].
        destruct (length (nested s) <? length (prev :: rest))%nat; exact E5.
    - unfold bind, context_open, intern_source in E1. discriminate.
  Qed.

  Lemma reverse_changes_input r s : res_all (fun s' => input s' = input s) (reverse_changes r s).
  Proof.
    destruct r; unfold reverse_changes;
      try (repeat match goal with
                  | |- context [match ?x with _ => _ end] => destruct x
                  end; cbn [res_all]; try exact I; reflexivity).
    pose proof (wl_frame _ _ wl_pop_data s) as FR.
    destruct (pop_data s); cbn [res_all] in *; auto; apply FR.
  Qed.

  Lemma log_pop_input s r s' : log_pop s = Some (r, s') -> input s' = input s.
  Proof.
    unfold log_pop. destruct (rlog s) as [[|r0 l]|]; try discriminate.
    intros E. injection E as <- <-. reflexivity.
  Qed.

  Lemma add_rstep_input r s : input (add_rstep r s) = input s.
  Proof. unfold add_rstep. destruct (rlog s); reflexivity. Qed.

  Lemma rnext_loop_input : forall fuel s, res_all (fun s' => input s' = input s) (rnext_loop fuel s).
  Proof.
    induction fuel as [|f IH]; intros s; cbn [rnext_loop]; [reflexivity|].
    destruct (log_pop s) as [[r s']|] eqn:E; [|reflexivity].
    pose proof (log_pop_input _ _ _ E) as H'.
    destruct r; try (cbn [res_all]; rewrite add_rstep_input; exact H');
      match goal with
      | |- context [reverse_changes ?r s'] =>
        pose proof (reverse_changes_input r s') as H1;
        destruct (reverse_changes r s') as [u s2|kk pp s2| |]; cbn [res_all] in *; auto; try congruence;
        specialize (IH s2); destruct (rnext_loop f s2); cbn [res_all] in *; auto; congruence
      end.
  Qed.

  Theorem rnext_input s : res_all (fun s' => input s' = input s) (rnext s).
  Proof.
    unfold rnext. destruct (log_pop s) as [[r s']|] eqn:E; [|apply rnext_loop_input].
    pose proof (log_pop_input _ _ _ E) as H'.
    pose proof (reverse_changes_input r s') as H1.
    destruct (reverse_changes r s') as [u s2|kk pp s2| |]; cbn [res_all] in *; auto; try congruence.
    pose proof (rnext_loop_input (S (log_len s2)) s2) as H2.
    destruct (rnext_loop (S (log_len s2)) s2); cbn [res_all] in *; auto; congruence.
  Qed.

End Input.

(* in every state reachable through the API the debug map is as long as the code and no
   input is pending: the two hypotheses of the restoration theorem that do not restrict the
   history *)
Theorem api_wf : forall fo pr s, api_reach fo pr s -> length (dbg s) = length (code s) /\ input s = [].
Proof.
  intros fo pr s H.
  assert (G : ce_inv s /\ no_input s); [|destruct G as [G1 G2]; split; [symmetry; exact G1|exact G2]].
  apply H; clear s H.
  - split; reflexivity.
  - intros s rf bf src s' [I1 I2] E. split.
    + exact (res_state_all _ _ _ (eval_ce fo pr rf bf src s I1) E).
    + exact (res_state_all _ _ _ (build_from_source_no_input fo pr rf bf src MEval s I2) E).
  - intros s rf bf src s' [I1 I2] E. split.
    + exact (res_state_all _ _ _ (compile_ce fo pr rf bf src s I1) E).
    + exact (res_state_all _ _ _ (build_from_source_no_input fo pr rf bf src MCompile s I2) E).
  - intros s s' [I1 I2] E. split.
    + exact (res_state_all _ _ _ (next_ce fo s I1) E).
    + unfold next in E. destruct (is_running s).
      * pose proof (far_frame (native_fn fo) (native_wl fo) s) as FR.
        destruct (fetch_and_run (native_fn fo) s); cbn [res_state res_all] in *; try discriminate;
          injection E as <-; destruct FR as (_ & _ & _ & _ & A5 & _); unfold no_input in *; congruence.
      * cbn in E. injection E as <-. exact I2.
  - intros s fuel r s' [I1 I2] E1 E2. split.
    + pose proof (run_ce_native fo fuel s I1) as X. rewrite E1 in X. exact (res_state_all _ _ _ X E2).
    + pose proof (run_frame_native fo fuel s) as FR. rewrite E1 in FR.
      destruct r; cbn [res_state res_all] in *; try discriminate;
        injection E2 as <-; destruct FR as (_ & _ & _ & _ & A5 & _); unfold no_input in *; congruence.
  - intros s s' [I1 I2] E. split.
    + exact (res_state_all _ _ _ (rnext_ce s I1) E).
    + pose proof (rnext_input s) as X.
      destruct (rnext s); cbn [res_state res_all] in *; try discriminate;
        injection E as <-; unfold no_input in *; congruence.
  - intros s i h k [I1 I2]. split; assumption.
  - intros s l [I1 I2]. split; assumption.
Qed.

(* the restoration theorem for EVERY state reachable through the API: no hypothesis on the
   state is left; unresolved [late] stubs that build-time execution resolved stay resolved *)
Theorem reachable_rejected_source_restores : forall fo pr s, api_reach fo pr s ->
  forall rf fuel src m s1 k p s2,
  (m = MEval \/ m = MCompile) ->
  (context_open m ;; intern_source src) s = ROk tt s1 ->
  build1 fo pr rf fuel (length (nested s1)) s1 = RErr k p s2 ->
  calls_bad fo pr rf (length (dict s)) fuel (length (nested s1)) s1 = false ->
  exists s', build_from_source fo pr rf fuel src m s = RErr k p s' /\ same_machine_upto_stubs s s'.
Proof.
  intros fo pr s HR rf fuel src m s1 k p s2 Hm E1 E2 CB.
  destruct (api_wf fo pr s HR) as [Hdl Hin].
  eapply build_failure_restores_upto; eauto using mode_not_meta.
Qed.
