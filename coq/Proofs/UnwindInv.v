(* UnwindInv.v (C10): the invariant of a build in progress, relative to the state [b] in
   which the source was submitted.  Everything the builder does happens ABOVE what [b] held:
   code / debug map / dictionary / heap only grow past their old length (backpatching and
   the updates of definitions touch new cells only, because every pending flow entry points
   into new code), the four stacks and the flow stack keep their old part at the bottom, and
   the chain of contexts is [meta blocks ++ the context opened for the source ++ the old
   chain]. *)
From Xeh Require Import Model.Prelude Model.Bits Model.Codec Model.Cell Model.Lexer Model.Fmt
                        Model.Vm Model.Words Model.Build.
From Xeh Require Import Proofs.VmFrame Proofs.VmLimits Proofs.UnwindLists Proofs.UnwindFrame.
Local Notation length := List.length.

#[local] Arguments Z.add : simpl never.
#[local] Arguments Z.sub : simpl never.
#[local] Arguments Z.mul : simpl never.
#[local] Arguments Z.ltb : simpl never.
#[local] Arguments Z.leb : simpl never.
#[local] Arguments Z.eqb : simpl never.
#[local] Arguments Z.of_nat : simpl never.
#[local] Arguments Z.to_nat : simpl never.

Ltac st_simpl :=
  cbn [set_code set_dbg set_dict set_flows set_cx set_nested set_input set_last_tok set_sources
       set_heap set_ds set_rs set_loops set_special set_meter set_rlog set_out set_stopping
       dict heap code dbg sources input ds rs flows loops special cx nested meter insn_limit
       heap_limit stack_limit rlog out last_tok stopping].

Ltac st_simpl_in H :=
  cbn [set_code set_dbg set_dict set_flows set_cx set_nested set_input set_last_tok set_sources
       set_heap set_ds set_rs set_loops set_special set_meter set_rlog set_out set_stopping
       dict heap code dbg sources input ds rs flows loops special cx nested meter insn_limit
       heap_limit stack_limit rlog out last_tok stopping] in H.

Lemma Forall_firstn {A} (P : A -> Prop) : forall n l, Forall P l -> Forall P (firstn n l).
Proof.
  induction n as [|n IH]; intros l H; cbn [firstn]; [constructor|].
  destruct l; [constructor|]. inversion H; subst. constructor; auto.
Qed.

Lemma Forall_skipn {A} (P : A -> Prop) : forall n l, Forall P l -> Forall P (skipn n l).
Proof.
  induction n as [|n IH]; intros l H; cbn [skipn]; [exact H|].
  destruct l; [constructor|]. inversion H; subst. auto.
Qed.

Section Inv.
  Variable b : state.      (* the state in which the source was submitted *)
  Variable m : mode.       (* the mode it was submitted in *)

  (* the context [context_open m] creates in [b] *)
  Definition tmp_ctx : ctx :=
    mkctx (if mode_eqb (cmode (cx b)) m then ds_len (cx b) else length (ds b))
          (length (code b)) (length (rs b)) (length (flows b)) (length (loops b))
          (length (special b)) (length (dict b)) (length (code b)) m.

  Definition above (c : ctx) : Prop :=
    length (code b) <= cs_len c /\ length (rs b) <= rs_len c /\ length (flows b) <= fs_len c /\
    length (loops b) <= ls_len c /\ length (special b) <= ss_ptr c /\ length (dict b) <= di_len c.

  Definition meta_ok (c : ctx) : Prop := cmode c = MMeta /\ length (ds b) <= ds_len c /\ above c.

  Definition flow_ok (f : flow) : Prop :=
    match f with
    | FIf o | FElse o | FBegin o | FWhile o | FBreak o | FCaseOf o | FCaseEndOf o => length (code b) <= o
    | FFun d st _ => length (dict b) <= d /\ length (code b) <= st
    | FDo a _ => length (code b) <= a
    | _ => True
    end.

  Definition chain_ok (t : state) : Prop :=
    exists metas, cx t :: nested t = metas ++ tmp_ctx :: cx b :: nested b /\ Forall meta_ok metas.

  Record binv0 (t : state) : Prop := mk_binv0 {
    bi_code : kprefix (code b) (code t);
    bi_dbg : prefix_of (dbg b) (dbg t);
    bi_dbglen : length (dbg t) = length (code t);
    bi_dict : prefix_of (dict b) (dict t);
    bi_heap : prefix_of (heap b) (heap t);
    bi_flows : exists new, flows t = new ++ flows b /\ Forall flow_ok new;
    bi_ds : suffix_of (ds b) (ds t);
    bi_rs : suffix_of (rs b) (rs t);
    bi_loops : suffix_of (loops b) (loops t);
    bi_special : suffix_of (special b) (special t);
    bi_lim : insn_limit t = insn_limit b /\ heap_limit t = heap_limit b /\ stack_limit t = stack_limit b;
    bi_rlog : rlog t = None <-> rlog b = None }.

  Definition binv (t : state) : Prop := chain_ok t /\ binv0 t.

  Lemma binv0_same t t' :
    code t' = code t -> dbg t' = dbg t -> dict t' = dict t -> heap t' = heap t ->
    flows t' = flows t -> ds t' = ds t -> rs t' = rs t -> loops t' = loops t ->
    special t' = special t ->
    insn_limit t' = insn_limit t -> heap_limit t' = heap_limit t -> stack_limit t' = stack_limit t ->
    rlog t' = rlog t ->
    binv0 t -> binv0 t'.
  Proof.
    intros E1 E2 E3 E4 E5 E6 E7 E8 E9 E10 E11 E12 E13 [H1 H2 H3 H4 H5 H6 H7 H8 H9 H10 H11 H12].
    constructor; rewrite ?E1, ?E2, ?E3, ?E4, ?E5, ?E6, ?E7, ?E8, ?E9, ?E10, ?E11, ?E12, ?E13; assumption.
  Qed.

  Lemma chain_same t t' : cx t' = cx t -> nested t' = nested t -> chain_ok t -> chain_ok t'.
  Proof. intros E1 E2 [ms H]. exists ms. rewrite E1, E2. exact H. Qed.

  Lemma binv_same t t' :
    cx t' = cx t -> nested t' = nested t ->
    code t' = code t -> dbg t' = dbg t -> dict t' = dict t -> heap t' = heap t ->
    flows t' = flows t -> ds t' = ds t -> rs t' = rs t -> loops t' = loops t ->
    special t' = special t ->
    insn_limit t' = insn_limit t -> heap_limit t' = heap_limit t -> stack_limit t' = stack_limit t ->
    rlog t' = rlog t ->
    binv t -> binv t'.
  Proof.
    intros E1 E2 E3 E4 E5 E6 E7 E8 E9 E10 E11 E12 E13 E14 E15 [C B]. split.
    - eapply chain_same; eauto.
    - eapply binv0_same; eauto.
  Qed.

  Hypothesis Hm : m <> MMeta.

  Lemma tmp_above : above tmp_ctx.
  Proof. unfold above, tmp_ctx. cbn. repeat split; apply Nat.le_refl. Qed.

  Lemma chain_above t : chain_ok t -> above (cx t).
  Proof.
    intros [ms [E F]]. destruct ms as [|c ms]; cbn [app] in E; injection E as -> _.
    - apply tmp_above.
    - inversion F as [|? ? [_ [_ A]] _]; subst. exact A.
  Qed.

  Lemma chain_meta t : chain_ok t -> cmode (cx t) = MMeta ->
    meta_ok (cx t) /\ exists prev rest, nested t = prev :: rest /\
      exists ms, prev :: rest = ms ++ tmp_ctx :: cx b :: nested b /\ Forall meta_ok ms.
  Proof.
    intros [ms [E F]] Hmode. destruct ms as [|c ms]; cbn [app] in E; injection E as E1 E2.
    - rewrite E1 in Hmode. cbn in Hmode. congruence.
    - inversion F as [|? ? Hc Hms]; subst. split; [exact Hc|].
      destruct ms as [|c' ms']; cbn [app] in E2.
      + exists tmp_ctx, (cx b :: nested b). split; [exact E2|]. exists []. split; [reflexivity|constructor].
      + exists c', (ms' ++ tmp_ctx :: cx b :: nested b). split; [exact E2|].
        exists (c' :: ms'). split; [reflexivity|exact Hms].
  Qed.

  Lemma chain_nonmeta t : chain_ok t -> cmode (cx t) <> MMeta ->
    cx t = tmp_ctx /\ nested t = cx b :: nested b.
  Proof.
    intros [ms [E F]] Hmode. destruct ms as [|c ms]; cbn [app] in E; injection E as E1 E2.
    - split; assumption.
    - inversion F as [|? ? [Hc _] _]; subst. congruence.
  Qed.

  Lemma binv0_lens t : binv0 t ->
    length (code b) <= length (code t) /\ length (dict b) <= length (dict t) /\
    length (flows b) <= length (flows t) /\ length (ds b) <= length (ds t) /\
    length (rs b) <= length (rs t) /\ length (loops b) <= length (loops t) /\
    length (special b) <= length (special t) /\ length (heap b) <= length (heap t).
  Proof.
    intros [H1 H2 H3 H4 H5 [new [H6 _]] H7 H8 H9 H10 H11 H12].
    repeat split; try (apply kprefix_length; assumption); try (apply prefix_length; assumption);
      try (apply suffix_length; assumption).
    rewrite H6, app_length. lia.
  Qed.

  (* the pending flows are new ones *)
  Lemma binv_flows_split t : binv t ->
    exists act rest, flows t = act ++ rest ++ flows b /\ pending t = act /\
      skipn (length act) (flows t) = rest ++ flows b /\ Forall flow_ok act /\ Forall flow_ok rest.
  Proof.
    intros [C B]. pose proof (chain_above t C) as (_ & _ & Hfs & _).
    destruct (bi_flows t B) as [new [E F]].
    set (k := length (flows t) - fs_len (cx t)).
    assert (Hk : k <= length new).
    { unfold k. rewrite E, app_length. lia. }
    assert (Ea : pending t = firstn k new).
    { unfold pending. fold k. rewrite E, firstn_app.
      replace (k - length new) with 0 by lia. cbn [firstn]. apply app_nil_r. }
    exists (firstn k new), (skipn k new). repeat split.
    - rewrite app_assoc, firstn_skipn. exact E.
    - exact Ea.
    - rewrite firstn_length, Nat.min_l by exact Hk. rewrite E, skipn_app.
      replace (k - length new) with 0 by lia. reflexivity.
    - apply Forall_firstn. exact F.
    - apply Forall_skipn. exact F.
  Qed.

  Lemma binv_pending t : binv t -> Forall flow_ok (pending t).
  Proof. intros H. destruct (binv_flows_split t H) as (act & rest & _ & -> & _ & F & _). exact F. Qed.

  (* replacing the pending part of the flow stack by new entries *)
  Lemma binv_set_pending t act' : binv t -> Forall flow_ok act' ->
    binv (set_flows t (act' ++ skipn (length (pending t)) (flows t))).
  Proof.
    intros H F'. destruct (binv_flows_split t H) as (act & rest & E & Ep & Es & Fa & Fr).
    rewrite Ep, Es. destruct H as [C B]. split; [exact C|].
    destruct B as [H1 H2 H3 H4 H5 H6 H7 H8 H9 H10 H11 H12]. constructor; st_simpl; try assumption.
    exists (act' ++ rest). split; [rewrite app_assoc; reflexivity|].
    apply Forall_app. split; assumption.
  Qed.

  (* ---------- a program keeps the invariant ---------- *)
  Definition bp {A} (P : M A) : Prop := forall t, binv t -> res_all binv (P t).
  Definition bpq {A} (P : M A) (Q : A -> Prop) : Prop :=
    forall t, binv t ->
      match P t with ROk a t' => binv t' /\ Q a | RErr _ _ t' => binv t' | _ => True end.

  Lemma bp_ret A (a : A) : bp (ret a).
  Proof. intros t H. exact H. Qed.
  Lemma bp_fail A k p : bp (@fail A k p).
  Proof. intros t H. exact H. Qed.
  Lemma bp_unsup A : bp (@unsup A).
  Proof. intros t H. exact I. Qed.
  Lemma bp_panic A : bp (@panic A).
  Proof. intros t H. exact I. Qed.
  Lemma bp_bind A B (P : M A) (f : A -> M B) : bp P -> (forall a, bp (f a)) -> bp (bind P f).
  Proof.
    intros HP Hf t Ht. unfold bind. specialize (HP t Ht).
    destruct (P t) as [a t1|k p t1| |]; cbn [res_all] in *; auto. apply Hf. exact HP.
  Qed.
  Lemma bp_bindq A B (P : M A) (Q : A -> Prop) (f : A -> M B) :
    bpq P Q -> (forall a, Q a -> bp (f a)) -> bp (bind P f).
  Proof.
    intros HP Hf t Ht. unfold bind. specialize (HP t Ht).
    destruct (P t) as [a t1|k p t1| |]; cbn [res_all] in *; auto. destruct HP as [H1 H2]. apply Hf; assumption.
  Qed.
  Lemma bp_get_bind B (k : state -> M B) : (forall s0, binv s0 -> bp (k s0)) -> bp (bind get k).
  Proof. intros H t Ht. unfold bind, get. apply H; exact Ht. Qed.
  Lemma bp_put s' : binv s' -> bp (put s').
  Proof. intros H t _. exact H. Qed.

  (* ---------- emission and backpatching ---------- *)
  Lemma bp_code_emit op : bp (code_emit op).
  Proof.
    intros t [C B]. unfold code_emit. cbv zeta.
    rewrite <- (bi_dbglen t B). rewrite Nat.ltb_irrefl, Nat.eqb_refl. cbn [res_all].
    split; [exact C|]. destruct B as [H1 H2 H3 H4 H5 H6 H7 H8 H9 H10 H11 H12].
    constructor; st_simpl; try assumption.
    - apply kprefix_app. exact H1.
    - apply prefix_app. exact H2.
    - rewrite !app_length. cbn [length]. lia.
  Qed.

  Lemma bp_backpatch pos op : length (code b) <= pos -> bp (backpatch pos op).
  Proof.
    intros Hpos t [C B]. unfold backpatch. destruct (pos <? length (code t))%nat; [|exact I].
    cbn [res_all]. split; [exact C|]. destruct B as [H1 H2 H3 H4 H5 H6 H7 H8 H9 H10 H11 H12].
    constructor; st_simpl; try assumption.
    - apply kprefix_list_set; assumption.
    - rewrite list_set_length. exact H3.
  Qed.

  Lemma bp_backpatch_jump pos offs : length (code b) <= pos -> bp (backpatch_jump pos offs).
  Proof.
    intros Hpos t Ht. unfold backpatch_jump.
    destruct (nth_error (code t) pos) as [op|]; [|exact Ht].
    destruct op; try exact I; apply bp_backpatch; assumption.
  Qed.

  (* ---------- the flow stack ---------- *)
  Lemma bp_push_flow f : flow_ok f -> bp (push_flow f).
  Proof.
    intros Hf t [C B]. unfold push_flow, modify. cbn [res_all]. split; [exact C|].
    destruct B as [H1 H2 H3 H4 H5 [new [E F]] H7 H8 H9 H10 H11 H12]. constructor; st_simpl; try assumption.
    exists (f :: new). split; [rewrite E; reflexivity|constructor; assumption].
  Qed.

  Definition oflow_ok (r : option flow) : Prop := match r with Some f => flow_ok f | None => True end.

  Lemma bpq_pop_flow : bpq pop_flow oflow_ok.
  Proof.
    intros t H. unfold pop_flow. destruct (flows t) as [|f r] eqn:Ef; [split; [exact H|exact I]|].
    destruct (fs_len (cx t) <? length (f :: r))%nat eqn:El; [|split; [exact H|exact I]].
    apply Nat.ltb_lt in El. rewrite <- Ef in El.
    pose proof (binv_pending t H) as FP. unfold pending in FP. rewrite Ef in FP.
    rewrite <- Ef in FP at 1.
    destruct (length (flows t) - fs_len (cx t)) as [|k] eqn:Ek; [lia|].
    cbn [firstn] in FP. inversion FP as [|? ? Hf _]; subst.
    split; [|exact Hf].
    pose proof (binv_set_pending t (firstn k r) H) as X.
    unfold pending in X. rewrite Ek, Ef in X.
    assert (Hk : k <= length r).
    { rewrite Ef in Ek. cbn [length] in Ek. lia. }
    cbn [firstn length] in X. rewrite firstn_length, Nat.min_l in X by exact Hk.
    cbn [skipn] in X. rewrite firstn_skipn in X. apply X.
    inversion FP; subst. assumption.
  Qed.

  Lemma bpq_take_first_cond_flow : bpq take_first_cond_flow oflow_ok.
  Proof.
    intros t H. unfold take_first_cond_flow. cbv zeta.
    destruct (take_cond (pending t)) as [[f act']|] eqn:E; [|split; [exact H|exact I]].
    destruct (take_cond_Forall flow_ok _ _ _ E (binv_pending t H)) as (A & B & _).
    split; [|exact A]. apply binv_set_pending; assumption.
  Qed.

  Lemma bp_bind_pop_flow B (k : option flow -> M B) :
    (forall r, oflow_ok r -> bp (k r)) -> bp (bind pop_flow k).
  Proof. intros H. eapply bp_bindq; [apply bpq_pop_flow|exact H]. Qed.

  Lemma bp_bind_tfc B (k : option flow -> M B) :
    (forall r, oflow_ok r -> bp (k r)) -> bp (bind take_first_cond_flow k).
  Proof. intros H. eapply bp_bindq; [apply bpq_take_first_cond_flow|exact H]. Qed.

  (* ---------- dictionary, heap, contexts, input ---------- *)
  Lemma bpq_dict_insert name e : bpq (dict_insert name e) (fun idx => length (dict b) <= idx).
  Proof.
    intros t [C B]. unfold dict_insert. split.
    - split; [exact C|]. destruct B as [H1 H2 H3 H4 H5 H6 H7 H8 H9 H10 H11 H12].
      constructor; st_simpl; try assumption. apply prefix_app. exact H4.
    - apply prefix_length. exact (bi_dict t B).
  Qed.

  Lemma bp_set_dict t d' : binv t -> prefix_of (dict b) d' -> binv (set_dict t d').
  Proof.
    intros [C B] Hd. split; [exact C|]. destruct B as [H1 H2 H3 H4 H5 H6 H7 H8 H9 H10 H11 H12].
    constructor; st_simpl; assumption.
  Qed.

  Lemma bp_alloc_heap v : bp (alloc_heap v).
  Proof.
    intros t [C B]. unfold alloc_heap. destruct (mode_eqb _ _); [split; assumption|].
    destruct (limit_reached _ _); [split; assumption|]. cbn [res_all]. split; [exact C|].
    destruct B as [H1 H2 H3 H4 H5 H6 H7 H8 H9 H10 H11 H12]. constructor; st_simpl; try assumption.
    apply prefix_app. exact H5.
  Qed.

  Lemma bp_context_open_meta : bp (context_open MMeta).
  Proof.
    intros t [C B]. unfold context_open. cbv zeta. cbn [res_all]. split.
    - destruct C as [ms [E F]]. unfold chain_ok. st_simpl.
      match goal with |- context [mkctx ?a ?b0 ?c ?d ?e ?f ?g ?h MMeta] =>
        exists (mkctx a b0 c d e f g h MMeta :: ms) end.
      split; [cbn [app]; rewrite E; reflexivity|]. constructor; [|exact F].
      pose proof (binv0_lens t B) as (L1 & L2 & L3 & L4 & L5 & L6 & L7 & L8).
      unfold meta_ok, above. cbn [cmode ds_len cs_len rs_len fs_len ls_len ss_ptr di_len].
      repeat split; try assumption.
      destruct (mode_eqb (cmode (cx t)) MMeta) eqn:Em; [|exact L4].
      assert (Hc : cmode (cx t) = MMeta) by (destruct (cmode (cx t)); cbn in Em; congruence).
      destruct ms as [|c ms']; cbn [app] in E; injection E as E1 E2.
      + rewrite E1 in Hc. cbn in Hc. congruence.
      + inversion F as [|? ? [_ [Hd _]] _]; subst. exact Hd.
    - eapply binv0_same; [..|exact B]; reflexivity.
  Qed.

  Lemma bp_intern_source buf : bp (intern_source buf).
  Proof. intros t H. unfold intern_source. cbn [res_all]. eapply binv_same; [..|exact H]; reflexivity. Qed.

  (* ---------- code that runs at build time (meta mode only) ---------- *)

  Lemma binv0_frame t t' : binv0 t -> meta_ok (cx t) -> frame_rel t t' -> binv0 t'.
  Proof.
    intros [H1 H2 H3 H4 H5 H6 H7 H8 H9 H10 H11 H12] (Mm & Md & Mc & Mr & Mf & Ml & Ms & Mi).
    unfold frame_rel.
    intros (A1 & A2 & A3 & A4 & A5 & A6 & A7 & A8 & A9 & A10 & A11 & A12 & A13 & A14 & A15 & A16 & A17 & A18 & A19).
    constructor.
    - eapply code_keep_kprefix; eassumption.
    - rewrite A2. exact H2.
    - rewrite A2. destruct A18 as [A18 _]. congruence.
    - rewrite A1. exact H4.
    - rewrite A13 by exact Mm. exact H5.
    - rewrite A3. exact H6.
    - apply A14; [exact H7|exact Md].
    - apply A15; [exact H8|exact Mr].
    - apply A16; [exact H9|exact Ml].
    - apply A17; [exact H10|exact Ms].
    - destruct H11 as (G1 & G2 & G3). repeat split; congruence.
    - split; intros X; [apply H12, A19, X|apply A19, H12, X].
  Qed.

  Lemma meta_ok_ip c i : meta_ok c -> meta_ok (set_ctx_ip c i).
  Proof. intros H. exact H. Qed.

  Lemma binv_frame t t' : binv t -> cmode (cx t) = MMeta -> frame_rel t t' ->
    binv t' /\ cmode (cx t') = MMeta.
  Proof.
    intros [C B] Hmode FR. destruct (chain_meta t C Hmode) as [MO _].
    pose proof FR as (_ & _ & _ & A4 & _ & _ & _ & _ & _ & _ & A11 & _).
    split; [split|].
    - destruct C as [ms [E F]]. destruct ms as [|c ms]; cbn [app] in E; injection E as E1 E2.
      + rewrite E1 in Hmode. cbn in Hmode. congruence.
      + exists (set_ctx_ip c (cip (cx t')) :: ms). rewrite A11, A4, E1, E2. split; [reflexivity|].
        inversion F; subst. constructor; [apply meta_ok_ip|]; assumption.
    - eapply binv0_frame; eassumption.
    - rewrite A11. exact Hmode.
  Qed.

  Definition bpm {A} (P : M A) : Prop :=
    forall t, binv t -> cmode (cx t) = MMeta ->
      res_all (fun t' => binv t' /\ cmode (cx t') = MMeta) (P t).

  Lemma bpm_wl A (P : M A) : wl P -> bpm P.
  Proof.
    intros HW t H Hmode. pose proof (wl_frame A P HW t) as FR.
    destruct (P t); cbn [res_all] in *; auto; eapply binv_frame; eauto.
  Qed.
End Inv.
