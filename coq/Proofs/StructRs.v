(* StructRs.v: where a `break` can come from, and return-stack hygiene.
   * a block without a break at its own level never stops at a break (functions included,
     when no function body has a break at its own level);
   * a block leaves the return stack as it found it up to the locals of the current frame
     (which `local` writes); exactly as it found it when it declares no local;
   * a call leaves the return stack - hence the caller's locals - exactly as it found it. *)
From Xeh Require Import Model.Prelude Model.Bits Model.Codec Model.Cell Model.Lexer Model.Fmt
                        Model.Vm Model.Words Model.Struct
                        Proofs.VmFrame Proofs.StructBase Proofs.StructNat Proofs.StructInv Proofs.StructLoops.
Local Notation length := List.length.

(* ---------- inversion of a break result ---------- *)
Lemma broke_on_res : forall r kd kb s',
  on_res r kd kb = SBroke s' ->
  (exists s1, r = SDone s1 /\ kd s1 = SBroke s') \/ (exists s1, r = SBroke s1 /\ kb s1 = SBroke s').
Proof. intros r kd kb s' H. destruct r; cbn in H; try discriminate; eauto. Qed.

Lemma do_iter_never_broke : forall body pl k s s', do_iter body pl k s <> SBroke s'.
Proof.
  intros body pl. induction k as [| k IH]; intros s s' H; [ discriminate | ].
  rewrite do_iter_S in H. apply broke_on_res in H as [(s3 & E & H) | (s3 & E & H)].
  - apply run_m_broke_inv in H as (more & s4 & E4 & H). destruct more.
    + eapply IH; eauto.
    + apply run_m_broke_inv in H as (l & s5 & _ & H). discriminate.
  - apply run_m_broke_inv in H as (l & s5 & _ & H). discriminate.
Qed.

Section NoBreak.
  Variable fo : fops.
  Variable funs : list (nat * list stmt).
  Hypothesis Hnb : funs_nobreak funs.
  Notation sblock := (sblock fo funs).
  Notation sstmt := (sstmt fo funs).

  Lemma case_go_nobreak : forall blk d,
    (forall l s s', has_own_break_block l = false -> blk l s <> SBroke s') ->
    has_own_break_block d = false ->
    forall arms s s', has_own_break_arms arms = false -> case_go blk d arms s <> SBroke s'.
  Proof.
    intros blk d Hblk Hd. induction arms as [| [[pre pof] body] r IH]; intros s s' Ha H.
    - rewrite case_go_nil in H. eapply Hblk; eauto.
    - rewrite case_go_cons in H. cbn [has_own_break_arms] in Ha.
      apply orb_false_elim in Ha as [Ha Hr]. apply orb_false_elim in Ha as [Hp Hbd].
      apply broke_on_res in H as [(s1 & E & H) | (s1 & E & H)].
      + apply run_m_broke_inv in H as (eq & s2 & _ & H). destruct eq.
        * apply run_m_broke_inv in H as (c & s3 & _ & H). eapply Hblk; [ exact Hbd | exact H ].
        * eapply IH; eauto.
      + eapply Hblk; [ exact Hp | exact E ].
  Qed.

  Lemma nobreak_both : forall f,
    (forall b s s', has_own_break_block b = false -> sblock f b s <> SBroke s') /\
    (forall x s s', has_own_break x = false -> sstmt f x s <> SBroke s').
  Proof.
    induction f as [| f [IHb IHs]].
    - split; intros; discriminate.
    - assert (Hb : forall b s s', has_own_break_block b = false -> sblock (S f) b s <> SBroke s').
      { intros b s s' Hok H. destruct b as [| x r].
        - discriminate.
        - rewrite sblock_cons in H. cbn [has_own_break_block] in Hok.
          apply orb_false_elim in Hok as [Hx Hr].
          apply broke_on_res in H as [(s1 & E & H) | (s1 & E & H)].
          + eapply IHb; eauto.
          + eapply IHs; [ exact Hx | exact E ]. }
      split; [ exact Hb | ].
      intros x s s' Hok H.
      destruct x as [c p | w p | g p | a p | a p | i p | i p | p t | p t e | arms d | b p | b | c p b | p b pl | | g].
      + rewrite sstmt_SLit in H. apply run_m_broke_inv in H as (a & s1 & _ & H). discriminate.
      + rewrite sstmt_SPrim in H. destruct (native_fn fo w); [ | discriminate ].
        apply run_m_broke_inv in H as (a & s1 & _ & H). discriminate.
      + rewrite sstmt_SCall in H. destruct (fun_body funs g) as [body |] eqn:Eb; [ | discriminate ].
        apply run_m_broke_inv in H as (a & s1 & _ & H).
        apply broke_on_res in H as [(s2 & E & H) | (s2 & E & H)].
        * apply run_m_broke_inv in H as (fr & s3 & _ & H). discriminate.
        * eapply IHb; [ exact (Hnb g body Eb) | exact E ].
      + rewrite sstmt_SGet in H. apply run_m_broke_inv in H as (x & s1 & _ & H). discriminate.
      + rewrite sstmt_SSet in H. apply run_m_broke_inv in H as (x & s1 & _ & H). discriminate.
      + rewrite sstmt_SLocGet in H. apply run_m_broke_inv in H as (x & s1 & _ & H). discriminate.
      + rewrite sstmt_SLocSet in H. apply run_m_broke_inv in H as (x & s1 & _ & H). discriminate.
      + rewrite sstmt_SIf in H. rewrite has_own_break_SIf in Hok.
        apply run_m_broke_inv in H as (c & s1 & _ & H). destruct c; [ | discriminate ].
        eapply IHb; eauto.
      + rewrite sstmt_SIfE in H. rewrite has_own_break_SIfE in Hok.
        apply orb_false_elim in Hok as [Ht He].
        apply run_m_broke_inv in H as (c & s1 & _ & H).
        destruct c; [ eapply IHb; [ exact Ht | exact H ] | eapply IHb; [ exact He | exact H ] ].
      + rewrite sstmt_SCase in H. rewrite has_own_break_SCase in Hok.
        apply orb_false_elim in Hok as [Ha Hd].
        eapply case_go_nobreak; [ exact IHb | exact Hd | exact Ha | exact H ].
      + rewrite sstmt_SUntil in H. pose proof Hok as Hok0. rewrite has_own_break_SUntil in Hok.
        apply broke_on_res in H as [(s1 & E & H) | (s1 & E & H)].
        * apply run_m_broke_inv in H as (c & s2 & _ & H). destruct c; [ discriminate | ].
          eapply IHs; [ exact Hok0 | exact H ].
        * eapply IHb; [ exact Hok | exact E ].
      + rewrite sstmt_SRepeat in H.
        apply broke_on_res in H as [(s1 & E & H) | (s1 & E & H)]; [ | discriminate ].
        eapply IHs; [ | exact H ]. reflexivity.
      + rewrite sstmt_SWhile in H.
        apply broke_on_res in H as [(s1 & E & H) | (s1 & E & H)]; [ | discriminate ].
        apply run_m_broke_inv in H as (go & s2 & _ & H). destruct go; [ | discriminate ].
        apply broke_on_res in H as [(s3 & E3 & H) | (s3 & E3 & H)]; [ | discriminate ].
        eapply IHs; [ | exact H ]. reflexivity.
      + rewrite sstmt_SDo in H. apply run_m_broke_inv in H as (l & s1 & _ & H).
        destruct (l_end l <=? l_start l)%Z; [ discriminate | ].
        apply run_m_broke_inv in H as (a & s2 & _ & H). eapply do_iter_never_broke; eauto.
      + discriminate.
      + discriminate.
  Qed.

  Theorem nobreak_block : forall f b s s', has_own_break_block b = false -> sblock f b s <> SBroke s'.
  Proof. intro f. exact (proj1 (nobreak_both f)). Qed.
  Theorem nobreak_stmt : forall f x s s', has_own_break x = false -> sstmt f x s <> SBroke s'.
  Proof. intro f. exact (proj2 (nobreak_both f)). Qed.

  (* the loops that catch their breaks, and calls, never stop at a break *)
  Corollary repeat_never_broke : forall f b s s', sstmt f (SRepeat b) s <> SBroke s'.
  Proof. intros. apply nobreak_stmt. reflexivity. Qed.
  Corollary while_never_broke : forall f c p b s s', sstmt f (SWhile c p b) s <> SBroke s'.
  Proof. intros. apply nobreak_stmt. reflexivity. Qed.
  Corollary do_never_broke : forall f p b pl s s', sstmt f (SDo p b pl) s <> SBroke s'.
  Proof. intros. apply nobreak_stmt. reflexivity. Qed.
  Corollary call_never_broke : forall f g p s s', sstmt f (SCall g p) s <> SBroke s'.
  Proof. intros. apply nobreak_stmt. reflexivity. Qed.
End NoBreak.

(* ---------- the return stack ---------- *)
(* same frames below the top; the top frame is the same function activation (its locals may differ) *)
Definition rs_sim (a b : list frame) : Prop :=
  match a, b with
  | [], [] => True
  | f :: r, f' :: r' => r' = r /\ fn_addr f' = fn_addr f /\ return_to f' = return_to f
  | _, _ => False
  end.

Lemma rs_sim_refl : forall a, rs_sim a a.
Proof. destruct a; cbn; auto. Qed.
Lemma rs_sim_trans : forall a b c, rs_sim a b -> rs_sim b c -> rs_sim a c.
Proof.
  intros [| f r] [| f' r'] [| f'' r''] H G; cbn in *; try contradiction; auto.
  destruct H as (H1 & H2 & H3), G as (G1 & G2 & G3). repeat split; congruence.
Qed.
Lemma rs_sim_eq : forall a b, a = b -> rs_sim a b.
Proof. intros; subst; apply rs_sim_refl. Qed.
Lemma rs_sim_length : forall a b, rs_sim a b -> length b = length a.
Proof. intros [| f r] [| f' r'] H; cbn in *; try contradiction; auto. destruct H as (-> & _). reflexivity. Qed.
Lemma rs_sim_tl : forall a b, rs_sim a b -> tl b = tl a.
Proof. intros [| f r] [| f' r'] H; cbn in *; try contradiction; auto. tauto. Qed.

Definition rkeeps2 (s s' : state) : Prop := cx s' = cx s /\ rs_sim (rs s) (rs s').
Definition rkeeps3 (s s' : state) : Prop := cx s' = cx s /\ rs s' = rs s.

Lemma rkeeps2_refl : forall s, rkeeps2 s s.
Proof. intro; split; [ reflexivity | apply rs_sim_refl ]. Qed.
Lemma rkeeps2_trans : forall a b c, rkeeps2 a b -> rkeeps2 b c -> rkeeps2 a c.
Proof. intros a b c [H1 H2] [G1 G2]. split; [ congruence | eapply rs_sim_trans; eauto ]. Qed.
Lemma rkeeps3_refl : forall s, rkeeps3 s s.
Proof. intro; split; reflexivity. Qed.
Lemma rkeeps3_trans : forall a b c, rkeeps3 a b -> rkeeps3 b c -> rkeeps3 a c.
Proof. intros a b c [H1 H2] [G1 G2]. split; congruence. Qed.
Lemma rkeeps3_2 : forall s s', rkeeps3 s s' -> rkeeps2 s s'.
Proof. intros s s' [H1 H2]. split; [ assumption | apply rs_sim_eq; auto ]. Qed.
Lemma keeps_rkeeps3 : forall fe s s', keeps fe s s' -> rkeeps3 s s'.
Proof. intros fe s s' (H1 & H2 & _). split; assumption. Qed.

(* the trips of a counted loop, for a relation that the loop instructions respect *)
Lemma do_iter_chain : forall (R : state -> state -> Prop) (body : state -> sres) pl,
  (forall s, R s s) -> (forall a b c, R a b -> R b c -> R a c) ->
  (forall s m s', loop_next s = ROk m s' -> R s s') ->
  (forall s l s', pop_loop s = ROk l s' -> R s s') ->
  (forall s s', fin (body s) = Some s' -> R s s') ->
  forall k s s', fin (do_iter body pl k s) = Some s' -> R s s'.
Proof.
  intros R body pl Rr Rt Rn Rp Rb. induction k as [| k IH]; intros s s' H; [ discriminate | ].
  rewrite do_iter_S in H. apply fin_on_res in H as [(s3 & E & H) | (s3 & E & H)].
  - eapply Rt; [ apply Rb; rewrite E; reflexivity | ].
    apply fin_run_m in H as (more & s4 & E4 & H). eapply Rt; [ eapply Rn; eauto | ].
    destruct more; [ apply IH; assumption | ].
    apply fin_run_m in H as (l5 & s5 & E5 & H). injection H as <-. eapply Rp; eauto.
  - eapply Rt; [ apply Rb; rewrite E; reflexivity | ].
    apply fin_run_m in H as (l5 & s5 & E5 & H). injection H as <-. eapply Rp; eauto.
Qed.

Definition ok_any (x : stmt) : bool := true.
Definition ok_nolocal (x : stmt) : bool := match x with SLocSet _ _ => false | _ => true end.

(* the block declares no local at its own level (callees may) *)
Definition no_local_block : list stmt -> bool := all_block ok_nolocal.
Definition no_local_stmt : stmt -> bool := all_stmt ok_nolocal.

Lemma ok_any_all : (forall x, all_stmt ok_any x = true) /\ (forall l, all_block ok_any l = true).
Proof. apply all_stmt_true. reflexivity. Qed.

Section Rs.
  Variable fo : fops.
  Variable funs : list (nat * list stmt).
  Hypothesis Hnb : funs_nobreak funs.
  Notation sblock := (sblock fo funs).
  Notation sstmt := (sstmt fo funs).

  Lemma rs_prim : forall w m s s', native_fn fo w = Some m -> m s = ROk tt s' -> rkeeps3 s s'.
  Proof.
    intros w m s s' En E. pose proof (native_keeps fo w m s En) as K. rewrite E in K.
    eapply keeps_rkeeps3; exact K.
  Qed.

  Lemma rs_do3 : forall (body : state -> sres) pl l k s1 s2 s',
    (forall s s', fin (body s) = Some s' -> rkeeps3 s s') ->
    push_loop l s1 = ROk tt s2 -> fin (do_iter body pl k s2) = Some s' -> rkeeps3 s1 s'.
  Proof.
    intros body pl l k s1 s2 s' Hbody E2 H. apply push_loop_ok in E2 as (_ & C2 & R2).
    eapply rkeeps3_trans; [ split; eassumption | ].
    eapply (do_iter_chain rkeeps3); [ apply rkeeps3_refl | apply rkeeps3_trans | | | exact Hbody | exact H ].
    - intros s m s0 E. apply loop_next_ok in E as (C & R & _). split; assumption.
    - intros s l0 s0 E. apply pop_loop_ok in E as (_ & C & R). split; assumption.
  Qed.

  Lemma rs_do2 : forall (body : state -> sres) pl l k s1 s2 s',
    (forall s s', fin (body s) = Some s' -> rkeeps2 s s') ->
    push_loop l s1 = ROk tt s2 -> fin (do_iter body pl k s2) = Some s' -> rkeeps2 s1 s'.
  Proof.
    intros body pl l k s1 s2 s' Hbody E2 H. apply push_loop_ok in E2 as (_ & C2 & R2).
    eapply rkeeps2_trans; [ apply rkeeps3_2; split; eassumption | ].
    eapply (do_iter_chain rkeeps2); [ apply rkeeps2_refl | apply rkeeps2_trans | | | exact Hbody | exact H ].
    - intros s m s0 E. apply loop_next_ok in E as (C & R & _). apply rkeeps3_2. split; assumption.
    - intros s l0 s0 E. apply pop_loop_ok in E as (_ & C & R). apply rkeeps3_2. split; assumption.
  Qed.

  (* a call: the callee's frame is pushed, belongs to the callee, and is popped *)
  Lemma rs_call_gen : forall f g p s s',
    (forall body s s', fun_body funs g = Some body -> fin (sblock f body s) = Some s' -> rkeeps2 s s') ->
    fin (sstmt (S f) (SCall g p) s) = Some s' -> rkeeps3 s s'.
  Proof.
    intros f g p s s' IH H. rewrite sstmt_SCall in H.
    destruct (fun_body funs g) as [body |] eqn:Eb; [ | discriminate ].
    apply fin_run_m in H as ([] & s1 & E1 & H). apply push_return_ok in E1 as (_ & C1 & R1).
    apply fin_on_res in H as [(s2 & E & H) | (s2 & E & H)].
    - apply fin_run_m in H as (fr & s3 & E3 & H). injection H as <-.
      apply pop_return_ok in E3 as (_ & C3 & R3).
      destruct (IH body s1 s2 eq_refl (fin_done _ _ E)) as [C2 S2].
      rewrite R1, R3 in S2. cbn in S2. destruct S2 as (S2 & _).
      split; congruence.
    - exfalso. eapply (nobreak_block fo funs Hnb); [ exact (Hnb g body Eb) | exact E ].
  Qed.

  Lemma rs_locset2 : forall i v s s', init_local i v s = ROk tt s' -> rkeeps2 s s'.
  Proof.
    intros i v s s' E. apply init_local_ok in E as (_ & C & f & r & E1 & E2).
    split; [ assumption | ]. rewrite E1, E2. cbn. auto.
  Qed.

  (* up to the locals of the current frame, for every block *)
  Theorem rs_hygiene_block : forall f b s s', fin (sblock f b s) = Some s' -> rkeeps2 s s'.
  Proof.
    intros f b s s' H.
    eapply (gen_block fo funs rkeeps2 ok_any); try exact H; try apply ok_any_all.
    - apply rkeeps2_refl.
    - apply rkeeps2_trans.
    - intros s0 s0' K. apply rkeeps3_2. eapply keeps_rkeeps3; eauto.
    - intros w p m s0 s0' _ En E. apply rkeeps3_2. eapply rs_prim; eauto.
    - intros i p v s0 s0' _ E. eapply rs_locset2; eauto.
    - intros f0 g p s0 s0' _ IH H0. apply rkeeps3_2. eapply rs_call_gen; [ | exact H0 ].
      intros body s1 s2 _ F. eapply IH; [ apply ok_any_all | exact F ].
    - exact rs_do2.
  Qed.

  Theorem rs_hygiene_stmt : forall f x s s', fin (sstmt f x s) = Some s' -> rkeeps2 s s'.
  Proof.
    intros f x s s' H.
    eapply (gen_stmt fo funs rkeeps2 ok_any); try exact H; try apply ok_any_all.
    - apply rkeeps2_refl.
    - apply rkeeps2_trans.
    - intros s0 s0' K. apply rkeeps3_2. eapply keeps_rkeeps3; eauto.
    - intros w p m s0 s0' _ En E. apply rkeeps3_2. eapply rs_prim; eauto.
    - intros i p v s0 s0' _ E. eapply rs_locset2; eauto.
    - intros f0 g p s0 s0' _ IH H0. apply rkeeps3_2. eapply rs_call_gen; [ | exact H0 ].
      intros body s1 s2 _ F. eapply IH; [ apply ok_any_all | exact F ].
    - exact rs_do2.
  Qed.

  (* a call leaves the return stack exactly as it found it *)
  Theorem call_keeps_rs : forall f g p s s',
    sstmt f (SCall g p) s = SDone s' -> rs s' = rs s /\ cx s' = cx s.
  Proof.
    intros f g p s s' H. destruct f as [| f]; [ discriminate | ].
    assert (K : rkeeps3 s s').
    { eapply rs_call_gen; [ | rewrite H; reflexivity ].
      intros body s1 s2 _ F. eapply rs_hygiene_block; eauto. }
    destruct K; split; assumption.
  Qed.

  (* exactly, for a block that declares no local at its own level *)
  Theorem rs_exact_block : forall f b s s',
    no_local_block b = true -> fin (sblock f b s) = Some s' -> rkeeps3 s s'.
  Proof.
    intros f b s s' Hb H.
    eapply (gen_block fo funs rkeeps3 ok_nolocal); try exact H; try exact Hb.
    - apply rkeeps3_refl.
    - apply rkeeps3_trans.
    - intros s0 s0' K. eapply keeps_rkeeps3; eauto.
    - intros w p m s0 s0' _ En E. eapply rs_prim; eauto.
    - intros i p v s0 s0' Hok _. discriminate.
    - intros f0 g p s0 s0' _ _ H0. eapply rs_call_gen; [ | exact H0 ].
      intros body s1 s2 _ F. eapply rs_hygiene_block; eauto.
    - exact rs_do3.
  Qed.

  Theorem rs_exact_stmt : forall f x s s',
    no_local_stmt x = true -> fin (sstmt f x s) = Some s' -> rkeeps3 s s'.
  Proof.
    intros f x s s' Hx H.
    eapply (gen_stmt fo funs rkeeps3 ok_nolocal); try exact H; try exact Hx.
    - apply rkeeps3_refl.
    - apply rkeeps3_trans.
    - intros s0 s0' K. eapply keeps_rkeeps3; eauto.
    - intros w p m s0 s0' _ En E. eapply rs_prim; eauto.
    - intros i p v s0 s0' Hok _. discriminate.
    - intros f0 g p s0 s0' _ _ H0. eapply rs_call_gen; [ | exact H0 ].
      intros body s1 s2 _ F. eapply rs_hygiene_block; eauto.
    - exact rs_do3.
  Qed.
End Rs.
