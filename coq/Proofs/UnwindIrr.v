(* UnwindIrr.v (C10 / C15): a stronger version [wx] of the syntactic class [wl] of VmFrame.v.
   A [wx] program reads the machine state only through the fields that matter for execution:
   the side condition of [wx_get_bind] says that the continuation is unchanged (by
   conversion) when the debug map, the sources, the input, the nested contexts, the meter,
   the reverse log, the captured output, the last-token record, the stop flag and the marks
   cs_len / fs_len / di_len of the current context are replaced by anything.  Every native
   word and every instruction is such a program (same proof as for [wl]). *)
From Xeh Require Import Model.Prelude Model.Bits Model.Codec Model.Cell Model.Lexer Model.Fmt
                        Model.Vm Model.Words Proofs.VmFrame.
Local Notation length := List.length.

#[local] Arguments Z.add : simpl never.
#[local] Arguments Z.sub : simpl never.
#[local] Arguments Z.mul : simpl never.
#[local] Arguments Z.ltb : simpl never.
#[local] Arguments Z.leb : simpl never.
#[local] Arguments Z.eqb : simpl never.
#[local] Arguments Z.of_nat : simpl never.
#[local] Arguments Z.to_nat : simpl never.

(* replace everything that execution does not read *)
Definition irr (s0 : state) (dg : list tokref) (so : list string) (inp : list inlex) (nes : list ctx)
               (me : Z) (rl : option (list rstep)) (ou : string) (lt : option tokref) (sg : bool)
               (cs fs di : nat) : state :=
  mkstate (dict s0) (heap s0) (code s0) dg so inp (ds s0) (rs s0) (flows s0) (loops s0) (special s0)
          (mkctx (ds_len (cx s0)) cs (rs_len (cx s0)) fs (ls_len (cx s0)) (ss_ptr (cx s0)) di
                 (cip (cx s0)) (cmode (cx s0)))
          nes me (insn_limit s0) (heap_limit s0) (stack_limit s0) rl ou lt sg.

(* ---------- programs built from the logging primitives ---------- *)
Inductive wx : forall {A : Type}, M A -> Prop :=
| wx_ret : forall A (a : A), wx (ret a)
| wx_fail : forall A k p, wx (@fail A k p)
| wx_unsup : forall A, wx (@unsup A)
| wx_panic : forall A, wx (@panic A)
| wx_bind : forall A B (m : M A) (f : A -> M B), wx m -> (forall a, wx (f a)) -> wx (bind m f)
  (* reading the state: the continuation may use the dictionary, the heap, the code, the
     stacks, the limits and the marks ds_len / rs_len / ls_len / ss_ptr / ip / mode of the
     current context - nothing else *)
| wx_get_bind : forall B (k : state -> M B),
    (forall s0, wx (k s0)) ->
    (forall s0 dg so inp nes me rl ou lt sg cs fs di s,
        k (irr s0 dg so inp nes me rl ou lt sg cs fs di) s = k s0 s) ->
    wx (bind get k)
| wx_set_stopping : forall b, wx (modify (fun s => set_stopping s b))
| wx_push_data : forall c, wx (push_data c)
| wx_pop_data : wx pop_data
| wx_top_data : wx top_data
| wx_swap_data : wx swap_data
| wx_rot_data : wx rot_data
| wx_over_data : wx over_data
| wx_push_return : forall f, wx (push_return f)
| wx_pop_return : wx pop_return
| wx_top_frame : wx top_frame
| wx_push_loop : forall l, wx (push_loop l)
| wx_pop_loop : wx pop_loop
| wx_loop_next : wx loop_next
| wx_loop_set_items : forall c, wx (loop_set_items c)
| wx_push_special : forall p, wx (push_special p)
| wx_pop_special : wx pop_special
| wx_get_var : forall a, wx (get_var a)
| wx_set_var : forall a v, wx (set_var a v)
| wx_init_local : forall i v, wx (init_local i v)
| wx_set_ip : forall n, wx (set_ip n)
| wx_next_ip : wx next_ip
| wx_print : forall msg, wx (print msg).

(* ---------- the tactic that recognises a [wx] program ---------- *)

Ltac wx_prim :=
  lazymatch goal with
  | |- wx (ret _) => apply wx_ret
  | |- wx (fail _ _) => apply wx_fail
  | |- wx unsup => apply wx_unsup
  | |- wx panic => apply wx_panic
  | |- wx (modify (fun s => set_stopping s _)) => apply wx_set_stopping
  | |- wx (push_data _) => apply wx_push_data
  | |- wx pop_data => apply wx_pop_data
  | |- wx top_data => apply wx_top_data
  | |- wx swap_data => apply wx_swap_data
  | |- wx rot_data => apply wx_rot_data
  | |- wx over_data => apply wx_over_data
  | |- wx (push_return _) => apply wx_push_return
  | |- wx pop_return => apply wx_pop_return
  | |- wx top_frame => apply wx_top_frame
  | |- wx (push_loop _) => apply wx_push_loop
  | |- wx pop_loop => apply wx_pop_loop
  | |- wx loop_next => apply wx_loop_next
  | |- wx (loop_set_items _) => apply wx_loop_set_items
  | |- wx (push_special _) => apply wx_push_special
  | |- wx pop_special => apply wx_pop_special
  | |- wx (get_var _) => apply wx_get_var
  | |- wx (set_var _ _) => apply wx_set_var
  | |- wx (init_local _ _) => apply wx_init_local
  | |- wx (set_ip _) => apply wx_set_ip
  | |- wx next_ip => apply wx_next_ip
  | |- wx (print _) => apply wx_print
  end.

Create HintDb wxdb.

Ltac wx_step :=
  cbv beta zeta;
  first
    [ wx_prim
    | solve [ auto 2 with wxdb nocore ]
    | lazymatch goal with
      | |- wx (bind get _) => apply wx_get_bind; [ intro | intros; reflexivity ]
      | |- wx (bind _ _) => apply wx_bind; [ | intro ]
      | |- wx (match ?x with _ => _ end) => destruct x
      | |- wx ?m => let h := head_of m in unfold h
      end ].

Ltac wx_solve := repeat wx_step.

(* ---------- the recursive helpers ---------- *)
Lemma wx_pop_n : forall n, wx (pop_n n).
Proof. induction n; cbn [pop_n]; wx_solve. Qed.
#[export] Hint Resolve wx_pop_n : wxdb.

Lemma wx_push_all : forall l, wx (push_all l).
Proof. induction l; cbn [push_all]; wx_solve. Qed.
#[export] Hint Resolve wx_push_all : wxdb.

(* ---------- the words ---------- *)
Lemma wx_word_table : forall fo, Forall (fun nw => wx (snd nw)) (word_table fo).
Proof.
  intro fo. unfold word_table.
  repeat (apply Forall_cons; [ cbn [snd]; wx_solve | ]).
  apply Forall_nil.
Qed.

Lemma wx_sized_word : forall fo name w, sized_word fo name = Some w -> wx w.
Proof.
  intros fo name w H. unfold sized_word in H. cbv beta zeta in H.
  repeat match type of H with
         | context [if ?b then _ else _] =>
           destruct b; cbv beta iota in H;
           [ injection H as <-; wx_solve | ]
         end.
  discriminate.
Qed.

Theorem native_wx : forall fo w f, native_fn fo w = Some f -> wx f.
Proof.
  intros fo w f H. unfold native_fn in H.
  destruct (table_find (word_table fo) w) eqn:E.
  - injection H as <-. eapply table_find_Forall with (P := fun m => wx m); [ apply wx_word_table | exact E ].
  - eapply wx_sized_word; eauto.
Qed.

(* [exec_op] over a table of [wx] words is a [wx] program *)
Lemma wx_exec_op : forall (nf : natives),
  (forall w f, nf w = Some f -> wx f) ->
  forall ip0 op, wx (exec_op nf ip0 op).
Proof.
  intros nf Hnf ip0 op. destruct op; cbn [exec_op];
    try (wx_solve; fail).
  destruct (nf w) eqn:E; wx_solve. eapply Hnf; eauto.
Qed.

