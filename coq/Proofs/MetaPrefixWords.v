(* MetaPrefixWords.v (C11): the frame [F2 cs di] for the table of immediate words. *)
From Xeh Require Import Model.Prelude Model.Bits Model.Codec Model.Cell Model.Lexer Model.Fmt
                        Model.Vm Model.Words Model.Build.
From Xeh Require Import Proofs.VmFrame Proofs.VmLimits Proofs.NoPanic Proofs.NoPanicBuild Proofs.NoPanicFlow
                        Proofs.MetaBase Proofs.MetaPurge Proofs.MetaBuild Proofs.MetaPrefix
                        Proofs.MetaPrefixBuild.
Local Notation length := List.length.
Local Open Scope list_scope.
Local Open Scope string_scope.

Section Words3.
  Variable cs di : nat.
  Notation F := (F2 cs di).

  Lemma fpp_emit_native w s : fpa F s (emit_native w).
  Proof. fpp_solve. Qed.
  Lemma fpp_code_emit_value v s : fpa F s (code_emit_value v).
  Proof. fpp_solve. Qed.

  Lemma fpp_build_local_variable name s : fpa F s (build_local_variable name).
  Proof.
    revert s. change (fp F (build_local_variable name)). unfold build_local_variable. fpp_solve.
    apply R2_set_locals. assumption.
  Qed.

  Lemma fpp_build_global_variable name s : fpa F s (build_global_variable name).
  Proof. unfold build_global_variable. fpp_solve. Qed.

  Lemma fpp_i_def_end s : fpa F s i_def_end.
  Proof.
    revert s. change (fp F i_def_end). unfold i_def_end. fpp_solve.
    match goal with
    | H : set_dict_len _ _ _ = Some _ |- _ =>
      unfold set_dict_len in H;
      repeat match type of H with
             | match ?x with _ => _ end = _ => destruct x eqn:?; try discriminate H
             end;
      injection H as <-
    end.
    apply R2_set_dict_ge; [assumption|]. cbn [popQ fok] in *. lia.
  Qed.

  Lemma fpp_i_immediate s : fpa F s i_immediate.
  Proof.
    revert s. change (fp F i_immediate). unfold i_immediate. fpp_solve.
    apply R2_set_dict_ge; [assumption|].
    match goal with
    | H : top_function_flow ?s = Some (?d, _, _), U : UP _ _ ?s |- _ =>
      unfold top_function_flow in H; eapply find_fun_fok; [exact U|exact H]
    end.
  Qed.

  Lemma fpp_i_const pr s : fpa F s (i_const pr).
  Proof.
    revert s. change (fp F (i_const pr)). unfold i_const. fpp_solve.
    match goal with
    | H1 : nth_error (dict ?s) ?p = Some ?e, H2 : dent ?e = DConst _ |- _ =>
      apply R2_set_dict_const; [assumption|exact H1|unfold is_dconst; rewrite H2; reflexivity]
    end.
  Qed.
End Words3.

#[export] Hint Resolve fpp_emit_native fpp_code_emit_value fpp_build_local_variable
  fpp_build_global_variable fpp_i_def_end fpp_i_immediate fpp_i_const : fppdb.

Section Words4.
  Variable cs di : nat.
  Notation F := (F2 cs di).

  Lemma fpp_build_let_named w s : fpa F s (build_let_named w).
  Proof. fpp_solve. Qed.
  Lemma fpp_build_let_match v s : fpa F s (build_let_match v).
  Proof. fpp_solve. Qed.
  Lemma fpp_let_vec_next i s : fpa F s (let_vec_next i).
  Proof. fpp_solve. Qed.

  Lemma fpp_i_loop s : fpa F s i_loop.
  Proof.
    revert s. change (fp F i_loop). unfold i_loop. fpp_solve.
    apply fpp_loop_loop. unfold code_origin. lia.
  Qed.
End Words4.

#[export] Hint Resolve fpp_build_let_named fpp_build_let_match fpp_let_vec_next fpp_i_loop : fppdb.

Section Let4.
  Variable cs di : nat.
  Variable pr : string -> option Z.
  Notation F := (F2 cs di).

  Lemma fpp_build_let : forall f,
    fp F (build_let_in pr f) /\ fp F (build_let_tags pr f) /\ fp F (build_let_map pr f) /\
    (forall i, fp F (build_let_vec pr f i)).
  Proof.
    induction f as [|f (IHin & IHtags & IHmap & IHvec)].
    - repeat split; intros; apply fp_unsup.
    - assert (Hmap : fp F (build_let_map pr (S f))).
      { rewrite build_let_map_S. apply fp_bind; [exact (fpp_emit_native cs di _)|intros _].
        generalize (S f) as k. induction k as [|k IHk]; cbn [let_map_go]; [apply fp_unsup|].
        fold (let_map_go pr f) in *. fpp_solve. }
      assert (Hvec : forall i, fp F (build_let_vec pr (S f) i)).
      { intros i. rewrite build_let_vec_S. revert i.
        generalize (S f) as k. induction k as [|k IHk]; intros i; cbn [let_vec_go]; [apply fp_unsup|].
        fold (let_vec_go pr f) in *. fpp_solve. }
      assert (Htags : fp F (build_let_tags pr (S f))) by (cbn [build_let_tags]; fpp_solve).
      assert (Hin : fp F (build_let_in pr (S f))) by (cbn [build_let_in]; fpp_solve).
      repeat split; assumption.
  Qed.

  Lemma fpp_build_let_in f : fp F (build_let_in pr f).
  Proof. exact (proj1 (fpp_build_let f)). Qed.
End Let4.

Section Top4.
  Variable cs di : nat.
  Variable fo : fops.
  Variable pr : string -> option Z.
  Variable rf : nat.
  Notation F := (F2 cs di).

  Lemma fpp_immediate_fn : forall fuel name w,
    immediate_fn fo pr rf fuel name = Some w -> ctx_word name = false -> fp F w.
  Proof.
    intros fuel name w H Hc. unfold immediate_fn in H. cbv zeta in H.
    eapply table_find_filter with (P := fun m => fp F m); [|exact H|exact Hc].
    pose proof (fpp_build_let_in cs di pr fuel) as HL.
    repeat (apply Forall_cons;
            [ cbn [fst snd]; intros Hcw;
              first [ discriminate Hcw | fpp_solve ] | ]).
    apply Forall_nil.
  Qed.

  Lemma fpp_run_interp fuel x : fp F (run_immediate fo pr rf fuel (FInterp x)).
  Proof. unfold run_immediate. fpp_solve. Qed.
End Top4.
