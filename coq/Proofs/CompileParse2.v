(* CompileParse2.v: the induction over the parser [pseq]: what it returns is well formed. *)
From Xeh Require Import Model.Prelude Model.Bits Model.Codec Model.Cell Model.Lexer Model.Fmt
                        Model.Vm Model.Words Model.Struct
                        Proofs.CompileLayout Proofs.CompileProg Proofs.CompileParse.
Local Notation length := List.length.

Section Parse.
  Variable fo : fops.
  Variable pr : string -> option Z.

  Definition Spec (f : nat) : Prop :=
    forall toks e terms acc brk, funs_good (funs e) ->
      good_res e acc brk (pseq fo pr f toks e terms acc brk).

  (* a nested block: parsed with an empty accumulator and no pending break *)
  Lemma inner_ok : forall f toks e0 terms0 tb term tp r1 e1 b1,
    Spec f -> funs_good (funs e0) ->
    pseq fo pr f toks e0 terms0 [] false = POk tb term tp r1 e1 b1 ->
    Forall wf_s tb /\ (b1 = false -> Forall nb_s tb) /\ estep e0 e1 (ddefs_b tb) /\ funs_good (funs e1) /\
    loopdepth e1 = loopdepth e0 /\ (loopdepth e0 = 0 -> b1 = false).
  Proof.
    intros f toks e0 terms0 tb term tp r1 e1 b1 IH Hf E.
    pose proof (IH toks e0 terms0 [] false Hf) as H. rewrite E in H. cbn [good_res] in H.
    destruct H as (news & Hb & W & B & Es & F & L1 & L2). cbn [rev app] in Hb. subst tb.
    split; [exact W|]. split; [intro Hq; apply (B Hq)|]. repeat (split; [assumption|]). exact L2.
  Qed.

  (* the loop over the arms of case *)
  Section PArms.
    Variables (f : nat) (e : penv) (terms : list string) (acc : list stmt).
    Fixpoint parms (k : nat) (toks : list (tok * nat * nat)) (e' : penv) (got : list arm) (brk' : bool) : pres :=
      match k with
      | O => PUnsup
      | S k' =>
        match pseq fo pr f toks e' ["of"%string; "endcase"%string] [] false with
        | POk pre "of"%string pof r1 e1 b1 =>
          match pseq fo pr f r1 e1 ["endof"%string] [] false with
          | POk body "endof"%string _ r2 e2 b2 =>
            parms k' r2 e2 (got ++ [(pre, pof, body)])%list (brk' || b1 || b2)
          | POk _ _ _ _ _ _ => PErr EFlow
          | x => x
          end
        | POk dflt "endcase"%string _ r1 e1 b1 =>
          pseq fo pr f r1 (leave e e1) terms (SCase got dflt :: acc) (brk' || b1)
        | POk _ _ _ _ _ _ => PErr EFlow
        | x => x
        end
      end.
  End PArms.

  Lemma orb_false3 : forall a b c, a || b || c = false -> a = false /\ b = false /\ c = false.
  Proof. intros [] [] []; cbn; intro H; try discriminate; auto. Qed.
  Lemma orb_false2 : forall a b, a || b = false -> a = false /\ b = false.
  Proof. intros [] []; cbn; intro H; try discriminate; auto. Qed.

  Lemma parms_ok : forall f e terms acc brk, Spec f -> funs_good (funs e) ->
    forall k toks e' got brk',
      Forall arm_wf got -> (brk' = false -> brk = false /\ Forall arm_nb got) ->
      estep e e' (ddefs_a got) -> funs_good (funs e') ->
      loopdepth e' = loopdepth e -> (loopdepth e = 0 -> brk' = brk) ->
      good_res e acc brk (parms f e terms acc k toks e' got brk').
  Proof.
    intros f e terms acc brk IH Hf. induction k as [|k IHk]; intros toks e' got brk' Wg Bg Eg Fg Lg Dg; [exact I|].
    cbn [parms].
    destruct (pseq fo pr f toks e' ["of"%string; "endcase"%string] [] false) as [pre term pof r1 e1 b1|?|] eqn:E1;
      [|exact I|exact I].
    destruct (inner_ok _ _ _ _ _ _ _ _ _ _ IH Fg E1) as (W1 & B1 & Es1 & F1 & L1 & D1).
    apply m2_of_endcase; [intros _| intros _ |exact I].
    - (* of *)
      destruct (pseq fo pr f r1 e1 ["endof"%string] [] false) as [body term2 tp2 r2 e2 b2|?|] eqn:E2;
        [|exact I|exact I].
      destruct (inner_ok _ _ _ _ _ _ _ _ _ _ IH F1 E2) as (W2 & B2 & Es2 & F2 & L2 & D2).
      apply m1_endof; [intros _|exact I].
      apply IHk.
      + apply Forall_app. split; [exact Wg|]. constructor; [|constructor].
        split; cbn [fst snd]; apply wf_b_Forall; assumption.
      + intro Hq. apply orb_false3 in Hq. destruct Hq as (Q1 & Q2 & Q3). destruct (Bg Q1) as [Q4 Q5].
        split; [exact Q4|]. apply Forall_app. split; [exact Q5|]. constructor; [|constructor].
        split; cbn [fst snd]; apply nb_b_Forall; auto.
      + rewrite ddefs_a_app. cbn [ddefs_a]. rewrite app_nil_r.
        eapply estep_trans; [exact Eg|]. eapply estep_trans; eassumption.
      + exact F2.
      + congruence.
      + intro H0. rewrite D1, D2 by congruence. rewrite !Bool.orb_false_r. apply Dg. exact H0.
    - (* endcase *)
      eapply good_push.
      + apply IH. exact F1.
      + constructor; [apply wf_a_Forall; exact Wg|apply wf_b_Forall; exact W1].
      + intro Hq. apply orb_false2 in Hq. destruct Hq as (Q1 & Q2). destruct (Bg Q1) as [Q4 Q5].
        split; [exact Q4|]. constructor; [apply nb_a_Forall; exact Q5|apply nb_b_Forall; auto].
      + rewrite ddefs_Case. apply (estep_funs_r e e1 (leave e e1)); [reflexivity|reflexivity|].
        eapply estep_trans; eassumption.
      + reflexivity.
      + intro H0. rewrite D1 by congruence. rewrite Bool.orb_false_r. apply Dg. exact H0.
  Qed.

  Ltac simple_push IH Hf :=
    eapply good_push;
    [ apply IH; exact Hf
    | constructor
    | let Hq := fresh "Hq" in intro Hq; split; [exact Hq|constructor]
    | apply estep_same; [reflexivity|auto]
    | reflexivity
    | intros _; reflexivity ].

  Lemma spec_step : forall f, Spec f -> Spec (S f).
  Proof.
    intros f IH toks e terms acc brk Hf. cbn [pseq].
    destruct toks as [|[[t a] b] rest]; [apply good_here; exact Hf|].
    destruct t as [|w| | |c|txt|pe es ee].
    - (* TEnd *) apply good_here. exact Hf.
    - (* TWord *)
      destruct (match plocals e with Some ls => rpos ls w 0 None | None => None end) as [i|];
        [simple_push IH Hf|].
      destruct (lookup (names e) w) as [[x|g|c]|]; [simple_push IH Hf|simple_push IH Hf|simple_push IH Hf|].
      destruct (mem terms w); [apply good_here; exact Hf|].
      destruct (w =? "if")%string.
      { (* if *)
        destruct (pseq fo pr f rest (enter e false) ["else"%string; "then"%string] [] false)
          as [tb term tp r1 e1 b1|?|] eqn:E1; [|exact I|exact I].
        destruct (inner_ok _ _ _ _ _ _ _ _ _ _ IH (Hf : funs_good (funs (enter e false))) E1) as (W1 & B1 & Es1 & F1 & L1 & D1).
        apply m2_else_then; [intros _|intros _|exact I].
        - destruct (pseq fo pr f r1 e1 ["then"%string] [] false) as [eb term2 tp2 r2 e2 b2|?|] eqn:E2;
            [|exact I|exact I].
          destruct (inner_ok _ _ _ _ _ _ _ _ _ _ IH F1 E2) as (W2 & B2 & Es2 & F2 & L2 & D2).
          apply m1_then; [intros _|exact I].
          eapply good_push.
          + apply IH. exact F2.
          + constructor; apply wf_b_Forall; assumption.
          + intro Hq. apply orb_false3 in Hq. destruct Hq as (Q1 & Q2 & Q3).
            split; [exact Q1|]. constructor; apply nb_b_Forall; auto.
          + rewrite ddefs_IfE. apply (estep_funs_r e e2 (leave e e2)); [reflexivity|reflexivity|].
            apply (estep_funs e (enter e false)); [reflexivity|reflexivity|].
            eapply estep_trans; eassumption.
          + reflexivity.
          + intro H0. change (loopdepth (enter e false)) with (loopdepth e) in *.
            rewrite D1, D2 by congruence. rewrite !Bool.orb_false_r. reflexivity.
        - eapply good_push.
          + apply IH. exact F1.
          + constructor; apply wf_b_Forall; assumption.
          + intro Hq. apply orb_false2 in Hq. destruct Hq as (Q1 & Q2).
            split; [exact Q1|]. constructor; apply nb_b_Forall; auto.
          + rewrite ddefs_If. apply (estep_funs_r e e1 (leave e e1)); [reflexivity|reflexivity|].
            apply (estep_funs e (enter e false)); [reflexivity|reflexivity|]. exact Es1.
          + reflexivity.
          + intro H0. change (loopdepth (enter e false)) with (loopdepth e) in *.
            rewrite D1 by congruence. rewrite Bool.orb_false_r. reflexivity. }
      destruct (w =? "case")%string.
      { (* case *)
        change (good_res e acc brk (parms f e terms acc (S f) rest (enter e false) [] brk)).
        apply parms_ok; try assumption.
        - constructor.
        - intro Hq. split; [exact Hq|constructor].
        - apply estep_same; [reflexivity|auto].
        - reflexivity.
        - intros _. reflexivity. }
      destruct (w =? "begin")%string.
      { (* begin *)
        destruct (pseq fo pr f rest (enter e true) ["until"%string; "repeat"%string; "while"%string] [] false)
          as [body term tp r1 e1 b1|?|] eqn:E1; [|exact I|exact I].
        destruct (inner_ok _ _ _ _ _ _ _ _ _ _ IH (Hf : funs_good (funs (enter e true))) E1) as (W1 & B1 & Es1 & F1 & L1 & D1).
        apply m3_until_repeat_while; [intros _|intros _|intros _|exact I].
        - (* until *)
          destruct b1; [exact I|].
          eapply good_push.
          + apply IH. exact F1.
          + constructor; [apply wf_b_Forall; assumption|apply nb_b_Forall; auto].
          + intro Hq. split; [exact Hq|]. constructor. apply nb_b_Forall; auto.
          + rewrite ddefs_Until. apply (estep_funs_r e e1 (leave e e1)); [reflexivity|reflexivity|].
            apply (estep_funs e (enter e true)); [reflexivity|reflexivity|]. exact Es1.
          + reflexivity.
          + intros _. reflexivity.
        - (* repeat *)
          eapply good_push.
          + apply IH. exact F1.
          + constructor; apply wf_b_Forall; assumption.
          + intro Hq. split; [exact Hq|]. constructor.
          + rewrite ddefs_Repeat. apply (estep_funs_r e e1 (leave e e1)); [reflexivity|reflexivity|].
            apply (estep_funs e (enter e true)); [reflexivity|reflexivity|]. exact Es1.
          + reflexivity.
          + intros _. reflexivity.
        - (* while *)
          destruct b1; [exact I|].
          destruct (pseq fo pr f r1 e1 ["repeat"%string] [] false) as [body2 term2 tp2 r2 e2 b2|?|] eqn:E2;
            [|exact I|exact I].
          destruct (inner_ok _ _ _ _ _ _ _ _ _ _ IH F1 E2) as (W2 & B2 & Es2 & F2 & L2 & D2).
          apply m1_repeat; [intros _|exact I].
          eapply good_push.
          + apply IH. exact F2.
          + constructor; apply wf_b_Forall; assumption.
          + intro Hq. split; [exact Hq|]. constructor.
          + rewrite ddefs_While. apply (estep_funs_r e e2 (leave e e2)); [reflexivity|reflexivity|].
            apply (estep_funs e (enter e true)); [reflexivity|reflexivity|].
            eapply estep_trans; eassumption.
          + reflexivity.
          + intros _. reflexivity. }
      destruct (w =? "do")%string.
      { (* do *)
        destruct (pseq fo pr f rest (enter e true) ["loop"%string] [] false)
          as [body term tp r1 e1 b1|?|] eqn:E1; [|exact I|exact I].
        destruct (inner_ok _ _ _ _ _ _ _ _ _ _ IH (Hf : funs_good (funs (enter e true))) E1) as (W1 & B1 & Es1 & F1 & L1 & D1).
        apply m1_loop; [intros _|exact I].
        eapply good_push.
        + apply IH. exact F1.
        + constructor; apply wf_b_Forall; assumption.
        + intro Hq. split; [exact Hq|]. constructor.
        + rewrite ddefs_Do. apply (estep_funs_r e e1 (leave e e1)); [reflexivity|reflexivity|].
          apply (estep_funs e (enter e true)); [reflexivity|reflexivity|]. exact Es1.
        + reflexivity.
        + intros _. reflexivity. }
      destruct (w =? "break")%string.
      { destruct (0 <? loopdepth e) eqn:Hld; [|exact I].
        eapply good_push.
        + apply IH. exact Hf.
        + constructor.
        + intro Hq. discriminate.
        + apply estep_same; [reflexivity|auto].
        + reflexivity.
        + intro H0. rewrite H0 in Hld. discriminate. }
      destruct (w =? ":")%string.
      { (* definition *)
        destruct (plocals e) eqn:Epl; [exact I|].
        destruct (skipb rest) as [|[[[]] ?] r0]; try exact I.
        match goal with |- context [pseq fo pr f r0 ?e0 _ [] false] => set (e0' := e0) end.
        destruct (pseq fo pr f r0 e0' [";"%string] [] false) as [body term tp r1 e1 b1|?|] eqn:E1;
          [|exact I|exact I].
        destruct (inner_ok _ _ _ _ _ _ _ _ _ _ IH (Hf : funs_good (funs e0')) E1) as (W1 & B1 & Es1 & F1 & L1 & D1).
        apply m1_semi; [intros _|exact I].
        destruct b1; [exact I|].
        eapply good_push.
        + apply IH. cbn [funs]. constructor; [|exact F1].
          cbn [snd]. split; [apply wf_b_Forall; assumption|apply nb_b_Forall; auto].
        + constructor.
        + intro Hq. split; [exact Hq|constructor].
        + (* inside the definition the locals are present: no function was added there *)
          destruct Es1 as [_ P1]. destruct (P1 ltac:(cbn; discriminate)) as [P2 P3].
          split.
          * cbn [funs map fst ddefs]. rewrite P2. cbn [funs].
            intros x [Hx|Hx]; [subst; apply in_or_app; right; left; reflexivity|apply in_or_app; left; exact Hx].
          * intro Hq. rewrite Epl in Hq. contradiction.
        + reflexivity.
        + intros _. reflexivity. }
      destruct (w =? "local")%string.
      { destruct (skipb rest) as [|[[[]] ?] r0]; try exact I.
        destruct (plocals e) eqn:Epl; [|exact I].
        eapply good_push.
        + apply IH. exact Hf.
        + constructor.
        + intro Hq. split; [exact Hq|constructor].
        + apply estep_same; [reflexivity|]. intros _. cbn. discriminate.
        + reflexivity.
        + intros _. reflexivity. }
      destruct (w =? "var")%string.
      { destruct (skipb rest) as [|[[[]] ?] r0]; try exact I.
        destruct (0 <? nest e); [exact I|].
        eapply good_push.
        + apply IH. exact Hf.
        + constructor.
        + intro Hq. split; [exact Hq|constructor].
        + apply estep_same; [reflexivity|auto].
        + reflexivity.
        + intros _. reflexivity. }
      destruct (w =? "!")%string.
      { destruct (skipb rest) as [|[[[]] ?] r0]; try exact I.
        destruct (lookup (names e) s) as [[x|g|c]|]; try exact I.
        - simple_push IH Hf.
        - destruct (is_native fo s || mem keywords s || mem other_immediates s); exact I. }
      destruct (w =? "nil")%string; [simple_push IH Hf|].
      destruct (w =? "true")%string; [simple_push IH Hf|].
      destruct (w =? "false")%string; [simple_push IH Hf|].
      destruct (mem keywords w); [exact I|].
      destruct (mem other_immediates w); [exact I|].
      destruct (is_native fo w); [simple_push IH Hf|exact I].
    - (* TWs *) apply IH. exact Hf.
    - (* TComment *) apply IH. exact Hf.
    - (* TLit *) simple_push IH Hf.
    - (* TReal *) destruct (pr txt); [simple_push IH Hf|exact I].
    - (* TErr *) exact I.
  Qed.

  Theorem spec_all : forall f, Spec f.
  Proof.
    induction f as [|f IH]; [intros toks e terms acc brk _; exact I|apply spec_step; exact IH].
  Qed.
End Parse.
