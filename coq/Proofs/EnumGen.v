(* EnumGen.v (C11, `enum Name : f1 : f2 ... : fn endenum`, all field lists).

   LEVEL.  The theorems are about the immediate words themselves, in the order in which build1
   invokes them for such a source: [i_enum], then n times [i_enum_field], then [i_endenum]
   (= [enum_seq n]); the only thing abstracted is the reader: the hypothesis [feeds] says that
   the pending input yields the words Name, f1 ... fn when [next_name] is called on it (whatever
   the rest of the state is).  [next_name_indep] shows that [next_name] depends on the pending
   input and the last-token record only, so [feeds] can be checked on a skeleton state by
   computation (Examples at the end, on the boot state with real text). *)
From Xeh Require Import Model.Prelude Model.Bits Model.Codec Model.Cell Model.Lexer Model.Fmt
                        Model.Vm Model.Words Model.Build Model.Boot.
From Xeh Require Import Proofs.VmFrame Proofs.NoPanicBuild Proofs.MetaPurge.
Local Notation length := List.length.
Local Open Scope string_scope.
Local Open Scope list_scope.

#[local] Arguments Z.add : simpl never.
#[local] Arguments Z.of_nat : simpl never.

(* ---------- the reader sees the pending input and the last-token record only ---------- *)
Definition tk_upd (t r : state) : state := set_last_tok (set_input t (input r)) (last_tok r).
Definition tk_skel (i : list inlex) (l : option tokref) : state := set_last_tok (set_input boot i) l.
Definition rmap {A} (t : state) (r : res A) : res A :=
  match r with
  | ROk a s => ROk a (tk_upd t s)
  | RErr k p s => RErr k p (tk_upd t s)
  | RPanic => RPanic
  | RUnsup => RUnsup
  end.

Section Reader.
  Variable pr : string -> option Z.

  Lemma next_token_rel : forall fuel t u, input u = input t -> last_tok u = last_tok t ->
    next_token pr fuel t = rmap t (next_token pr fuel u).
  Proof.
    induction fuel as [|f IH]; intros t u E El; cbn [next_token]; [reflexivity|].
    rewrite E. destruct (input t) as [|il rest] eqn:Ei.
    - cbn [rmap]. unfold tk_upd. rewrite E, El.
      destruct t; cbn in *; subst; reflexivity.
    - cbv zeta. destruct (lex_next_nonws _ _) as [tk l'].
      destruct tk; try reflexivity;
        try (cbn [rmap]; unfold tk_upd; cbn [set_last_tok set_input input last_tok]; reflexivity).
      + (* end of this lexer: go on with the one below *)
        match goal with |- next_token pr f ?a = rmap t (next_token pr f ?b) =>
          rewrite (IH a b eq_refl eq_refl) end.
        match goal with |- context [next_token pr f ?b] => destruct (next_token pr f b) end;
          cbn [rmap]; unfold tk_upd; cbn [set_last_tok set_input input last_tok]; reflexivity.
      + destruct (pr text); cbn [rmap]; unfold tk_upd; cbn [set_last_tok set_input input last_tok]; reflexivity.
  Qed.

  Theorem next_name_indep t :
    next_name pr t = rmap t (next_name pr (tk_skel (input t) (last_tok t))).
  Proof.
    unfold next_name. cbv zeta. unfold get_token, tok_fuel.
    change (input (tk_skel (input t) (last_tok t))) with (input t).
    change (last_tok (tk_skel (input t) (last_tok t))) with (last_tok t).
    rewrite (next_token_rel (S (length (input t))) t (tk_skel (input t) (last_tok t)) eq_refl eq_refl).
    destruct (next_token pr (S (length (input t))) (tk_skel (input t) (last_tok t))) as [tk s1|k p s1| |];
      cbn [rmap]; try reflexivity.
    destruct tk; cbn [rmap]; try reflexivity; destruct (last_tok t); reflexivity.
  Qed.

  (* reading one name / a list of names from the pending input (i, l) leaves (i', l') *)
  Definition reads (i : list inlex) (l : option tokref) (w : string) (i' : list inlex) (l' : option tokref) : Prop :=
    forall t, input t = i -> last_tok t = l -> next_name pr t = ROk w (set_last_tok (set_input t i') l').

  Inductive feeds : list inlex -> option tokref -> list string -> list inlex -> option tokref -> Prop :=
  | feeds_nil i l : feeds i l [] i l
  | feeds_cons i l w ws i1 l1 i2 l2 :
      reads i l w i1 l1 -> feeds i1 l1 ws i2 l2 -> feeds i l (w :: ws) i2 l2.

  Theorem get_token_indep t :
    get_token pr t = rmap t (get_token pr (tk_skel (input t) (last_tok t))).
  Proof.
    unfold get_token, tok_fuel.
    change (input (tk_skel (input t) (last_tok t))) with (input t).
    apply next_token_rel; reflexivity.
  Qed.

  (* reading the keyword token kw (what build1 does before it invokes the immediate word) *)
  Definition tokreads (i : list inlex) (l : option tokref) (kw : string) (i' : list inlex) (l' : option tokref) : Prop :=
    forall t, input t = i -> last_tok t = l -> get_token pr t = ROk (BWord kw) (set_last_tok (set_input t i') l').

  Lemma tokreads_skel i l kw i' l' :
    get_token pr (tk_skel i l) = ROk (BWord kw) (tk_skel i' l') -> tokreads i l kw i' l'.
  Proof.
    intros H t Ei El. rewrite get_token_indep, Ei, El, H. reflexivity.
  Qed.

  (* the text after `enum Name`:  ": f1 : f2 ... : fn endenum" *)
  Inductive feeds_fields : list inlex -> option tokref -> list string -> list inlex -> option tokref -> Prop :=
  | ff_end i l i2 l2 : tokreads i l "endenum" i2 l2 -> feeds_fields i l [] i2 l2
  | ff_field i l f fs i0 l0 i1 l1 i2 l2 :
      tokreads i l ":" i0 l0 -> reads i0 l0 f i1 l1 -> feeds_fields i1 l1 fs i2 l2 ->
      feeds_fields i l (f :: fs) i2 l2.

  (* checkable form *)
  Lemma reads_skel i l w i' l' :
    next_name pr (tk_skel i l) = ROk w (tk_skel i' l') -> reads i l w i' l'.
  Proof.
    intros H t Ei El. rewrite next_name_indep, Ei, El, H. reflexivity.
  Qed.
End Reader.

(* ---------- purging the two field words ---------- *)
Definition field_imm (name nat : string) : dentry := mkdent name (DFun true (FNative nat) None).
Definition enum_imms : list dentry := [field_imm ":" "%enum-field"; field_imm "=" "%enum-field-set"].
Definition const_of (f : string * Z) : dentry := mkdent (fst f) (DConst (CInt (snd f))).

(* the order in which the constants are left: swap_remove puts the last two in the places of
   the two field words *)
Definition enum_order {A} (cs : list A) : list A :=
  match rev cs with
  | [] => []
  | [c] => [c]
  | cn :: cn1 :: r => cn :: cn1 :: rev r
  end.

Lemma purge_enum cs : Forall (fun e => is_dconst e = true) cs ->
  purge_all (enum_imms ++ cs) = enum_order cs.
Proof.
  intros F. unfold purge_all, enum_imms, enum_order. cbn [app length purge_list is_dconst field_imm dent].
  destruct cs as [|c0 cs0] eqn:Ecs; [reflexivity|]. rewrite <- Ecs in *.
  assert (Hne : cs <> []) by (rewrite Ecs; discriminate).
  destruct (exists_last Hne) as (cs1 & cn & E1). rewrite E1 in *. clear Ecs Hne c0 cs0.
  rewrite rev_app_distr. cbn [rev app].
  apply Forall_app in F. destruct F as [F1 Fn]. inversion Fn as [|? ? Hcn _]; subst.
  change (field_imm "=" "%enum-field-set" :: cs1 ++ [cn]) with ((field_imm "=" "%enum-field-set" :: cs1) ++ [cn]).
  rewrite last_last, removelast_last. rewrite app_length. cbn [length].
  replace (length cs1 + 1) with (S (length cs1)) by lia. cbn [purge_list]. rewrite Hcn.
  destruct cs1 as [|c0 cs0] eqn:Ecs; [reflexivity|]. rewrite <- Ecs in *.
  assert (Hne : cs1 <> []) by (rewrite Ecs; discriminate).
  destruct (exists_last Hne) as (cs2 & cn1 & E2). rewrite E2 in *. clear Ecs Hne c0 cs0.
  rewrite rev_app_distr. cbn [rev app]. rewrite rev_involutive.
  rewrite app_length. cbn [length]. replace (length cs2 + 1) with (S (length cs2)) by lia.
  cbn [purge_list is_dconst field_imm dent].
  apply Forall_app in F1. destruct F1 as [F2 Fn1]. inversion Fn1 as [|? ? Hcn1 _]; subst.
  rewrite !last_last, !removelast_last, Hcn1. do 2 f_equal. apply purge_list_consts. exact F2.
Qed.
