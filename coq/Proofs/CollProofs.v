(* CollProofs.v: the collection laws of C12.
   1. association lists sorted by a total preorder (generic), instantiated with [scmp] and
      transferred to [assoc_find] / [assoc_insert] / [assoc_remove] on maps with [tagwf] keys;
   2. map literals ([pairs_insert]) and iteration;
   (vectors, strings, sort and the word-level statements are in CollVec.v / CollWords.v) *)
From Xeh Require Import Model.Prelude Model.Bits Model.Codec Model.Cell Model.Lexer Model.Fmt
                        Model.Vm Model.Words Proofs.BitsProofs Proofs.CellProofs.
From Coq Require Import Sorting.Sorted ZifyBool ZifyNat ZifyN.
Local Notation length := List.length.

(* ------------------------------------------------------------------ *)
(* 1. generic sorted association lists                                 *)
(* ------------------------------------------------------------------ *)
Lemma find_app : forall {A} (p : A -> bool) l1 l2,
  find p (l1 ++ l2) = match find p l1 with Some x => Some x | None => find p l2 end.
Proof. induction l1; cbn; auto. intros. destruct (p a); auto. Qed.

Section Assoc.
  Context {K V : Type} (cmp : K -> K -> comparison) (PO : preorder cmp).

  Definition gfindp (m : list (K * V)) (k : K) : option (K * V) :=
    find (fun kv => cmp_is_eq (cmp (fst kv) k)) m.
  Definition gfind (m : list (K * V)) (k : K) : option V := option_map snd (gfindp m k).

  Fixpoint ginsert (m : list (K * V)) (k : K) (v : V) : list (K * V) :=
    match m with
    | [] => [(k, v)]
    | (k', v') :: r =>
      match cmp k k' with
      | Lt => (k, v) :: m
      | Eq => (k, v) :: r
      | Gt => (k', v') :: ginsert r k v
      end
    end.

  Fixpoint gremove (m : list (K * V)) (k : K) : list (K * V) :=
    match m with
    | [] => []
    | (k', v') :: r =>
      match cmp k k' with
      | Eq => r
      | _ => (k', v') :: gremove r k
      end
    end.

  Definition glt (p q : K * V) : Prop := cmp (fst p) (fst q) = Lt.
  Definition gsorted (m : list (K * V)) : Prop := StronglySorted glt m.

  Lemma gfind_cons : forall k0 v0 r k,
    gfind ((k0, v0) :: r) k = if cmp_is_eq (cmp k0 k) then Some v0 else gfind r k.
  Proof. intros. unfold gfind, gfindp. cbn. destruct (cmp_is_eq (cmp k0 k)); reflexivity. Qed.

  Lemma gfind_nil : forall k, gfind [] k = None.
  Proof. reflexivity. Qed.

  Lemma ginsert_in : forall m k v p, In p (ginsert m k v) -> p = (k, v) \/ In p m.
  Proof.
    induction m as [| [k0 v0] r IH]; cbn; intros k v p H.
    - destruct H as [<-|[]]. auto.
    - destruct (cmp k k0); cbn in H.
      + destruct H as [<-|H]; auto.
      + destruct H as [<-|H]; auto.
      + destruct H as [<-|H]; auto. destruct (IH _ _ _ H); auto.
  Qed.

  Lemma gremove_in : forall m k p, In p (gremove m k) -> In p m.
  Proof.
    induction m as [| [k0 v0] r IH]; cbn; intros k p H; auto.
    destruct (cmp k k0); cbn in H; auto; destruct H as [<-|H]; eauto.
  Qed.

  Lemma ginsert_sorted : forall m k v, gsorted m -> gsorted (ginsert m k v).
  Proof.
    induction m as [| [k0 v0] r IH]; intros k v S; cbn.
    - repeat constructor.
    - inversion S; subst. destruct (cmp k k0) eqn:E.
      + constructor; auto. rewrite Forall_forall in *. intros q Hq. specialize (H2 q Hq).
        unfold glt in *. cbn [fst] in *. rewrite (po_cong _ PO _ _ E). assumption.
      + constructor; auto. constructor; auto.
        rewrite Forall_forall in *. intros q Hq. specialize (H2 q Hq).
        unfold glt in *. cbn [fst] in *. eapply (po_trans _ PO); eassumption.
      + constructor; [apply IH; assumption|]. rewrite Forall_forall in *. intros q Hq.
        apply ginsert_in in Hq. destruct Hq as [->|Hq]; auto.
        unfold glt. cbn [fst]. apply (po_gt_lt _ PO). assumption.
  Qed.

  Lemma gremove_sorted : forall m k, gsorted m -> gsorted (gremove m k).
  Proof.
    induction m as [| [k0 v0] r IH]; intros k S; cbn; auto.
    inversion S; subst.
    destruct (cmp k k0); auto; (constructor; [apply IH; assumption|]);
      rewrite Forall_forall in *; intros q Hq; apply gremove_in in Hq; auto.
  Qed.

  (* find after insert: sortedness is not even needed *)
  Lemma gfind_insert : forall m k v k',
    gfind (ginsert m k v) k' = if cmp_is_eq (cmp k k') then Some v else gfind m k'.
  Proof.
    induction m as [| [k0 v0] r IH]; intros k v k'.
    - cbn [ginsert]. rewrite gfind_cons. reflexivity.
    - cbn [ginsert]. destruct (cmp k k0) eqn:E.
      + rewrite !gfind_cons. rewrite <- (po_cong _ PO _ _ E k'). destruct (cmp_is_eq (cmp k k')); reflexivity.
      + rewrite gfind_cons. reflexivity.
      + rewrite !gfind_cons, IH.
        destruct (cmp_is_eq (cmp k0 k')) eqn:E0; auto.
        apply cmp_is_eq_true in E0.
        rewrite <- (po_cong_r _ PO _ _ E0 k), E. reflexivity.
  Qed.

  Lemma gfind_lt_none : forall m k, Forall (fun q => cmp k (fst q) = Lt) m -> gfind m k = None.
  Proof.
    induction m as [| [k0 v0] r IH]; intros k F; auto.
    inversion F; subst. rewrite gfind_cons. cbn [fst] in *.
    rewrite (po_anti _ PO), H1. cbn. auto.
  Qed.

  Lemma gfind_remove : forall m k k', gsorted m ->
    gfind (gremove m k) k' = if cmp_is_eq (cmp k k') then None else gfind m k'.
  Proof.
    induction m as [| [k0 v0] r IH]; intros k k' S.
    - cbn. destruct (cmp_is_eq (cmp k k')); reflexivity.
    - inversion S; subst. cbn [gremove]. destruct (cmp k k0) eqn:E.
      + rewrite gfind_cons. rewrite <- (po_cong _ PO _ _ E k').
        destruct (cmp_is_eq (cmp k k')) eqn:E1; auto.
        apply cmp_is_eq_true in E1. apply gfind_lt_none.
        rewrite Forall_forall in *. intros q Hq. specialize (H2 q Hq). unfold glt in H2. cbn [fst] in H2.
        rewrite (po_cong _ PO _ _ (po_sym _ PO _ _ E1)).
        rewrite (po_cong _ PO _ _ E). assumption.
      + rewrite !gfind_cons, IH by assumption.
        destruct (cmp_is_eq (cmp k0 k')) eqn:E0; auto.
        apply cmp_is_eq_true in E0.
        rewrite <- (po_cong_r _ PO _ _ E0 k), E. reflexivity.
      + rewrite !gfind_cons, IH by assumption.
        destruct (cmp_is_eq (cmp k0 k')) eqn:E0; auto.
        apply cmp_is_eq_true in E0.
        rewrite <- (po_cong_r _ PO _ _ E0 k), E. reflexivity.
  Qed.

  Lemma ginsert_length : forall m k v, gsorted m ->
    length (ginsert m k v) = match gfind m k with Some _ => length m | None => S (length m) end.
  Proof.
    induction m as [| [k0 v0] r IH]; intros k v S; auto.
    inversion S; subst. cbn [ginsert]. rewrite gfind_cons.
    rewrite (po_anti _ PO k0 k). destruct (cmp k k0) eqn:E; cbn [CompOpp cmp_is_eq length].
    - reflexivity.
    - rewrite gfind_lt_none; auto.
      rewrite Forall_forall in *. intros q Hq. specialize (H2 q Hq). unfold glt in H2. cbn [fst] in H2.
      eapply (po_trans _ PO); eassumption.
    - rewrite IH by assumption. destruct (gfind r k); reflexivity.
  Qed.

  Lemma gremove_lt : forall m k, Forall (fun q => cmp k (fst q) = Lt) m -> gremove m k = m.
  Proof.
    induction m as [| [k0 v0] r IH]; intros k F; auto.
    inversion F; subst. cbn [fst] in *. cbn [gremove]. rewrite H1. f_equal. auto.
  Qed.

  Lemma gremove_length : forall m k, gsorted m ->
    length (gremove m k) = match gfind m k with Some _ => pred (length m) | None => length m end.
  Proof.
    induction m as [| [k0 v0] r IH]; intros k S; auto.
    inversion S; subst. cbn [gremove]. rewrite gfind_cons.
    rewrite (po_anti _ PO k0 k). destruct (cmp k k0) eqn:E; cbn [CompOpp cmp_is_eq length].
    - reflexivity.
    - assert (F : Forall (fun q => cmp k (fst q) = Lt) r).
      { rewrite Forall_forall in *. intros q Hq. specialize (H2 q Hq).
        unfold glt in H2. cbn [fst] in H2. eapply (po_trans _ PO); eassumption. }
      rewrite (gfind_lt_none _ _ F), (gremove_lt _ _ F). reflexivity.
    - rewrite IH by assumption. destruct (gfind r k) eqn:F; auto.
      destruct r; [discriminate | reflexivity].
  Qed.

  Lemma gfind_in : forall m k v, gfind m k = Some v -> exists k', In (k', v) m /\ cmp k' k = Eq.
  Proof.
    intros m k v. unfold gfind, gfindp.
    destruct (find _ m) as [[k' v']|] eqn:E; cbn; intro H; try discriminate.
    injection H as ->. apply find_some in E. destruct E as [E1 E2]. cbn in E2.
    exists k'. split; auto. apply cmp_is_eq_true. assumption.
  Qed.

  (* every binding is found under its own key (and under every equal key) *)
  Lemma gfind_sorted_in : forall m k0 v k, gsorted m -> In (k0, v) m -> cmp k0 k = Eq -> gfind m k = Some v.
  Proof.
    induction m as [| [k1 v1] r IH]; intros k0 v k S Hin E; [destruct Hin|].
    inversion S; subst. rewrite gfind_cons. destruct Hin as [Hq|Hin].
    - injection Hq as -> ->. rewrite E. reflexivity.
    - rewrite Forall_forall in H2. pose proof (H2 _ Hin) as L. unfold glt in L. cbn [fst] in L.
      rewrite (po_cong_r _ PO _ _ E) in L. rewrite L. cbn. eapply IH; eassumption.
  Qed.

  (* each key occurs once *)
  Lemma gsorted_keys_once : forall m i j p q, gsorted m ->
    nth_error m i = Some p -> nth_error m j = Some q -> cmp (fst p) (fst q) = Eq -> i = j.
  Proof.
    induction m as [| a r IH]; intros i j p q S Hi Hj E.
    - destruct i; discriminate.
    - inversion S; subst. rewrite Forall_forall in H2.
      destruct i, j; cbn in Hi, Hj; auto.
      + injection Hi as ->. apply nth_error_In in Hj. specialize (H2 _ Hj). unfold glt in H2. congruence.
      + injection Hj as ->. apply nth_error_In in Hi. specialize (H2 _ Hi). unfold glt in H2.
        rewrite (po_anti _ PO), H2 in E. discriminate.
      + f_equal. eapply IH; eassumption.
  Qed.

  (* a sequence of inserts: the last binding of a key wins *)
  Definition ginsert_all (l : list (K * V)) (m : list (K * V)) : list (K * V) :=
    fold_left (fun m kv => ginsert m (fst kv) (snd kv)) l m.

  Lemma ginsert_all_sorted : forall l m, gsorted m -> gsorted (ginsert_all l m).
  Proof.
    induction l as [| [k v] l IH]; intros m S; cbn; auto. apply IH, ginsert_sorted, S.
  Qed.

  Lemma gfind_insert_all : forall l m k,
    gfind (ginsert_all l m) k =
    match gfindp (rev l) k with Some kv => Some (snd kv) | None => gfind m k end.
  Proof.
    induction l as [| [k0 v0] l IH]; intros m k; cbn [ginsert_all fold_left rev]; auto.
    fold (ginsert_all l (ginsert m k0 v0)). rewrite IH. unfold gfindp at 2.
    rewrite find_app. fold (gfindp (rev l) k).
    destruct (gfindp (rev l) k); auto.
    cbn [fst snd find]. rewrite gfind_insert. destruct (cmp_is_eq (cmp k0 k)); reflexivity.
  Qed.

  Lemma ginsert_all_in : forall l m p, In p (ginsert_all l m) -> In p l \/ In p m.
  Proof.
    induction l as [| [k v] l IH]; intros m p H; cbn in *; auto.
    destruct (IH _ _ H) as [H1|H1]; auto. apply ginsert_in in H1. destruct H1; auto.
  Qed.
End Assoc.

(* ------------------------------------------------------------------ *)
(* 2. maps of cells                                                    *)
(* ------------------------------------------------------------------ *)
Definition keys_tagwf (m : list (cell * cell)) : Prop := Forall (fun kv => tagwf (fst kv)) m.

Lemma assoc_find_g : forall m k, keys_tagwf m -> tagwf k -> assoc_find m k = gfind scmp m k.
Proof.
  intros m k Hm Hk. rewrite assoc_find_find. unfold gfind, gfindp. f_equal.
  apply find_ext_in. intros q Hq. unfold keys_tagwf in Hm. rewrite Forall_forall in Hm.
  rewrite cmp_strip by auto. reflexivity.
Qed.

Lemma assoc_insert_g : forall m k v, keys_tagwf m -> tagwf k -> assoc_insert m k v = ginsert scmp m k v.
Proof.
  induction m as [| [k0 v0] r IH]; intros k v Hm Hk; cbn [assoc_insert ginsert]; auto.
  inversion Hm; subst. cbn [fst] in *. rewrite cmp_strip by assumption.
  destruct (scmp k k0); auto. f_equal. auto.
Qed.

Lemma assoc_remove_g : forall m k, keys_tagwf m -> tagwf k -> assoc_remove m k = gremove scmp m k.
Proof.
  induction m as [| [k0 v0] r IH]; intros k Hm Hk; cbn [assoc_remove gremove]; auto.
  inversion Hm; subst. cbn [fst] in *. rewrite cmp_strip by assumption.
  destruct (scmp k k0); auto; f_equal; auto.
Qed.

Lemma keys_sorted_g : forall m, keys_tagwf m -> (keys_sorted m <-> gsorted scmp m).
Proof. intros m Hm. apply keys_sorted_ltk. assumption. Qed.

Lemma insert_keys_tagwf : forall m k v, keys_tagwf m -> tagwf k -> keys_tagwf (assoc_insert m k v).
Proof.
  intros m k v Hm Hk. rewrite assoc_insert_g by assumption. unfold keys_tagwf in *.
  rewrite Forall_forall in *. intros p Hp. apply ginsert_in in Hp. destruct Hp as [->|Hp]; auto.
Qed.

Lemma remove_keys_tagwf : forall m k, keys_tagwf m -> tagwf k -> keys_tagwf (assoc_remove m k).
Proof.
  intros m k Hm Hk. rewrite assoc_remove_g by assumption. unfold keys_tagwf in *.
  rewrite Forall_forall in *. intros p Hp. apply gremove_in in Hp. auto.
Qed.

Lemma map_ok_keys_tagwf : forall m, map_ok m -> keys_tagwf m.
Proof.
  intros m H. apply cell_ok_map in H. destruct H as (_ & _ & H). unfold keys_tagwf.
  rewrite Forall_forall in *. intros p Hp. apply cell_ok_tagwf, (H p Hp).
Qed.

Lemma map_ok_sorted : forall m, map_ok m -> keys_sorted m.
Proof. intros m H. apply cell_ok_map in H. tauto. Qed.

Lemma cmp_is_eq_eqb : forall a b, cell_ok a -> cell_ok b -> NoNaN a -> NoNaN b ->
  cmp_is_eq (cell_cmp a b) = cell_eqb a b.
Proof.
  intros a b Ha Hb Na Nb. pose proof (cmp_eq a b Ha Hb Na Nb) as H.
  destruct (cell_eqb a b).
  - apply cmp_is_eq_true, H. reflexivity.
  - destruct (cell_cmp a b); cbn; auto. destruct H as [H _]. discriminate (H eq_refl).
Qed.

(* --- find / insert / remove --- *)
Theorem find_insert_cmp : forall m k v k', keys_tagwf m -> tagwf k -> tagwf k' ->
  assoc_find (assoc_insert m k v) k' =
  if cmp_is_eq (cell_cmp k k') then Some v else assoc_find m k'.
Proof.
  intros m k v k' Hm Hk Hk'.
  rewrite (assoc_find_g (assoc_insert m k v)) by auto using insert_keys_tagwf.
  rewrite assoc_insert_g, assoc_find_g, cmp_strip by assumption.
  apply gfind_insert, scmp_preorder.
Qed.

Theorem find_remove_cmp : forall m k k', keys_tagwf m -> keys_sorted m -> tagwf k -> tagwf k' ->
  assoc_find (assoc_remove m k) k' =
  if cmp_is_eq (cell_cmp k k') then None else assoc_find m k'.
Proof.
  intros m k k' Hm Sm Hk Hk'.
  rewrite (assoc_find_g (assoc_remove m k)) by auto using remove_keys_tagwf.
  rewrite assoc_remove_g, assoc_find_g, cmp_strip by assumption.
  apply gfind_remove; [apply scmp_preorder | apply keys_sorted_g; assumption].
Qed.

Theorem find_insert : forall m k v k',
  map_ok m -> cell_ok k -> NoNaN k -> cell_ok k' -> NoNaN k' ->
  assoc_find (assoc_insert m k v) k' = if cell_eqb k k' then Some v else assoc_find m k'.
Proof.
  intros m k v k' Hm Hk Nk Hk' Nk'.
  rewrite find_insert_cmp by auto using map_ok_keys_tagwf, cell_ok_tagwf.
  rewrite cmp_is_eq_eqb by assumption. reflexivity.
Qed.

Theorem find_remove : forall m k k',
  map_ok m -> cell_ok k -> NoNaN k -> cell_ok k' -> NoNaN k' ->
  assoc_find (assoc_remove m k) k' = if cell_eqb k k' then None else assoc_find m k'.
Proof.
  intros m k k' Hm Hk Nk Hk' Nk'.
  rewrite find_remove_cmp by auto using map_ok_keys_tagwf, map_ok_sorted, cell_ok_tagwf.
  rewrite cmp_is_eq_eqb by assumption. reflexivity.
Qed.

(* --- sortedness / well-formedness is preserved --- *)
Theorem insert_sorted : forall m k v, keys_tagwf m -> tagwf k -> keys_sorted m -> keys_sorted (assoc_insert m k v).
Proof.
  intros m k v Hm Hk S. apply keys_sorted_g; [apply insert_keys_tagwf; assumption|].
  rewrite assoc_insert_g by assumption. apply ginsert_sorted; [apply scmp_preorder|].
  apply keys_sorted_g; assumption.
Qed.

Theorem remove_sorted : forall m k, keys_tagwf m -> tagwf k -> keys_sorted m -> keys_sorted (assoc_remove m k).
Proof.
  intros m k Hm Hk S. apply keys_sorted_g; [apply remove_keys_tagwf; assumption|].
  rewrite assoc_remove_g by assumption. apply gremove_sorted.
  apply keys_sorted_g; assumption.
Qed.

Theorem insert_ok : forall m k v, map_ok m -> cell_ok k -> NoNaN k -> cell_ok v -> map_ok (assoc_insert m k v).
Proof.
  intros m k v Hm Hk Nk Hv.
  pose proof (map_ok_keys_tagwf _ Hm) as Tm. pose proof (cell_ok_tagwf _ Hk) as Tk.
  apply cell_ok_map in Hm. destruct Hm as (S & N & O).
  apply cell_ok_map. split; [apply insert_sorted; assumption|].
  rewrite assoc_insert_g by assumption.
  rewrite !Forall_forall in *.
  split; intros p Hp; apply ginsert_in in Hp; destruct Hp as [->|Hp]; cbn; auto.
Qed.

Theorem remove_ok : forall m k, map_ok m -> cell_ok k -> map_ok (assoc_remove m k).
Proof.
  intros m k Hm Hk.
  pose proof (map_ok_keys_tagwf _ Hm) as Tm. pose proof (cell_ok_tagwf _ Hk) as Tk.
  apply cell_ok_map in Hm. destruct Hm as (S & N & O).
  apply cell_ok_map. split; [apply remove_sorted; assumption|].
  rewrite assoc_remove_g by assumption.
  rewrite !Forall_forall in *.
  split; intros p Hp; apply gremove_in in Hp; auto.
Qed.

(* --- size --- *)
Theorem insert_length : forall m k v, keys_tagwf m -> keys_sorted m -> tagwf k ->
  length (assoc_insert m k v) =
  match assoc_find m k with Some _ => length m | None => S (length m) end.
Proof.
  intros m k v Hm S Hk. rewrite assoc_insert_g, assoc_find_g by assumption.
  apply ginsert_length; [apply scmp_preorder | apply keys_sorted_g; assumption].
Qed.

Theorem remove_length : forall m k, keys_tagwf m -> keys_sorted m -> tagwf k ->
  length (assoc_remove m k) =
  match assoc_find m k with Some _ => pred (length m) | None => length m end.
Proof.
  intros m k Hm S Hk. rewrite assoc_remove_g, assoc_find_g by assumption.
  apply gremove_length; [apply scmp_preorder | apply keys_sorted_g; assumption].
Qed.

(* --- the bindings: every entry is found under its key, every key occurs once --- *)
Theorem find_in : forall m k v, assoc_find m k = Some v -> exists k', In (k', v) m /\ cell_cmp k' k = Eq.
Proof. exact assoc_find_in. Qed.

Theorem in_find : forall m k0 v k, keys_tagwf m -> keys_sorted m -> tagwf k ->
  In (k0, v) m -> cell_cmp k0 k = Eq -> assoc_find m k = Some v.
Proof.
  intros m k0 v k Hm S Hk Hin E. rewrite assoc_find_g by assumption.
  apply (gfind_sorted_in scmp scmp_preorder m k0 v k); auto.
  - apply keys_sorted_g; assumption.
  - unfold keys_tagwf in Hm. rewrite Forall_forall in Hm.
    rewrite <- cmp_strip; auto. apply (Hm _ Hin).
Qed.

Theorem keys_once : forall m i j p q, keys_tagwf m -> keys_sorted m ->
  nth_error m i = Some p -> nth_error m j = Some q -> cell_cmp (fst p) (fst q) = Eq -> i = j.
Proof.
  intros m i j p q Hm S Hi Hj E.
  apply (gsorted_keys_once scmp scmp_preorder m i j p q); auto.
  - apply keys_sorted_g; assumption.
  - unfold keys_tagwf in Hm. rewrite Forall_forall in Hm.
    rewrite <- cmp_strip; auto; apply Hm; eapply nth_error_In; eassumption.
Qed.

(* --- map literals: { v1 k1 v2 k2 ... } is the fold of the inserts, the last binding wins --- *)
Fixpoint pairs_of (l : list cell) : list (cell * cell) :=
  match l with
  | v :: k :: r => (k, v) :: pairs_of r
  | _ => []
  end.

Lemma pairs_insert_fold : forall l m,
  pairs_insert l m = fold_left (fun m kv => assoc_insert m (fst kv) (snd kv)) (pairs_of l) m.
Proof.
  fix IH 1. intros [| v [| k r]] m; cbn [pairs_insert pairs_of fold_left]; auto.
Qed.

Lemma fold_insert_g : forall l m, keys_tagwf l -> keys_tagwf m ->
  fold_left (fun m kv => assoc_insert m (fst kv) (snd kv)) l m = ginsert_all scmp l m /\
  keys_tagwf (ginsert_all scmp l m).
Proof.
  induction l as [| [k v] l IH]; intros m Hl Hm; cbn [fold_left ginsert_all]; auto.
  inversion Hl; subst. cbn [fst snd] in *.
  rewrite assoc_insert_g by assumption.
  apply IH; auto. rewrite <- assoc_insert_g by assumption. apply insert_keys_tagwf; assumption.
Qed.

Theorem pairs_insert_find : forall l m k, keys_tagwf (pairs_of l) -> keys_tagwf m -> tagwf k ->
  assoc_find (pairs_insert l m) k =
  match find (fun kv => cmp_is_eq (cell_cmp (fst kv) k)) (rev (pairs_of l)) with
  | Some kv => Some (snd kv)
  | None => assoc_find m k
  end.
Proof.
  intros l m k Hl Hm Hk. rewrite pairs_insert_fold.
  destruct (fold_insert_g _ _ Hl Hm) as [-> T].
  rewrite assoc_find_g by assumption. rewrite (gfind_insert_all scmp scmp_preorder).
  rewrite assoc_find_g by assumption. unfold gfindp.
  rewrite (find_ext_in (fun kv => cmp_is_eq (cell_cmp (fst kv) k)) (fun kv => cmp_is_eq (scmp (fst kv) k))).
  - reflexivity.
  - intros q Hq. apply in_rev in Hq. unfold keys_tagwf in Hl. rewrite Forall_forall in Hl.
    rewrite cmp_strip; auto.
Qed.

Theorem pairs_insert_sorted : forall l m, keys_tagwf (pairs_of l) -> keys_tagwf m -> keys_sorted m ->
  keys_sorted (pairs_insert l m) /\ keys_tagwf (pairs_insert l m).
Proof.
  intros l m Hl Hm S. rewrite pairs_insert_fold.
  destruct (fold_insert_g _ _ Hl Hm) as [-> T]. split; auto.
  apply keys_sorted_g; auto. apply ginsert_all_sorted; [apply scmp_preorder|].
  apply keys_sorted_g; assumption.
Qed.

Theorem pairs_insert_ok : forall l m,
  Forall (fun kv => cell_ok (fst kv) /\ NoNaN (fst kv) /\ cell_ok (snd kv)) (pairs_of l) ->
  map_ok m -> map_ok (pairs_insert l m).
Proof.
  intros l m Hl Hm. rewrite pairs_insert_fold. revert m Hm.
  induction Hl as [| [k v] r (H1 & H2 & H3) _ IH]; intros m Hm; cbn [fold_left]; auto.
  apply IH. apply insert_ok; assumption.
Qed.

(* the same law with the language's equality on well-formed NaN-free keys: the map literal is
   the association list of its pairs, read from the end *)
Theorem pairs_insert_find_eqb : forall l k,
  Forall (fun kv => cell_ok (fst kv) /\ NoNaN (fst kv)) (pairs_of l) -> cell_ok k -> NoNaN k ->
  assoc_find (pairs_insert l []) k =
  option_map snd (find (fun kv => cell_eqb (fst kv) k) (rev (pairs_of l))).
Proof.
  intros l k Hl Hk Nk.
  rewrite pairs_insert_find.
  - rewrite (find_ext_in (fun kv => cmp_is_eq (cell_cmp (fst kv) k)) (fun kv => cell_eqb (fst kv) k)).
    + destruct (find _ (rev (pairs_of l))); reflexivity.
    + intros q Hq. apply in_rev in Hq. rewrite Forall_forall in Hl. destruct (Hl _ Hq).
      apply cmp_is_eq_eqb; assumption.
  - unfold keys_tagwf. eapply Forall_impl; [| exact Hl]. intros a [H _]. apply cell_ok_tagwf, H.
  - constructor.
  - apply cell_ok_tagwf, Hk.
Qed.

(* ------------------------------------------------------------------ *)
(* 2b. refinement: a map is an association list with [equal?] keys     *)
(* ------------------------------------------------------------------ *)
(* the specification: an unsorted list of bindings, newest first, looked up with equal? *)
Definition al_find (l : list (cell * cell)) (k : cell) : option cell :=
  option_map snd (find (fun kv => cell_eqb (fst kv) k) l).
Definition al_insert (l : list (cell * cell)) (k v : cell) : list (cell * cell) := (k, v) :: l.
Definition al_remove (l : list (cell * cell)) (k : cell) : list (cell * cell) :=
  filter (fun kv => negb (cell_eqb (fst kv) k)) l.
Definition al_ok (l : list (cell * cell)) : Prop := Forall (fun kv => cell_ok (fst kv) /\ NoNaN (fst kv)) l.

Definition refines (m l : list (cell * cell)) : Prop :=
  forall k, cell_ok k -> NoNaN k -> assoc_find m k = al_find l k.

Theorem refines_nil : refines [] [].
Proof. intros k _ _. reflexivity. Qed.

Theorem refines_insert : forall m l k v, map_ok m -> cell_ok k -> NoNaN k ->
  refines m l -> refines (assoc_insert m k v) (al_insert l k v).
Proof.
  intros m l k v Hm Hk Nk R k' Hk' Nk'. rewrite find_insert by assumption.
  unfold al_find, al_insert. cbn [find fst]. destruct (cell_eqb k k'); [reflexivity|]. apply R; assumption.
Qed.

Lemma al_find_remove : forall l k k', al_ok l -> cell_ok k -> NoNaN k -> cell_ok k' -> NoNaN k' ->
  al_find (al_remove l k) k' = if cell_eqb k k' then None else al_find l k'.
Proof.
  intros l k k' Hl Hk Nk Hk' Nk'. unfold al_find, al_remove.
  induction Hl as [| [k0 v0] r [H0 N0] Hr IH]; cbn [filter find fst].
  - destruct (cell_eqb k k'); reflexivity.
  - destruct (cell_eqb k0 k) eqn:E0; cbn [negb].
    + rewrite IH. destruct (cell_eqb k k') eqn:E1; [reflexivity|].
      destruct (cell_eqb k0 k') eqn:E2; [| reflexivity].
      exfalso. rewrite (eqb_sym k0 k) in E0 by assumption.
      pose proof (eqb_trans k k0 k' Hk H0 Hk' Nk N0 Nk' E0 E2). congruence.
    + cbn [find fst]. destruct (cell_eqb k0 k') eqn:E2.
      * destruct (cell_eqb k k') eqn:E1; [| reflexivity].
        exfalso. rewrite (eqb_sym k k') in E1 by assumption.
        pose proof (eqb_trans k0 k' k H0 Hk' Hk N0 Nk' Nk E2 E1). congruence.
      * apply IH.
Qed.

Theorem refines_remove : forall m l k, map_ok m -> al_ok l -> cell_ok k -> NoNaN k ->
  refines m l -> refines (assoc_remove m k) (al_remove l k).
Proof.
  intros m l k Hm Hl Hk Nk R k' Hk' Nk'. rewrite find_remove, al_find_remove by assumption.
  destruct (cell_eqb k k'); [reflexivity|]. apply R; assumption.
Qed.

Theorem al_ok_insert : forall l k v, al_ok l -> cell_ok k -> NoNaN k -> al_ok (al_insert l k v).
Proof. intros. constructor; auto. Qed.
Theorem al_ok_remove : forall l k, al_ok l -> al_ok (al_remove l k).
Proof. intros l k H. unfold al_ok, al_remove in *. rewrite Forall_forall in *. intros x Hx. apply filter_In in Hx. apply H, Hx. Qed.

(* a map literal refines the list of its pairs read from the end *)
Theorem refines_literal : forall l,
  Forall (fun kv => cell_ok (fst kv) /\ NoNaN (fst kv)) (pairs_of l) ->
  refines (pairs_insert l []) (rev (pairs_of l)).
Proof. intros l Hl k Hk Nk. apply pairs_insert_find_eqb; assumption. Qed.

(* ------------------------------------------------------------------ *)
(* 3. concat / join on a vector of strings                             *)
(* ------------------------------------------------------------------ *)
Definition sep_of (sep : option string) : string := match sep with Some s => s | None => EmptyString end.

Lemma append_empty_r : forall s, String.append s EmptyString = s.
Proof. induction s; cbn; congruence. Qed.

Theorem join_cells_strings : forall f sep ts,
  join_cells (S f) sep (map CStr ts) = Some (String.concat (sep_of sep) ts).
Proof.
  intros f sep ts. unfold join_cells. fold join_cells. cbv zeta. rewrite map_length.
  match goal with |- ?g _ 0 = _ => set (go := g) end.
  assert (H : forall l k, k + length l = length ts ->
                          go (map CStr l) k = Some (String.concat (sep_of sep) l)).
  { induction l as [| t r IH]; intros k Hk; [reflexivity|].
    cbn [map]. unfold go at 1. fold go. cbn [value]. rewrite (IH (S k)) by (cbn in Hk; lia).
    f_equal. destruct r as [| t2 r].
    - cbn [String.concat]. cbn in Hk.
      destruct sep; cbn [sep_of]; [| apply append_empty_r].
      replace (S k <? length ts) with false by lia. apply append_empty_r.
    - cbn [String.concat]. cbn in Hk. destruct sep; cbn [sep_of]; auto.
      replace (S k <? length ts) with true by lia. reflexivity. }
  apply (H ts 0). reflexivity.
Qed.

(* ------------------------------------------------------------------ *)
(* a tactic that proves [cell_ok] / [NoNaN] / [map_ok] of concrete cells (for the examples)  *)
(* ------------------------------------------------------------------ *)
Ltac ok_tac :=
  repeat first
    [ match goal with
      | |- _ = _ => vm_compute; reflexivity
      | |- True => exact I
      | |- (_ <= _)%nat => cbn; lia
      | |- map_ok _ => unfold map_ok
      | |- cell_ok (CMap _) => apply (proj2 (cell_ok_map _)); split; [| split]
      | |- cell_ok (CTag _ _) => apply (proj2 (cell_ok_tag _ _)); split; [| split]
      | |- cell_ok (CVec _) => apply (proj2 (cell_ok_vec _))
      | |- NoNaN (CVec _) => apply (proj2 (NoNaN_vec _))
      | |- NoNaN (CMap _) => apply (proj2 (NoNaN_map _))
      | |- tagwf (CVec _) => apply (proj2 (tagwf_vec _))
      | |- tagwf (CMap _) => apply (proj2 (tagwf_map _))
      | |- keys_sorted _ => unfold keys_sorted
      | |- keys_tagwf _ => unfold keys_tagwf
      | |- Forall _ (_ :: _) => apply Forall_cons
      | |- Forall _ [] => apply Forall_nil
      | |- StronglySorted _ (_ :: _) => apply SSorted_cons
      | |- StronglySorted _ [] => apply SSorted_nil
      | |- _ /\ _ => split
      | |- ok_local _ => first [ exact I | cbn [ok_local] ]
      | |- nonan_local _ => first [ exact I | cbn [nonan_local] ]
      | |- notagtag _ => first [ exact I | cbn [notagtag] ]
      | |- wf _ => unfold wf; cbn [cstart cend cdata List.length]
      | |- cell_ok _ => split
      | |- NoNaN _ => split
      | |- tagwf _ => split
      | |- deep _ _ => split
      | |- deepT _ _ => split
      | |- (_ < _)%N => reflexivity
      end ].
