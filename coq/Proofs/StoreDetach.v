(* StoreDetach.v (C03): the representation of the result of h_detach / h_append / h_invert /
   h_insert does not depend on who else holds the buffer.

   [h_detach] works in place only when the strong count is 1 AND the handle starts at bit 0;
   in every other case it copies and rebases to bit 0.  So the result handle ALWAYS starts at
   bit 0 and ends at the number of bits of the value:
     (a) range lemmas - unconditional (no invariant, any strong count);
     (b) view lemmas - under [store_inv] the view of the result handle is the value-level
         operation of Bits.v applied to the views of the operands, with the ownership flag
         [strong = 1]; by Proofs/BitsDetach.v that flag is irrelevant for the range and the
         bits (for append / insert: irrelevant altogether);
     (c) two stores whose operand handles have the same views (or only the same bits) give
         result handles with the same [hstart], [hend] and [habs]. *)
From Xeh Require Import Model.Prelude Model.Bits Model.Store.
From Xeh Require Import Proofs.BitsBasic Proofs.BitsKernel Proofs.BitsLists Proofs.BitsMirror Proofs.BitsProofs.
From Xeh Require Import Proofs.BitsDetach Proofs.StoreProofs.
From Coq Require Import Permutation ZifyBool ZifyNat ZifyN.

Lemma habs_length st h : length (habs st h) = hend h - hstart h.
Proof. unfold habs. rewrite abs_length. reflexivity. Qed.

(* ---------- (a) the range of the result handle, whatever the strong counts ---------- *)

Lemma h_detach_range : forall st h st' h', h_detach st h = (st', h') ->
  hstart h' = 0 /\ hend h' = hend h - hstart h.
Proof.
  intros st h st' h'. unfold h_detach.
  destruct ((strong (sget st (hptr h)) =? 1) && (hstart h =? 0)) eqn:Eu.
  - intros E. injection E as <- <-. lia.
  - unfold alloc. intros E. injection E as <- <-. cbn [hstart hend].
    rewrite detach_cstart, detach_cend. split; reflexivity.
Qed.

Lemma h_make_mut_range : forall st h st' h', h_make_mut st h = (st', h') ->
  hstart h' = hstart h /\ hend h' = hend h.
Proof.
  intros st h st' h'. unfold h_make_mut. cbv zeta.
  destruct (strong (sget st (hptr h)) =? 1).
  - intros E. injection E as <- <-. split; reflexivity.
  - unfold alloc. intros E. injection E as <- <-. split; reflexivity.
Qed.

Lemma h_append_bits_mut_range : forall st h t st' h', h_append_bits_mut st h t = (st', h') ->
  hstart h' = hstart h /\ hend h' = hend h + (hend t - hstart t).
Proof.
  intros st h t st' h'. unfold h_append_bits_mut.
  destruct (h_make_mut st h) as [st1 h1] eqn:E1.
  destruct (h_make_mut_range _ _ _ _ E1) as [R1 R2]. cbv zeta.
  intros E. injection E as <- <-. cbn [hstart hend].
  destruct (append_bits_mut_range (view st1 h1) (view st1 t)) as [-> ->].
  unfold clen. cbn [view cstart cend]. lia.
Qed.

Lemma h_append_range : forall st h t st' h', h_append st h t = (st', h') ->
  hstart h' = 0 /\ hend h' = (hend h - hstart h) + (hend t - hstart t).
Proof.
  intros st h t st' h'. unfold h_append.
  destruct (h_detach st h) as [st1 h1] eqn:E1. intros E.
  destruct (h_detach_range _ _ _ _ E1) as [R1 R2].
  destruct (h_append_bits_mut_range _ _ _ _ _ E) as [R3 R4]. lia.
Qed.

Lemma h_invert_range : forall st h st' h', h_invert st h = (st', h') ->
  hstart h' = 0 /\ hend h' = hend h - hstart h.
Proof.
  intros st h st' h'. unfold h_invert.
  destruct (h_detach st h) as [st1 h1] eqn:E1.
  destruct (h_make_mut st1 h1) as [st2 h2] eqn:E2. cbv zeta.
  intros E. injection E as <- <-.
  destruct (h_detach_range _ _ _ _ E1) as [R1 R2].
  destruct (h_make_mut_range _ _ _ _ E2) as [R3 R4]. lia.
Qed.

Lemma h_insert_range : forall st h i s st' h', h_insert st h i s = Some (st', h') ->
  hstart h + i <= hend h /\
  hstart h' = 0 /\ hend h' = (hend h - hstart h) + (hend s - hstart s).
Proof.
  intros st h i s st' h'. unfold h_insert, split_at. cbv zeta. cbn [view cstart cend cdata].
  destruct (hend h <? hstart h + i) eqn:Ei; [discriminate|].
  destruct (h_detach _ _) as [st2 h2] eqn:E2.
  destruct (h_append_bits_mut st2 h2 s) as [st3 h3] eqn:E3.
  destruct (h_append_bits_mut st3 h3 _) as [st4 h4] eqn:E4.
  intros E. injection E as <- <-.
  destruct (h_detach_range _ _ _ _ E2) as [R1 R2].
  destruct (h_append_bits_mut_range _ _ _ _ _ E3) as [R3 R4].
  destruct (h_append_bits_mut_range _ _ _ _ _ E4) as [R5 R6].
  cbn [hstart hend cstart cend] in *. lia.
Qed.

(* ---------- (b) the view of the result is the value-level operation ---------- *)

(* [h_detach] is [detach] with the flag "strong count is 1" *)
Lemma h_detach_view : forall st h st' h', h_detach st h = (st', h') ->
  view st' h' = detach (strong (sget st (hptr h)) =? 1) (view st h).
Proof.
  intros st h st' h'. unfold h_detach.
  destruct ((strong (sget st (hptr h)) =? 1) && (hstart h =? 0)) eqn:Eu.
  - intros E. injection E as <- <-. unfold detach. cbn [view cstart]. rewrite Eu. reflexivity.
  - unfold alloc. intros E. injection E as <- <-.
    unfold view at 1. cbn [hptr hstart hend]. rewrite sget_app_new.
    cbn [bbytes]. rewrite cbs_eta.
    unfold detach. cbn [view cstart andb]. rewrite Eu. reflexivity.
Qed.

Lemma h_append_bits_mut_view : forall st h t L st' h',
  store_inv st (h :: L) -> In t L -> h_append_bits_mut st h t = (st', h') ->
  view st' h' = append_bits_mut (view st h) (view st t).
Proof.
  intros st h t L st' h' HI Ht E. unfold h_append_bits_mut in E.
  destruct (h_make_mut st h) as [st1 h1] eqn:E1.
  destruct (h_make_mut_spec _ _ _ _ _ HI E1) as (I1 & V1 & N1 & U1).
  pose proof (store_inv_wf _ _ h1 I1 (or_introl eq_refl)) as [Hp1 Hw1].
  pose proof (store_inv_wf _ _ t I1 (or_intror Ht)) as [Hpt Hwt].
  destruct (append_bits_mut_spec _ _ Hw1 Hwt) as [Wc Ac].
  set (c := append_bits_mut (view st1 h1) (view st1 t)) in *.
  rewrite U1 in E. injection E as <- <-.
  assert (Wc' : wf (mkcbs (cstart c) (cend c) (cdata c))) by (rewrite cbs_eta; exact Wc).
  destruct (inv_rewrite st1 h1 L _ _ _ false I1 U1 Wc') as (I & V & N).
  rewrite N, cbs_eta. unfold c. rewrite N1, (V1 t Ht). reflexivity.
Qed.

(* [h_append] is [Bits.append], for EVERY ownership flag *)
Lemma h_append_view : forall st h t L st' h' u,
  store_inv st (h :: L) -> In t L -> h_append st h t = (st', h') ->
  view st' h' = Bits.append u (view st h) (view st t).
Proof.
  intros st h t L st' h' u HI Ht E. unfold h_append in E.
  destruct (h_detach st h) as [st1 h1] eqn:E1.
  destruct (h_detach_spec _ _ _ _ _ HI E1) as (I1 & V1 & _ & _).
  pose proof (store_inv_wf _ _ h HI (or_introl eq_refl)) as [_ Wh].
  rewrite (h_append_bits_mut_view _ _ _ _ _ _ I1 Ht E).
  rewrite (h_detach_view _ _ _ _ E1), (V1 t Ht).
  apply (append_indep _ u _ _ Wh).
Qed.

(* [h_invert] is [invert] with the flag "strong count is 1" *)
Lemma h_invert_view : forall st h L st' h',
  store_inv st (h :: L) -> h_invert st h = (st', h') ->
  view st' h' = invert (strong (sget st (hptr h)) =? 1) (view st h).
Proof.
  intros st h L st' h' HI E. unfold h_invert in E.
  destruct (h_detach st h) as [st1 h1] eqn:E1.
  destruct (h_detach_spec _ _ _ _ _ HI E1) as (I1 & V1 & A1 & _).
  destruct (h_make_mut st1 h1) as [st2 h2] eqn:E2.
  destruct (h_make_mut_spec _ _ _ _ _ I1 E2) as (I2 & V2 & N2 & U2).
  pose proof (store_inv_wf _ _ h2 I2 (or_introl eq_refl)) as [Hp2 Hw2].
  cbv zeta in E. injection E as <- <-.
  unfold view at 1. rewrite sget_sset_same by exact Hp2. cbn [bbytes].
  unfold invert. cbv zeta. rewrite <- (h_detach_view _ _ _ _ E1), <- N2.
  reflexivity.
Qed.

(* [h_insert] is [insert], for EVERY ownership flag *)
Lemma h_insert_view : forall st h i s L u,
  store_inv st (h :: L) -> In s L ->
  match h_insert st h i s, insert u (view st h) i (view st s) with
  | Some (st', h'), Some r => view st' h' = r
  | None, None => True
  | _, _ => False
  end.
Proof.
  intros st h i s L u HI Hs. pose proof (store_inv_wf _ _ h HI (or_introl eq_refl)) as [Hp Hw].
  rewrite (insert_indep u false (view st h) i (view st s) Hw).
  unfold h_insert, insert. pose proof (split_at_spec (view st h) i Hw) as HS.
  destruct (split_at (view st h) i) as [[l r]|] eqn:Es; [|exact I].
  destruct HS as (Hi & Wl & Wr & Al & Ar).
  destruct (split_at_inv _ _ _ _ Es) as [El Er].
  cbn [view cstart cend cdata] in El, Er.
  set (p := hptr h) in *.
  set (hl := mkh p (cstart l) (cend l)). set (hr := mkh p (cstart r) (cend r)).
  assert (I0 : store_inv (incr (incr st p) p) (hl :: hr :: h :: L)).
  { apply inv_add.
    - apply inv_add; [exact HI|exact Hp|]. rewrite Er in Wr |- *. exact Wr.
    - rewrite incr_length. exact Hp.
    - rewrite bbytes_incr. rewrite El in Wl |- *. exact Wl. }
  assert (V0 : forall g, view (incr (incr st p) p) g = view st g).
  { intros g. rewrite !view_incr. reflexivity. }
  set (st1 := incr (incr st p) p) in *.
  assert (Vl : view st1 hl = l).
  { rewrite V0. unfold view, hl. cbn [hptr hstart hend]. rewrite El. reflexivity. }
  assert (Vr : view st1 hr = r).
  { rewrite V0. unfold view, hr. cbn [hptr hstart hend]. rewrite Er. reflexivity. }
  destruct (h_detach st1 hl) as [st2 h2] eqn:E2.
  destruct (h_detach_spec _ _ _ _ _ I0 E2) as (I2 & V2 & A2 & _).
  destruct (h_append_bits_mut st2 h2 s) as [st3 h3] eqn:E3.
  assert (Hs' : In s (hr :: h :: L)) by (right; right; exact Hs).
  destruct (h_append_bits_mut_spec _ _ _ _ _ _ I2 Hs' E3) as (I3 & V3 & A3).
  destruct (h_append_bits_mut st3 h3 hr) as [st4 h4] eqn:E4.
  assert (Hr' : In hr (hr :: h :: L)) by (left; reflexivity).
  rewrite !view_decr.
  rewrite (h_append_bits_mut_view _ _ _ _ _ _ I3 Hr' E4).
  rewrite (h_append_bits_mut_view _ _ _ _ _ _ I2 Hs' E3).
  rewrite (h_detach_view _ _ _ _ E2), Vl.
  rewrite (V3 hr Hr'), (V2 hr Hr'), Vr, (V2 s Hs'), V0.
  (* the left part is shared with the two temporaries: the copy path; any flag gives the same *)
  assert (Wd : forall v, append_bits_mut (detach v l) (view st s) = append_bits_mut (detach false l) (view st s)).
  { intros v. destruct (detach_spec v l Wl) as [W1 A1]. destruct (detach_spec false l Wl) as [W2 A2'].
    apply append_bits_mut_abs_cong; [exact W1|exact W2|apply detach_cstart|apply detach_cstart|].
    rewrite A1, A2'. reflexivity. }
  rewrite Wd. reflexivity.
Qed.

(* ---------- closed forms: range and bits of the result from the bits of the operands ---------- *)

Lemma h_detach_repr : forall st h L st' h',
  store_inv st (h :: L) -> h_detach st h = (st', h') ->
  hstart h' = 0 /\ hend h' = length (habs st h) /\ habs st' h' = habs st h.
Proof.
  intros st h L st' h' HI E. destruct (h_detach_range _ _ _ _ E) as [R1 R2].
  destruct (h_detach_spec _ _ _ _ _ HI E) as (_ & _ & A & _).
  rewrite habs_length. auto.
Qed.

Lemma h_append_repr : forall st h t L st' h',
  store_inv st (h :: L) -> In t L -> h_append st h t = (st', h') ->
  hstart h' = 0 /\ hend h' = length (habs st h ++ habs st t) /\
  habs st' h' = habs st h ++ habs st t.
Proof.
  intros st h t L st' h' HI Ht E. destruct (h_append_range _ _ _ _ _ E) as [R1 R2].
  destruct (h_append_spec _ _ _ _ _ _ HI Ht E) as (_ & _ & A).
  rewrite app_length, !habs_length. auto.
Qed.

Lemma h_invert_repr : forall st h L st' h',
  store_inv st (h :: L) -> h_invert st h = (st', h') ->
  hstart h' = 0 /\ hend h' = length (habs st h) /\ habs st' h' = map negb (habs st h).
Proof.
  intros st h L st' h' HI E. destruct (h_invert_range _ _ _ _ E) as [R1 R2].
  destruct (h_invert_spec _ _ _ _ _ HI E) as (_ & _ & A).
  rewrite habs_length. auto.
Qed.

Lemma h_insert_repr : forall st h i s L st' h',
  store_inv st (h :: L) -> In s L -> h_insert st h i s = Some (st', h') ->
  hstart h' = 0 /\ hend h' = length (habs st h) + length (habs st s) /\
  habs st' h' = firstn i (habs st h) ++ habs st s ++ skipn i (habs st h).
Proof.
  intros st h i s L st' h' HI Hs E. destruct (h_insert_range _ _ _ _ _ _ E) as (_ & R1 & R2).
  pose proof (h_insert_spec _ _ i _ _ HI Hs) as H. rewrite E in H.
  destruct H as (_ & _ & _ & A). rewrite !habs_length. auto.
Qed.

(* ---------- (c) two stores: same operand bits / views, same result representation ---------- *)

(* operands with the same BITS (the offsets and the buffers may differ) *)
Lemma h_detach_same_bits : forall st1 h1 L1 st1' h1' st2 h2 L2 st2' h2',
  store_inv st1 (h1 :: L1) -> store_inv st2 (h2 :: L2) ->
  habs st1 h1 = habs st2 h2 ->
  h_detach st1 h1 = (st1', h1') -> h_detach st2 h2 = (st2', h2') ->
  hstart h1' = hstart h2' /\ hend h1' = hend h2' /\ habs st1' h1' = habs st2' h2'.
Proof.
  intros st1 h1 L1 st1' h1' st2 h2 L2 st2' h2' I1 I2 Eh E1 E2.
  destruct (h_detach_repr _ _ _ _ _ I1 E1) as (-> & -> & ->).
  destruct (h_detach_repr _ _ _ _ _ I2 E2) as (-> & -> & ->).
  rewrite Eh. auto.
Qed.

Lemma h_append_same_bits : forall st1 h1 t1 L1 st1' h1' st2 h2 t2 L2 st2' h2',
  store_inv st1 (h1 :: L1) -> In t1 L1 -> store_inv st2 (h2 :: L2) -> In t2 L2 ->
  habs st1 h1 = habs st2 h2 -> habs st1 t1 = habs st2 t2 ->
  h_append st1 h1 t1 = (st1', h1') -> h_append st2 h2 t2 = (st2', h2') ->
  hstart h1' = hstart h2' /\ hend h1' = hend h2' /\ habs st1' h1' = habs st2' h2'.
Proof.
  intros st1 h1 t1 L1 st1' h1' st2 h2 t2 L2 st2' h2' I1 T1 I2 T2 Eh Et E1 E2.
  destruct (h_append_repr _ _ _ _ _ _ I1 T1 E1) as (-> & -> & ->).
  destruct (h_append_repr _ _ _ _ _ _ I2 T2 E2) as (-> & -> & ->).
  rewrite Eh, Et. auto.
Qed.

Lemma h_invert_same_bits : forall st1 h1 L1 st1' h1' st2 h2 L2 st2' h2',
  store_inv st1 (h1 :: L1) -> store_inv st2 (h2 :: L2) ->
  habs st1 h1 = habs st2 h2 ->
  h_invert st1 h1 = (st1', h1') -> h_invert st2 h2 = (st2', h2') ->
  hstart h1' = hstart h2' /\ hend h1' = hend h2' /\ habs st1' h1' = habs st2' h2'.
Proof.
  intros st1 h1 L1 st1' h1' st2 h2 L2 st2' h2' I1 I2 Eh E1 E2.
  destruct (h_invert_repr _ _ _ _ _ I1 E1) as (-> & -> & ->).
  destruct (h_invert_repr _ _ _ _ _ I2 E2) as (-> & -> & ->).
  rewrite Eh. auto.
Qed.

Lemma h_insert_same_bits : forall st1 h1 s1 L1 st2 h2 s2 L2 i,
  store_inv st1 (h1 :: L1) -> In s1 L1 -> store_inv st2 (h2 :: L2) -> In s2 L2 ->
  habs st1 h1 = habs st2 h2 -> habs st1 s1 = habs st2 s2 ->
  match h_insert st1 h1 i s1, h_insert st2 h2 i s2 with
  | Some (st1', h1'), Some (st2', h2') =>
    hstart h1' = hstart h2' /\ hend h1' = hend h2' /\ habs st1' h1' = habs st2' h2'
  | None, None => True
  | _, _ => False
  end.
Proof.
  intros st1 h1 s1 L1 st2 h2 s2 L2 i I1 S1 I2 S2 Eh Es.
  pose proof (h_insert_spec _ _ i _ _ I1 S1) as H1. pose proof (h_insert_spec _ _ i _ _ I2 S2) as H2.
  pose proof (f_equal (@length bool) Eh) as EL. rewrite !habs_length in EL.
  destruct (h_insert st1 h1 i s1) as [[st1' h1']|] eqn:E1;
    destruct (h_insert st2 h2 i s2) as [[st2' h2']|] eqn:E2.
  - destruct (h_insert_repr _ _ _ _ _ _ _ I1 S1 E1) as (-> & -> & ->).
    destruct (h_insert_repr _ _ _ _ _ _ _ I2 S2 E2) as (-> & -> & ->).
    rewrite Eh, Es. auto.
  - destruct H1 as [H1 _]. lia.
  - destruct H2 as [H2 _]. lia.
  - exact I.
Qed.

(* operands with the same VIEWS: "the two stores differ only in who else holds the buffers" *)
Lemma habs_view_eq st1 h1 st2 h2 : view st1 h1 = view st2 h2 -> habs st1 h1 = habs st2 h2.
Proof. unfold habs. intros ->. reflexivity. Qed.

Lemma h_detach_ownership_indep : forall st1 h1 L1 st1' h1' st2 h2 L2 st2' h2',
  store_inv st1 (h1 :: L1) -> store_inv st2 (h2 :: L2) ->
  view st1 h1 = view st2 h2 ->
  h_detach st1 h1 = (st1', h1') -> h_detach st2 h2 = (st2', h2') ->
  hstart h1' = hstart h2' /\ hend h1' = hend h2' /\ habs st1' h1' = habs st2' h2'.
Proof.
  intros st1 h1 L1 st1' h1' st2 h2 L2 st2' h2' I1 I2 Ev.
  apply (h_detach_same_bits _ _ _ _ _ _ _ _ _ _ I1 I2). apply habs_view_eq. exact Ev.
Qed.

Lemma h_invert_ownership_indep : forall st1 h1 L1 st1' h1' st2 h2 L2 st2' h2',
  store_inv st1 (h1 :: L1) -> store_inv st2 (h2 :: L2) ->
  view st1 h1 = view st2 h2 ->
  h_invert st1 h1 = (st1', h1') -> h_invert st2 h2 = (st2', h2') ->
  hstart h1' = hstart h2' /\ hend h1' = hend h2' /\ habs st1' h1' = habs st2' h2'.
Proof.
  intros st1 h1 L1 st1' h1' st2 h2 L2 st2' h2' I1 I2 Ev.
  apply (h_invert_same_bits _ _ _ _ _ _ _ _ _ _ I1 I2). apply habs_view_eq. exact Ev.
Qed.

(* for append and insert the WHOLE view of the result (backing bytes included) is the same *)
Lemma h_append_ownership_indep : forall st1 h1 t1 L1 st1' h1' st2 h2 t2 L2 st2' h2',
  store_inv st1 (h1 :: L1) -> In t1 L1 -> store_inv st2 (h2 :: L2) -> In t2 L2 ->
  view st1 h1 = view st2 h2 -> view st1 t1 = view st2 t2 ->
  h_append st1 h1 t1 = (st1', h1') -> h_append st2 h2 t2 = (st2', h2') ->
  hstart h1' = hstart h2' /\ hend h1' = hend h2' /\ habs st1' h1' = habs st2' h2' /\
  view st1' h1' = view st2' h2'.
Proof.
  intros st1 h1 t1 L1 st1' h1' st2 h2 t2 L2 st2' h2' I1 T1 I2 T2 Eh Et E1 E2.
  assert (EV : view st1' h1' = view st2' h2').
  { rewrite (h_append_view _ _ _ _ _ _ false I1 T1 E1), (h_append_view _ _ _ _ _ _ false I2 T2 E2).
    rewrite Eh, Et. reflexivity. }
  pose proof (f_equal cstart EV) as Es. pose proof (f_equal cend EV) as Ee.
  cbn [view cstart cend] in Es, Ee.
  split; [exact Es|]. split; [exact Ee|]. split; [apply habs_view_eq; exact EV|exact EV].
Qed.

Lemma h_insert_ownership_indep : forall st1 h1 s1 L1 st2 h2 s2 L2 i,
  store_inv st1 (h1 :: L1) -> In s1 L1 -> store_inv st2 (h2 :: L2) -> In s2 L2 ->
  view st1 h1 = view st2 h2 -> view st1 s1 = view st2 s2 ->
  match h_insert st1 h1 i s1, h_insert st2 h2 i s2 with
  | Some (st1', h1'), Some (st2', h2') =>
    hstart h1' = hstart h2' /\ hend h1' = hend h2' /\ habs st1' h1' = habs st2' h2' /\
    view st1' h1' = view st2' h2'
  | None, None => True
  | _, _ => False
  end.
Proof.
  intros st1 h1 s1 L1 st2 h2 s2 L2 i I1 S1 I2 S2 Eh Es.
  pose proof (h_insert_view _ _ i _ _ false I1 S1) as H1.
  pose proof (h_insert_view _ _ i _ _ false I2 S2) as H2.
  rewrite Eh, Es in H1.
  destruct (h_insert st1 h1 i s1) as [[st1' h1']|];
    destruct (h_insert st2 h2 i s2) as [[st2' h2']|];
    destruct (insert false (view st2 h2) i (view st2 s2)) as [r|]; try contradiction; try exact I.
  assert (EV : view st1' h1' = view st2' h2') by (rewrite H1, H2; reflexivity).
  pose proof (f_equal cstart EV) as Ec. pose proof (f_equal cend EV) as Ee.
  cbn [view cstart cend] in Ec, Ee.
  split; [exact Ec|]. split; [exact Ee|]. split; [apply habs_view_eq; exact EV|exact EV].
Qed.

(* ---------- the pool: who else holds the buffer does not show in the result ---------- *)

(* a slice [4, 12) of ab cd; in the first pool the original value has been dropped (the
   slice is uniquely owned), in the second it is still live (the buffer is shared).  Both
   detach to a handle [0, 8) with the bits of bc - before the repair the first one stayed
   at [4, 12). *)
Lemma pool_detach_unique_vs_shared :
  let spA := pool_run [PNew [171; 205]%N false; PSubstr 0 4 12; PDrop 0; PDetach 0] in
  let spB := pool_run [PNew [171; 205]%N false; PSubstr 0 4 12; PDetach 1] in
  let hA := nth 0 (snd spA) (mkh 0 0 0) in
  let hB := nth 1 (snd spB) (mkh 0 0 0) in
  (hstart hA, hend hA) = (0, 8) /\ (hstart hB, hend hB) = (0, 8) /\
  habs (fst spA) hA = habs (fst spB) hB /\
  habs (fst spA) hA = abs (from_bytes [188%N]).
Proof. vm_compute. repeat split; reflexivity. Qed.

(* same for append / invert / insert on the uniquely owned and on the shared slice *)
Lemma pool_ops_unique_vs_shared :
  let pre := [PNew [171; 205]%N false; PNew [15%N] false; PSubstr 0 4 12] in
  let res ops := let sp := pool_run ops in
                 let h := nth (length (snd sp) - 1) (snd sp) (mkh 0 0 0) in
                 (hstart h, hend h, habs (fst sp) h) in
  res (pre ++ [PDrop 0; PAppend 1 0]) = res (pre ++ [PAppend 2 1]) /\
  res (pre ++ [PDrop 0; PInvert 1]) = res (pre ++ [PInvert 2]) /\
  res (pre ++ [PDrop 0; PInsert 1 3 0]) = res (pre ++ [PInsert 2 3 1]) /\
  fst (fst (res (pre ++ [PDrop 0; PInvert 1]))) = 0.
Proof. vm_compute. repeat split; reflexivity. Qed.

(* what may still differ between the two ownership situations: the backing bytes beyond the
   value.  A 4-bit value at the start of the byte ff: detached in place when uniquely owned
   (stale bits stay), copied and left-aligned when a clone is live. *)
Lemma pool_detach_bytes_differ :
  let spA := pool_run [PNew [255%N] false; PSubstr 0 0 4; PDrop 0; PDetach 0] in
  let spB := pool_run [PNew [255%N] false; PSubstr 0 0 4; PDetach 1] in
  let hA := nth 0 (snd spA) (mkh 0 0 0) in
  let hB := nth 1 (snd spB) (mkh 0 0 0) in
  (hstart hA, hend hA) = (hstart hB, hend hB) /\ habs (fst spA) hA = habs (fst spB) hB /\
  cdata (view (fst spA) hA) = [255%N] /\ cdata (view (fst spB) hB) = [240%N].
Proof. vm_compute. repeat split; reflexivity. Qed.
