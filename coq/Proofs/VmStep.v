(* VmStep.v: a small weakest-precondition calculus for programs of the monad [M],
   used to execute the native words symbolically in CursorProofs.v / PackProofs.v.

   [sim s s'] says that [s'] differs from [s] at most in the data stack, the heap and
   the reverse log; [st s0 s d h] describes an intermediate state [s] reached from [s0]
   by its data stack [d] and heap [h]. *)
From Xeh Require Import Model.Prelude Model.Bits Model.Codec Model.Cell Model.Lexer Model.Fmt
                        Model.Vm Model.Words.
From Coq Require Import ZifyBool ZifyNat ZifyN.
Local Notation length := List.length.

#[local] Arguments Z.add : simpl never.
#[local] Arguments Z.sub : simpl never.
#[local] Arguments Z.mul : simpl never.
#[local] Arguments Z.ltb : simpl never.
#[local] Arguments Z.leb : simpl never.
#[local] Arguments Z.eqb : simpl never.
#[local] Arguments Z.of_nat : simpl never.
#[local] Arguments Z.to_nat : simpl never.

(* ---------- states up to data stack, heap and reverse log ---------- *)
Definition core (s : state) : state := set_rlog (set_heap (set_ds s []) []) None.
Definition sim (s s' : state) : Prop := core s' = core s.

Lemma sim_refl s : sim s s.
Proof. reflexivity. Qed.

Lemma sim_trans a b c : sim a b -> sim b c -> sim a c.
Proof. unfold sim. congruence. Qed.

Lemma sim_sym a b : sim a b -> sim b a.
Proof. unfold sim. congruence. Qed.

Lemma sim_cx s s' : sim s s' -> cx s' = cx s.
Proof. intros H. apply (f_equal cx) in H. exact H. Qed.

Lemma sim_slim s s' : sim s s' -> stack_limit s' = stack_limit s.
Proof. intros H. apply (f_equal stack_limit) in H. exact H. Qed.

Lemma core_add_rstep r s : core (add_rstep r s) = core s.
Proof. unfold add_rstep. destruct (rlog s); reflexivity. Qed.

Lemma ds_add_rstep r s : ds (add_rstep r s) = ds s.
Proof. unfold add_rstep. destruct (rlog s); reflexivity. Qed.

Lemma heap_add_rstep r s : heap (add_rstep r s) = heap s.
Proof. unfold add_rstep. destruct (rlog s); reflexivity. Qed.

Definition notmeta (s : state) : Prop := mode_eqb (cmode (cx s)) MMeta = false.

Lemma sim_notmeta s s' : sim s s' -> notmeta s -> notmeta s'.
Proof. unfold notmeta. intros H. rewrite (sim_cx _ _ H). auto. Qed.

(* ---------- intermediate states ---------- *)
Definition st (s0 s : state) (d h : list cell) : Prop := ds s = d /\ heap s = h /\ sim s0 s.

Lemma st_init s : st s s (ds s) (heap s).
Proof. repeat split. Qed.

(* ---------- list_set ---------- *)
Lemma list_set_len {A} : forall (l : list A) i v, length (list_set l i v) = length l.
Proof.
  induction l as [|x r IH]; intros [|i] v; cbn [list_set length]; auto.
Qed.

Lemma nth_list_set_same {A} : forall (l : list A) i v, i < length l ->
  nth_error (list_set l i v) i = Some v.
Proof.
  induction l as [|x r IH]; intros [|i] v H; cbn [length] in H; try lia; cbn [list_set nth_error].
  - reflexivity.
  - apply IH. lia.
Qed.

Lemma nth_list_set_other {A} : forall (l : list A) i j v, i <> j ->
  nth_error (list_set l i v) j = nth_error l j.
Proof.
  induction l as [|x r IH]; intros [|i] [|j] v H; cbn [list_set nth_error]; try reflexivity; try lia.
  apply IH. lia.
Qed.

(* ---------- weakest preconditions ---------- *)
Definition wp {A} (m : M A) (s : state)
           (Q : A -> state -> Prop) (E : ekind -> option cell -> state -> Prop) (U : Prop) : Prop :=
  match m s with
  | ROk a s' => Q a s'
  | RErr k p s' => E k p s'
  | RPanic => False
  | RUnsup => U
  end.

Lemma wp_ret {A} (a : A) s (Q : _ -> state -> Prop) (E : ekind -> option cell -> state -> Prop) (U : Prop) : Q a s -> wp (ret a) s Q E U.
Proof. auto. Qed.

Lemma wp_fail {A : Type} k p s (Q : A -> state -> Prop) (E : ekind -> option cell -> state -> Prop) (U : Prop) : E k p s -> wp (fail k p) s Q E U.
Proof. auto. Qed.

Lemma wp_unsup {A : Type} s (Q : A -> state -> Prop) (E : ekind -> option cell -> state -> Prop) (U : Prop) : U -> wp unsup s Q E U.
Proof. auto. Qed.

Lemma wp_bind {A B} (m : M A) (f : A -> M B) s (Q : _ -> state -> Prop) (E : ekind -> option cell -> state -> Prop) (U : Prop) :
  wp m s (fun a s1 => wp (f a) s1 Q E U) E U -> wp (bind m f) s Q E U.
Proof.
  unfold wp, bind. destruct (m s); auto.
Qed.

Lemma wp_conseq {A} (m : M A) s (Q Q' : A -> state -> Prop) (E E' : ekind -> option cell -> state -> Prop)
      (U U' : Prop) :
  wp m s Q E U ->
  (forall a s', Q a s' -> Q' a s') -> (forall k p s', E k p s' -> E' k p s') -> (U -> U') ->
  wp m s Q' E' U'.
Proof.
  unfold wp. destruct (m s); auto.
Qed.

Lemma wp_get {B} (k : state -> M B) s (Q : _ -> state -> Prop) (E : ekind -> option cell -> state -> Prop) (U : Prop) : wp (k s) s Q E U -> wp (bind get k) s Q E U.
Proof. auto. Qed.

(* ---------- the primitives ---------- *)
Lemma wp_pop_data s0 s d h (Q : _ -> state -> Prop) (E : ekind -> option cell -> state -> Prop) (U : Prop) :
  st s0 s d h ->
  (forall c r s', d = c :: r -> st s0 s' r h -> Q c s') ->
  E EUnderflow None s ->
  wp pop_data s Q E U.
Proof.
  intros (Hd & Hh & Hs) HQ HE. unfold wp, pop_data. rewrite Hd.
  destruct d as [|c r]; [exact HE|].
  destruct (ds_len (cx s) <? length (c :: r)); [|exact HE].
  apply (HQ c r); [reflexivity|]. repeat split.
  - rewrite ds_add_rstep. reflexivity.
  - rewrite heap_add_rstep. exact Hh.
  - unfold sim. rewrite core_add_rstep. exact Hs.
Qed.

Lemma wp_push_data c s0 s d h (Q : _ -> state -> Prop) (E : ekind -> option cell -> state -> Prop) (U : Prop) :
  st s0 s d h ->
  (limit_reached (stack_limit s0) (length d) = false -> forall s', st s0 s' (c :: d) h -> Q tt s') ->
  (limit_reached (stack_limit s0) (length d) = true -> E ELimit None s) ->
  wp (push_data c) s Q E U.
Proof.
  intros (Hd & Hh & Hs) HQ HE. unfold wp, push_data.
  rewrite (sim_slim _ _ Hs), Hd.
  destruct (limit_reached (stack_limit s0) (length d)); [auto|].
  apply HQ; [reflexivity|]. repeat split.
  - change (heap (add_rstep RPopData s) = h). rewrite heap_add_rstep. exact Hh.
  - unfold sim. change (core (set_ds (add_rstep RPopData s) (c :: d))) with (core (add_rstep RPopData s)).
    rewrite core_add_rstep. exact Hs.
Qed.

Lemma wp_get_var a c s0 s d h (Q : _ -> state -> Prop) (E : ekind -> option cell -> state -> Prop) (U : Prop) :
  st s0 s d h -> notmeta s0 -> nth_error h a = Some c ->
  Q c s -> wp (get_var a) s Q E U.
Proof.
  intros (Hd & Hh & Hs) Hm Ha HQ. unfold wp, get_var.
  rewrite (sim_notmeta _ _ Hs Hm), Hh, Ha. exact HQ.
Qed.

Lemma wp_set_var a v s0 s d h (Q : _ -> state -> Prop) (E : ekind -> option cell -> state -> Prop) (U : Prop) :
  st s0 s d h -> notmeta s0 -> a < length h ->
  (forall s', st s0 s' d (list_set h a v) -> Q tt s') ->
  wp (set_var a v) s Q E U.
Proof.
  intros (Hd & Hh & Hs) Hm Ha HQ. unfold wp, set_var.
  rewrite (sim_notmeta _ _ Hs Hm), Hh.
  destruct (nth_error h a) as [old|] eqn:En.
  - apply HQ. repeat split.
    + rewrite ds_add_rstep. exact Hd.
    + rewrite heap_add_rstep. cbn [heap set_heap]. reflexivity.
    + unfold sim. rewrite core_add_rstep. exact Hs.
  - apply nth_error_None in En. lia.
Qed.

(* typed accessors *)
Lemma wp_m_bits c s (Q : _ -> state -> Prop) (E : ekind -> option cell -> state -> Prop) (U : Prop) :
  (forall b, value c = CBits b -> Q b s) ->
  ((forall b, value c <> CBits b) -> E EType (Some (value c)) s) ->
  wp (m_bits c) s Q E U.
Proof.
  intros HQ HE. unfold wp, m_bits.
  destruct (value c) eqn:Ev; try (apply HE; intros; discriminate).
  apply HQ. reflexivity.
Qed.

Lemma wp_m_vec c s (Q : _ -> state -> Prop) (E : ekind -> option cell -> state -> Prop) (U : Prop) :
  (forall l, value c = CVec l -> Q l s) ->
  ((forall l, value c <> CVec l) -> E EType (Some (value c)) s) ->
  wp (m_vec c) s Q E U.
Proof.
  intros HQ HE. unfold wp, m_vec.
  destruct (value c) eqn:Ev; try (apply HE; intros; discriminate).
  apply HQ. reflexivity.
Qed.

Lemma wp_m_xint c s (Q : _ -> state -> Prop) (E : ekind -> option cell -> state -> Prop) (U : Prop) :
  (forall z, value c = CInt z -> Q z s) ->
  ((forall z, value c <> CInt z) -> E EType (Some (value c)) s) ->
  wp (m_xint c) s Q E U.
Proof.
  intros HQ HE. unfold wp, m_xint.
  destruct (value c) eqn:Ev; try (apply HE; intros; discriminate).
  apply HQ. reflexivity.
Qed.

Lemma wp_m_real c s (Q : _ -> state -> Prop) (E : ekind -> option cell -> state -> Prop) (U : Prop) :
  (forall z, value c = CReal z -> Q z s) ->
  ((forall z, value c <> CReal z) -> E EType (Some (value c)) s) ->
  wp (m_real c) s Q E U.
Proof.
  intros HQ HE. unfold wp, m_real.
  destruct (value c) eqn:Ev; try (apply HE; intros; discriminate).
  apply HQ. reflexivity.
Qed.

(* [m_usize]: an integer in [0, 2^64), otherwise a type error (not an integer, or negative)
   or an overflow error *)
Definition is_usize (c : cell) (z : Z) : Prop := value c = CInt z /\ (0 <= z < two64)%Z.

Lemma wp_m_usize c s (Q : _ -> state -> Prop) (E : ekind -> option cell -> state -> Prop) (U : Prop) :
  (forall z, is_usize c z -> Q z s) ->
  ((forall z, ~ is_usize c z) -> forall k p, k = EType \/ k = EOverflow -> E k p s) ->
  wp (m_usize c) s Q E U.
Proof.
  intros HQ HE. unfold wp, m_usize.
  destruct (value c) as [| |z| | | | | | | |] eqn:Ev; cbv beta iota delta [fail];
    try (apply HE; [intros z0 [H0 _]; congruence | auto]).
  destruct (Z.ltb_spec z 0); cbv beta iota delta [fail].
  - apply HE; [|auto]. intros z0 [Hz0 Hz1]. assert (z0 = z) by congruence. lia.
  - unfold in_usize. destruct (Z.ltb_spec z two64).
    + replace (0 <=? z)%Z with true by lia. cbn [andb]. apply HQ. split; [exact Ev|lia].
    + replace ((0 <=? z)%Z && false) with false by (destruct (0 <=? z)%Z; reflexivity).
      cbv beta iota delta [fail].
      apply HE; [|auto]. intros z0 [Hz0 Hz1]. assert (z0 = z) by congruence. lia.
Qed.

(* progress forms: the primitives succeed when their side conditions hold *)
Lemma wp_pop_data_ok c r s0 s h (Q : _ -> state -> Prop) (E : ekind -> option cell -> state -> Prop) (U : Prop) :
  st s0 s (c :: r) h -> ds_len (cx s0) < length (c :: r) ->
  (forall s', st s0 s' r h -> Q c s') ->
  wp pop_data s Q E U.
Proof.
  intros (Hd & Hh & Hs) Hlen HQ. unfold wp, pop_data. rewrite Hd, (sim_cx _ _ Hs).
  replace (ds_len (cx s0) <? length (c :: r)) with true by lia.
  apply HQ. repeat split.
  - rewrite ds_add_rstep. reflexivity.
  - rewrite heap_add_rstep. exact Hh.
  - unfold sim. rewrite core_add_rstep. exact Hs.
Qed.

Lemma wp_push_data_ok c s0 s d h (Q : _ -> state -> Prop) (E : ekind -> option cell -> state -> Prop) (U : Prop) :
  st s0 s d h -> limit_reached (stack_limit s0) (length d) = false ->
  (forall s', st s0 s' (c :: d) h -> Q tt s') ->
  wp (push_data c) s Q E U.
Proof.
  intros Hst Hroom HQ. eapply wp_push_data; eauto. intros Hlim. congruence.
Qed.

(* a program that cannot fail returns normally *)
Lemma wp_total {A} (m : M A) s (Q : A -> state -> Prop) :
  wp m s Q (fun _ _ _ => False) False -> exists a s', m s = ROk a s' /\ Q a s'.
Proof. unfold wp. destruct (m s); try contradiction. eauto. Qed.

Lemma st_trans s0 s1 s2 d1 h1 d2 h2 : st s0 s1 d1 h1 -> st s1 s2 d2 h2 -> st s0 s2 d2 h2.
Proof. intros (_ & _ & Hs1) (Hd & Hh & Hs2). repeat split; auto. eapply sim_trans; eauto. Qed.
