(* Bit-string literals read as written: every character between the bars contributes its bits
   (a hex digit four, '.' and 'x' one, whitespace none); malformed and unterminated literals. *)
From Xeh Require Import Model.Prelude Model.Bits Model.Cell Model.Lexer Model.Fmt.
From Xeh Require Import Proofs.BitsBasic Proofs.BitsKernel Proofs.BitsLists Proofs.BitsMirror Proofs.BitsProofs.
From Xeh Require Import Proofs.LexLoc Proofs.LexBasic Proofs.LexNext Proofs.LexAll Proofs.LexPrintInt
  Proofs.LexPrintBits Proofs.LexStr.
From Coq Require Import ZifyBool ZifyNat ZifyN.
Local Open Scope string_scope.

Inductive bitem :=
| BHex (up : bool) (d : N)   (* a hex digit, either case *)
| BDot                       (* '.' : a clear bit *)
| BX                         (* 'x' : a set bit *)
| BSpace (c : ascii).        (* ASCII whitespace, ignored *)

Definition bitem_ok (i : bitem) : bool :=
  match i with BHex _ d => (d <? 16)%N | BSpace c => is_ws c | _ => true end.

Definition bitem_char (i : bitem) : ascii :=
  match i with BHex up d => digit_char up d | BDot => "."%char | BX => "x"%char | BSpace c => c end.

Definition bitem_bits (i : bitem) : list bool :=
  match i with BHex _ d => nibble_bits d | BDot => [false] | BX => [true] | BSpace _ => [] end.

Fixpoint bitems_text (l : list bitem) : string :=
  match l with [] => "" | i :: r => String (bitem_char i) (bitems_text r) end.

Fixpoint bitems_bits (l : list bitem) : list bool :=
  match l with [] => [] | i :: r => (bitem_bits i ++ bitems_bits r)%list end.

Lemma bitems_text_length items : String.length (bitems_text items) = List.length items.
Proof. induction items as [|i items IH]; [reflexivity|]. cbn [bitems_text String.length List.length]. rewrite IH. reflexivity. Qed.

Definition hexchar_ok (up : bool) (k : nat) : bool :=
  let d := N.of_nat k in
  match hex_digit (digit_char up d) with
  | Some x => (x =? d)%N && list_eqb N.eqb (nibble_N x) (map b2n (nibble_bits d))
  | None => false
  end.

Lemma hexchar_all : forallb (fun k => hexchar_ok true k && hexchar_ok false k) (seq 0 16) = true.
Proof. vm_compute. reflexivity. Qed.

Lemma hexchar_facts up d : (d < 16)%N ->
  hex_digit (digit_char up d) = Some d /\ nibble_N d = map b2n (nibble_bits d).
Proof.
  intros H. pose proof hexchar_all as A. rewrite forallb_forall in A.
  specialize (A (N.to_nat d)). rewrite in_seq in A. specialize (A ltac:(lia)).
  apply andb_prop in A. destruct A as [A1 A2].
  assert (A : hexchar_ok up (N.to_nat d) = true) by (destruct up; assumption).
  unfold hexchar_ok in A. rewrite N2Nat.id in A. cbv zeta in A.
  destruct (hex_digit (digit_char up d)) as [x|]; [|discriminate].
  apply andb_prop in A. destruct A as [B1 B2]. apply N.eqb_eq in B1. subst x.
  apply (list_eqb_spec N.eqb N.eqb_eq) in B2. split; [reflexivity|exact B2].
Qed.

Lemma ws_not_hex c : is_ws c = true -> hex_digit c = None.
Proof.
  unfold is_ws, hex_digit, digit_val. intros H.
  replace ((48 <=? byte_of c)%N && (byte_of c <=? 57)%N) with false by lia.
  replace ((97 <=? byte_of c)%N && (byte_of c <=? 122)%N) with false by lia.
  replace ((65 <=? byte_of c)%N && (byte_of c <=? 90)%N) with false by lia.
  reflexivity.
Qed.

(* the text between the bars, read character by character *)
Lemma bitems_text_bits : forall items, forallb bitem_ok items = true ->
  text_bits (bitems_text items) = Some (map b2n (bitems_bits items)).
Proof.
  induction items as [|i items IH]; intros H; [reflexivity|].
  cbn [forallb] in H. apply andb_prop in H. destruct H as [Hi H].
  cbn [bitems_text bitems_bits text_bits]. rewrite (IH H). rewrite map_app.
  destruct i as [up d| | |c]; cbn [bitem_char bitem_bits bitem_ok map app] in *.
  - destruct (hexchar_facts up d ltac:(lia)) as [E1 E2]. rewrite E1, E2. reflexivity.
  - reflexivity.
  - reflexivity.
  - rewrite (ws_not_hex c Hi), Hi. reflexivity.
Qed.

Lemma lex_bits_close rest pos b endpos :
  lex_bits (String "|" rest) pos b endpos = (TLit (CBits (bvb_finish b)), rest, S pos).
Proof. reflexivity. Qed.

Lemma lex_next_bar l r : lrest l = String "|" r ->
  lex_next l = let '(t, rest, pos) := lex_bits r (S (lpos l)) bvb_empty (llen l) in
               (t, mklex rest pos (lpos l) (llen l)).
Proof.
  intros Hl. rewrite lex_next_unfold. cbv zeta. rewrite Hl. cbn [skip_ws].
  change (is_ws "|") with false. cbv iota. cbn [Nat.ltb Nat.leb].
  change (byte_of "|" =? 34)%N with false.
  rewrite (starts_ldq_false "|" r eq_refl).
  change (byte_of "|" =? 124)%N with true. reflexivity.
Qed.

(* a well-formed literal, in any lexer state, whatever follows the closing bar *)
Lemma lex_next_bitstr l items rest :
  forallb bitem_ok items = true -> lrest l = "|" ++ bitems_text items ++ "|" ++ rest ->
  let p' := lpos l + List.length items + 2 in
  lex_next l = (TLit (CBits (of_bools (bitems_bits items))), mklex rest p' (lpos l) (llen l)).
Proof.
  intros Hok Hl p'. rewrite (lex_next_bar l (bitems_text items ++ String "|" rest) Hl).
  rewrite (lex_bits_text _ _ _ _ _ _ (bitems_text_bits items Hok)), lex_bits_close.
  rewrite bitems_text_length. subst p'.
  replace (S (S (lpos l) + List.length items)) with (lpos l + List.length items + 2) by lia.
  reflexivity.
Qed.

(* no closing bar: the error is at the end of the text *)
Lemma lex_next_bitstr_unterminated l items :
  forallb bitem_ok items = true -> lrest l = "|" ++ bitems_text items ->
  let p' := lpos l + 1 + List.length items in
  lex_next l = (TErr PUntermBits p' (llen l), mklex "" p' (lpos l) (llen l)).
Proof.
  intros Hok Hl p'. rewrite (lex_next_bar l (bitems_text items) Hl).
  rewrite <- (app_nil_r_s (bitems_text items)).
  rewrite (lex_bits_text _ _ _ _ _ _ (bitems_text_bits items Hok)). cbn [lex_bits].
  rewrite bitems_text_length. subst p'.
  replace (S (lpos l) + List.length items) with (lpos l + 1 + List.length items) by lia. reflexivity.
Qed.

(* a character that is none of: hex digit, whitespace, '.', 'x', '|' *)
Definition bits_bad_char (c : ascii) : bool :=
  match hex_digit c with
  | Some _ => false
  | None => negb (is_ws c) && negb (byte_of c =? 46)%N && negb (byte_of c =? 120)%N && negb (byte_of c =? 124)%N
  end.

Lemma lex_next_bitstr_bad l items c more :
  forallb bitem_ok items = true -> bits_bad_char c = true ->
  lrest l = "|" ++ bitems_text items ++ String c more ->
  let p := lpos l + 1 + List.length items in
  lex_next l = (TErr PBits p (llen l),
                mklex (str_drop (utf8_width c) (String c more)) (p + utf8_width c) (lpos l) (llen l)).
Proof.
  intros Hok Hc Hl p. rewrite (lex_next_bar l (bitems_text items ++ String c more) Hl).
  rewrite (lex_bits_text _ _ _ _ _ _ (bitems_text_bits items Hok)). cbn [lex_bits].
  unfold bits_bad_char in Hc. destruct (hex_digit c); [discriminate|].
  destruct (is_ws c); [discriminate|]. destruct (byte_of c =? 46)%N; [discriminate|].
  destruct (byte_of c =? 120)%N; [discriminate|]. destruct (byte_of c =? 124)%N; [discriminate|].
  cbv zeta. rewrite bitems_text_length. subst p.
  replace (S (lpos l) + List.length items) with (lpos l + 1 + List.length items) by lia. reflexivity.
Qed.

(* the value: well-formed, and its bit sequence is the concatenation of the item bits *)
Lemma bitstr_value items : wf (of_bools (bitems_bits items)) /\ abs (of_bools (bitems_bits items)) = bitems_bits items.
Proof. apply of_bools_spec. Qed.
