(* NoPanicBuild.v (C08 f): the builder.  [code_emit] is the place where the Rust code
   indexes the debug map next to the code vector; it panics only when the debug map is
   SHORTER than the code.  [cd_inv] (the debug map covers the code) is preserved by
   emission, by backpatching, by running code, by the truncations of context_close and
   build_unwind, hence by whole eval / compile calls; from a state satisfying it
   code_emit never panics. *)
From Xeh Require Import Model.Prelude Model.Bits Model.Codec Model.Cell Model.Lexer Model.Fmt
                        Model.Vm Model.Words Model.Build.
From Xeh Require Import Proofs.VmFrame Proofs.VmLimits Proofs.NoPanic.
Local Notation length := List.length.

#[local] Arguments Z.add : simpl never.
#[local] Arguments Z.sub : simpl never.
#[local] Arguments Z.mul : simpl never.
#[local] Arguments Z.ltb : simpl never.
#[local] Arguments Z.leb : simpl never.
#[local] Arguments Z.eqb : simpl never.
#[local] Arguments Z.of_nat : simpl never.
#[local] Arguments Z.to_nat : simpl never.

Definition cd_inv (s : state) : Prop := length (code s) <= length (dbg s).

(* ---------- code_emit ---------- *)
Theorem code_emit_no_panic : forall op s, cd_inv s -> code_emit op s <> RPanic.
Proof.
  intros op s H. unfold cd_inv in H. unfold code_emit. cbv zeta.
  destruct (length (code s) <? length (dbg s))%nat eqn:E1; [discriminate|].
  destruct (length (code s) =? length (dbg s))%nat eqn:E2; [discriminate|].
  apply Nat.ltb_ge in E1. apply Nat.eqb_neq in E2. lia.
Qed.

Theorem code_emit_panic_iff : forall op s,
  code_emit op s = RPanic <-> length (dbg s) < length (code s).
Proof.
  intros op s. unfold code_emit. cbv zeta.
  destruct (length (code s) <? length (dbg s))%nat eqn:E1;
    [apply Nat.ltb_lt in E1; split; [discriminate|lia]|].
  destruct (length (code s) =? length (dbg s))%nat eqn:E2;
    [apply Nat.eqb_eq in E2; split; [discriminate|lia]|].
  apply Nat.ltb_ge in E1. apply Nat.eqb_neq in E2. split; [intros _; lia|reflexivity].
Qed.

Lemma code_emit_cd : forall op s, cd_inv s -> res_all cd_inv (code_emit op s).
Proof.
  intros op s H. unfold cd_inv in *. unfold code_emit. cbv zeta.
  destruct (length (code s) <? length (dbg s))%nat eqn:E1.
  - cbn [res_all]. unfold cd_inv. cbn [set_code set_dbg code dbg].
    rewrite app_length, list_set_length. cbn [length]. apply Nat.ltb_lt in E1. lia.
  - destruct (length (code s) =? length (dbg s))%nat eqn:E2; [|exact I].
    cbn [res_all]. unfold cd_inv. cbn [set_code set_dbg code dbg].
    rewrite !app_length. cbn [length]. apply Nat.eqb_eq in E2. lia.
Qed.

(* ---------- the truncations ---------- *)
Lemma trunc_cd : forall s n, cd_inv s ->
  cd_inv (set_dbg (set_code s (firstn n (code s))) (firstn n (dbg s))).
Proof.
  intros s n H. unfold cd_inv in *. cbn [set_code set_dbg code dbg].
  rewrite !firstn_length. lia.
Qed.

Lemma cd_inv_eq : forall s s', code s' = code s -> dbg s' = dbg s -> cd_inv s -> cd_inv s'.
Proof. unfold cd_inv. intros s s' -> ->. auto. Qed.

(* ---------- programs built from the logging primitives keep code and debug map ---------- *)
Definition P_dbg {A} (m : M A) : Prop := forall s, res_all (fun s' => dbg s' = dbg s) (m s).

Ltac dbg_prim :=
  let s := fresh "s" in
  intro s; destruct_state s;
  cbv [push_data pop_data top_data swap_data rot_data over_data push_return pop_return top_frame
       push_loop pop_loop loop_next loop_set_items push_special pop_special get_var set_var
       init_local set_ip next_ip print modify ret fail unsup panic
       add_rstep limit_reached data_depth ip set_ip_raw
       set_ds set_rs set_loops set_special set_heap set_cx set_rlog set_out set_stopping
       dict heap code dbg sources input ds rs flows loops special cx nested meter insn_limit
       heap_limit stack_limit rlog out last_tok stopping];
  break_matches;
  cbv [res_all dbg]; try exact I; reflexivity.

Lemma wl_dbg : forall A (m : M A), wl m -> P_dbg m.
Proof.
  induction 1; try (dbg_prim; fail).
  - intro s. unfold bind. specialize (IHwl s).
    destruct (m s) as [a s1 | k p s1 | |]; cbn [res_all] in *; auto.
    specialize (H1 a s1). destruct (f a s1); cbn [res_all] in *; auto; congruence.
  - intro s. unfold bind, get. apply H0.
Qed.

Lemma wl_cd : forall A (m : M A), wl m -> forall s, cd_inv s -> res_all cd_inv (m s).
Proof.
  intros A m Hw s Hs. pose proof (wl_lim A m Hw s) as H1. pose proof (wl_dbg A m Hw s) as H2.
  destruct (m s); cbn [res_all] in *; auto.
  - destruct H1 as (_ & _ & _ & _ & _ & Hc & _). eapply cd_inv_eq; eauto.
  - destruct H1 as (_ & _ & _ & _ & _ & Hc & _). eapply cd_inv_eq; eauto.
Qed.

(* ---------- running code ---------- *)
Section WithTable.
  Variable nf : natives.
  Hypothesis Hnf : forall w f, nf w = Some f -> wl f.

  Lemma far_cd : forall s, cd_inv s -> res_all cd_inv (fetch_and_run nf s).
  Proof.
    intros s Hs. pose proof (far_spec_holds nf s) as FS.
    assert (X : forall i o s1, cd_inv s1 -> res_all cd_inv (exec_op nf i o s1)).
    { intros i o s1 H1. apply wl_cd; [apply wl_exec_op; exact Hnf|exact H1]. }
    inversion FS; cbn [res_all]; try exact I; try exact Hs.
    - apply X. exact Hs.
    - unfold cd_inv in *. cbn [set_code set_meter code dbg]. rewrite list_set_length. exact Hs.
    - apply X. unfold cd_inv in *. cbn [set_code set_meter code dbg]. rewrite list_set_length. exact Hs.
  Qed.

  Lemma run_cd : forall fuel s, cd_inv s ->
    match run nf fuel s with Some r => res_all cd_inv r | None => True end.
  Proof.
    induction fuel as [|f IH]; intros s Hs; cbn [run]; [exact I|].
    destruct (is_running s); [|exact Hs].
    pose proof (far_cd s Hs) as H.
    destruct (fetch_and_run nf s) as [u s1|k p s1| |]; cbn [res_all] in *;
      [apply IH; exact H|exact H|exact I|exact I].
  Qed.
End WithTable.

Theorem far_cd_native : forall fo s,
  cd_inv s -> res_all cd_inv (fetch_and_run (native_fn fo) s).
Proof. intros fo. apply far_cd. apply native_wl. Qed.

(* ---------- context_close and build_unwind ---------- *)
Section Close.
  Variable fo : fops.
  Variable run_fuel : nat.

  Lemma run_m_cd : forall s, cd_inv s -> res_all cd_inv (run_m fo run_fuel s).
  Proof.
    intros s Hs. unfold run_m.
    pose proof (run_cd (nf fo) (native_wl fo) run_fuel s Hs) as H.
    destruct (run (nf fo) run_fuel s); [exact H|exact I].
  Qed.

  Lemma emit_results_cd : forall fuel s, cd_inv s -> res_all cd_inv (emit_results fuel s).
  Proof.
    induction fuel as [|f IH]; intros s Hs; cbn [emit_results]; [exact Hs|].
    destruct (ds_len (cx s) <? length (ds s))%nat; [|exact Hs].
    pose proof (wl_cd _ _ wl_pop_data s Hs) as H1.
    destruct (pop_data s) as [v s1|k p s1| |]; cbn [res_all] in *; auto.
    pose proof (code_emit_cd (load_value_opcode v) s1 H1) as H2. unfold code_emit_value.
    destruct (code_emit (load_value_opcode v) s1) as [u s2|k p s2| |]; cbn [res_all] in *; auto.
  Qed.

  Lemma set_cx_cd : forall s c, cd_inv s -> cd_inv (set_cx s c).
  Proof. intros s c H. exact H. Qed.

  Theorem context_close_cd : forall s, cd_inv s -> res_all cd_inv (context_close fo run_fuel s).
  Proof.
    intros s Hs. unfold context_close.
    destruct (nested s) as [|prev rest]; [exact Hs|]. cbv zeta.
    assert (H0 : cd_inv (set_nested s rest)) by exact Hs.
    destruct (cmode (cx (set_nested s rest))).
    - exact H0.
    - pose proof (run_m_cd _ H0) as H.
      destruct (run_m fo run_fuel (set_nested s rest)) as [u s1|k p s1| |]; cbn [res_all] in *; auto.
    - pose proof (run_m_cd _ H0) as H.
      destruct (run_m fo run_fuel (set_nested s rest)) as [u s1|k p s1| |]; cbn [res_all] in *; auto.
      set (s2 := set_dbg (set_code s1 (firstn (cs_len (cx s1)) (code s1))) (firstn (cs_len (cx s1)) (dbg s1))).
      assert (H2 : cd_inv s2) by (apply trunc_cd; exact H).
      set (s3 := set_dict s2 _).
      assert (H3 : cd_inv s3) by exact H2.
      match goal with |- context [if ?b then _ else _] => destruct b end.
      + pose proof (emit_results_cd (S (length (ds s3))) s3 H3) as H4.
        destruct (emit_results (S (length (ds s3))) s3) as [u4 s4|k p s4| |]; cbn [res_all] in *; auto.
      + exact H3.
  Qed.

  Lemma leave_contexts_code : forall fuel depth s,
    code (leave_contexts fuel depth s) = code s /\ dbg (leave_contexts fuel depth s) = dbg s.
  Proof.
    induction fuel as [|f IH]; intros depth s; cbn [leave_contexts]; [split; reflexivity|].
    destruct (S depth <? length (nested s))%nat; [|split; reflexivity].
    destruct (nested s) as [|prev rest]; [split; reflexivity|].
    destruct (IH depth (set_cx (set_nested s rest) prev)) as [A B]. rewrite A, B. split; reflexivity.
  Qed.

  Theorem build_unwind_cd : forall depth inputs dsl heapl s,
    cd_inv s -> cd_inv (build_unwind depth inputs dsl heapl s).
  Proof.
    intros depth inputs dsl heapl s Hs. unfold build_unwind. cbv zeta.
    set (s0 := set_input s _).
    set (s1 := leave_contexts _ depth s0).
    assert (H1 : cd_inv s1).
    { destruct (leave_contexts_code (S (length (nested s0))) depth s0) as [A B].
      eapply cd_inv_eq; [exact A|exact B|exact Hs]. }
    set (s2 := set_dbg (set_code s1 _) _).
    assert (H2 : cd_inv s2) by (apply trunc_cd; exact H1).
    set (s5 := set_heap _ _).
    assert (H5 : cd_inv s5) by exact H2.
    destruct (nested s5) as [|prev rest]; [exact H5|].
    destruct (depth <? length (prev :: rest))%nat; exact H5.
  Qed.
End Close.

(* ---------- every program of the builder keeps the invariant ---------- *)
Definition cdp {A} (m : M A) : Prop := forall s, cd_inv s -> res_all cd_inv (m s).

Lemma cdp_ret A (a : A) : cdp (ret a).
Proof. intros s H. exact H. Qed.
Lemma cdp_fail A k p : cdp (@fail A k p).
Proof. intros s H. exact H. Qed.
Lemma cdp_unsup A : cdp (@unsup A).
Proof. intros s H. exact I. Qed.
Lemma cdp_panic A : cdp (@panic A).
Proof. intros s H. exact I. Qed.
Lemma cdp_bind A B (m : M A) (f : A -> M B) : cdp m -> (forall a, cdp (f a)) -> cdp (bind m f).
Proof.
  intros Hm Hf s Hs. unfold bind. specialize (Hm s Hs).
  destruct (m s) as [a s1|k p s1| |]; cbn [res_all] in *; auto. apply Hf. exact Hm.
Qed.
Lemma cdp_get_bind B (k : state -> M B) :
  (forall s0, cd_inv s0 -> cdp (k s0)) -> cdp (bind get k).
Proof. intros H s Hs. unfold bind, get. apply H; exact Hs. Qed.
Lemma cdp_put s' : cd_inv s' -> cdp (put s').
Proof. intros H s _. exact H. Qed.
Lemma cdp_modify f : (forall s, cd_inv s -> cd_inv (f s)) -> cdp (modify f).
Proof. intros H s Hs. apply H. exact Hs. Qed.
Lemma cdp_wl A (m : M A) : wl m -> cdp m.
Proof. intros H s Hs. apply wl_cd; assumption. Qed.

Lemma cdp_code_emit op : cdp (code_emit op).
Proof. intros s Hs. apply code_emit_cd. exact Hs. Qed.

Lemma cdp_backpatch pos op : cdp (backpatch pos op).
Proof.
  intros s Hs. unfold backpatch. destruct (pos <? length (code s))%nat; [|exact I].
  cbn [res_all]. unfold cd_inv in *. cbn [set_code code dbg]. rewrite list_set_length. exact Hs.
Qed.

Lemma cdp_backpatch_jump pos offs : cdp (backpatch_jump pos offs).
Proof.
  intros s Hs. unfold backpatch_jump.
  destruct (nth_error (code s) pos) as [op|]; [|exact Hs].
  destruct op; try exact I; apply cdp_backpatch; exact Hs.
Qed.

Lemma cdp_pop_flow : cdp pop_flow.
Proof.
  intros s Hs. unfold pop_flow. destruct (flows s); [exact Hs|].
  destruct (_ <? _)%nat; exact Hs.
Qed.

Lemma cdp_take_first_cond_flow : cdp take_first_cond_flow.
Proof.
  intros s Hs. unfold take_first_cond_flow. cbv zeta.
  destruct (take_cond (pending s)) as [[f act']|]; exact Hs.
Qed.

Lemma cdp_dict_insert name e : cdp (dict_insert name e).
Proof. intros s Hs. exact Hs. Qed.

Lemma cdp_context_open m : cdp (context_open m).
Proof. intros s Hs. exact Hs. Qed.

Lemma cdp_intern_source buf : cdp (intern_source buf).
Proof. intros s Hs. exact Hs. Qed.

Lemma cdp_alloc_heap v : cdp (alloc_heap v).
Proof.
  intros s Hs. unfold alloc_heap. destruct (mode_eqb _ _); [exact Hs|].
  destruct (limit_reached _ _); exact Hs.
Qed.

Section Builder.
  Variable fo : fops.
  Variable pr : string -> option Z.
  Variable rf : nat.

  Lemma cdp_next_token : forall fuel, cdp (next_token pr fuel).
  Proof.
    induction fuel as [|f IH]; intros s Hs; cbn [next_token]; [exact I|].
    destruct (input s) as [|il rest]; [exact Hs|]. cbv zeta.
    destruct (lex_next_nonws _ _) as [t l'].
    destruct t; try exact I; try exact Hs.
    - apply IH. exact Hs.
    - destruct (pr text); exact Hs.
  Qed.

  Lemma cdp_get_token : cdp (get_token pr).
  Proof. intros s Hs. unfold get_token. apply cdp_next_token. exact Hs. Qed.

  Lemma cdp_next_name : cdp (next_name pr).
  Proof.
    intros s Hs. unfold next_name. cbv zeta. pose proof (cdp_get_token s Hs) as H.
    destruct (get_token pr s) as [t s1|k p s1| |]; cbn [res_all] in *; auto.
    destruct t; cbn [res_all]; try exact H; destruct (last_tok s); exact H.
  Qed.

  Lemma cdp_run_m : cdp (run_m fo rf).
  Proof. intros s Hs. apply run_m_cd. exact Hs. Qed.

  Lemma cdp_context_close : cdp (context_close fo rf).
  Proof. intros s Hs. apply context_close_cd. exact Hs. Qed.

  Lemma cdp_vec_collect p : cdp (vec_collect_till_ptr p).
  Proof. apply cdp_wl. wl_solve. Qed.

  Lemma cdp_join_str_vec sep v : cdp (join_str_vec sep v).
  Proof. apply cdp_wl. wl_solve. Qed.
End Builder.

Ltac cd_fin :=
  lazymatch goal with
  | H : cd_inv ?s |- cd_inv _ => exact H
  end.

Ltac cdp_prim :=
  lazymatch goal with
  | |- cdp (ret _) => apply cdp_ret
  | |- cdp (fail _ _) => apply cdp_fail
  | |- cdp unsup => apply cdp_unsup
  | |- cdp panic => apply cdp_panic
  | |- cdp (put _) => apply cdp_put; cd_fin
  | |- cdp (modify _) => apply cdp_modify; intros; cd_fin
  | |- cdp (code_emit _) => apply cdp_code_emit
  | |- cdp (backpatch _ _) => apply cdp_backpatch
  | |- cdp (backpatch_jump _ _) => apply cdp_backpatch_jump
  | |- cdp pop_flow => apply cdp_pop_flow
  | |- cdp take_first_cond_flow => apply cdp_take_first_cond_flow
  | |- cdp (dict_insert _ _) => apply cdp_dict_insert
  | |- cdp (context_open _) => apply cdp_context_open
  | |- cdp (intern_source _) => apply cdp_intern_source
  | |- cdp (alloc_heap _) => apply cdp_alloc_heap
  | |- cdp (get_token _) => apply cdp_get_token
  | |- cdp (next_name _) => apply cdp_next_name
  | |- cdp (run_m _ _) => apply cdp_run_m
  | |- cdp (context_close _ _) => apply cdp_context_close
  | |- cdp (vec_collect_till_ptr _) => apply cdp_vec_collect
  | |- cdp (join_str_vec _ _) => apply cdp_join_str_vec
  | |- cdp pop_data => apply cdp_wl, wl_pop_data
  | |- cdp (push_data _) => apply cdp_wl, wl_push_data
  | |- cdp (push_return _) => apply cdp_wl, wl_push_return
  | |- cdp (set_ip _) => apply cdp_wl, wl_set_ip
  end.

Create HintDb cdpdb.

Ltac cdp_step :=
  cbv beta zeta;
  first
    [ cdp_prim
    | solve [ auto 2 with cdpdb nocore ]
    | lazymatch goal with
      | |- cdp (bind get _) => apply cdp_get_bind; intros ? ?
      | |- cdp (bind _ _) => apply cdp_bind; [ | intro ]
      | |- cdp (match ?x with _ => _ end) => destruct x
      | |- cdp ?m => let h := head_of m in unfold h
      end ].

Ltac cdp_solve := repeat cdp_step.

Lemma cdp_endcase_loop : forall fuel org, cdp (endcase_loop fuel org).
Proof. induction fuel as [|f IH]; intros org; cbn [endcase_loop]; cdp_solve. Qed.
#[export] Hint Resolve cdp_endcase_loop : cdpdb.

Lemma cdp_repeat_loop : forall fuel, cdp (repeat_loop fuel).
Proof. induction fuel as [|f IH]; cbn [repeat_loop]; cdp_solve. Qed.
#[export] Hint Resolve cdp_repeat_loop : cdpdb.

Lemma cdp_loop_loop : forall fuel a b, cdp (loop_loop fuel a b).
Proof. induction fuel as [|f IH]; intros a b; cbn [loop_loop]; cdp_solve. Qed.
#[export] Hint Resolve cdp_loop_loop : cdpdb.

(* ---------- let: the mutually recursive pattern builders ---------- *)
Section Let.
  Variable pr : string -> option Z.
  Local Open Scope string_scope.

  (* the inner loops of build_let_map / build_let_vec, named *)
  Definition let_map_go (f : nat) : nat -> M unit :=
    fix go (k : nat) : M unit :=
      match k with
      | O => unsup
      | S k' =>
        let* t := get_token pr in
        match t with
        | BWord w =>
          if String.eqb w "}" then emit_native "%let-map-end"
          else if String.eqb w "]" then fail EFlow None
          else fail EExpectLit None
        | BLit key =>
          code_emit_value key ;; emit_native "%let-map-lookup" ;; build_let_in pr f ;; go k'
        | BEnd => fail EExpectLit None
        end
      end.

  Definition let_vec_go (f : nat) : nat -> Z -> M unit :=
    fix go (k : nat) (idx : Z) : M unit :=
      match k with
      | O => unsup
      | S k' =>
        let* t := get_token pr in
        match t with
        | BWord w =>
          if String.eqb w "[" then
            let* i' := let_vec_next idx in build_let_vec pr f 0%Z ;; go k' i'
          else if String.eqb w "]" then
            if (idx =? usize_max)%Z then emit_native "%let-vec-any-len"
            else
              emit_native "%let-vec-len" ;;
              code_emit_value (insert_tag (CInt idx) assert_msg (CStr "vector length mismatch")) ;;
              emit_native "assert-eq"
          else if String.eqb w "&" then
            code_emit_value (CInt idx) ;; emit_native "%let-vec-rest" ;; build_let_in pr f ;; go k' usize_max
          else if String.eqb w "{" then
            let* i' := let_vec_next idx in build_let_map pr f ;; go k' i'
          else if String.eqb w "}" then fail EFlow None
          else if String.eqb w "^" then
            let* i' := let_vec_next idx in build_let_tags pr f ;; go k' (i' - 1)%Z
          else
            let* i' := let_vec_next idx in build_let_named w ;; go k' i'
        | BLit v => let* i' := let_vec_next idx in build_let_match v ;; go k' i'
        | BEnd => fail ELetSyntax None
        end
      end.

  Lemma build_let_map_S f :
    build_let_map pr (S f) = (emit_native "%let-map-begin" ;; let_map_go f (S f)).
  Proof. reflexivity. Qed.

  Lemma build_let_vec_S f i : build_let_vec pr (S f) i = let_vec_go f (S f) i.
  Proof. reflexivity. Qed.

  Lemma cdp_build_let_named w : cdp (build_let_named w).
  Proof. cdp_solve. Qed.
  Lemma cdp_build_let_match v : cdp (build_let_match v).
  Proof. cdp_solve. Qed.
  Lemma cdp_let_vec_next i : cdp (let_vec_next i).
  Proof. cdp_solve. Qed.
  Lemma cdp_emit_native w : cdp (emit_native w).
  Proof. cdp_solve. Qed.
  Lemma cdp_code_emit_value v : cdp (code_emit_value v).
  Proof. cdp_solve. Qed.

  Lemma cdp_build_let : forall f,
    cdp (build_let_in pr f) /\ cdp (build_let_tags pr f) /\ cdp (build_let_map pr f) /\
    (forall i, cdp (build_let_vec pr f i)).
  Proof.
    induction f as [|f (IHin & IHtags & IHmap & IHvec)].
    - repeat split; intros; apply cdp_unsup.
    - assert (Hmap : cdp (build_let_map pr (S f))).
      { rewrite build_let_map_S. apply cdp_bind; [apply cdp_emit_native|intros _].
        generalize (S f) as k. induction k as [|k IHk]; cbn [let_map_go]; [apply cdp_unsup|].
        fold (let_map_go f) in *.
        pose proof cdp_emit_native. pose proof cdp_code_emit_value.
        cdp_solve. }
      assert (Hvec : forall i, cdp (build_let_vec pr (S f) i)).
      { intros i. rewrite build_let_vec_S. revert i.
        generalize (S f) as k. induction k as [|k IHk]; intros i; cbn [let_vec_go]; [apply cdp_unsup|].
        fold (let_vec_go f) in *.
        pose proof cdp_emit_native. pose proof cdp_code_emit_value. pose proof cdp_let_vec_next.
        pose proof cdp_build_let_named. pose proof cdp_build_let_match.
        cdp_solve. }
      assert (Htags : cdp (build_let_tags pr (S f))).
      { cbn [build_let_tags]. pose proof cdp_emit_native. pose proof cdp_build_let_named. cdp_solve. }
      assert (Hin : cdp (build_let_in pr (S f))).
      { cbn [build_let_in]. pose proof cdp_emit_native. pose proof cdp_build_let_named.
        pose proof cdp_build_let_match. cdp_solve. }
      repeat split; assumption.
  Qed.

  Lemma cdp_build_let_in f : cdp (build_let_in pr f).
  Proof. exact (proj1 (cdp_build_let f)). Qed.
End Let.

(* ---------- the immediate words, build1, eval / compile ---------- *)
Section Top.
  Variable fo : fops.
  Variable pr : string -> option Z.
  Variable rf : nat.

  Lemma cdp_immediate_fn : forall fuel name w, immediate_fn fo pr rf fuel name = Some w -> cdp w.
  Proof.
    intros fuel name w H. unfold immediate_fn in H. cbv zeta in H.
    eapply table_find_Forall with (P := fun m => cdp m); [|exact H].
    pose proof (cdp_build_let_in pr fuel) as HL.
    pose proof cdp_emit_native as HE. pose proof cdp_code_emit_value as HV.
    repeat (apply Forall_cons; [ cbn [snd]; cdp_solve | ]).
    apply Forall_nil.
  Qed.

  Lemma cdp_run_immediate fuel f : cdp (run_immediate fo pr rf fuel f).
  Proof.
    unfold run_immediate. destruct f as [x|name].
    - cdp_solve.
    - destruct (immediate_fn fo pr rf fuel name) as [w|] eqn:E; [|apply cdp_unsup].
      eapply cdp_immediate_fn. exact E.
  Qed.

  Lemma cdp_build_word fuel name : cdp (build_word fo pr rf fuel name).
  Proof. pose proof (cdp_run_immediate fuel). cdp_solve. Qed.

  Lemma cdp_build1 : forall fuel depth, cdp (build1 fo pr rf fuel depth).
  Proof.
    induction fuel as [|f IH]; intros depth; cbn [build1]; [apply cdp_unsup|].
    pose proof (cdp_build_word f). pose proof cdp_code_emit_value. cdp_solve.
  Qed.

  Theorem cdp_build_from_source : forall fuel src m, cdp (build_from_source fo pr rf fuel src m).
  Proof.
    intros fuel src m s Hs. unfold build_from_source. cbv zeta.
    assert (H1 : cdp (context_open m ;; intern_source src)) by cdp_solve.
    specialize (H1 s Hs).
    destruct ((context_open m ;; intern_source src) s) as [u s1|k p s1| |]; cbn [res_all] in *; auto.
    pose proof (cdp_build1 fuel (length (nested s1)) s1 H1) as H2.
    destruct (build1 fo pr rf fuel (length (nested s1)) s1) as [u2 s2|k p s2| |]; cbn [res_all] in *; auto.
    - apply cdp_context_close. exact H2.
    - apply build_unwind_cd. exact H2.
  Qed.

  Theorem eval_cd : forall fuel src s, cd_inv s -> res_all cd_inv (eval fo pr rf fuel src s).
  Proof. intros fuel src. apply cdp_build_from_source. Qed.

  Theorem compile_cd : forall fuel src s, cd_inv s -> res_all cd_inv (compile fo pr rf fuel src s).
  Proof. intros fuel src. apply cdp_build_from_source. Qed.
End Top.

(* ---------- reverse stepping keeps the invariant ---------- *)
Lemma add_rstep_cd r s : cd_inv s -> cd_inv (add_rstep r s).
Proof. intros H. unfold add_rstep. destruct (rlog s); exact H. Qed.

Lemma reverse_changes_cd : forall r s, cd_inv s -> res_all cd_inv (reverse_changes r s).
Proof.
  intros r s H. destruct r; unfold reverse_changes;
    try (repeat match goal with
                | |- context [match ?x with _ => _ end] => destruct x
                end; cbn [res_all]; try exact I; exact H).
  pose proof (wl_cd _ _ wl_pop_data s H) as H1.
  destruct (pop_data s); cbn [res_all] in *; auto.
Qed.

Lemma log_pop_cd s r s' : log_pop s = Some (r, s') -> cd_inv s -> cd_inv s'.
Proof.
  unfold log_pop. destruct (rlog s) as [[|r0 l]|]; try discriminate.
  intros E H. injection E as <- <-. exact H.
Qed.

Lemma rnext_loop_cd : forall fuel s, cd_inv s -> res_all cd_inv (rnext_loop fuel s).
Proof.
  induction fuel as [|f IH]; intros s H; cbn [rnext_loop]; [exact H|].
  destruct (log_pop s) as [[r s']|] eqn:E; [|exact H].
  pose proof (log_pop_cd _ _ _ E H) as H'.
  destruct r; try (cbn [res_all]; apply add_rstep_cd; exact H');
    match goal with
    | |- context [reverse_changes ?r s'] =>
      pose proof (reverse_changes_cd r s' H') as H1;
      destruct (reverse_changes r s'); cbn [res_all] in *; auto
    end.
Qed.

Theorem rnext_cd : forall s, cd_inv s -> res_all cd_inv (rnext s).
Proof.
  intros s H. unfold rnext. destruct (log_pop s) as [[r s']|] eqn:E; [|apply rnext_loop_cd; exact H].
  pose proof (reverse_changes_cd r s' (log_pop_cd _ _ _ E H)) as H1.
  destruct (reverse_changes r s'); cbn [res_all] in *; auto. apply rnext_loop_cd. exact H1.
Qed.

Theorem next_cd : forall fo s, cd_inv s -> res_all cd_inv (next (native_fn fo) s).
Proof.
  intros fo s H. unfold next. destruct (is_running s); [|exact H]. apply far_cd_native. exact H.
Qed.

Theorem run_cd_native : forall fo fuel s, cd_inv s ->
  match run (native_fn fo) fuel s with Some r => res_all cd_inv r | None => True end.
Proof. intros fo. apply run_cd. apply native_wl. Qed.

(* ---------- API call sequences from the boot state ---------- *)
From Xeh Require Import Model.Boot.

Section Api.
  Variable fo : fops.
  Variable pr : string -> option Z.

  (* the states an embedding program can reach through the API: eval, compile, next, run,
     rnext, setting limits, switching recording on / off.  Stated as "every property that
     holds of boot and is kept by every API call holds of s" (no inductive type, so that
     Props/C08.v can repeat the definition). *)
  Definition api_reach (s : state) : Prop :=
    forall P : state -> Prop,
      P boot ->
      (forall s rf bf src s', P s -> res_state (eval fo pr rf bf src s) = Some s' -> P s') ->
      (forall s rf bf src s', P s -> res_state (compile fo pr rf bf src s) = Some s' -> P s') ->
      (forall s s', P s -> res_state (next (native_fn fo) s) = Some s' -> P s') ->
      (forall s fuel r s', P s -> run (native_fn fo) fuel s = Some r -> res_state r = Some s' -> P s') ->
      (forall s s', P s -> res_state (rnext s) = Some s' -> P s') ->
      (forall s i h k, P s -> P (set_limits s i h k)) ->
      (forall s l, P s -> P (set_rlog s l)) ->
      P s.

  Lemma res_state_all {A} (P : state -> Prop) (r : res A) s' :
    res_all P r -> res_state r = Some s' -> P s'.
  Proof. destruct r; cbn [res_all res_state]; intros H E; try discriminate; injection E as <-; exact H. Qed.

  Theorem api_cd_inv : forall s, api_reach s -> cd_inv s.
  Proof.
    intros s H. apply H; clear s H.
    - unfold cd_inv. cbn. lia.
    - intros s rf bf src s' IH E. exact (res_state_all _ _ _ (eval_cd fo pr rf bf src s IH) E).
    - intros s rf bf src s' IH E. exact (res_state_all _ _ _ (compile_cd fo pr rf bf src s IH) E).
    - intros s s' IH E. exact (res_state_all _ _ _ (next_cd fo s IH) E).
    - intros s fuel r s' IH E1 E2. pose proof (run_cd_native fo fuel s IH) as H. rewrite E1 in H.
      exact (res_state_all _ _ _ H E2).
    - intros s s' IH E. exact (res_state_all _ _ _ (rnext_cd s IH) E).
    - intros s i h k IH. exact IH.
    - intros s l IH. exact IH.
  Qed.

  (* the definition is not vacuous: boot is reachable, and so is what an eval leaves *)
  Lemma api_reach_boot : api_reach boot.
  Proof. intros P H0 _ _ _ _ _ _ _. exact H0. Qed.

  Lemma api_reach_eval : forall s rf bf src s', api_reach s ->
    res_state (eval fo pr rf bf src s) = Some s' -> api_reach s'.
  Proof.
    intros s rf bf src s' H E P H0 H1 H2 H3 H4 H5 H6 H7.
    eapply H1; [|exact E]. apply H; assumption.
  Qed.

  (* in every reachable state: stepping, running and reverse stepping never panic, and the
     emission of an instruction (every token that compiles to one) never panics *)
  Theorem api_no_panic_partial : forall s, api_reach s ->
    next (native_fn fo) s <> RPanic /\
    (forall fuel, run (native_fn fo) fuel s <> Some RPanic) /\
    rnext s <> RPanic /\
    (forall op, code_emit op s <> RPanic).
  Proof.
    intros s H. split; [apply next_no_panic|]. split; [intros fuel; apply run_no_panic|].
    split; [apply rnext_no_panic|]. intros op. apply code_emit_no_panic. apply api_cd_inv. exact H.
  Qed.
End Api.
