(* MetaPurge.v (C11): what [purge_dict] (the swap_remove loop of context_close) leaves.

   With d = pre ++ l and i = length pre the loop returns  pre ++ purge_all l  where
   [purge_all] is the loop written on the suffix alone.  The result consists of constants
   only, it is a permutation of the constants of l (the order can change: the last entry
   is moved into the hole of a removed entry), and it is l itself when l has constants only. *)
From Xeh Require Import Model.Prelude Model.Bits Model.Codec Model.Cell Model.Lexer Model.Fmt
                        Model.Vm Model.Words Model.Build.
From Xeh Require Import Proofs.VmFrame Proofs.VmLimits Proofs.NoPanic Proofs.NoPanicBuild Proofs.NoPanicFlow.
From Coq Require Import Permutation.
Local Notation length := List.length.
Local Open Scope list_scope.

Definition is_dconst (e : dentry) : bool :=
  match dent e with DConst _ => true | _ => false end.

Fixpoint purge_list (fuel : nat) (l : list dentry) : list dentry :=
  match fuel with
  | O => l
  | S f =>
    match l with
    | [] => []
    | e :: r =>
      if is_dconst e then e :: purge_list f r
      else match r with
           | [] => []
           | _ :: _ => purge_list f (last r e :: removelast r)
           end
    end
  end.

Definition purge_all (l : list dentry) : list dentry := purge_list (length l) l.

Lemma purge_list_nil f : purge_list f [] = [].
Proof. destruct f; reflexivity. Qed.

Lemma swap_remove_last_some : forall l, l <> [] ->
  swap_remove_last l = Some (last l (mkdent EmptyString (DVar 0)), removelast l).
Proof.
  induction l as [|x l IH]; intros H; [contradiction|].
  destruct l as [|y l]; [reflexivity|].
  change (swap_remove_last (x :: y :: l))
    with (match swap_remove_last (y :: l) with Some (lst, r') => Some (lst, x :: r') | None => None end).
  rewrite IH by discriminate. reflexivity.
Qed.

Lemma last_indep {A} (l : list A) a b : l <> [] -> last l a = last l b.
Proof.
  induction l as [|x l IH]; intros H; [contradiction|].
  destruct l as [|y l]; [reflexivity|]. cbn [last]. apply IH. discriminate.
Qed.

Lemma last_app_cons {A} (p : list A) x r d : last (p ++ x :: r) d = last (x :: r) d.
Proof.
  induction p as [|y p IH]; [reflexivity|]. cbn [app].
  destruct (p ++ x :: r) as [|z q] eqn:E; [destruct p; discriminate|].
  change (last (y :: z :: q) d) with (last (z :: q) d). exact IH.
Qed.

Lemma removelast_app_cons {A} (p : list A) x r : removelast (p ++ x :: r) = p ++ removelast (x :: r).
Proof. apply removelast_app. discriminate. Qed.

Lemma list_set_app_len {A} (p : list A) x r v : list_set (p ++ x :: r) (length p) v = p ++ v :: r.
Proof. induction p as [|y p IH]; cbn [app length list_set]; [reflexivity|]. rewrite IH. reflexivity. Qed.

Theorem purge_dict_spec : forall fuel pre l,
  purge_dict fuel (pre ++ l) (length pre) = pre ++ purge_list fuel l.
Proof.
  induction fuel as [|f IH]; intros pre l; cbn [purge_dict purge_list]; [reflexivity|].
  destruct l as [|e r].
  - rewrite app_nil_r. replace (nth_error pre (length pre)) with (@None dentry); [reflexivity|].
    symmetry. apply nth_error_None. lia.
  - rewrite nth_error_app2 by lia. rewrite Nat.sub_diag. cbn [nth_error].
    unfold is_dconst.
    assert (Hc : pre ++ e :: r = (pre ++ [e]) ++ r) by (rewrite <- app_assoc; reflexivity).
    assert (Hne : pre ++ e :: r <> []) by (destruct pre; discriminate).
    assert (Hnc : swap_remove_last (pre ++ e :: r) =
                  Some (last (e :: r) e, pre ++ removelast (e :: r))).
    { rewrite swap_remove_last_some by exact Hne. rewrite last_app_cons, removelast_app_cons.
      rewrite (last_indep (e :: r) _ e) by discriminate. reflexivity. }
    destruct (dent e) eqn:Ed.
    + rewrite Hc. replace (S (length pre)) with (length (pre ++ [e])) by (rewrite app_length; cbn; lia).
      rewrite IH. rewrite <- app_assoc. reflexivity.
    + rewrite Hnc. destruct r as [|y r'].
      * cbn [removelast]. rewrite app_nil_r, Nat.eqb_refl.
        pose proof (IH pre []) as X. rewrite app_nil_r in X. rewrite X.
        rewrite purge_list_nil. apply app_nil_r.
      * replace (length pre =? length (pre ++ removelast (e :: y :: r')))%nat with false.
        2:{ symmetry. apply Nat.eqb_neq. rewrite app_length. cbn [removelast length]. lia. }
        change (removelast (e :: y :: r')) with (e :: removelast (y :: r')).
        rewrite list_set_app_len. rewrite IH.
        change (last (e :: y :: r') e) with (last (y :: r') e). reflexivity.
    + rewrite Hnc. destruct r as [|y r'].
      * cbn [removelast]. rewrite app_nil_r, Nat.eqb_refl.
        pose proof (IH pre []) as X. rewrite app_nil_r in X. rewrite X.
        rewrite purge_list_nil. apply app_nil_r.
      * replace (length pre =? length (pre ++ removelast (e :: y :: r')))%nat with false.
        2:{ symmetry. apply Nat.eqb_neq. rewrite app_length. cbn [removelast length]. lia. }
        change (removelast (e :: y :: r')) with (e :: removelast (y :: r')).
        rewrite list_set_app_len. rewrite IH.
        change (last (e :: y :: r') e) with (last (y :: r') e). reflexivity.
Qed.

Lemma removelast_length {A} (l : list A) : length (removelast l) = length l - 1.
Proof.
  induction l as [|x l IH]; [reflexivity|]. destruct l as [|y l]; [reflexivity|].
  change (removelast (x :: y :: l)) with (x :: removelast (y :: l)).
  cbn [length] in *. rewrite IH. lia.
Qed.

(* enough fuel: the loop runs to the end *)
Lemma purge_list_fuel : forall n l f, length l <= n -> n <= f -> purge_list f l = purge_list n l.
Proof.
  induction n as [|n IH]; intros l f Hl Hf.
  - destruct l; [|cbn [length] in Hl; lia]. rewrite !purge_list_nil. reflexivity.
  - destruct f as [|f]; [lia|]. cbn [purge_list]. destruct l as [|e r]; [reflexivity|].
    cbn [length] in Hl. destruct (is_dconst e).
    + f_equal. apply IH; lia.
    + destruct r as [|y r']; [reflexivity|]. apply IH; [|lia].
      cbn [length]. rewrite removelast_length. cbn [length] in *. lia.
Qed.

Lemma purge_list_all f l : length l <= f -> purge_list f l = purge_all l.
Proof. intros H. unfold purge_all. apply purge_list_fuel; [lia|exact H]. Qed.

Lemma purge_props : forall n l, length l <= n ->
  Forall (fun e => is_dconst e = true) (purge_list n l) /\
  Permutation (purge_list n l) (filter is_dconst l).
Proof.
  induction n as [|n IH]; intros l Hl.
  - destruct l; [|cbn [length] in Hl; lia]. split; [constructor|constructor].
  - cbn [purge_list]. destruct l as [|e r]; [split; constructor|].
    cbn [length] in Hl. cbn [filter]. destruct (is_dconst e) eqn:Ec.
    + destruct (IH r) as [A B]; [lia|]. split; [constructor; assumption|constructor; exact B].
    + destruct r as [|y r']; [split; constructor|].
      assert (Hr : y :: r' = removelast (y :: r') ++ [last (y :: r') e]).
      { apply app_removelast_last. discriminate. }
      destruct (IH (last (y :: r') e :: removelast (y :: r'))) as [A B].
      { cbn [length]. rewrite removelast_length. cbn [length] in *. lia. }
      split; [exact A|]. eapply Permutation_trans; [exact B|].
      rewrite Hr at 3. rewrite filter_app. cbn [filter].
      destruct (is_dconst (last (y :: r') e)).
      * apply Permutation_cons_append.
      * rewrite app_nil_r. reflexivity.
Qed.

Theorem purge_all_const l : Forall (fun e => is_dconst e = true) (purge_all l).
Proof. apply (proj1 (purge_props (length l) l (le_n _))). Qed.

Theorem purge_all_perm l : Permutation (purge_all l) (filter is_dconst l).
Proof. apply (proj2 (purge_props (length l) l (le_n _))). Qed.

(* nothing to remove: the suffix stays as it is *)
Lemma purge_list_consts : forall f l, Forall (fun e => is_dconst e = true) l -> purge_list f l = l.
Proof.
  induction f as [|f IH]; intros l H; [reflexivity|]. cbn [purge_list].
  destruct l as [|e r]; [reflexivity|]. inversion H as [|? ? He Hr]; subst. rewrite He.
  f_equal. apply IH. exact Hr.
Qed.

(* non-constants at the end only (the usual shape: helper words defined after the constants
   is not required; what matters is that no constant follows a non-constant) *)
Lemma purge_list_tail : forall f a b, length (a ++ b) <= f ->
  Forall (fun e => is_dconst e = true) a -> Forall (fun e => is_dconst e = false) b ->
  purge_list f (a ++ b) = a.
Proof.
  induction f as [|f IH]; intros a b Hl Ha Hb.
  - destruct a; destruct b; cbn [app length] in Hl; try lia. reflexivity.
  - cbn [purge_list]. destruct a as [|e a].
    + cbn [app] in *. destruct b as [|e r]; [reflexivity|].
      inversion Hb as [|? ? He Hr]; subst. rewrite He.
      destruct r as [|y r']; [reflexivity|].
      assert (Hr2 : y :: r' = removelast (y :: r') ++ [last (y :: r') e]).
      { apply app_removelast_last. discriminate. }
      apply (IH [] (last (y :: r') e :: removelast (y :: r'))); [| constructor |].
      * cbn [app length] in *. rewrite removelast_length. cbn [length]. lia.
      * rewrite Hr2 in Hr. apply Forall_app in Hr. destruct Hr as [R1 R2].
        inversion R2; subst. constructor; assumption.
    + cbn [app] in *. inversion Ha as [|? ? He Hr]; subst. rewrite He. f_equal.
      apply IH; [cbn [length] in Hl; lia|exact Hr|exact Hb].
Qed.

(* the whole dictionary: [di <= length d] *)
Theorem purge_dict_full d di : di <= length d ->
  purge_dict (S (length d)) d di = firstn di d ++ purge_all (skipn di d).
Proof.
  intros H. pose proof (purge_dict_spec (S (length d)) (firstn di d) (skipn di d)) as X.
  rewrite firstn_skipn, firstn_length in X. replace (Nat.min di (length d)) with di in X by lia.
  rewrite X. f_equal. apply purge_list_all. rewrite skipn_length. lia.
Qed.

(* past the end: nothing happens *)
Lemma purge_dict_past d di : length d <= di -> purge_dict (S (length d)) d di = d.
Proof.
  intros H. cbn [purge_dict]. replace (nth_error d di) with (@None dentry); [reflexivity|].
  symmetry. apply nth_error_None. exact H.
Qed.
