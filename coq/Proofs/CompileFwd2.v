(* CompileFwd2.v: the forward simulation, part 2: do ... loop, case ... endcase, and the
   induction on the evaluator's fuel that ties the constructs together. *)
From Xeh Require Import Model.Prelude Model.Bits Model.Codec Model.Cell Model.Lexer Model.Fmt
                        Model.Vm Model.Words Model.Struct
                        Proofs.VmFrame Proofs.CompileSim Proofs.CompileLayout Proofs.CompileStep
                        Proofs.CompileEval Proofs.CompileFwd.
Local Notation length := List.length.

#[local] Arguments Z.add : simpl never.
#[local] Arguments Z.sub : simpl never.
#[local] Arguments Z.mul : simpl never.
#[local] Arguments Z.ltb : simpl never.
#[local] Arguments Z.leb : simpl never.
#[local] Arguments Z.eqb : simpl never.
#[local] Arguments Z.of_nat : simpl never.
#[local] Arguments Z.to_nat : simpl never.

Section Fwd2.
  Variable fo : fops.
  Variable funs : list (nat * list stmt).
  Variable faddr : nat -> nat.
  Variable c : list opcode.
  Notation nf := (native_fn fo).
  Notation Pb := (Pb fo funs faddr c).
  Notation Ps := (Ps fo funs faddr c).
  Notation Ps_at := (Ps_at fo funs faddr c).

  Hypothesis placed : funs_placed funs faddr c.

  Ltac ok_shift := (eapply ok_endp; cycle 1).

  (* ---------- do ... loop ---------- *)
  Lemma do_loop : forall f b0 pl org bc endp,
    Pb f -> wf_b b0 ->
    code_at c (S org) (lay_block faddr b0 (S org) (BLoop endp)) ->
    nth_error c (S org + size_block b0) = Some (OLoop (- Z.of_nat (size_block b0))%Z) ->
    endp = org + size_block b0 + 2 ->
    forall k t s, mach c s -> ip s = S org -> sim t s ->
                  ok nf c s endp bc (do_iter fo funs f b0 pl k t).
  Proof.
    intros f b0 pl org bc endp HB W Cb Cl Eend.
    induction k as [|k IH]; intros t s M Hip Hsim; [exact Logic.I|].
    cbn [do_iter].
    pose proof (HB b0 (S org) (BLoop endp) t s W ltac:(intro; discriminate) Cb M Hip Hsim) as H.
    destruct (sblock fo funs f b0 t) as [t3|t3|k0 pl0 p0 t3| |]; cbn [ok] in H; auto.
    - destruct H as (s3 & R3 & M3 & I3 & S3 & K3).
      eapply ok_reach; [exact R3|exact K3|].
      rewrite <- I3 in Cl.
      eapply step_run_m; [apply par_loop_next|exact S3|exact M3|exact Cl|discriminate|intro; reflexivity|].
      intros more t4 s4 Em S4 A4 F. destruct more; cbv beta iota in F |- *.
      + destruct (cont_goto c s3 s4 t4 (jump_target (ip s3) (- Z.of_nat (size_block b0))%Z) A4 S4)
          as (s5 & E5 & M5 & I5 & S5 & K5). rewrite E5 in F.
        eapply ok_step; [exact F|exact K5|].
        rewrite jt_back in I5 by lia.
        apply IH; try assumption. lia.
      + eapply cont_run_m; [apply par_pop_loop|exact M3|exact S4|exact A4|exact F|].
        intros l t5 s5 E5 S5 A5 F5. cbv beta in F5 |- *.
        destruct (cont_next c s3 s5 t5 A5 S5) as (s6 & E6 & M6 & I6 & S6 & K6). rewrite E6 in F5.
        eapply ok_step; [exact F5|exact K6|].
        ok_shift. { apply ok_done_here; eassumption. } lia.
    - destruct H as (s3 & R3 & M3 & C3 & _ & S3 & K3). cbn [brk_op] in C3.
      eapply ok_reach; [exact R3|exact K3|].
      eapply step_run_m; [apply par_pop_loop|exact S3|exact M3|exact C3|discriminate|intro; reflexivity|].
      intros l t4 s4 Em S4 A4 F. cbv beta in F.
      destruct (cont_goto c s3 s4 t4 (jump_target (ip s3) (rel (ip s3) endp)) A4 S4)
        as (s5 & E5 & M5 & I5 & S5 & K5). rewrite E5 in F.
      eapply ok_step; [exact F|exact K5|].
      rewrite jt_rel in I5.
      ok_shift. { apply ok_done_here; eassumption. } exact I5.
  Qed.

  Lemma case_Do : forall f p b0 pl, Pb f -> Ps_at (S f) (SDo p b0 pl).
  Proof.
    intros f p b0 pl HB org bc t s W B C M Hip Hsim. rewrite sstmt_Do.
    rewrite lay_SDo in C. apply code_at_app in C. destruct C as [C0 C2].
    apply code_at_cons in C0. destruct C0 as [C0 C1].
    cbn [length] in C2. rewrite lay_block_length in C2. apply code_at_one in C2.
    rewrite size_SDo. inversion W; subst.
    eapply step_run_m; [apply par_do_init|exact Hsim|exact M|exact C0|discriminate|intro; reflexivity|].
    intros l t1 s1 Em S1 A1 F. cbv beta in F |- *.
    destruct (l_end l <=? l_start l)%Z.
    - destruct (cont_goto c s s1 t1 (jump_target (ip s) (Z.of_nat (size_block b0 + 2))) A1 S1)
        as (s2 & E2 & M2 & I2 & S2 & K2). rewrite E2 in F.
      eapply ok_step; [exact F|exact K2|].
      rewrite jt_fwd in I2.
      ok_shift. { apply ok_done_here; eassumption. } lia.
    - eapply cont_run_m; [apply par_push_loop|exact M|exact S1|exact A1|exact F|].
      intros u t2 s2 E2 S2 A2 F2. cbv beta in F2 |- *.
      destruct (cont_next c s s2 t2 A2 S2) as (s3 & E3 & M3 & I3 & S3 & K3). rewrite E3 in F2.
      eapply ok_step; [exact F2|exact K3|].
      replace (ip s + (1 + size_block b0 + 1)) with (ip s + size_block b0 + 2) by lia.
      eapply (do_loop f b0 pl (ip s) bc (ip s + size_block b0 + 2)); try assumption.
      + replace (S (ip s) + size_block b0) with (ip s + S (size_block b0)) by lia. exact C2.
      + reflexivity.
  Qed.

  (* ---------- case ... endcase ---------- *)
  Lemma case_arms_ok : forall f d bc endp,
    Pb f -> wf_b d -> brk_ok bc d ->
    forall arms o t s,
      wf_a arms -> brk_ok_a bc arms ->
      code_at c o (lay_arms faddr bc endp arms d o) ->
      endp = o + size_arms arms + size_block d ->
      mach c s -> ip s = o -> sim t s ->
      ok nf c s endp bc (case_go fo funs f d arms t).
  Proof.
    intros f d bc endp HB Wd Bd.
    induction arms as [|[[pre pof] body] r IH]; intros o t s Wa Ba C E M Hip Hsim.
    - cbn [case_go lay_arms size_arms] in *.
      ok_shift. { apply (HB d o bc t s); assumption. } lia.
    - cbn [case_go]. cbn [lay_arms] in C. cbv zeta in C.
      apply code_at_app in C. destruct C as [Cpre C]. rewrite lay_block_length in C.
      apply code_at_app in C. destruct C as [Cof Cj]. cbn [length] in Cj. rewrite lay_block_length in Cj.
      apply code_at_cons in Cof. destruct Cof as [Cof Cbody].
      apply code_at_cons in Cj. destruct Cj as [Cj Crest].
      inversion Wa; subst.
      assert (Bpre : brk_ok bc pre) by (intro E0; specialize (Ba E0); inversion Ba; assumption).
      assert (Bbody : brk_ok bc body) by (intro E0; specialize (Ba E0); inversion Ba; assumption).
      assert (Br : brk_ok_a bc r) by (intro E0; specialize (Ba E0); inversion Ba; assumption).
      pose proof (HB pre (ip s) bc t s ltac:(assumption) Bpre Cpre M eq_refl Hsim) as H.
      destruct (sblock fo funs f pre t) as [t1|t1|k0 pl0 p0 t1| |]; try exact H.
      cbn [ok] in H. destruct H as (s1 & R1 & M1 & I1 & S1 & K1).
      eapply ok_reach; [exact R1|exact K1|].
      rewrite <- I1 in Cof.
      eapply step_run_m; [apply par_m_caseof|exact S1|exact M1|exact Cof|discriminate|intro; apply exec_caseof|].
      intros eq t2 s2 Em S2 A2 F. destruct eq; cbv beta iota in F |- *.
      + eapply cont_run_m; [apply par_pop_data|exact M1|exact S2|exact A2|exact F|].
        intros v t3 s3 E3 S3 A3 F3. cbv beta in F3 |- *.
        destruct (cont_next c s1 s3 t3 A3 S3) as (s4 & E4 & M4 & I4 & S4 & K4). rewrite E4 in F3.
        eapply ok_step; [exact F3|exact K4|].
        replace (ip s + size_block pre + S (size_block body)) with (S (ip s + size_block pre) + size_block body) in Cj by lia.
        eapply ok_then_jump; [|exact Cj|apply jt_rel].
        apply (HB body (S (ip s + size_block pre)) bc t3 s4); try assumption. lia.
      + destruct (cont_goto c s1 s2 t2 (jump_target (ip s1) (Z.of_nat (2 + size_block body))) A2 S2)
          as (s3 & E3 & M3 & I3 & S3 & K3). rewrite E3 in F.
        eapply ok_step; [exact F|exact K3|].
        rewrite jt_fwd in I3.
        replace (S (ip s + size_block pre + S (size_block body)))
          with (S (S (ip s + size_block pre) + size_block body)) in Crest by lia.
        apply (IH (S (S (ip s + size_block pre) + size_block body)) t2 s3); try assumption.
        * cbn [size_arms]. lia.
        * lia.
  Qed.

  Lemma case_Case : forall f arms d, Pb f -> Ps_at (S f) (SCase arms d).
  Proof.
    intros f arms d HB org bc t s W B C M Hip Hsim. rewrite sstmt_Case.
    rewrite lay_SCase in C. inversion W; subst.
    assert (Ba : brk_ok_a bc arms) by (intro E0; specialize (B E0); inversion B; assumption).
    assert (Bd : brk_ok bc d) by (intro E0; specialize (B E0); inversion B; assumption).
    eapply case_arms_ok; try eassumption; try reflexivity.
    rewrite size_SCase. lia.
  Qed.

  (* ---------- the induction on the fuel ---------- *)
  Lemma stmt_step : forall f, Pb f -> Ps f -> Ps (S f).
  Proof.
    intros f HB HS x. destruct x.
    - apply case_Lit.
    - apply case_Prim.
    - apply case_Call; assumption.
    - apply case_Get.
    - apply case_Set.
    - apply case_LocGet.
    - apply case_LocSet.
    - apply case_If; assumption.
    - apply case_IfE; assumption.
    - apply case_Case; assumption.
    - apply case_Until; assumption.
    - apply case_Repeat; assumption.
    - apply case_While; assumption.
    - apply case_Do; assumption.
    - apply case_Break.
    - apply case_Def.
  Qed.

  Theorem fwd_all : forall f, Pb f /\ Ps f.
  Proof.
    induction f as [|f [HB HS]].
    - split.
      + intros b org bc t s _ _ _ _ _ _. exact Logic.I.
      + intros x org bc t s _ _ _ _ _ _. exact Logic.I.
    - split.
      + apply block_step; assumption.
      + apply stmt_step; assumption.
  Qed.
End Fwd2.
